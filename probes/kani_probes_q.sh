set -e
cd /tmp/probe && rm -rf jk4 && mkdir jk4 && rsync -a --exclude target --exclude .git --exclude book --exclude docker /repo/ jk4/ && cd jk4
cat >> src/output_style.rs <<'EOF'

#[cfg(kani)]
mod verif_kani {
    use super::*;
    struct Buf { d: [u8; 16], n: usize }
    impl Write for Buf {
        fn write_str(&mut self, s: &str) -> FmtResult {
            for b in s.as_bytes() { if self.n < 16 { self.d[self.n] = *b; self.n += 1; } else { return Err(std::fmt::Error); } }
            Ok(())
        }
    }
    #[kani::proof]
    #[kani::unwind(20)]
    fn q1_print_char() {
        let c: char = kani::any();
        let mut tmp = [0u8; 4];
        let s: &str = c.encode_utf8(&mut tmp);
        let mut out = Buf { d: [0; 16], n: 0 };
        let o = JsonOutputOptions { style: JsonStyle::Consise, utf8_strings: false };
        o.print_string(&mut out, s).unwrap();
        assert!(out.n >= 3 && out.d[0] == b'"' && out.d[out.n - 1] == b'"');
        if out.d[1] == b'\\' && out.d[2] == b'u' { assert!(out.n == 8); }
    }
}
EOF
cat >> src/json_parser.rs <<'EOF'

#[cfg(kani)]
mod verif_kani {
    use super::*;
    use crate::reader::from_std_in;

    #[kani::proof]
    #[kani::unwind(22)]
    fn q2_parse_19_digits() {
        let mut buf = [0u8; 20];
        let mut want: u64 = 0;
        for i in 0..19 {
            let d: u8 = kani::any();
            kani::assume(d <= 9);
            if i == 0 { kani::assume(d != 0); }
            buf[i] = b'0' + d;
            want = want * 10 + d as u64;
        }
        buf[19] = b' ';
        let mut r = from_std_in(&buf[..]);
        match r.next_json_value() {
            Ok(Some(JsonValue::Number(NumberValue::Positive(u)))) => assert!(u == want),
            _ => assert!(false),
        }
    }

    #[kani::proof]
    #[kani::unwind(8)]
    fn q3_parse_string2() {
        let a: u8 = kani::any();
        let b: u8 = kani::any();
        let buf = [b'"', a, b, b'"', b' '];
        let mut r = from_std_in(&buf[..]);
        let v = r.next_json_value();
        if a < 0x80 && b < 0x80 && a != b'"' && a != b'\\' && b != b'"' && b != b'\\' {
            match &v {
                Ok(Some(JsonValue::String(s))) => { assert!(s.len() == 2); assert!(s.as_bytes()[0] == a && s.as_bytes()[1] == b); }
                _ => assert!(false),
            }
        }
        std::mem::forget(v);
    }
}
EOF
cat >> src/json_value.rs <<'EOF'

#[cfg(kani)]
mod verif_kani {
    use super::*;
    fn num(kind: u8) -> JsonValue {
        match kind {
            0 => JsonValue::Number(NumberValue::Positive(kani::any())),
            1 => JsonValue::Number(NumberValue::Negative(kani::any())),
            _ => { let f: f64 = kani::any(); kani::assume(f.is_finite()); JsonValue::Number(NumberValue::Float(f)) }
        }
    }
    #[kani::proof]
    #[kani::unwind(4)]
    fn q4_num_order() {
        for ka in 0..3u8 { for kb in 0..3u8 { for kc in 0..3u8 {
            let a = num(ka); let b = num(kb); let c = num(kc);
            if a <= b && b <= c { assert!(a <= c); }
            assert!((a.cmp(&b)) == (b.cmp(&a)).reverse());
            std::mem::forget((a, b, c));
        }}}
    }
}
EOF
cat >> src/functions/basic/collection/take_last.rs <<'EOF'

#[cfg(kani)]
mod verif_kani {
    use super::*;
    use crate::json_value::NumberValue;
    struct S;
    impl Get for S { fn get(&self, _: &Context) -> Option<JsonValue> { Some(JsonValue::String("abc".to_string())) } }
    struct N(u64);
    impl Get for N { fn get(&self, _: &Context) -> Option<JsonValue> { Some(JsonValue::Number(NumberValue::Positive(self.0))) } }
    fn stub_random_state() -> std::hash::RandomState {
        unsafe { std::mem::transmute::<[u64; 2], std::hash::RandomState>([0, 0]) }
    }
    #[kani::proof]
    #[kani::stub(std::hash::RandomState::new, stub_random_state)]
    #[kani::unwind(6)]
    fn q5_take_last_string() {
        let n: u64 = kani::any();
        let f = super::get();
        let g = f.create(vec![Rc::new(S), Rc::new(N(n))]).ok().unwrap();
        let ctx = Context::new_empty();
        let r = g.get(&ctx);
        match &r {
            Some(JsonValue::String(s)) => {
                let want = if n >= 3 { 3 } else { n as usize };
                assert!(s.len() == want);
            }
            _ => assert!(false),
        }
        std::mem::forget((r, ctx, g, f));
    }
}
EOF
for h in q1_print_char q2_parse_19_digits q3_parse_string2 q4_num_order q5_take_last_string; do
  ( ulimit -v 12000000; /usr/bin/time -v timeout 900 env CARGO_NET_OFFLINE=true cargo kani -Z stubbing --harness $h --target-dir /tmp/probe/t_$h > /tmp/probe/$h.log 2>&1 ) &
done
wait
