import sys, time, re, collections
import z3
from mirparse import parse_mir
from mirsym import *
import srcdefs
t0 = time.time()
fns = parse_mir(open('jawk.mir').read())
enums, structs = srcdefs.load('/repo')
def find(rx):
    c = [n for n in fns if re.search(rx, n)]
    assert len(c) == 1, (rx, c)
    return c[0]
def slot(st, v, name='slot'):
    box = st.new_obj(st.fresh_name(name), 'box'); st.heap[box]['v'] = v; return RefV(box, 'v')
def deref(st, r): return st.heap[r.oid][r.key]
def mk_enum(st, ty, idx, var=None, payload=()):
    oid = st.new_obj(st.fresh_name('e'), ty); st.heap[oid]['discr'] = BV(z3.BitVecVal(idx, 64), True)
    for i, p in enumerate(payload): st.heap[oid][('f', var, i)] = p
    return ObjV(oid)
some = lambda st, v: mk_enum(st, 'Option', 1, 'Some', (v,)); none = lambda st: mk_enum(st, 'Option', 0)
ok = lambda st, v: mk_enum(st, 'Result', 0, 'Ok', (v,))
def seqobj(st, ty, items):
    oid = st.new_obj(st.fresh_name(ty), ty); st.heap[oid]['model'] = tuple(items); return ObjV(oid)
B = lambda x: z3.BitVecVal(x, 8)

# calibrated template table (from the calibration crate's MIR, see DESIGN 2.4)
T_DISPLAY1 = r'b"\xc0\x00"'
T_HEX4 = r'b"\x02\\u\xc3 \x00\x00i\x04\x00\x00"'

def utf8(c):            # c: BV32 -> list of (cond, [bytes])
    e = lambda hi, lo: z3.Extract(hi, lo, c)
    return [(z3.ULT(c, 0x80), [z3.Extract(7, 0, c)]),
            (z3.And(z3.UGE(c, 0x80), z3.ULT(c, 0x800)), [z3.Concat(z3.BitVecVal(6, 3), e(10, 6)), z3.Concat(z3.BitVecVal(2, 2), e(5, 0))]),
            (z3.And(z3.UGE(c, 0x800), z3.ULT(c, 0x10000)), [z3.Concat(z3.BitVecVal(14, 4), e(15, 12)), z3.Concat(z3.BitVecVal(2, 2), e(11, 6)), z3.Concat(z3.BitVecVal(2, 2), e(5, 0))]),
            (z3.UGE(c, 0x10000), [z3.Concat(z3.BitVecVal(30, 5), e(20, 18)), z3.Concat(z3.BitVecVal(2, 2), e(17, 12)), z3.Concat(z3.BitVecVal(2, 2), e(11, 6)), z3.Concat(z3.BitVecVal(2, 2), e(5, 0))])]
def hexdig(n4):         # 4-bit term -> ascii byte term (lower case)
    n = z3.ZeroExt(4, n4)
    return z3.If(z3.ULT(n, 10), n + ord('0'), n - 10 + ord('a'))
def lower_hex_min4(v):  # v: BV64 -> list of (cond, [bytes]) : minimal digits, zero padded to width 4
    out = []
    for nd in range(4, 17):
        lo = z3.BoolVal(True) if nd == 4 else z3.UGE(v, 1 << (4 * (nd - 1)))
        hi = z3.ULT(v, 1 << (4 * nd)) if nd < 16 else z3.BoolVal(True)
        out.append((z3.And(lo, hi), [hexdig(z3.Extract(4 * i + 3, 4 * i, v)) for i in reversed(range(nd))]))
    return out

def s_from_str(ex, st, func, args, ty):
    m = re.match(r'"(.*)"$', args[0].text); lit = bytes(m.group(1), 'utf-8').decode('unicode_escape').encode('latin-1')
    o = ObjV(st.new_obj(st.fresh_name('fmtargs'), 'Arguments')); st.heap[o.oid]['bytes'] = [B(x) for x in lit]; return [(st, o)]
def s_arg(kind):
    def h(ex, st, func, args, ty):
        v = deref(st, args[0]) if isinstance(args[0], RefV) else args[0]
        o = ObjV(st.new_obj(st.fresh_name('fmtarg'), 'Argument')); st.heap[o.oid]['arg'] = (kind, v); return [(st, o)]
    return h
def s_args_new(ex, st, func, args, ty):
    tmpl = args[0].text
    arr = deref(st, args[1]); a0 = st.heap[arr.oid][('f', None, 0)]; kind, v = st.heap[a0.oid]['arg']
    out = []
    if tmpl == T_DISPLAY1 and kind == 'display_char': cases = utf8(v.t)
    elif tmpl == T_HEX4 and kind == 'lower_hex': cases = [(c, [B(ord('\\')), B(ord('u'))] + bs) for c, bs in lower_hex_min4(v.t)]
    else: raise RuntimeError('template not in calibrated whitelist: %s %s' % (tmpl, kind))
    for c, bs in cases:
        if ex.feasible(st, c):
            s2 = st.clone(); s2.pc.append(c)
            o = ObjV(s2.new_obj(s2.fresh_name('fmtargs'), 'Arguments')); s2.heap[o.oid]['bytes'] = bs; out.append((s2, o))
    return out
def s_write_fmt(ex, st, func, args, ty):
    st.events.append(('out', st.heap[args[1].oid]['bytes'])); return [(st, ok(st, UNIT))]
def s_chars(ex, st, func, args, ty): return [(st, seqobj(st, 'Chars', st.heap[deref(st, args[0]).oid]['model'] if isinstance(args[0], RefV) else st.heap[args[0].oid]['model']))]
def s_next(ex, st, func, args, ty):
    it = deref(st, args[0]); m = st.heap[it.oid]['model']
    if not m: return [(st, none(st))]
    st.heap[it.oid]['model'] = m[1:]; return [(st, some(st, m[0]))]
def s_range_new(ex, st, func, args, ty):
    o = ObjV(st.new_obj(st.fresh_name('range'), 'RangeInclusive')); st.heap[o.oid]['lohi'] = (args[0], args[1]); return [(st, o)]
def s_contains(ex, st, func, args, ty):
    r = deref(st, args[0]); lo, hi = st.heap[r.oid]['lohi']; c = deref(st, args[1])
    return [(st, BoolV(z3.And(z3.UGE(c.t, lo.t), z3.ULE(c.t, hi.t))))]
summ = [(r'Arguments::<.*>::from_str$', s_from_str), (r'new_display::<char>$', s_arg('display_char')), (r'new_lower_hex::<u64>$', s_arg('lower_hex')),
        (r'Arguments::<.*>::new::<', s_args_new), (r'fmt::Write>::write_fmt$', s_write_fmt),
        (r'impl str>::chars$', s_chars), (r'<Chars<.*> as IntoIterator>::into_iter$', lambda ex, st, f, a, t: [(st, a[0])]), (r'<Chars<.*> as Iterator>::next$', s_next),
        (r'RangeInclusive::<char>::new$', s_range_new), (r'RangeInclusive::<char>::contains', s_contains)] + GENERIC
ex = Exec(fns, enums=enums, structs=structs, summaries=summ, max_visits=12)
F = fns[find(r'output_style::<impl at src/output_style.rs:323[^>]*>::print_string$')]
JO = structs['JsonOutputOptions']

NCH = int(sys.argv[1]) if len(sys.argv) > 1 else 1
st = State()
so = st.new_obj('self', 'JsonOutputOptions'); selfref = slot(st, ObjV(so), 'self*')
utf8flag = z3.Bool('utf8_strings'); st.heap[so][('f', None, JO.index('utf8_strings'))] = BoolV(utf8flag)
chars = [z3.BitVec(f'c{i}', 32) for i in range(NCH)]
for c in chars: st.pc.append(z3.Or(z3.ULT(c, 0xD800), z3.And(z3.UGE(c, 0xE000), z3.ULE(c, 0x10FFFF))))
sobj = seqobj(st, 'str', [BV(c) for c in chars]); sref = slot(st, sobj, 'str*')
w = slot(st, ObjV(st.new_obj('W', 'W')), 'w*')
ex.new_frame(st, F, [selfref, w, sref])
done = ex.run(st)
print('paths', len(done), collections.Counter(d.status for d in done), 'unhandled', ex.unhandled)

# ---- reference JSON string-token decoder, run symbolically under the path condition
def hexval(ex, st, b):
    """-> list of (cond, 4-bit value as BV32)"""
    z = z3.ZeroExt(24, b)
    return [(z3.And(z3.UGE(b, ord('0')), z3.ULE(b, ord('9'))), z - ord('0')),
            (z3.And(z3.UGE(b, ord('a')), z3.ULE(b, ord('f'))), z - ord('a') + 10),
            (z3.And(z3.UGE(b, ord('A')), z3.ULE(b, ord('F'))), z - ord('A') + 10)]
ESC = {ord('"'): 0x22, ord('\\'): 0x5c, ord('/'): 0x2f, ord('b'): 8, ord('f'): 12, ord('n'): 10, ord('r'): 13, ord('t'): 9}
def decode(ex, pc, bs):
    """symbolic RFC 8259 string token decoder: yields (pc', code points list | None if malformed)"""
    results = []
    def sat(pc, c):
        ex.solver.push(); [ex.solver.add(x) for x in pc]; ex.solver.add(c); r = ex.solver.check() == z3.sat; ex.solver.pop(); ex.queries += 1; return r
    def go(pc, i, cps, bytes_pending):
        # bytes_pending: raw utf8 bytes collected for validation (we compare raw bytes instead of decoding utf-8)
        if i >= len(bs): results.append((pc, None)); return
        b = bs[i]
        if i == 0:
            if sat(pc, b != ord('"')): results.append((pc + [b != ord('"')], None))
            if sat(pc, b == ord('"')): go(pc + [b == ord('"')], 1, cps, bytes_pending)
            return
        # closing quote
        c = b == ord('"')
        if sat(pc, c):
            results.append((pc + [c], cps if i == len(bs) - 1 else None))
        c = b == ord('\\')
        if sat(pc, c):
            pc2 = pc + [c]
            if i + 1 >= len(bs): results.append((pc2, None))
            else:
                e = bs[i + 1]; known = []
                for k, v in ESC.items():
                    if sat(pc2, e == k): go(pc2 + [e == k], i + 2, cps + [('cp', z3.BitVecVal(v, 32))], bytes_pending)
                    known.append(e != k)
                if sat(pc2, e == ord('u')):
                    pc3 = pc2 + [e == ord('u')]
                    if i + 6 > len(bs): results.append((pc3, None))
                    else:
                        def hx(pc, j, acc):
                            if j == 4: go(pc, i + 6, cps + [('cp', acc)], bytes_pending); return
                            hb = bs[i + 2 + j]; alts = hexval(ex, None, hb)
                            for cnd, val in alts:
                                if sat(pc, cnd): hx(pc + [cnd], j + 1, (acc << 4) | val)
                            bad = z3.And(*[z3.Not(cnd) for cnd, _ in alts])
                            if sat(pc, bad): results.append((pc + [bad], None))
                        hx(pc3, 0, z3.BitVecVal(0, 32))
                known.append(e != ord('u'))
                if sat(pc2, z3.And(*known)): results.append((pc2 + [z3.And(*known)], None))
        c = z3.And(b != ord('"'), b != ord('\\'))
        if sat(pc, c):
            ctl = z3.ULT(b, 0x20)
            if sat(pc + [c], ctl): results.append((pc + [c, ctl], None))      # raw control char: malformed
            if sat(pc + [c], z3.Not(ctl)): go(pc + [c, z3.Not(ctl)], i + 1, cps + [('raw', b)], bytes_pending)
    go(list(pc), 0, [], [])
    return results

viol = collections.Counter(); checks = 0
for d in done:
    if d.status != 'returned': continue
    out = [b for e in d.events if e[0] == 'out' for b in e[1]]
    for pc2, cps in decode(ex, d.pc, out):
        checks += 1
        # expected: the code points c0..c(n-1); raw bytes must be the utf-8 of the char they belong to
        if cps is None:
            ex.solver.push(); [ex.solver.add(x) for x in pc2]; r = ex.solver.check(); m = ex.solver.model() if r == z3.sat else None; ex.solver.pop()
            if r == z3.sat:
                viol['malformed'] += 1
                if viol['malformed'] <= 2: print('VIOLATION malformed token; chars', [hex(m.eval(c, True).as_long()) for c in chars], 'utf8', m.eval(utf8flag, True), 'out', bytes(m.eval(b, True).as_long() for b in out))
            continue
        # rebuild decoded code point sequence: group raw bytes by utf-8 lead/continuation
        decoded = []; i = 0; okk = True
        conds = []
        # compare: concatenated utf8 encoding of decoded cps == expected utf8 of chars (both as byte lists under pc2)
        # escape cps are BMP code points -> encode symbolically by cases would fork; instead assert they equal chars directly when counts match
        exp_bytes_cases = None
        n_cp = sum(1 for k, _ in cps if k == 'cp')
        raw = [v for k, v in cps if k == 'raw']
        prop = None
        if n_cp == len(cps) and len(cps) == len(chars):
            prop = z3.And(*[v == c for (k, v), c in zip(cps, chars)])
        elif n_cp == 0:
            # all raw: must equal utf-8 of chars for some length split; single-char case only in this probe
            alts = []
            if len(chars) == 1:
                for cnd, bs_ in utf8(chars[0]):
                    if len(bs_) == len(raw): alts.append(z3.And(cnd, *[x == y for x, y in zip(raw, bs_)]))
            prop = z3.Or(*alts) if alts else z3.BoolVal(False)
        else:
            prop = z3.BoolVal(False)
        ex.solver.push(); [ex.solver.add(x) for x in pc2]; ex.solver.add(z3.Not(prop)); r = ex.solver.check(); m = ex.solver.model() if r == z3.sat else None; ex.solver.pop(); ex.queries += 1
        if r == z3.sat:
            viol['wrong value'] += 1
            if viol['wrong value'] <= 3: print('VIOLATION decodes to a different string; chars', [hex(m.eval(c, True).as_long()) for c in chars], 'utf8', m.eval(utf8flag, True), 'out', bytes(m.eval(b, True).as_long() for b in out))
print('checks', checks, 'violations', dict(viol), 'queries', ex.queries, 'time', round(time.time() - t0, 1))
