import sys, time, re
import z3
from mirparse import parse_mir
from mirsym import *
import srcdefs

t0 = time.time()
fns = parse_mir(open('jawk.mir').read())
enums, structs = srcdefs.load('/repo')

def find(rx):
    c = [n for n in fns if re.search(rx, n)]
    assert len(c) == 1, (rx, c)
    return c[0]

K = 2   # max values before EOF

def origin_of(st, v):
    if isinstance(v, RefV):
        v = st.heap[v.oid].get(v.key)
    if isinstance(v, ObjV):
        return st.meta[v.oid][0]
    return str(v)

def s_where(ex, st, func, args, ty):
    v = ex.fresh_value(st, ty, st.fresh_name('loc'))
    st.events.append(('where',))
    return [(st, v)]

def s_parse(ex, st, func, args, ty):
    n = sum(1 for e in st.events if e[0] == 'parse')
    v = ex.fresh_value(st, ty, f'parse{n}')
    d = ex.discr(st, v)
    st.pc.append(z3.Or(d.t == 0, d.t == 1))
    opt = ex.load(st, v.oid, ('f', 'Ok', 0), 'Option<JsonValue>')
    od = ex.discr(st, opt)
    st.pc.append(z3.Or(od.t == 0, od.t == 1))
    err = ex.load(st, v.oid, ('f', 'Err', 0), 'JsonParserError')
    ed = ex.discr(st, err)
    st.pc.append(z3.And(ed.t >= 0, ed.t < len(enums['JsonParserError'])))
    jv = ex.load(st, opt.oid, ('f', 'Some', 0), 'JsonValue')
    jd = ex.discr(st, jv)
    st.pc.append(z3.And(jd.t >= 0, jd.t < 6))
    if n >= K:
        st.pc.append(z3.And(d.t == 0, od.t == 0))       # EOF at the latest after K reads (bound)
    st.events.append(('parse', n, v))
    return [(st, v)]

def s_newctx(ex, st, func, args, ty):
    v = ex.fresh_value(st, ty, st.fresh_name('ctx'))
    st.events.append(('new_ctx', args[3], args[4]))       # in_file_index, index
    return [(st, v)]

def s_process(ex, st, func, args, ty):
    n = sum(1 for e in st.events if e[0] == 'process')
    v = ex.fresh_value(st, ty, f'proc{n}')
    d = ex.discr(st, v); st.pc.append(z3.Or(d.t == 0, d.t == 1))
    pd = ex.load(st, v.oid, ('f', 'Ok', 0), 'ProcessDesision')
    dd = ex.discr(st, pd); st.pc.append(z3.Or(dd.t == 0, dd.t == 1))
    st.events.append(('process', n, v))
    return [(st, v)]

def s_into(ex, st, func, args, ty):
    oid = st.new_obj(st.fresh_name('mainerr'), ty)
    st.heap[oid][('f', None, 0)] = args[0]
    return [(st, ObjV(oid))]

def s_borrow_mut(ex, st, func, args, ty):
    cell = args[0]
    oid = st.new_obj('refmut:' + origin_of(st, cell), ty)
    return [(st, ObjV(oid))]

def s_args_new(ex, st, func, args, ty):
    oid = st.new_obj(st.fresh_name('fmtargs'), ty)
    st.heap[oid]['template'] = args[0]
    return [(st, ObjV(oid))]

def s_write_fmt(ex, st, func, args, ty):
    w = origin_of(st, args[0])
    tmpl = st.heap[args[1].oid].get('template')
    n = sum(1 for e in st.events if e[0] == 'write')
    v = ex.fresh_value(st, ty, f'write{n}')
    d = ex.discr(st, v); st.pc.append(z3.Or(d.t == 0, d.t == 1))
    st.events.append(('write', w, tmpl.text if isinstance(tmpl, Const) else str(tmpl), v))
    return [(st, v)]

summ = GENERIC + [
    (r'where_am_i$', s_where),
    (r'JsonParser>::next_json_value$', s_parse),
    (r'Context::new_with_input$', s_newctx),
    (r'<dyn Process as Process>::process$', s_process),
    (r'as Into<MainError>>::into$', s_into),
    (r'RefCell::<.*>::borrow_mut$', s_borrow_mut),
    (r'fmt::Arguments::<.*>::new::<', s_args_new),
    (r'as std::io::Write>::write_fmt$', s_write_fmt),
]
ex = Exec(fns, enums=enums, structs=structs, summaries=summ,
          inline=[(r'JsonParserError::can_recover$', find(r'json_parser::<impl at .*>::can_recover$'))], max_visits=2 * K + 6)

fn = fns[find(r'::read_input$')]
st = State()
def mkref(st, name, ty):
    box = st.new_obj(name + '*box', 'box'); o = st.new_obj(name, ty); st.heap[box]['v'] = ObjV(o); return RefV(box, 'v'), o
selfref, so = mkref(st, 'self', 'Master')
rdref, _ = mkref(st, 'reader', 'Reader')
ibox = st.new_obj('index*box', 'box'); st.heap[ibox]['v'] = BV(z3.BitVec('index0', 64)); iref = RefV(ibox, 'v')
pref, _ = mkref(st, 'process', 'dyn Process')
st.pc.append(z3.ULT(z3.BitVec('index0', 64), z3.BitVecVal(2**64 - 1 - K, 64)))
# on_error discr range
CLI = structs['Cli']; MASTER = structs['Master']
cli = ex.load(st, so, ('f', None, MASTER.index('cli')), 'Cli')
oe = ex.load(st, cli.oid, ('f', None, CLI.index('on_error')), 'OnError')
oed = ex.discr(st, oe); st.pc.append(z3.And(oed.t >= 0, oed.t < 4))
ex.new_frame(st, fn, [selfref, rdref, iref, pref])
done = ex.run(st)
print('paths', len(done), 'queries', ex.queries, 'time', round(time.time() - t0, 2))
import collections
print(collections.Counter(d.status for d in done))

STDOUT = f'self.{MASTER.index("stdout")}'; STDERR = f'self.{MASTER.index("stderr")}'
IGN, PAN, SERR, SOUT = [enums['OnError'].index(x) for x in ('Ignore', 'Panic', 'Stderr', 'Stdout')]
viol = collections.Counter(); checked = collections.Counter()
def check(d, name, prop):
    checked[name] += 1
    ok, m = ex.valid(d, prop)
    if not ok:
        viol[name] += 1
        if viol[name] <= 1: print('VIOLATION', name, m)

for d in done:
    if d.status not in ('returned',):
        if d.status != 'infeasible': print('status', d.status, d.notes)
        continue
    retd = ex.discr(d, d.ret).t
    evs = d.events
    pol = oed.t
    for i, e in enumerate(evs):
        later = evs[i + 1:]
        if e[0] == 'process':
            v = e[2]; rd = d.heap[v.oid]['discr'].t; pd = d.heap[d.heap[v.oid][('f', 'Ok', 0)].oid]['discr'].t
            brk = z3.And(rd == 0, pd == 1)
            more = any(x[0] in ('parse', 'process') for x in later)
            # C14: after Ok(Break) nothing more is read or processed, and run returns Ok
            check(d, 'C14.break_stops_reading', z3.Implies(brk, z3.And(z3.BoolVal(not more), retd == 0)))
            # C16: Err from process is propagated
            check(d, 'C16.process_err_propagates', z3.Implies(rd == 1, z3.And(z3.BoolVal(not more), retd == 1)))
        if e[0] == 'parse':
            v = e[2]; rd = d.heap[v.oid]['discr'].t
            ed = d.heap[d.heap[v.oid][('f', 'Err', 0)].oid]['discr'].t
            io = z3.And(rd == 1, ed == enums['JsonParserError'].index('IoError'))
            rec = z3.And(rd == 1, ed != enums['JsonParserError'].index('IoError'))
            nxt = later[0] if later else None
            wrote = [x for x in later if x[0] == 'write']
            # writes caused by this error = write events before the next parse
            upto = []
            for x in later:
                if x[0] == 'parse': break
                upto.append(x)
            w = [x for x in upto if x[0] == 'write']
            more = any(x[0] in ('parse', 'process') for x in later)
            check(d, 'C16.io_error_fatal', z3.Implies(io, z3.And(retd == 1, z3.BoolVal(not more and not w))))
            check(d, 'C06.ignore_silent', z3.Implies(z3.And(rec, pol == IGN), z3.BoolVal(not w)))
            check(d, 'C06.panic_fails', z3.Implies(z3.And(rec, pol == PAN), z3.And(retd == 1, z3.BoolVal(not more and not w))))
            okw = lambda stream: len(w) == 1 and w[0][1].endswith(stream) and 'error:' in w[0][2]
            check(d, 'C06.stdout_reports', z3.Implies(z3.And(rec, pol == SOUT), z3.BoolVal(len(w) == 1 and STDOUT in w[0][1] and 'error:' in w[0][2]) if w else z3.BoolVal(False)))
            check(d, 'C06.stderr_reports', z3.Implies(z3.And(rec, pol == SERR), z3.BoolVal(len(w) == 1 and STDERR in w[0][1] and 'error:' in w[0][2]) if w else z3.BoolVal(False)))
            check(d, 'C06.clean_no_report', z3.Implies(rd == 0, z3.BoolVal(not w)))
    # C17 counters: the j-th new_ctx carries index0 + #Continue so far
    cont = z3.BitVecVal(0, 64)
    procs = [e for e in evs if e[0] == 'process']; ctxs = [e for e in evs if e[0] == 'new_ctx']
    for j, c in enumerate(ctxs):
        check(d, 'C17.index', z3.And(c[2].t == z3.BitVec('index0', 64) + cont, c[1].t == cont))
        if j < len(procs):
            v = procs[j][2]; rd = d.heap[v.oid]['discr'].t; pd = d.heap[d.heap[v.oid][('f', 'Ok', 0)].oid]['discr'].t
            cont = cont + z3.If(z3.And(rd == 0, pd == 0), z3.BitVecVal(1, 64), z3.BitVecVal(0, 64))
print('checked', dict(checked)); print('violations', dict(viol))
print('total time', round(time.time() - t0, 2), 'queries', ex.queries)
