"""probe: (take <array of k> N) and (take <string of k ascii bytes> N) on Engine M; N free u64"""
import sys, time, re, collections
import z3
from mirparse import parse_mir
from mirsym import *
import srcdefs
t0 = time.time()
fns = parse_mir(open('jawk.mir').read())
enums, structs = srcdefs.load('/repo')
def find(rx):
    c = [n for n in fns if re.search(rx, n)]
    assert len(c) == 1, (rx, c)
    return c[0]
def slot(st, v, name='slot'):
    box = st.new_obj(st.fresh_name(name), 'box'); st.heap[box]['v'] = v; return RefV(box, 'v')
def deref(st, r): return st.heap[r.oid][r.key]
def obj(st, v): return deref(st, v) if isinstance(v, RefV) else v
def named(st, name, ty='opaque'): return ObjV(st.new_obj(name, ty))
def seqobj(st, ty, items): 
    oid = st.new_obj(st.fresh_name(ty), ty); st.heap[oid]['model'] = tuple(items); return ObjV(oid)
def mk_enum(st, ty, idx, var=None, payload=()):
    oid = st.new_obj(st.fresh_name('e'), ty); st.heap[oid]['discr'] = BV(z3.BitVecVal(idx, 64), True)
    for i, p in enumerate(payload): st.heap[oid][('f', var, i)] = p
    return ObjV(oid)
some = lambda st, v: mk_enum(st, 'Option', 1, 'Some', (v,)); none = lambda st: mk_enum(st, 'Option', 0)
ok = lambda st, v: mk_enum(st, 'Result', 0, 'Ok', (v,)); err = lambda st, v: mk_enum(st, 'Result', 1, 'Err', (v,))
N = z3.BitVec('N', 64)
ARG0 = {}
def s_apply(ex, st, func, args, ty):
    idx = z3.simplify(args[2].t).as_long()
    if idx == 1:
        nv = mk_enum(st, 'NumberValue', enums['NumberValue'].index('Positive'), 'Positive', (BV(N),))
        return [(st, some(st, mk_enum(st, 'JsonValue', 3, 'Number', (nv,))))]
    return [(st, some(st, ARG0['mk'](st)))]
def s_try_into(ex, st, func, args, ty):
    nv = args[0]; return [(st, ok(st, ex.load(st, nv.oid, ('f', 'Positive', 0), 'u64')))]     # Positive(u64) -> usize on 64-bit: always Ok
def s_len(ex, st, func, args, ty): return [(st, BV(z3.BitVecVal(len(st.heap[obj(st, args[0]).oid]['model']), 64)))]
def s_with_capacity(ex, st, func, args, ty): return [(st, seqobj(st, 'Vec', ()))]
def s_into_iter(ex, st, func, args, ty): return [(st, seqobj(st, 'IntoIter', st.heap[args[0].oid]['model']))]
def s_next(ex, st, func, args, ty):
    it = obj(st, args[0]); m = st.heap[it.oid]['model']
    if not m: return [(st, none(st))]
    st.heap[it.oid]['model'] = m[1:]; return [(st, some(st, m[0]))]
def s_push(ex, st, func, args, ty):
    v = obj(st, args[0]); st.heap[v.oid]['model'] = st.heap[v.oid]['model'] + (args[1],); return [(st, UNIT)]
def s_vec_into(ex, st, func, args, ty): return [(st, mk_enum(st, 'JsonValue', 5, 'Array', (args[0],)))]
def s_str_into(ex, st, func, args, ty): return [(st, mk_enum(st, 'JsonValue', 2, 'String', (obj(st, args[0]),)))]
def s_index_to(ex, st, func, args, ty):
    s = obj(st, args[0]); m = st.heap[s.oid]['model']; end = ex.load(st, args[1].oid, ('f', None, 0), 'usize').t
    out = []
    inb = z3.ULE(end, len(m))
    if ex.feasible(st, z3.Not(inb)):
        s2 = st.clone(); s2.pc.append(z3.Not(inb)); s2.status = 'panic'; s2.notes.append('slice end out of range'); PANICS.append(s2)
    for k in range(len(m) + 1):         # ascii only in this probe, so every offset is a char boundary
        c = end == k
        if ex.feasible(st, c):
            s2 = st.clone(); s2.pc.append(c); out.append((s2, slot(s2, seqobj(s2, 'str', m[:k]))))
    return out
PANICS = []
def s_str_to_string(ex, st, func, args, ty): return [(st, obj(st, args[0]))]
summ = [(r'Arguments>::apply$', s_apply), (r'<NumberValue as TryInto<usize>>::try_into$', s_try_into),
        (r'Vec::<JsonValue>::len$|String::len$', s_len), (r'Vec::<JsonValue>::with_capacity$', s_with_capacity),
        (r'<Vec<JsonValue> as IntoIterator>::into_iter$', s_into_iter), (r'IntoIter<JsonValue> as Iterator>::next$', s_next),
        (r'Vec::<JsonValue>::push$', s_push), (r'<Vec<JsonValue> as Into<JsonValue>>::into$', s_vec_into),
        (r'<std::string::String as Into<JsonValue>>::into$', s_str_into), (r'as Index<RangeTo<usize>>>::index$', s_index_to),
        (r'<&str as Into<std::string::String>>::into$', s_str_to_string)] + GENERIC
structs['RangeTo'] = ['end']
ex = Exec(fns, enums=enums, structs=structs, summaries=summ, max_visits=12)
F = fns[find(r'^take::get::\{closure#0\}::<impl at [^>]*>::get$')]
for kind in ('array', 'string'):
    for k in (0, 1, 2, 3):
        if kind == 'array':
            ARG0['mk'] = lambda st, k=k: mk_enum(st, 'JsonValue', 5, 'Array', (seqobj(st, 'Vec', [named(st, f'E{i}', 'JsonValue') for i in range(k)]),))
        else:
            ARG0['mk'] = lambda st, k=k: mk_enum(st, 'JsonValue', 2, 'String', (seqobj(st, 'String', [BV(z3.BitVecVal(97 + i, 8)) for i in range(k)]),))
        st = State(); selfref = slot(st, named(st, 'self', 'Impl'), 'self*'); ctx = slot(st, named(st, 'ctx', 'Context'), 'ctx*')
        PANICS.clear(); ex.new_frame(st, F, [selfref, ctx]); done = ex.run(st) + list(PANICS)
        viol = 0; sample = None
        for d in done:
            if d.status == 'panic':
                viol += 1; sample = sample or ('panic', d.notes); continue
            if d.status != 'returned': continue
            r = d.ret; jv = d.heap[r.oid].get(('f', 'Some', 0))
            payload = d.heap[jv.oid][('f', 'Array' if kind == 'array' else 'String', 0)]
            got = len(d.heap[payload.oid]['model'])
            want = z3.If(z3.UGT(N, k), z3.BitVecVal(k, 64), N)
            ok_, m = ex.valid(d, want == got)
            if not ok_:
                viol += 1; sample = sample or ('N=%d gives %d elements of %d' % (m.eval(N, True).as_long(), got, k))
        print(f'take {kind:6s} of {k}: paths {len(done):2d} violations {viol}', sample or '')
print('time', round(time.time() - t0, 1), 'queries', ex.queries, 'unhandled', ex.unhandled)
