import sys, time, re
import z3
from mirparse import parse_mir
from mirsym import *

t0 = time.time()
fns = parse_mir(open('jawk.mir').read())
print('parsed', len(fns), 'fns in', round(time.time() - t0, 2), 's')

def find(rx):
    c = [n for n in fns if re.search(rx, n)]
    assert len(c) == 1, (rx, c)
    return fns[c[0]]

def dyn_process(ex, st, func, args, dest_ty):
    recv = args[0]
    target = ex.load(st, recv.oid, recv.key, 'opaque')
    origin = st.meta[target.oid][0] if isinstance(target, ObjV) else str(target)
    ctx = args[1] if len(args) > 1 else None
    ret = ex.fresh_value(st, dest_ty, st.fresh_name('next.' + func.split('::')[-1]))
    meth = func.split('::')[-1]
    st.events.append(('next', meth, origin, st.meta[ctx.oid][0] if isinstance(ctx, ObjV) else None, ret))
    # Result discr in {0,1}; Ok payload ProcessDesision discr in {0,1}
    d = ex.discr(st, ret)
    st.pc.append(z3.Or(d.t == 0, d.t == 1))
    if meth == 'process':
        pd = ex.load(st, ret.oid, ('f', 'Ok', 0), 'processor::ProcessDesision')
        dd = ex.discr(st, pd)
        st.pc.append(z3.Or(dd.t == 0, dd.t == 1))
    return [(st, ret)]

enums = {'ProcessDesision': ['Continue', 'Break']}
ex = Exec(fns, enums=enums, summaries=GENERIC + [(r'<dyn Process as Process>::(process|complete|start)$', dyn_process)])

def mk_self(st, ty, name='self'):
    box = st.new_obj(name + '*box', 'box')
    obj = st.new_obj(name, ty)
    st.heap[box]['v'] = ObjV(obj)
    return RefV(box, 'v'), obj

# ---- Limiter::process
fn = find(r'limits::<impl at src/limits.rs:31.*>::process$')
st = State()
selfref, so = mk_self(st, 'Limiter')
ctx = ObjV(st.new_obj('ctx', 'Context'))
ex.new_frame(st, fn, [selfref, ctx])
# pre-state fields (by MIR field index): 0 skip, 1 limit, 2 skipped, 3 passed, 4 next
skip = z3.BitVec('self.0', 64); skipped = z3.BitVec('self.2', 64); passed = z3.BitVec('self.3', 64)
st.pc += [z3.ULE(skipped, skip)]
done = ex.run(st)
print('paths', len(done), 'queries', ex.queries)
for d in done:
    ev = [(e[0], e[1], e[2]) for e in d.events if e[0] == 'next']
    print(d.status, d.notes, ev, 'ret discr', d.heap[d.ret.oid].get('discr') if d.status == 'returned' else None)

# property: Break forwarding: if a next.process event returned Ok(Break) then our return is Ok(Break)
viol = 0
for d in done:
    if d.status != 'returned': continue
    for e in d.events:
        if e[0] == 'next' and e[1] == 'process':
            r = e[4]
            rd = d.heap[r.oid]['discr'].t
            pd = d.heap[d.heap[r.oid][('f', 'Ok', 0)].oid]['discr'].t
            my = d.ret
            myd = ex.discr(d, my).t
            mypd = ex.discr(d, ex.load(d, my.oid, ('f', 'Ok', 0), 'processor::ProcessDesision')).t
            prop = z3.Implies(z3.And(rd == 0, pd == 1), z3.And(myd == 0, mypd == 1))
            ok, m = ex.valid(d, prop)
            print('break-forwarding on path:', ok, '' if ok else m)
# ---- Limiter::complete forwards
fn = find(r'limits::<impl at src/limits.rs:31.*>::complete$')
st = State(); selfref, so = mk_self(st, 'Limiter'); ex.new_frame(st, fn, [selfref])
done = ex.run(st)
for d in done:
    print('complete:', d.status, [(e[1], e[2]) for e in d.events if e[0] == 'next'])
print('total time', round(time.time() - t0, 2))
