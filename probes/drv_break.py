import sys, time, re, collections
import z3
from mirparse import parse_mir
from mirsym import *
import srcdefs
t0 = time.time()
fns = parse_mir(open('jawk.mir').read())
enums, structs = srcdefs.load('/repo')
def find(rx):
    c = [n for n in fns if re.search(rx, n)]
    assert len(c) == 1, (rx, c)
    return c[0]
def slot(st, v, name='slot'):
    box = st.new_obj(st.fresh_name(name), 'box'); st.heap[box]['v'] = v; return RefV(box, 'v')
def deref(st, r): return st.heap[r.oid][r.key]
def mk_enum(st, ty, idx, var=None, payload=()):
    oid = st.new_obj(st.fresh_name('e'), ty); st.heap[oid]['discr'] = BV(z3.BitVecVal(idx, 64), True)
    for i, p in enumerate(payload): st.heap[oid][('f', var, i)] = p
    return ObjV(oid)
some = lambda st, v: mk_enum(st, 'Option', 1, 'Some', (v,)); none = lambda st: mk_enum(st, 'Option', 0)
def seqobj(st, ty, items):
    oid = st.new_obj(st.fresh_name(ty), ty); st.heap[oid]['model'] = tuple(items); return ObjV(oid)

def s_get(ex, st, func, args, ty):
    """getter result: absent | Boolean(true) | Boolean(false)/other scalar | Array of k<=2"""
    out = []
    for shape in ('none', 'true', 'other', 'arr0', 'arr1', 'arr2'):
        s2 = st.clone(); s2.events.append(('get', shape))
        if shape == 'none': out.append((s2, none(s2))); continue
        if shape == 'true': v = mk_enum(s2, 'JsonValue', 1, 'Boolean', (BoolV(z3.BoolVal(True)),))
        elif shape == 'other': v = mk_enum(s2, 'JsonValue', 0)
        else:
            n = int(shape[3:]); v = mk_enum(s2, 'JsonValue', 5, 'Array', (seqobj(s2, 'Vec', [ObjV(s2.new_obj(f'elem{i}', 'JsonValue')) for i in range(n)]),))
        out.append((s2, some(s2, v)))
    return out
def s_opt_eq(ex, st, func, args, ty):
    a, b = deref(st, args[0]), deref(st, args[1])
    da, db = ex.discr(st, a).t, ex.discr(st, b).t
    both = z3.And(da == 1, db == 1)
    va = ex.load(st, a.oid, ('f', 'Some', 0), 'JsonValue'); vb = ex.load(st, b.oid, ('f', 'Some', 0), 'JsonValue')
    dva, dvb = ex.discr(st, va).t, ex.discr(st, vb).t
    ba = ex.load(st, va.oid, ('f', 'Boolean', 0), 'bool').t; bb = ex.load(st, vb.oid, ('f', 'Boolean', 0), 'bool').t
    same = z3.And(dva == dvb, z3.Implies(dva == 1, ba == bb), dva <= 1)      # only Null/Boolean compared structurally here
    return [(st, BoolV(z3.And(da == db, z3.Implies(both, same))))]
def s_next(ex, st, func, args, ty):
    meth = func.split('::')[-1]; n = sum(1 for e in st.events if e[0] == 'next')
    v = ex.fresh_value(st, ty, f'next{n}')
    d = ex.discr(st, v); st.pc.append(z3.Or(d.t == 0, d.t == 1))
    if meth == 'process':
        pd = ex.load(st, v.oid, ('f', 'Ok', 0), 'ProcessDesision'); dd = ex.discr(st, pd); st.pc.append(z3.Or(dd.t == 0, dd.t == 1))
    st.events.append(('next', meth, v)); return [(st, v)]
def s_derive(name):
    def h(ex, st, func, args, ty):
        o = ObjV(st.new_obj(st.fresh_name(name), 'Context')); st.events.append((name,)); return [(st, o)]
    return h
def s_into_iter(ex, st, func, args, ty):
    v = args[0]; return [(st, seqobj(st, 'IntoIter', st.heap[v.oid]['model']))]
def s_iter_next(ex, st, func, args, ty):
    it = deref(st, args[0]); m = st.heap[it.oid]['model']
    if not m: return [(st, none(st))]
    st.heap[it.oid]['model'] = m[1:]; return [(st, some(st, m[0]))]
def s_hs_insert(ex, st, func, args, ty):
    out = []
    for new in (True, False):
        s2 = st.clone(); s2.events.append(('insert', new)); out.append((s2, BoolV(z3.BoolVal(new))))
    return out
summ = [(r'<dyn Get as Get>::get$', s_get), (r'<Option<JsonValue> as PartialEq>::eq$', s_opt_eq),
        (r'<dyn Process as Process>::(process|complete|start)$', s_next),
        (r'Context::with_result$', s_derive('with_result')), (r'Context::with_inupt$', s_derive('with_inupt')),
        (r'Context::with_variables$', s_derive('with_variables')), (r'Context::with_definitions$', s_derive('with_definitions')),
        (r'Context::key$', s_derive('key')), (r'HashSet::<.*>::insert$', s_hs_insert),
        (r'<Vec<JsonValue> as IntoIterator>::into_iter$', s_into_iter), (r'<std::vec::IntoIter<JsonValue> as Iterator>::next$', s_iter_next)] + GENERIC
ex = Exec(fns, enums=enums, structs=structs, summaries=summ, max_visits=10)
STAGES = {'Selection': r'selection::<impl at src/selection.rs:104[^>]*>::process$', 'Splitter': r'splitter::<impl at src/splitter.rs:47[^>]*>::process$',
          'Filter': r'filter::<impl at src/filter.rs:47[^>]*>::process$', 'Uniquness': r'duplication_remover::<impl at [^>]*>::process$',
          'PreSet': r'pre_sets::<impl at src/pre_sets.rs:120[^>]*>::process$'}
for name, rx in STAGES.items():
    F = fns[find(rx)]
    st = State(); so = st.new_obj('self', name); selfref = slot(st, ObjV(so), 'self*')
    ctx = ObjV(st.new_obj('ctx', 'Context'))
    ex.new_frame(st, F, [selfref, ctx]); done = ex.run(st)
    checks = viol = wit = 0; sample = None
    for d in done:
        if d.status != 'returned': continue
        nexts = [e for e in d.events if e[0] == 'next' and e[1] == 'process']
        myd = ex.discr(d, d.ret).t; mypd = ex.discr(d, ex.load(d, d.ret.oid, ('f', 'Ok', 0), 'ProcessDesision')).t
        for i, e in enumerate(nexts):
            v = e[2]; rd = d.heap[v.oid]['discr'].t; pd = d.heap[d.heap[v.oid][('f', 'Ok', 0)].oid]['discr'].t
            brk = z3.And(rd == 0, pd == 1)
            if ex.feasible(d, brk): wit += 1
            prop = z3.Implies(brk, z3.And(myd == 0, mypd == 1, z3.BoolVal(i == len(nexts) - 1)))
            checks += 1; ok_, m = ex.valid(d, prop)
            if not ok_:
                viol += 1; sample = sample or ([x[:2] for x in d.events if x[0] in ('get', 'next', 'insert')])
    print(f'{name:10s} paths {len(done):3d} break-forwarding checks {checks:3d} witnesses {wit:3d} violations {viol:3d}', sample or '')
print('time', round(time.time() - t0, 1), 'queries', ex.queries, 'unhandled', ex.unhandled)
