use clap::Parser;
use std::cell::RefCell;
use std::io::Read;
use std::rc::Rc;
use std::sync::atomic::{AtomicUsize, Ordering};
use std::sync::Arc;

struct Src { data: Vec<u8>, pos: usize, fail_at: Option<usize>, pulled: Arc<AtomicUsize> }
impl Read for Src {
    fn read(&mut self, buf: &mut [u8]) -> std::io::Result<usize> {
        if Some(self.pos) == self.fail_at { return Err(std::io::Error::new(std::io::ErrorKind::Other, "injected")); }
        if self.pos >= self.data.len() || buf.is_empty() { return Ok(0); }
        buf[0] = self.data[self.pos]; self.pos += 1; self.pulled.fetch_add(1, Ordering::SeqCst); Ok(1)
    }
}
fn main() {
    let args: Vec<String> = std::env::args().collect();
    let fail_at: Option<usize> = std::env::var("FAIL_READ_AT").ok().and_then(|s| s.parse().ok());
    let mut input = Vec::new(); std::io::stdin().read_to_end(&mut input).unwrap();
    let cli = jawk::Cli::parse_from(args);
    let out = Rc::new(RefCell::new(Vec::<u8>::new())); let err = Rc::new(RefCell::new(Vec::<u8>::new()));
    let pulled = Arc::new(AtomicUsize::new(0)); let p2 = pulled.clone();
    let r = jawk::go(cli, out.clone(), err.clone(), Box::new(move || Src { data: input.clone(), pos: 0, fail_at, pulled: p2.clone() }));
    println!("result={:?} pulled={} stdout={:?} stderr={:?}", r.map_err(|e| e.to_string()), pulled.load(Ordering::SeqCst),
        String::from_utf8_lossy(&out.borrow()), String::from_utf8_lossy(&err.borrow()));
}
