import sys, time, re, collections
import z3
from mirparse import parse_mir
from mirsym import *
import srcdefs

t0 = time.time()
fns = parse_mir(open('jawk.mir').read())
enums, structs = srcdefs.load('/repo')
def find(rx):
    c = [n for n in fns if re.search(rx, n)]
    assert len(c) == 1, (rx, c)
    return c[0]

def slot(st, v, name='slot'):
    box = st.new_obj(st.fresh_name(name), 'box'); st.heap[box]['v'] = v; return RefV(box, 'v')
def deref(st, r): return st.heap[r.oid][r.key]
def opt(st, ex, some, ty='Option'):
    oid = st.new_obj(st.fresh_name('opt'), ty)
    if some is None:
        st.heap[oid]['discr'] = BV(z3.BitVecVal(0, 64), True)
    else:
        st.heap[oid]['discr'] = BV(z3.BitVecVal(1, 64), True); st.heap[oid][('f', 'Some', 0)] = some
    return ObjV(oid)
def rank_of(st, key):            # abstract total order on keys: one Int per key origin
    return z3.Int('rank:' + st.meta[key.oid][0])

def s_get(ex, st, func, args, ty):
    ctx = deref(st, args[1]); name = st.meta[ctx.oid][0]
    out = []
    for present in (True, False):
        s2 = st.clone()
        if present:
            key = ObjV(s2.new_obj('key:' + name, 'JsonValue'))
            s2.events.append(('key', name, 'some')); out.append((s2, opt(s2, ex, key)))
        else:
            s2.events.append(('key', name, 'none')); out.append((s2, opt(s2, ex, None)))
    return out

def s_entry(ex, st, func, args, ty):
    m = deref(st, args[0]); key = args[1]; r = rank_of(st, key)
    ents = st.heap[m.oid].get('model', ())
    out = []
    for i in range(len(ents) + 1):            # vacant at position i
        lo = ents[i - 1][0] < r if i > 0 else z3.BoolVal(True)
        hi = r < ents[i][0] if i < len(ents) else z3.BoolVal(True)
        c = z3.And(lo, hi)
        if ex.feasible(st, c):
            s2 = st.clone(); s2.pc.append(c)
            e = s2.new_obj(s2.fresh_name('entry'), 'Entry'); s2.heap[e]['model'] = ('vacant', m.oid, i, r, key); out.append((s2, ObjV(e)))
    for i in range(len(ents)):
        c = r == ents[i][0]
        if ex.feasible(st, c):
            s2 = st.clone(); s2.pc.append(c)
            e = s2.new_obj(s2.fresh_name('entry'), 'Entry'); s2.heap[e]['model'] = ('occupied', m.oid, i); out.append((s2, ObjV(e)))
    return out

def s_or_default(ex, st, func, args, ty):
    e = st.heap[args[0].oid]['model']
    mo = e[1]; ents = list(st.heap[mo].get('model', ()))
    if e[0] == 'vacant':
        dq = st.new_obj(st.fresh_name('deque'), 'VecDeque'); st.heap[dq]['model'] = ()
        ents.insert(e[2], (e[3], e[4], dq)); st.heap[mo]['model'] = tuple(ents)
    else:
        dq = ents[e[2]][2]
    return [(st, slot(st, ObjV(dq)))]

def dq_of(st, ref): return deref(st, ref).oid
def s_push_front(ex, st, func, args, ty):
    d = dq_of(st, args[0]); st.heap[d]['model'] = (args[1],) + st.heap[d]['model']; return [(st, UNIT)]
def s_push_back(ex, st, func, args, ty):
    d = dq_of(st, args[0]); st.heap[d]['model'] = st.heap[d]['model'] + (args[1],); return [(st, UNIT)]
def s_pop_back(ex, st, func, args, ty):
    d = dq_of(st, args[0]); m = st.heap[d]['model']
    if not m: return [(st, opt(st, ex, None))]
    st.heap[d]['model'] = m[:-1]; return [(st, opt(st, ex, m[-1]))]
def s_pop_front(ex, st, func, args, ty):
    d = dq_of(st, args[0]); m = st.heap[d]['model']
    if not m: return [(st, opt(st, ex, None))]
    st.heap[d]['model'] = m[1:]; return [(st, opt(st, ex, m[0]))]
def s_is_empty(ex, st, func, args, ty):
    d = dq_of(st, args[0]); return [(st, BoolV(z3.BoolVal(len(st.heap[d]['model']) == 0)))]
def s_last_entry(ex, st, func, args, ty, first=False):
    m = deref(st, args[0]); ents = st.heap[m.oid].get('model', ())
    if not ents: return [(st, opt(st, ex, None))]
    e = st.new_obj(st.fresh_name('occ'), 'OccupiedEntry'); st.heap[e]['model'] = ('occupied', m.oid, 0 if first else len(ents) - 1)
    return [(st, opt(st, ex, ObjV(e)))]
def s_first_entry(ex, st, func, args, ty): return s_last_entry(ex, st, func, args, ty, True)
def s_occ_get_mut(ex, st, func, args, ty):
    r = args[0]; e = deref(st, r) if isinstance(r, RefV) else r
    _, mo, i = st.heap[e.oid]['model']
    return [(st, slot(st, ObjV(st.heap[mo]['model'][i][2])))]
def s_occ_remove(ex, st, func, args, ty):
    e = args[0]; _, mo, i = st.heap[e.oid]['model']
    ents = list(st.heap[mo]['model']); dq = ents.pop(i)[2]; st.heap[mo]['model'] = tuple(ents)
    return [(st, ObjV(dq))]
def s_values_mut(ex, st, func, args, ty):
    m = deref(st, args[0]); ents = st.heap[m.oid].get('model', ())
    it = st.new_obj(st.fresh_name('iter'), 'Iter'); st.heap[it]['model'] = tuple(e[2] for e in ents)
    return [(st, ObjV(it))]
def s_rev(ex, st, func, args, ty):
    it = args[0]; st.heap[it.oid]['model'] = tuple(reversed(st.heap[it.oid]['model'])); return [(st, it)]
def s_into_iter(ex, st, func, args, ty): return [(st, args[0])]
def s_iter_next(ex, st, func, args, ty):
    it = deref(st, args[0]); m = st.heap[it.oid]['model']
    if not m: return [(st, opt(st, ex, None))]
    st.heap[it.oid]['model'] = m[1:]
    return [(st, opt(st, ex, slot(st, ObjV(m[0]))))]
def s_clear(ex, st, func, args, ty):
    m = deref(st, args[0]); st.heap[m.oid]['model'] = (); return [(st, UNIT)]
def s_next(ex, st, func, args, ty):
    meth = func.split('::')[-1]
    v = ex.fresh_value(st, ty, st.fresh_name('next.' + meth))
    d = ex.discr(st, v); st.pc.append(d.t == 0)            # downstream succeeds (error propagation is checked elsewhere)
    if meth == 'process':
        pd = ex.load(st, v.oid, ('f', 'Ok', 0), 'ProcessDesision'); dd = ex.discr(st, pd); st.pc.append(z3.Or(dd.t == 0, dd.t == 1))
        st.events.append(('emit', st.meta[args[1].oid][0]))
    else:
        st.events.append(('next.' + meth,))
    return [(st, v)]

summ = GENERIC + [
    (r'<dyn Get as Get>::get$', s_get),
    (r'BTreeMap::<.*>::entry$', s_entry), (r'Entry::<.*>::or_default$', s_or_default),
    (r'VecDeque::<.*>::push_front$', s_push_front), (r'VecDeque::<.*>::push_back$', s_push_back),
    (r'VecDeque::<.*>::pop_back$', s_pop_back), (r'VecDeque::<.*>::pop_front$', s_pop_front),
    (r'VecDeque::<.*>::is_empty$', s_is_empty),
    (r'BTreeMap::<.*>::last_entry$', s_last_entry), (r'BTreeMap::<.*>::first_entry$', s_first_entry),
    (r'OccupiedEntry::<.*>::get_mut$', s_occ_get_mut), (r'OccupiedEntry::<.*>::remove$', s_occ_remove),
    (r'BTreeMap::<.*>::values_mut$', s_values_mut), (r'as Iterator>::rev$', s_rev), (r'as IntoIterator>::into_iter$', s_into_iter),
    (r'as Iterator>::next$', s_iter_next), (r'BTreeMap::<.*>::clear$', s_clear),
    (r'<dyn Process as Process>::(process|complete|start)$', s_next),
]
ex = Exec(fns, enums=enums, structs=structs, summaries=summ,
          inline=[(r'SortProcess::remove_last_item$', find(r'sorters::<impl at .*>::remove_last_item$'))], max_visits=40)
F_PROC = fns[find(r'sorters::<impl at src/sorters.rs:96.*>::process$')]
F_COMP = fns[find(r'sorters::<impl at src/sorters.rs:96.*>::complete$')]
SP = structs['SortProcess']

def scenario(k, direction, cap):
    st = State()
    so = st.new_obj('self', 'SortProcess'); selfref = slot(st, ObjV(so), 'self*')
    mp = st.new_obj('self.data', 'BTreeMap'); st.heap[mp]['model'] = ()
    st.heap[so][('f', None, SP.index('data'))] = ObjV(mp)
    dobj = st.new_obj('dir', 'Direction'); st.heap[dobj]['discr'] = BV(z3.BitVecVal(direction, 64), True)
    st.heap[so][('f', None, SP.index('direction'))] = ObjV(dobj)
    sl = st.new_obj('space_left', 'Option<usize>')
    if cap is None:
        st.heap[sl]['discr'] = BV(z3.BitVecVal(0, 64), True)
    else:
        st.heap[sl]['discr'] = BV(z3.BitVecVal(1, 64), True); st.heap[sl][('f', 'Some', 0)] = BV(z3.BitVecVal(cap, 64), False)
    st.heap[so][('f', None, SP.index('space_left'))] = ObjV(sl)
    states = [st]
    for i in range(k):
        nxt = []
        for s in states:
            ctx = ObjV(s.new_obj(f'row{i}', 'Context'))
            s.status = 'running'; ex.new_frame(s, F_PROC, [selfref, ctx]); nxt += [d for d in ex.run(s) if d.status == 'returned']
        states = nxt
    fin = []
    for s in states:
        s.status = 'running'; ex.new_frame(s, F_COMP, [selfref]); fin += ex.run(s)
    return fin

viol = 0; paths = 0; checks = 0
for k in (1, 2, 3):
  for direction in (0, 1):
    for cap in (None, 0, 1, 2):
        fin = scenario(k, direction, cap)
        for d in fin:
            if d.status == 'infeasible': continue
            paths += 1
            assert d.status == 'returned', (d.status, d.notes)
            keyed = [e[1] for e in d.events if e[0] == 'key' and e[2] == 'some']
            emitted = [e[1] for e in d.events if e[0] == 'emit']
            completes = sum(1 for e in d.events if e == ('next.complete',))
            arr = {n: int(n[3:]) for n in keyed}
            rk = lambda n: z3.Int('rank:key:' + n)
            def before(a, b):     # a strictly precedes b in the documented order
                if direction == 0: return z3.Or(rk(a) < rk(b), z3.And(rk(a) == rk(b), z3.BoolVal(arr[a] < arr[b])))
                return z3.Or(rk(a) > rk(b), z3.And(rk(a) == rk(b), z3.BoolVal(arr[a] < arr[b])))
            want_n = len(keyed) if cap is None else min(cap, len(keyed))
            conj = [z3.BoolVal(len(emitted) == want_n), z3.BoolVal(len(set(emitted)) == len(emitted)), z3.BoolVal(set(emitted) <= set(keyed)),
                    z3.BoolVal(completes == 1)]
            for a, b in zip(emitted, emitted[1:]): conj.append(before(a, b))
            for x in keyed:
                if x not in emitted:
                    for y in emitted: conj.append(before(y, x))
            checks += 1
            ok, m = ex.valid(d, z3.And(*conj))
            if not ok:
                viol += 1
                if viol <= 3:
                    print('VIOLATION k=%d dir=%s cap=%s keyed=%s emitted=%s model=%s' % (k, 'Asc' if direction == 0 else 'Desc', cap, keyed, emitted, m))
print('paths', paths, 'checks', checks, 'violations', viol, 'queries', ex.queries, 'time', round(time.time() - t0, 2))
