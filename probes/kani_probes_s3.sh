set -e
cd /tmp/probe && rm -rf jk8 && mkdir jk8 && rsync -a --exclude target --exclude .git --exclude book --exclude docker /repo/ jk8/ && cd jk8
cat >> src/functions/basic/collection/take.rs <<'EOF'

#[cfg(kani)]
mod verif_kani {
    use super::*;
    use crate::json_value::NumberValue;
    struct ANone; impl Get for ANone { fn get(&self, _: &Context) -> Option<JsonValue> { None } }
    struct ANum; impl Get for ANum { fn get(&self, _: &Context) -> Option<JsonValue> { Some(JsonValue::Number(NumberValue::Positive(7))) } }
    struct AStr; impl Get for AStr { fn get(&self, _: &Context) -> Option<JsonValue> { let mut s = String::with_capacity(4); s.push('a'); s.push('b'); Some(JsonValue::String(s)) } }
    struct AArr; impl Get for AArr { fn get(&self, _: &Context) -> Option<JsonValue> { let mut v = Vec::with_capacity(3); v.push(JsonValue::Null); v.push(JsonValue::Boolean(false)); v.push(JsonValue::Null); Some(JsonValue::Array(v)) } }
    struct NPos(u64); impl Get for NPos { fn get(&self, _: &Context) -> Option<JsonValue> { Some(JsonValue::Number(NumberValue::Positive(self.0))) } }
    struct NBool; impl Get for NBool { fn get(&self, _: &Context) -> Option<JsonValue> { Some(JsonValue::Boolean(true)) } }
    fn stub_random_state() -> std::hash::RandomState { unsafe { std::mem::transmute::<[u64; 2], std::hash::RandomState>([0, 0]) } }
    macro_rules! run { ($a:expr, $n:expr) => {{
        let f = super::get();
        let g = f.create(vec![Rc::new($a), Rc::new($n)]).ok().unwrap();
        let ctx = Context::new_empty();
        let r = g.get(&ctx);
        std::mem::forget((ctx, g, f));
        r
    }}}
    #[kani::proof]
    #[kani::stub(std::hash::RandomState::new, stub_random_state)]
    #[kani::unwind(6)]
    fn s3_take_types() {
        let n: u64 = kani::any();
        let r = run!(ANone, NPos(n)); assert!(r.is_none()); std::mem::forget(r);
        let r = run!(ANum, NPos(n)); assert!(r.is_none()); std::mem::forget(r);
        let r = run!(AStr, NBool); assert!(r.is_none()); std::mem::forget(r);
        let r = run!(AArr, NBool); assert!(r.is_none()); std::mem::forget(r);
        let r = run!(AStr, NPos(n));
        match &r { Some(JsonValue::String(s)) => assert!(s.len() as u64 == if n > 2 { 2 } else { n }), _ => assert!(false) }
        std::mem::forget(r);
        let r = run!(AArr, NPos(n));
        match &r { Some(JsonValue::Array(v)) => assert!(v.len() as u64 == if n > 3 { 3 } else { n }), _ => assert!(false) }
        std::mem::forget(r);
    }
}
EOF
( ulimit -v 16000000; /usr/bin/time -v timeout 900 env CARGO_NET_OFFLINE=true cargo kani -Z stubbing --harness s3_take_types --target-dir /tmp/probe/t_s3 > /tmp/probe/s3_take_types.log 2>&1 ) || true
rm -rf /tmp/probe/t_s3
