import sys, time, re, collections
import z3
from mirparse import parse_mir
from mirsym import *
import srcdefs
t0 = time.time()
fns = parse_mir(open('jawk.mir').read())
enums, structs = srcdefs.load('/repo')
def find(rx):
    c = [n for n in fns if re.search(rx, n)]
    assert len(c) == 1, (rx, c)
    return c[0]
def slot(st, v, name='slot'):
    box = st.new_obj(st.fresh_name(name), 'box'); st.heap[box]['v'] = v; return RefV(box, 'v')
def deref(st, r): return st.heap[r.oid][r.key]
def named(st, name, ty='opaque'): return ObjV(st.new_obj(name, ty))
def seqobj(st, ty, items, origin=None):
    oid = st.new_obj(origin or st.fresh_name(ty), ty); st.heap[oid]['model'] = tuple(items); return ObjV(oid)
def mk_enum(st, ty, idx, var=None, payload=()):
    oid = st.new_obj(st.fresh_name('e'), ty); st.heap[oid]['discr'] = BV(z3.BitVecVal(idx, 64), True)
    for i, p in enumerate(payload): st.heap[oid][('f', var, i)] = p
    return ObjV(oid)
some = lambda st, v: mk_enum(st, 'Option', 1, 'Some', (v,)); none = lambda st: mk_enum(st, 'Option', 0)
def obj(st, v): return deref(st, v) if isinstance(v, RefV) else v
def s_clone(ex, st, func, args, ty): return [(st, ex.copy_val(st, obj(st, args[0])))]
def s_new(ex, st, func, args, ty): return [(st, seqobj(st, 'Seq', ()))]
def s_push(ex, st, func, args, ty):
    v = obj(st, args[0]); st.heap[v.oid]['model'] = st.heap[v.oid]['model'] + (args[1],); return [(st, UNIT)]
def s_len(ex, st, func, args, ty): return [(st, BV(z3.BitVecVal(len(st.heap[obj(st, args[0]).oid]['model']), 64)))]
def s_iter(ex, st, func, args, ty): return [(st, seqobj(st, 'Iter', [slot(st, x) for x in st.heap[obj(st, args[0]).oid]['model']]))]
def s_next(ex, st, func, args, ty):
    it = obj(st, args[0]); m = st.heap[it.oid]['model']
    if not m: return [(st, none(st))]
    st.heap[it.oid]['model'] = m[1:]; return [(st, some(st, m[0]))]
def s_rc_new(ex, st, func, args, ty): return [(st, args[0])]
def s_rc_deref(ex, st, func, args, ty): return [(st, args[0])]
def s_map_iter(ex, st, func, args, ty):       # HashMap iteration yields (&k,&v) pairs
    items = []
    for k, v in st.heap[obj(st, args[0]).oid]['model']:
        t = ObjV(st.new_obj(st.fresh_name('kv'), 'tuple')); st.heap[t.oid][('f', None, 0)] = slot(st, k); st.heap[t.oid][('f', None, 1)] = slot(st, v); items.append(t)
    return [(st, seqobj(st, 'Iter', items))]
def s_map_next(ex, st, func, args, ty):
    it = obj(st, args[0]); m = st.heap[it.oid]['model']
    if not m: return [(st, none(st))]
    st.heap[it.oid]['model'] = m[1:]; return [(st, some(st, m[0]))]
def s_map_insert(ex, st, func, args, ty):
    mp = obj(st, args[0]); k = args[1]; v = args[2]
    name = st.meta[k.oid][0]
    items = [(kk, vv) for kk, vv in st.heap[mp.oid]['model'] if st.meta[kk.oid][0] != name] + [(k, v)]   # names are concrete tags in this probe
    st.heap[mp.oid]['model'] = tuple(items); return [(st, none(st))]
summ = [(r'as Clone>::clone$', s_clone), (r'Vec::<.*>::new$|HashMap::<.*>::with_capacity$|Vec::<.*>::with_capacity$', s_new),
        (r'Vec::<.*>::push$', s_push), (r'Vec::<.*>::len$|HashMap::<.*>::len$', s_len),
        (r'<&Vec<.*> as IntoIterator>::into_iter$', s_iter), (r'<std::slice::Iter<.*> as Iterator>::next$', s_next),
        (r'Rc::<.*>::new$', s_rc_new), (r'<Rc<.*> as Deref>::deref$', s_rc_deref),
        (r'<&HashMap<.*> as IntoIterator>::into_iter$', s_map_iter), (r'hash_map::Iter<.*> as Iterator>::next$', s_map_next),
        (r'HashMap::<.*>::insert$', s_map_insert)] + GENERIC
CT = structs['Context']
PR = r'processor::<impl at src/processor.rs:79[^>]*>::'
ex = Exec(fns, enums=enums, structs=structs, summaries=summ, inline=[(r'Context::input$', find(PR + 'input$'))], max_visits=12)

def mkctx(st, n_par, n_res, n_var):
    c = st.new_obj('ctx', 'Context')
    st.heap[c][('f', None, CT.index('input'))] = named(st, 'INPUT', 'Rc<JsonValue>')
    st.heap[c][('f', None, CT.index('parent_inputs'))] = seqobj(st, 'Vec', [named(st, f'PARENT{i}') for i in range(n_par)])
    st.heap[c][('f', None, CT.index('results'))] = seqobj(st, 'Vec', [named(st, f'RESULT{i}') for i in range(n_res)])
    st.heap[c][('f', None, CT.index('variables'))] = seqobj(st, 'Map', [(named(st, f'var{i}'), named(st, f'VAL{i}')) for i in range(n_var)])
    st.heap[c][('f', None, CT.index('definitions'))] = seqobj(st, 'Map', [])
    return c
def tags(st, v):
    m = st.heap[v.oid]['model']
    return [tuple(st.meta[x.oid][0] for x in e) if isinstance(e, tuple) else st.meta[e.oid][0] for e in m]
def fld(st, c, name): return st.heap[c][('f', None, CT.index(name))]

CASES = {
 'with_result': lambda st, cref: [cref, slot(st, named(st, 'TITLE')), none(st)],
 'with_variable': lambda st, cref: [cref, named(st, 'var0', 'String'), named(st, 'NEWVAL')],
 'with_variables': lambda st, cref: [cref, slot(st, seqobj(st, 'Map', []))],
 'with_definition': lambda st, cref: [cref, named(st, 'def0', 'String'), slot(st, named(st, 'GETTER'))],
 'with_definitions': lambda st, cref: [cref, slot(st, seqobj(st, 'Map', []))],
 'with_inupt': lambda st, cref: [cref, named(st, 'NEWINPUT', 'JsonValue')],
}
for meth, mkargs in CASES.items():
    F = fns[find(PR + meth + '$')]
    bad = []; n = 0
    for n_par in (0, 1, 2):
        for n_res in (0, 1):
            for n_var in (0, 1, 2):
                st = State(); c = mkctx(st, n_par, n_res, n_var); cref = slot(st, ObjV(c), 'ctx*')
                ex.new_frame(st, F, mkargs(st, cref))
                for d in ex.run(st):
                    assert d.status == 'returned', (meth, d.status, d.notes)
                    n += 1; r = d.ret.oid
                    pre_par = tags(d, fld(d, c, 'parent_inputs')); post_par = tags(d, fld(d, r, 'parent_inputs'))
                    post_in = d.meta[fld(d, r, 'input').oid][0]
                    if meth == 'with_inupt':
                        ok_ = post_par == ['INPUT'] + pre_par and post_in == 'NEWINPUT' and tags(d, fld(d, r, 'results')) == []
                    else:
                        ok_ = post_par == pre_par and post_in == 'INPUT'
                    if meth == 'with_variable':
                        pv = dict(tags(d, fld(d, r, 'variables'))); pre = dict(tags(d, fld(d, c, 'variables'))); pre['var0'] = 'NEWVAL'
                        ok_ = ok_ and pv == pre
                    if not ok_: bad.append((n_par, post_par))
    print(f'{meth:17s} scenarios {n:3d} violations {len(bad):3d}', bad[:2])
print('time', round(time.time() - t0, 1), 'unhandled', ex.unhandled)
