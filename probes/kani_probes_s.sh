set -e
cd /tmp/probe && rm -rf jk7 && mkdir jk7 && rsync -a --exclude target --exclude .git --exclude book --exclude docker /repo/ jk7/ && cd jk7
cat >> src/reader.rs <<'EOF'

#[cfg(kani)]
mod verif_kani {
    use super::*;
    #[kani::proof]
    #[kani::unwind(40)]
    fn s1_from_string_truncate() {
        let c: char = kani::any();
        let mut s = String::with_capacity(40);
        for _ in 0..31 { s.push('a'); }
        s.push(c);
        s.push('b');
        let r = from_string(&s);
        std::mem::forget(r);
    }
}
EOF
cat >> src/functions/basic/collection/take.rs <<'EOF'

#[cfg(kani)]
mod verif_kani {
    use super::*;
    use crate::json_value::NumberValue;
    struct A(u8);
    impl Get for A {
        fn get(&self, _: &Context) -> Option<JsonValue> {
            match self.0 {
                0 => None,
                1 => Some(JsonValue::Null),
                2 => Some(JsonValue::Boolean(true)),
                3 => Some(JsonValue::Number(NumberValue::Positive(7))),
                4 => { let mut s = String::with_capacity(4); s.push('a'); s.push('b'); Some(JsonValue::String(s)) }
                _ => { let mut v = Vec::with_capacity(3); v.push(JsonValue::Null); v.push(JsonValue::Boolean(false)); v.push(JsonValue::Null); Some(JsonValue::Array(v)) }
            }
        }
    }
    struct N(u8, u64, i64);
    impl Get for N {
        fn get(&self, _: &Context) -> Option<JsonValue> {
            match self.0 {
                0 => None,
                1 => Some(JsonValue::Number(NumberValue::Positive(self.1))),
                2 => Some(JsonValue::Number(NumberValue::Negative(self.2))),
                3 => Some(JsonValue::Boolean(false)),
                _ => Some(JsonValue::Null),
            }
        }
    }
    fn stub_random_state() -> std::hash::RandomState { unsafe { std::mem::transmute::<[u64; 2], std::hash::RandomState>([0, 0]) } }
    #[kani::proof]
    #[kani::stub(std::hash::RandomState::new, stub_random_state)]
    #[kani::unwind(6)]
    fn s2_take_shapes() {
        let n: u64 = kani::any(); let i: i64 = kani::any();
        let f = super::get();
        let ctx = Context::new_empty();
        for a in 0..6u8 { for k in 0..5u8 {
            let g = f.create(vec![Rc::new(A(a)), Rc::new(N(k, n, i))]).ok().unwrap();
            let r = g.get(&ctx);
            if k != 1 || a < 4 { assert!(r.is_none()); }
            else if a == 4 {
                match &r { Some(JsonValue::String(s)) => assert!(s.len() as u64 == if n > 2 { 2 } else { n }), _ => assert!(false) }
            } else {
                match &r { Some(JsonValue::Array(v)) => assert!(v.len() as u64 == if n > 3 { 3 } else { n }), _ => assert!(false) }
            }
            std::mem::forget((r, g));
        }}
        std::mem::forget((ctx, f));
    }
}
EOF
for h in s1_from_string_truncate s2_take_shapes; do
  ( ulimit -v 16000000; /usr/bin/time -v timeout 900 env CARGO_NET_OFFLINE=true cargo kani -Z stubbing --harness $h --target-dir /tmp/probe/t_$h > /tmp/probe/$h.log 2>&1 ) &
done
wait
rm -rf /tmp/probe/t_s1_from_string_truncate /tmp/probe/t_s2_take_shapes
