set -e
cd /tmp/probe && rm -rf jk6 && mkdir jk6 && rsync -a --exclude target --exclude .git --exclude book --exclude docker /repo/ jk6/ && cd jk6
cat >> src/functions/string/head.rs <<'EOF'

#[cfg(kani)]
mod verif_kani {
    use super::*;
    use crate::json_value::NumberValue;
    struct S(char);
    impl Get for S { fn get(&self, _: &Context) -> Option<JsonValue> { let mut s = String::with_capacity(8); s.push('a'); s.push(self.0); Some(JsonValue::String(s)) } }
    struct N(u64);
    impl Get for N { fn get(&self, _: &Context) -> Option<JsonValue> { Some(JsonValue::Number(NumberValue::Positive(self.0))) } }
    fn stub_random_state() -> std::hash::RandomState { unsafe { std::mem::transmute::<[u64; 2], std::hash::RandomState>([0, 0]) } }
    #[kani::proof]
    #[kani::stub(std::hash::RandomState::new, stub_random_state)]
    #[kani::unwind(7)]
    fn r1_head_char() {
        let c: char = kani::any();
        let n: u64 = kani::any();
        let f = super::get();
        let g = f.create(vec![Rc::new(S(c)), Rc::new(N(n))]).ok().unwrap();
        let ctx = Context::new_empty();
        let r = g.get(&ctx);
        std::mem::forget((r, ctx, g, f));
    }
}
EOF
cat >> src/functions/number/add.rs <<'EOF'

#[cfg(kani)]
mod verif_kani {
    use super::*;
    use crate::json_value::NumberValue;
    struct F(f64);
    impl Get for F { fn get(&self, _: &Context) -> Option<JsonValue> { Some(JsonValue::Number(NumberValue::Float(self.0))) } }
    fn stub_random_state() -> std::hash::RandomState { unsafe { std::mem::transmute::<[u64; 2], std::hash::RandomState>([0, 0]) } }
    #[kani::proof]
    #[kani::stub(std::hash::RandomState::new, stub_random_state)]
    #[kani::unwind(4)]
    fn r2_add_finite() {
        let a: f64 = kani::any(); let b: f64 = kani::any();
        kani::assume(a.is_finite() && b.is_finite());
        let f = super::get();
        let g = f.create(vec![Rc::new(F(a)), Rc::new(F(b))]).ok().unwrap();
        let ctx = Context::new_empty();
        let r = g.get(&ctx);
        match &r {
            Some(JsonValue::Number(NumberValue::Float(x))) => assert!(x.is_finite()),
            Some(JsonValue::Number(_)) => {}
            _ => assert!(false),
        }
        std::mem::forget((r, ctx, g, f));
    }
}
EOF
cat >> src/json_value.rs <<'EOF'

#[cfg(kani)]
mod verif_kani {
    use super::*;
    fn num_nf(kind: u8) -> NumberValue {
        match kind {
            0 => { let u: u64 = kani::any(); kani::assume(u < (1u64 << 53)); NumberValue::Positive(u) }
            1 => { let i: i64 = kani::any(); kani::assume(i < 0 && i > -(1i64 << 53)); NumberValue::Negative(i) }
            _ => { let f: f64 = kani::any(); kani::assume(f.is_finite() && f.fract() != 0.0); NumberValue::Float(f) }
        }
    }
    struct Tr { buf: [u64; 4], n: usize }
    impl std::hash::Hasher for Tr {
        fn finish(&self) -> u64 { 0 }
        fn write(&mut self, bytes: &[u8]) { for b in bytes { self.write_u8(*b); } }
        fn write_u8(&mut self, i: u8) { if self.n < 4 { self.buf[self.n] = i as u64 | 0x100; self.n += 1; } }
        fn write_i8(&mut self, i: i8) { if self.n < 4 { self.buf[self.n] = (i as u8) as u64 | 0x200; self.n += 1; } }
        fn write_u64(&mut self, i: u64) { if self.n < 4 { self.buf[self.n] = i; self.n += 1; } }
        fn write_i64(&mut self, i: i64) { if self.n < 4 { self.buf[self.n] = i as u64; self.n += 1; } }
    }
    #[kani::proof]
    #[kani::unwind(6)]
    fn r3_hash_eq_nf() {
        for ka in 0..3u8 { for kb in 0..3u8 {
            let a = JsonValue::Number(num_nf(ka)); let b = JsonValue::Number(num_nf(kb));
            let mut ha = Tr { buf: [0; 4], n: 0 }; let mut hb = Tr { buf: [0; 4], n: 0 };
            a.hash(&mut ha); b.hash(&mut hb);
            if a == b { assert!(ha.n == hb.n && ha.buf[0] == hb.buf[0] && ha.buf[1] == hb.buf[1]); }
            assert!((a == b) == (a.cmp(&b) == Ordering::Equal));
            std::mem::forget((a, b));
        }}
    }
}
EOF
for h in r1_head_char r2_add_finite r3_hash_eq_nf; do
  ( ulimit -v 16000000; /usr/bin/time -v timeout 900 env CARGO_NET_OFFLINE=true cargo kani -Z stubbing --harness $h --target-dir /tmp/probe/t_$h > /tmp/probe/$h.log 2>&1 ) &
done
wait
rm -rf /tmp/probe/t_r1_head_char /tmp/probe/t_r2_add_finite /tmp/probe/t_r3_hash_eq_nf
