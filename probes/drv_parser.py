import sys, time, re, collections
import z3
from mirparse import parse_mir
from mirsym import *
import srcdefs

N = int(sys.argv[1]) if len(sys.argv) > 1 else 3
SINGLE = len(sys.argv) > 2 and sys.argv[2] == 'single'
t0 = time.time()
fns = parse_mir(open('jawk.mir').read())
enums, structs = srcdefs.load('/repo')
structs['Range'] = ['start', 'end']
enums['IntErrorKind'] = ['Empty', 'InvalidDigit', 'PosOverflow', 'NegOverflow', 'Zero']
def find(rx):
    c = [n for n in fns if re.search(rx, n)]
    assert len(c) == 1, (rx, c)
    return c[0]

INPUT = [z3.BitVec(f'b{i}', 8) for i in range(N)]
bv8 = lambda x: z3.BitVecVal(x, 8)
def slot(st, v, name='slot'):
    box = st.new_obj(st.fresh_name(name), 'box'); st.heap[box]['v'] = v; return RefV(box, 'v')
def deref(st, r): return st.heap[r.oid][r.key]
def mk_enum(st, ty, idx, var=None, payload=()):
    oid = st.new_obj(st.fresh_name('e'), ty); st.heap[oid]['discr'] = BV(z3.BitVecVal(idx, 64), True)
    for i, p in enumerate(payload): st.heap[oid][('f', var, i)] = p
    return ObjV(oid)
def some(st, v): return mk_enum(st, 'Option', 1, 'Some', (v,))
def none(st): return mk_enum(st, 'Option', 0)
def ok(st, v): return mk_enum(st, 'Result', 0, 'Ok', (v,))
def err(st, v): return mk_enum(st, 'Result', 1, 'Err', (v,))
def seqobj(st, ty, items):
    oid = st.new_obj(st.fresh_name(ty), ty); st.heap[oid]['model'] = tuple(items); return ObjV(oid)
def model(st, v):
    if isinstance(v, RefV): v = deref(st, v)
    return st.heap[v.oid]['model']

def s_bytes_next(ex, st, func, args, ty):
    b = deref(st, args[0]); pos = st.heap[b.oid].get('pos', 0)
    if pos >= N: return [(st, none(st))]
    st.heap[b.oid]['pos'] = pos + 1
    st.events.append(('read', pos))
    return [(st, some(st, ok(st, BV(INPUT[pos]))))]
def s_clone(ex, st, func, args, ty): return [(st, ex.copy_val(st, deref(st, args[0])))]
def s_opt_u8_eq(ex, st, func, args, ty):
    a, b = deref(st, args[0]), deref(st, args[1])
    da, db = ex.discr(st, a).t, ex.discr(st, b).t
    pa = ex.load(st, a.oid, ('f', 'Some', 0), 'u8').t; pb = ex.load(st, b.oid, ('f', 'Some', 0), 'u8').t
    return [(st, BoolV(z3.And(da == db, z3.Implies(da == 1, pa == pb))))]
def s_vec_new(ex, st, func, args, ty): return [(st, seqobj(st, 'Vec', ()))]
def s_vec_push(ex, st, func, args, ty):
    v = deref(st, args[0]); st.heap[v.oid]['model'] = st.heap[v.oid]['model'] + (args[1],); return [(st, UNIT)]
def s_from_utf8(ex, st, func, args, ty):
    m = model(st, args[0])
    ascii_ = z3.And(*[z3.ULT(b.t, 0x80) for b in m]) if m else z3.BoolVal(True)
    out = []
    if ex.feasible(st, ascii_):
        s2 = st.clone(); s2.pc.append(ascii_); out.append((s2, ok(s2, seqobj(s2, 'String', m))))
    if ex.feasible(st, z3.Not(ascii_)):     # prototype: non-ASCII -> either outcome
        for good in (True, False):
            s2 = st.clone(); s2.pc.append(z3.Not(ascii_)); s2.notes.append('utf8?')
            out.append((s2, ok(s2, seqobj(s2, 'String', m)) if good else err(s2, ObjV(s2.new_obj(s2.fresh_name('utf8err'), 'FromUtf8Error')))))
    return out
def s_string_deref(ex, st, func, args, ty): return [(st, args[0])]      # &String -> &str, same model
def s_parse_int(ex, st, func, args, ty):
    m = model(st, args[0]); signed = func.endswith('<i64>')
    st.events.append(('parse_int', signed, m))
    digs = m; neg = False
    out = []
    # prototype: Ok(value) | Err(kind) decided by exact decimal value where all bytes are digits
    body = digs
    isneg = None
    if body and signed:
        pass
    val = z3.IntVal(0)
    lead_minus = z3.BoolVal(False)
    start = 0
    # jawk only calls with '-'? digits* ; model exactly that, otherwise InvalidDigit
    if body:
        lead_minus = body[0].t == ord('-')
    def num(ds):
        v = z3.IntVal(0)
        for d in ds: v = v * 10 + z3.BV2Int(d.t - ord('0'))
        return v
    alld = lambda ds: z3.And(*[z3.And(z3.UGE(d.t, ord('0')), z3.ULE(d.t, ord('9'))) for d in ds]) if ds else z3.BoolVal(True)
    cases = []
    if not body:
        cases.append((z3.BoolVal(True), 'Empty', None))
    else:
        pos_v = num(body); neg_v = -num(body[1:])
        lo, hi = (-(2**63), 2**63 - 1) if signed else (0, 2**64 - 1)
        cases.append((z3.And(alld(body), pos_v <= hi), None, pos_v))
        cases.append((z3.And(alld(body), pos_v > hi), 'PosOverflow', None))
        if signed:
            if len(body) == 1: cases.append((lead_minus, 'InvalidDigit', None))
            else:
                cases.append((z3.And(lead_minus, alld(body[1:]), neg_v >= lo), None, neg_v))
                cases.append((z3.And(lead_minus, alld(body[1:]), neg_v < lo), 'NegOverflow', None))
        else:
            cases.append((lead_minus, 'InvalidDigit', None))
    for c, kind, v in cases:
        if ex.feasible(st, c):
            s2 = st.clone(); s2.pc.append(c)
            if kind is None:
                out.append((s2, ok(s2, BV(z3.Int2BV(v, 64), signed))))
            else:
                e = ObjV(s2.new_obj(s2.fresh_name('pie'), 'ParseIntError')); s2.heap[e.oid]['kind'] = kind
                out.append((s2, err(s2, e)))
    return out
def s_pie_kind(ex, st, func, args, ty):
    e = deref(st, args[0]); k = st.heap[e.oid]['kind']
    return [(st, slot(st, mk_enum(st, 'IntErrorKind', enums['IntErrorKind'].index(k))))]
def s_kind_eq(ex, st, func, args, ty):
    a = deref(st, deref(st, args[0])) if isinstance(deref(st, args[0]), RefV) else deref(st, args[0])
    b = deref(st, deref(st, args[1])) if isinstance(deref(st, args[1]), RefV) else deref(st, args[1])
    return [(st, BoolV(ex.discr(st, a).t == ex.discr(st, b).t))]
def s_to_double(ex, st, func, args, ty):
    m = model(st, args[1]); out = []
    for good in (True, False):
        s2 = st.clone(); s2.events.append(('parse_f64', m, good))
        if good:
            nv = mk_enum(s2, 'NumberValue', 2, 'Float', ()); jv = mk_enum(s2, 'JsonValue', 3, 'Number', (nv,)); out.append((s2, ok(s2, jv)))
        else:
            out.append((s2, err(s2, mk_enum(s2, 'JsonParserError', enums['JsonParserError'].index('NumberParseFloatError')))))
    return out
def s_unexpected(ex, st, func, args, ty):
    return [(st, mk_enum(st, 'JsonParserError', enums['JsonParserError'].index('UnexpectedCharacter')))]
def s_u32_from_u8(ex, st, func, args, ty): return [(st, BV(z3.ZeroExt(24, args[0].t)))]
def s_char_from_u32(ex, st, func, args, ty):
    c = args[0].t; valid = z3.Or(z3.ULT(c, 0xD800), z3.And(z3.UGE(c, 0xE000), z3.ULE(c, 0x10FFFF))); out = []
    if ex.feasible(st, valid):
        s2 = st.clone(); s2.pc.append(valid); out.append((s2, some(s2, BV(c))))
    if ex.feasible(st, z3.Not(valid)):
        s2 = st.clone(); s2.pc.append(z3.Not(valid)); out.append((s2, none(s2)))
    return out
def s_encode_utf8(ex, st, func, args, ty):
    c = args[0].t; out = []
    e = lambda hi, lo: z3.Extract(hi, lo, c)
    cases = [(z3.ULT(c, 0x80), [z3.Extract(7, 0, c)]),
             (z3.And(z3.UGE(c, 0x80), z3.ULT(c, 0x800)), [z3.Concat(z3.BitVecVal(6, 3), e(10, 6)), z3.Concat(z3.BitVecVal(2, 2), e(5, 0))]),
             (z3.And(z3.UGE(c, 0x800), z3.ULT(c, 0x10000)), [z3.Concat(z3.BitVecVal(14, 4), e(15, 12)), z3.Concat(z3.BitVecVal(2, 2), e(11, 6)), z3.Concat(z3.BitVecVal(2, 2), e(5, 0))]),
             (z3.UGE(c, 0x10000), [z3.Concat(z3.BitVecVal(30, 5), e(20, 18)), z3.Concat(z3.BitVecVal(2, 2), e(17, 12)), z3.Concat(z3.BitVecVal(2, 2), e(11, 6)), z3.Concat(z3.BitVecVal(2, 2), e(5, 0))])]
    for cnd, bs in cases:
        if ex.feasible(st, cnd):
            s2 = st.clone(); s2.pc.append(cnd); out.append((s2, slot(s2, seqobj(s2, 'str', [BV(b) for b in bs]))))
    return out
def s_as_bytes(ex, st, func, args, ty): return [(st, args[0])]
def s_into_iter(ex, st, func, args, ty):
    src = args[0]
    if isinstance(src, Const):      # const b"rue"
        m = re.match(r'b"(.*)"$', src.text); items = [BV(bv8(ord(ch))) for ch in m.group(1)]
    else:
        items = model(st, src)
    it = seqobj(st, 'Iter', [slot(st, x) for x in items]); return [(st, it)]
def s_iter_next(ex, st, func, args, ty):
    it = deref(st, args[0]); m = st.heap[it.oid]['model']
    if not m: return [(st, none(st))]
    st.heap[it.oid]['model'] = m[1:]; return [(st, some(st, m[0]))]
def s_range_next(ex, st, func, args, ty):
    r = deref(st, args[0]); a = st.heap[r.oid][('f', None, 0)]; b = st.heap[r.oid][('f', None, 1)]
    av = z3.simplify(a.t).as_long(); bv = z3.simplify(b.t).as_long()
    if av >= bv: return [(st, none(st))]
    st.heap[r.oid][('f', None, 0)] = BV(z3.BitVecVal(av + 1, a.t.size()), a.signed)
    return [(st, some(st, a))]
def s_unwrap(ex, st, func, args, ty): return [(st, ex.load(st, args[0].oid, ('f', 'Some', 0), 'u8'))]
def s_is_none(ex, st, func, args, ty): return [(st, BoolV(ex.discr(st, deref(st, args[0])).t == 0))]
def s_opaque(ex, st, func, args, ty): return [(st, ex.fresh_value(st, ty or '()', st.fresh_name('opq')))]
def s_io_from(ex, st, func, args, ty): return None

summ = [
    (r'<std::io::Bytes<R> as Iterator>::next$', s_bytes_next),
    (r'<reader::Location as Clone>::clone$|<Location as Clone>::clone$', s_clone),
    (r'<Option<u8> as PartialEq>::eq$', s_opt_u8_eq),
    (r'Vec::<.*>::new$', s_vec_new), (r'Vec::<.*>::push$', s_vec_push),
    (r'String::from_utf8$', s_from_utf8), (r'<std::string::String as Deref>::deref$', s_string_deref),
    (r'parse::<u64>$|parse::<i64>$', s_parse_int), (r'ParseIntError::kind$', s_pie_kind), (r'<&IntErrorKind as PartialEq>::eq$', s_kind_eq),
    (r'JsonParserUtils>::parse_to_double$', s_to_double), (r'^create_unexpected_character', s_unexpected),
    (r'<u32 as From<u8>>::from$', s_u32_from_u8), (r'char::from_u32$|impl char>::from_u32$', s_char_from_u32),
    (r'impl char>::encode_utf8$', s_encode_utf8), (r'impl str>::as_bytes$', s_as_bytes),
    (r'<std::ops::Range<.*> as Iterator>::next$', s_range_next), (r'<std::ops::Range<.*> as IntoIterator>::into_iter$', lambda ex, st, f, a, t: [(st, a[0])]),
    (r'as IntoIterator>::into_iter$', s_into_iter), (r'<std::slice::Iter<.*> as Iterator>::next$', s_iter_next),
    (r'Option::<u8>::unwrap$', s_unwrap), (r'Option::<u8>::is_none$', s_is_none),
    (r'ToString>::to_string$|type_name$|RangeInclusive|collect::<|Extend<|box_assume_init|IndexMap', s_opaque),
] + GENERIC + [
]
JP = r'json_parser::<impl at src/json_parser.rs:29[^>]*>::'
RD = r'reader::<impl at src/reader.rs:42[^>]*>::'
inl = [(r'Reader::<R>::%s$' % m, find(RD + m + '$')) for m in ('next', 'peek', 'eat_whitespace', 'read_digits', 'where_am_i')]
inl += [(r'JsonParserUtils>::%s(::<\d+>)?$' % m, find(JP + m + '$')) for m in ('read_true', 'read_false', 'read_null', 'read_array', 'read_object', 'read_number', 'read_string', 'read_reserved_word')]
inl += [(r'JsonParser>::next_json_value$', find(r'json_parser::<impl at [^>]*>::next_json_value$'))]
ex = Exec(fns, enums=enums, structs=structs, summaries=summ, inline=inl, max_visits=4 * N + 8)
# from_residual for io::Error -> JsonParserError::IoError
def s_fromres(ex, st, func, args, ty):
    res = args[0]; e = ex.load(st, res.oid, ('f', 'Err', 0), 'opaque')
    if 'JsonParserError' in (ty or '') and 'std::io::Error' in func:
        e = mk_enum(st, 'JsonParserError', 0, 'IoError', (e,))
    return [(st, err(st, e))]
ex.summaries.insert(0, (r' as FromResidual<.*>>::from_residual$', s_fromres))

F = fns[find(r'json_parser::<impl at [^>]*>::next_json_value$')]
RDR = structs['Reader']
st = State()
ro = st.new_obj('reader', 'Reader'); rref = slot(st, ObjV(ro), 'reader*')
by = st.new_obj('bytes', 'Bytes'); st.heap[by]['pos'] = 0
st.heap[ro][('f', None, RDR.index('bytes'))] = ObjV(by)
if SINGLE:
    cb = ObjV(st.new_obj('cur', 'Option<u8>'))
    st.heap[ro][('f', None, RDR.index('current_byte'))] = cb
    d0 = ex.discr(st, cb); st.pc.append(z3.Or(d0.t == 0, d0.t == 1))
    ex.load(st, cb.oid, ('f', 'Some', 0), 'u8')
    eof0 = z3.Bool('eof0'); st.heap[ro][('f', None, RDR.index('eof'))] = BoolV(eof0)
    st.pc.append(z3.Implies(eof0, d0.t == 0))
else:
    st.heap[ro][('f', None, RDR.index('current_byte'))] = none(st)
    st.heap[ro][('f', None, RDR.index('eof'))] = BoolV(z3.BoolVal(False))
loc = st.new_obj('loc', 'Location'); st.heap[loc][('f', None, 1)] = BV(z3.BitVecVal(1, 64)); st.heap[loc][('f', None, 2)] = BV(z3.BitVecVal(1, 64))
st.heap[loc][('f', None, 0)] = none(st)
st.heap[ro][('f', None, RDR.index('location'))] = ObjV(loc)
# no objects in this prototype run
import os
if not SINGLE or os.environ.get('SCALAR'):
    for b in INPUT: st.pc.append(b != ord('{'))
if os.environ.get('SCALAR'):
    for b in INPUT: st.pc.append(b != ord('['))

# drive like read_input: call next_json_value until Ok(None) or N+2 calls
work = [st]; finished = []
calls = 0
while work:
    s = work.pop()
    s.status = 'running'; ex.new_frame(s, F, [rref])
    for d in ex.run(s):
        if d.status != 'returned':
            finished.append(d); continue
        r = d.ret; dd = d.heap[r.oid]['discr'].t
        dv = z3.simplify(dd)
        if z3.is_bv_value(dv) and dv.as_long() == 0:
            o = d.heap[r.oid][('f', 'Ok', 0)]; od = z3.simplify(d.heap[o.oid]['discr'].t)
            if od.as_long() == 0:
                d.events.append(('eof',)); finished.append(d); continue
            jv = d.heap[o.oid][('f', 'Some', 0)]; d.events.append(('value', z3.simplify(d.heap[jv.oid]['discr'].t).as_long()))
        else:
            e = d.heap[r.oid][('f', 'Err', 0)]
            if 'discr' not in d.heap[e.oid]:
                print('NO DISCR', d.meta[e.oid], d.heap[e.oid].keys(), [x for x in d.events if x[0] != 'read'][-4:]); sys.exit(1)
            d.events.append(('error', z3.simplify(d.heap[e.oid]['discr'].t).as_long()))
        if SINGLE:
            finished.append(d); continue
        if sum(1 for x in d.events if x[0] in ('value', 'error')) > N + 1:
            d.status = 'toomany'; finished.append(d); continue
        work.append(d)
print('N', N, 'paths', len(finished), 'queries', ex.queries, 'time', round(time.time() - t0, 1))
print(collections.Counter(d.status for d in finished))
print('unhandled calls:', ex.unhandled)
shapes = collections.Counter(tuple(x for x in d.events if x[0] in ('value', 'error', 'eof')) for d in finished)
print('distinct outcome shapes', len(shapes))
for sh, c in shapes.most_common(8): print(c, sh)
# progress property: every error consumed >= 1 byte since previous outcome, all reads in order, all N bytes read at eof
bad = 0
for d in finished:
    reads = [x[1] for x in d.events if x[0] == 'read']
    if reads != list(range(len(reads))): bad += 1
    if d.events and d.events[-1] == ('eof',) and len(reads) != N: bad += 1
print('progress violations', bad)
