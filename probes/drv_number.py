"""probe: C01.a on number tokens — implementation (MIR) vs symbolic reference recogniser, bytes over the number alphabet + space"""
import sys, os, time, re, collections
N = int(sys.argv[1]) if len(sys.argv) > 1 else 4
sys.argv = [sys.argv[0], str(N), 'fresh']
src = open('drv_parser.py').read()
# reuse the parser scenario set-up up to the driving loop
head = src[:src.index('# drive like read_input')]
head = head.replace("for b in INPUT: st.pc.append(b != ord('{'))", "pass")
exec(head)
ALPHA = [ord(c) for c in '0123456789-+.eE ']
for b in INPUT: st.pc.append(z3.Or(*[b == a for a in ALPHA]))

def sat(pc, c):
    ex.solver.push(); [ex.solver.add(x) for x in pc]; ex.solver.add(c); r = ex.solver.check() == z3.sat; ex.solver.pop(); ex.queries += 1; return r
isdig = lambda b: z3.And(z3.UGE(b, ord('0')), z3.ULE(b, ord('9')))
def ref_number(pc, bs):
    """RFC 8259 number at position 0: returns [(pc', L)] with L = token length if bs[0..L) is a maximal conforming
    number followed by space or end, else None"""
    out = []
    def fork(pc, alts, cont):
        rest = []
        for c, k in alts:
            if sat(pc, c): cont(pc + [c], k)
            rest.append(z3.Not(c))
        if sat(pc, z3.And(*rest)): cont(pc + [z3.And(*rest)], None)
    def end(pc, i):          # token ended at i: need space or end of input
        if i == len(bs): out.append((pc, i)); return
        fork(pc, [(bs[i] == ord(' '), 'ws')], lambda p, k: out.append((p, i if k else None)))
    def digits(pc, i, after):   # one or more digits consumed? state: at least one digit seen; consume more
        if i == len(bs): after(pc, i); return
        fork(pc, [(isdig(bs[i]), 'd')], lambda p, k: digits(p, i + 1, after) if k else after(p, i))
    def need_digit(pc, i, after):
        if i == len(bs): out.append((pc, None)); return
        fork(pc, [(isdig(bs[i]), 'd')], lambda p, k: digits(p, i + 1, after) if k else out.append((p, None)))
    def exp(pc, i):
        if i == len(bs): end(pc, i); return
        def k_(p, k):
            if k is None: end(p, i); return
            # after e/E: optional sign
            if i + 1 == len(bs): out.append((p, None)); return
            fork(p, [(z3.Or(bs[i + 1] == ord('+'), bs[i + 1] == ord('-')), 's')], lambda p2, k2: need_digit(p2, i + 2 if k2 else i + 1, end))
        fork(pc, [(z3.Or(bs[i] == ord('e'), bs[i] == ord('E')), 'e')], k_)
    def frac(pc, i):
        if i == len(bs): end(pc, i); return
        fork(pc, [(bs[i] == ord('.'), '.')], lambda p, k: need_digit(p, i + 1, exp) if k else exp(p, i))
    def intpart(pc, i):
        if i == len(bs): out.append((pc, None)); return
        def k_(p, k):
            if k == '0': frac(p, i + 1)
            elif k == 'nz': digits(p, i + 1, frac)
            else: out.append((p, None))
        fork(pc, [(bs[i] == ord('0'), '0'), (z3.And(z3.UGE(bs[i], ord('1')), z3.ULE(bs[i], ord('9'))), 'nz')], k_)
    if not bs: return [(pc, None)]
    fork(pc, [(bs[0] == ord('-'), '-')], lambda p, k: intpart(p, 1 if k else 0))
    return out

s0 = st
s0.status = 'running'; ex.new_frame(s0, F, [rref])
done = ex.run(s0)
checks = viol = 0
for d in done:
    if d.status != 'returned': continue
    if any(e[0] == 'parse_f64' and not e[2] for e in d.events): continue   # summary: f64 parse of a well-formed spelling succeeds; is_finite not modelled in this probe
    reads = sum(1 for e in d.events if e[0] == 'read')
    r = d.ret; rd = z3.simplify(d.heap[r.oid]['discr'].t).as_long()
    isval = False
    if rd == 0:
        o = d.heap[r.oid][('f', 'Ok', 0)]
        isval = z3.simplify(d.heap[o.oid]['discr'].t).as_long() == 1
    for pc2, L in ref_number(d.pc, INPUT):
        if L is None: continue          # not a conforming number followed by a separator: no requirement here
        checks += 1
        want_reads = min(L + 1, N)
        good = isval and reads == want_reads
        if not good:
            ex.solver.push(); [ex.solver.add(x) for x in pc2]; ex.solver.check(); m = ex.solver.model(); ex.solver.pop()
            viol += 1
            if viol <= 4: print('VIOLATION input %r: reference token length %d, implementation %s after %d bytes' % (bytes(m.eval(b, True).as_long() for b in INPUT), L, 'value' if isval else 'error/eof', reads))
print('N', N, 'impl paths', len(done), 'checks', checks, 'violations', viol, 'queries', ex.queries, 'time', round(time.time() - t0, 1))
