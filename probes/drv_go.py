import sys, time, re, collections, itertools
import z3
from mirparse import parse_mir
from mirsym import *
import srcdefs

t0 = time.time()
fns = parse_mir(open('jawk.mir').read())
enums, structs = srcdefs.load('/repo')
def find(rx):
    c = [n for n in fns if re.search(rx, n)]
    assert len(c) == 1, (rx, c)
    return c[0]
def slot(st, v, name='slot'):
    box = st.new_obj(st.fresh_name(name), 'box'); st.heap[box]['v'] = v; return RefV(box, 'v')
def deref(st, r): return st.heap[r.oid][r.key]
def mk_enum(st, ty, idx, var=None, payload=()):
    oid = st.new_obj(st.fresh_name('e'), ty); st.heap[oid]['discr'] = BV(z3.BitVecVal(idx, 64), True)
    for i, p in enumerate(payload): st.heap[oid][('f', var, i)] = p
    return ObjV(oid)
some = lambda st, v: mk_enum(st, 'Option', 1, 'Some', (v,)); none = lambda st: mk_enum(st, 'Option', 0)
ok = lambda st, v: mk_enum(st, 'Result', 0, 'Ok', (v,)); err = lambda st, v: mk_enum(st, 'Result', 1, 'Err', (v,))
def seqobj(st, ty, items, origin=None):
    oid = st.new_obj(origin or st.fresh_name(ty), ty); st.heap[oid]['model'] = tuple(items); return ObjV(oid)
def named(st, name, ty='opaque'): return ObjV(st.new_obj(name, ty))
def origin(st, v):
    if isinstance(v, RefV): v = deref(st, v)
    return st.meta[v.oid][0] if isinstance(v, ObjV) else str(v)

def s_validate(kind):
    def h(ex, st, func, args, ty):
        out = []
        for good in (True, False):
            s2 = st.clone(); s2.events.append(('validate', kind, good))
            out.append((s2, ok(s2, named(s2, s2.fresh_name('cfg:' + kind), kind)) if good else err(s2, named(s2, 'err:' + kind))))
        return out
    return h
def s_get_processor(ex, st, func, args, ty):
    out = []
    for good in (True, False):
        s2 = st.clone(); s2.events.append(('validate', 'output', good))
        if good:
            b = mkbox(s2, named(s2, 'OUTPUT', 'Output')); out.append((s2, ok(s2, b)))
        else: out.append((s2, err(s2, named(s2, 'err:output'))))
    return out
def mkbox(st, inner):
    b = named(st, st.fresh_name('Box'), 'Box'); st.heap[b.oid]['boxed'] = inner
    u = named(st, st.fresh_name('Unique'), 'Unique'); st.heap[b.oid][('f', None, 0)] = u
    st.heap[u.oid][('f', None, 0)] = slot(st, inner, 'boxslot')
    return b
def s_box_new(ex, st, func, args, ty): return [(st, mkbox(st, args[0]))]
def s_wrap(kind, inner_idx):
    """create_process bodies that are not inlined: wrap opaque"""
    def h(ex, st, func, args, ty):
        o = named(st, st.fresh_name(kind), kind); st.heap[o.oid]['next'] = args[inner_idx]
        return [(st, mkbox(st, o))]
    return h
def s_preset(ex, st, func, args, ty):
    v = deref(st, args[0]); n = len(st.heap[v.oid]['model']); out = []
    if n == 0: return [(st, ok(st, args[1]))]
    for good in (True, False):
        s2 = st.clone(); s2.events.append(('validate', 'set', good))
        if good:
            o = named(s2, s2.fresh_name('PreSet'), 'PreSet'); s2.heap[o.oid]['next'] = args[1]
            out.append((s2, ok(s2, mkbox(s2, o))))
        else: out.append((s2, err(s2, named(s2, 'err:set'))))
    return out
def s_iter(ex, st, func, args, ty):
    v = args[0]
    v = deref(st, v) if isinstance(v, RefV) else v
    return [(st, seqobj(st, 'Iter', [slot(st, x) for x in st.heap[v.oid]['model']]))]
def s_rev(ex, st, func, args, ty):
    it = args[0]; st.heap[it.oid]['model'] = tuple(reversed(st.heap[it.oid]['model'])); return [(st, it)]
def s_ident(ex, st, func, args, ty): return [(st, args[0] if args else ObjV(st.new_obj(st.fresh_name('default'), ty or 'opaque')))]
def s_iter_next(ex, st, func, args, ty):
    it = deref(st, args[0]); m = st.heap[it.oid]['model']
    if not m: return [(st, none(st))]
    st.heap[it.oid]['model'] = m[1:]; return [(st, some(st, m[0]))]
def s_is_empty(ex, st, func, args, ty):
    v = deref(st, args[0]); return [(st, BoolV(z3.BoolVal(len(st.heap[v.oid]['model']) == 0)))]
def s_is_none(ex, st, func, args, ty):
    return [(st, BoolV(ex.discr(st, deref(st, args[0])).t == 0))]
def s_map_closure(ex, st, func, args, ty):
    o = args[0]; d = ex.discr(st, o).t; out = []
    if ex.feasible(st, d == 0):
        s2 = st.clone(); s2.pc.append(d == 0); out.append((s2, none(s2)))
    if ex.feasible(st, d == 1):
        s2 = st.clone(); s2.pc.append(d == 1)
        payload = ex.load(s2, o.oid, ('f', 'Some', 0), 'u64')
        clo = fns[find(r'::go::\{closure#0\}$')]
        saved = s2.frames; s2.frames = []
        s2.status = 'running'; ex.new_frame(s2, clo, [args[1], payload])
        for r in ex.run(s2):
            if r.status == 'returned':
                r.frames = [dict(f) for f in saved]; r.status = 'running'; out.append((r, some(r, r.ret)))
            else:
                r.frames = [dict(f) for f in saved]; r.events.append(('closure_' + r.status, r.notes)); r.status = 'panic'; FINISHED.append(r)
    return out
FINISHED = []
def s_event(name, ret=None):
    def h(ex, st, func, args, ty):
        st.events.append((name,))
        if ret == 'result':
            out = []
            for good in (True, False):
                s2 = st.clone(); out.append((s2, ok(s2, UNIT) if good else err(s2, named(s2, 'err:' + name))))
            return out
        return [(st, ex.fresh_value(st, ty or '()', st.fresh_name(name)))]
    return h
def s_as_mut(ex, st, func, args, ty):
    b = deref(st, args[0]); return [(st, slot(st, b))]
def s_dyn(ex, st, func, args, ty):
    meth = func.split('::')[-1]
    tgt = deref(st, args[0])
    st.events.append((meth, tgt))
    out = []
    for good in (True, False):
        s2 = st.clone(); out.append((s2, ok(s2, UNIT) if good else err(s2, named(s2, 'err:' + meth))))
    return out

summ = [
    (r'OutputOptions::get_processor$', s_get_processor),
    (r'<Grouper as FromStr>::from_str$', s_validate('group')), (r'<Sorter as FromStr>::from_str$', s_validate('sort')),
    (r'<Selection as FromStr>::from_str$', s_validate('select')), (r'<filter::Filter as FromStr>::from_str$', s_validate('filter')),
    (r'<Splitter as FromStr>::from_str$', s_validate('split')),
    (r'PreSetCollection>::create_process$', s_preset),
    (r'Box::<.*>::new$', s_box_new),
    (r'<std::string::String as Deref>::deref$|<Vec<.*> as Deref>::deref$|<Rc<.*> as Clone>::clone$|<Vec<PathBuf> as Clone>::clone$|<Titles as Default>::default$', s_ident),
    (r'impl \[std::string::String\]>::iter$|as IntoIterator>::into_iter$', s_iter), (r'as Iterator>::rev$', s_rev),
    (r'as Iterator>::next$', s_iter_next), (r'Vec::<PathBuf>::is_empty$', s_is_empty), (r'Option::<u64>::is_none$', s_is_none),
    (r'Option::<u64>::map::<usize', s_map_closure),
    (r'as Fn<\(\)>>::call$', s_event('stdin()')), (r'^from_std_in', s_event('from_std_in')),
    (r'Master::<S>::read_input', s_event('read_input', 'result')), (r'Master::<S>::read_file$', s_event('read_file', 'result')),
    (r'display_additional_help$', s_event('help')),
    (r'as AsMut<dyn Process>>::as_mut$', s_as_mut),
    (r'<dyn Process as Process>::(start|complete)$', s_dyn),
] + GENERIC
inl = [(r'Limiter::create_process$', find(r'limits::<impl[^>]*>::create_process$')),
       (r'Sorter::create_processor$', find(r'sorters::<impl[^>]*>::create_processor$')),
       (r'Uniquness::create_process$', find(r'duplication_remover::<impl[^>]*>::create_process$')),
       (r'Merger::create_process$', find(r'merger::<impl[^>]*>::create_process$')),
       (r'Grouper::create_process$', find(r'grouper::<impl[^>]*>::create_process$')),
       (r'filter::Filter::create_process$', find(r'filter::<impl[^>]*>::create_process$')),
       (r'Splitter::create_process$', find(r'splitter::<impl[^>]*>::create_process$')),
       (r'Selection::create_process$', find(r'selection::<impl[^>]*>::create_process$'))]
# extra summaries the inlined bodies need
summ = [(r'BTreeMap::<.*>::new$|IndexMap::<.*>::new$|HashSet::<.*>::new$|Vec::<JsonValue>::new$', lambda ex, st, f, a, t: [(st, seqobj(st, 'Container', ()))]),
        (r'<Rc<dyn Get> as Clone>::clone$|<Rc<std::string::String> as Clone>::clone$|<Direction as Clone>::clone$', lambda ex, st, f, a, t: [(st, ex.copy_val(st, deref(st, a[0])))])] + summ
ex = Exec(fns, enums=enums, structs=structs, summaries=summ, inline=inl, max_visits=12)
GO = fns[find(r'<impl at src/lib.rs:235[^>]*>::go$')]
CLI = structs['Cli']; MASTER = structs['Master']

def chain(st, box):
    """walk Box<dyn Process> -> stage struct -> next ..."""
    out = []
    first = True
    while True:
        o = st.heap[box.oid].get('boxed')
        if o is None and first and st.meta[box.oid][1] != 'Box':
            o = box
        first = False
        if o is None:
            out.append(('?nobox:' + str(st.meta[box.oid]) + str(list(st.heap[box.oid].keys())[:4]),)); return out
        ty = st.meta[o.oid][1]
        name = st.meta[o.oid][0]
        if name == 'OUTPUT': out.append(('Output',)); return out
        ty = ty.split('::')[-1]
        sname = ty if ty in structs or ty in ('PreSet',) else name.split('!')[0]
        if 'next' in st.heap[o.oid]:
            out.append((sname,)); box = st.heap[o.oid]['next']; continue
        flds = structs.get(sname)
        if flds is None:
            out.append(('?' + sname,)); return out
        info = {}
        for i, fn_ in enumerate(flds):
            v = st.heap[o.oid].get(('f', None, i))
            if fn_ != 'next': info[fn_] = v
        out.append((sname, info)); box = st.heap[o.oid][('f', None, flds.index('next'))]

results = collections.Counter(); viol = 0; paths = 0
for n_sel, n_sort, n_set, n_files in itertools.product((0, 1, 2), (0, 1, 2), (0, 1), (0, 1)):
    st = State()
    mo = st.new_obj('self', 'Master'); mref = slot(st, ObjV(mo), 'self*')
    cli = st.new_obj('self.cli', 'Cli'); st.heap[mo][('f', None, MASTER.index('cli'))] = ObjV(cli)
    def vec(name, n): return seqobj(st, 'Vec', [named(st, f'{name}{i}', 'String') for i in range(n)], origin='cli.' + name)
    st.heap[cli][('f', None, CLI.index('choose'))] = vec('choose', n_sel)
    st.heap[cli][('f', None, CLI.index('sort_by'))] = vec('sort_by', n_sort)
    st.heap[cli][('f', None, CLI.index('set'))] = vec('set', n_set)
    st.heap[cli][('f', None, CLI.index('files'))] = vec('files', n_files)
    # constrain option discriminants
    for f, ty in (('additional_help', 'Option<String>'), ('group_by', 'Option<Option<String>>'), ('filter', 'Option<String>'), ('break_by', 'Option<String>'), ('take', 'Option<u64>')):
        o = ex.load(st, cli, ('f', None, CLI.index(f)), ty); d = ex.discr(st, o); st.pc.append(z3.Or(d.t == 0, d.t == 1))
        if f == 'group_by':
            inner = ex.load(st, o.oid, ('f', 'Some', 0), 'Option<String>'); di = ex.discr(st, inner); st.pc.append(z3.Or(di.t == 0, di.t == 1))
        if f == 'additional_help': st.pc.append(d.t == 0)
    ex.new_frame(st, GO, [mref])
    FINISHED.clear()
    done = ex.run(st) + list(FINISHED)
    for d in done:
        if d.status == 'infeasible': continue
        paths += 1
        evs = d.events
        started = [e for e in evs if e[0] == 'start']
        # C18.a ordering: no validate after start/stdin/read; failing validation => Err and nothing started
        first_io = next((i for i, e in enumerate(evs) if e[0] in ('start', 'stdin()', 'read_input', 'read_file')), len(evs))
        late_validate = any(e[0] == 'validate' for e in evs[first_io:])
        failed = any(e[0] == 'validate' and not e[2] for e in evs)
        if late_validate or (failed and first_io < len(evs)):
            viol += 1; print('C18 ordering violation', evs)
        if d.status == 'panic':
            results['panic:' + str(d.notes[:1])] += 1; continue
        if started:
            ch = chain(d, started[0][1])
            names = [c[0] for c in ch]
            results[' > '.join(names)] += 1
            # C08.c: a sorter has capacity only if its successor is the limiter
            for i, c in enumerate(ch):
                if c[0] == 'SortProcess':
                    sl = c[1]['space_left']; dsc = z3.simplify(d.heap[sl.oid]['discr'].t)
                    has_cap = not (z3.is_bv_value(dsc) and dsc.as_long() == 0)
                    if has_cap and ch[i + 1][0] != 'Limiter':
                        viol += 1
                        if viol < 4: print('C08.c violation: capacity on a sorter not followed by the limiter:', names)
print('paths', paths, 'queries', ex.queries, 'time', round(time.time() - t0, 1))
print('unhandled', ex.unhandled)
for k, v in sorted(results.items(), key=lambda kv: -kv[1])[:25]: print(v, k)
print('violations', viol)
