"""Obligation bookkeeping, known findings, evidence, exit codes (DESIGN section 5)."""
import json, os, re, sys, time, collections

VERIF = os.path.dirname(os.path.dirname(os.path.abspath(__file__)))
KNOWN = os.path.join(VERIF, 'known_findings.txt')


class Broken(Exception):
    """the check itself is broken (exit 2) - never a statement about jawk"""


class Candidate:
    def __init__(self, family, role, text, model=None, replay=None, unmodelled=None):
        self.family = family            # assertion family, e.g. 'C08.b topN'
        self.role = role                # stable role of the failing thing (used to key known findings)
        self.text = text                # human readable: what fails
        self.model = model or {}        # solver assignment (json-able)
        self.replay = replay            # dict describing the native reproduction (argv/stdin/expected/actual ...) once replayed
        self.unmodelled = unmodelled    # name of a havocked callee the path went through, if any
        self.status = 'candidate'       # -> 'reproduced' | 'not-reproduced' | 'unit' | 'inconclusive'


class Family:
    def __init__(self, name, desc, engine='M'):
        self.name = name; self.desc = desc; self.engine = engine
        self.obligations = 0; self.discharged = 0; self.witnesses = 0; self.paths = 0
        self.candidates = []; self.samples = []; self.bounds = ''; self.need_witness = True

    def add_sample(self, s):
        if len(self.samples) < 3:
            self.samples.append(s)


class Run:
    def __init__(self, prop, tier, seed):
        self.prop = prop; self.tier = tier; self.seed = seed
        self.t0 = time.time()
        self.families = collections.OrderedDict()
        self.functions = collections.OrderedDict()
        self.summaries = collections.OrderedDict()
        self.assumptions = []
        self.bounds = collections.OrderedDict()
        self.queries = 0; self.solver_s = 0.0; self.paths = 0
        self.unmodelled = collections.Counter()
        self.inconclusive = []
        self.traces_validated = 0
        self.kani = []
        self.notes = []
        self.times = {}

    def family(self, name, desc, engine='M'):
        if name not in self.families:
            self.families[name] = Family(name, desc, engine)
        return self.families[name]

    def assume(self, text):
        if text not in self.assumptions:
            self.assumptions.append(text)

    def absorb(self, ex):
        """account an executor's work"""
        self.queries += ex.queries; self.solver_s += ex.solver_s
        for k, v in ex.unhandled.items():
            self.unmodelled[k] += v
        for k in ex.used_summaries:
            self.summaries[k] = True
        for k in ex.used_bodies:
            self.functions[k] = True
        ex.queries = 0; ex.solver_s = 0.0

    # ------------------------------------------------------------------ finishing
    def finish(self):
        known = load_known()
        viol_lines = []; known_lines = []; broken = []
        n_viol = 0
        all_c = [c for f in self.families.values() for c in f.candidates]
        for f in self.families.values():
            if f.need_witness and f.obligations > 0 and f.witnesses == 0 and not getattr(self, 'scenario_failures', 0):
                broken.append(f'family {f.name}: no reachability witness (vacuous)')
            if f.need_witness and f.obligations == 0 and not f.candidates and not getattr(self, 'scenario_failures', 0):
                broken.append(f'family {f.name}: no obligation was generated')
        # a counterexample whose path went through an unmodelled (havocked) call is believed only when its
        # concretised witness reproduces natively; otherwise it is inconclusive and does not change the exit code
        for c in all_c:
            if c.unmodelled and c.status != 'reproduced':
                c.status = 'inconclusive'
        seen_roles = set(); seen_inc = set()
        os.makedirs(os.path.join(VERIF, 'evidence', 'replays'), exist_ok=True)
        confirmed = {(c.family, c.role) for c in all_c if c.status == 'reproduced'}
        for c in all_c:
            if c.status == 'not-reproduced' and (c.family, c.role) in confirmed:
                continue            # the same failure (family, role) is confirmed natively by a sibling witness and reported once
            if c.status == 'not-reproduced':
                broken.append(f'counterexample of {c.family} did not reproduce natively: {c.text}')
                continue
            if c.status == 'inconclusive':
                self.inconclusive.append(f'{c.family}: {c.text} (unmodelled: {c.unmodelled})')
                ik = (c.family, str(c.unmodelled))
                if ik not in seen_inc:
                    seen_inc.add(ik); print(f'INCONCLUSIVE property={self.prop} family={c.family} unmodelled={c.unmodelled}')
                continue
            key = (c.family, c.role)
            if key in seen_roles:
                continue
            seen_roles.add(key)
            k = match_known(known, self.prop, c)
            if k is not None:
                known_lines.append(f'KNOWN-FINDING: property={self.prop} {c.family} [{c.role}] {c.text}')
                continue
            n_viol += 1
            path = os.path.join(VERIF, 'evidence', 'replays', f'{self.prop}-{slug(c.family)}-{slug(c.role)}.json')
            with open(path, 'w') as fh:
                json.dump({'property': self.prop, 'family': c.family, 'role': c.role, 'what': c.text, 'model': c.model,
                           'replay': c.replay, 'status': c.status}, fh, indent=1, default=str)
            viol_lines.append(f'VIOLATION property={self.prop} replay={path}   # {c.family} [{c.role}]: {c.text}')
        for msg in getattr(self, 'deferred_broken', []):
            if n_viol: self.inconclusive.append(msg[:600]); print(f'INCONCLUSIVE property={self.prop} ' + msg[:200].replace('\n', ' '))
            else: broken.append(msg)
        self.write_evidence(n_viol, known_lines, broken)
        for l in known_lines:
            print(l)
        for l in viol_lines:
            print(l)
        tot_o = sum(f.obligations for f in self.families.values()); tot_d = sum(f.discharged for f in self.families.values())
        print(f'{self.prop} tier={self.tier}: {len(self.families)} families, {tot_d}/{tot_o} obligations discharged, {self.paths} paths, '
              f'{self.queries} solver queries, {round(time.time() - self.t0, 1)} s, violations={n_viol}, known={len(known_lines)}, '
              f'inconclusive={len(self.inconclusive)}')
        if broken:
            for b in broken:
                print('BROKEN:', b)
            return 2
        return 1 if n_viol else 0

    def write_evidence(self, n_viol, known_lines, broken):
        fams = {}
        samples = []
        for f in self.families.values():
            fams[f.name] = {'what': f.desc, 'engine': f.engine, 'obligations': f.obligations, 'discharged': f.discharged,
                            'witnesses': f.witnesses, 'paths': f.paths, 'bounds': f.bounds,
                            'candidates': [{'role': c.role, 'what': c.text, 'status': c.status} for c in f.candidates][:20]}
            for s in f.samples:
                samples.append({'family': f.name, **s})
            for c in f.candidates[:2]:
                samples.append({'family': f.name, 'counterexample': c.text, 'model': c.model, 'replay': c.replay, 'status': c.status})
        if not samples:
            samples.append({'note': 'no sample recorded'})
        tot_o = sum(f.obligations for f in self.families.values()); tot_d = sum(f.discharged for f in self.families.values())
        cov = {
            'states': max(1, self.paths), 'transitions': max(1, self.queries),
            'traces_validated_against_impl': self.traces_validated,
            'samples': samples[:24],
            'evaluations': max(1, tot_o), 'distinct_nontrivial': max(0, tot_d),
            'rule': 'an evaluation is one (symbolic path, assertion) pair decided by the solver over all values of the free '
                    'variables; it is non-trivial when the path condition was satisfiable and the assertion was not syntactically true',
            'explanation': 'states = symbolic paths of the real code (MIR / CBMC properties) explored to completion; transitions = solver queries',
            'obligations': tot_o, 'discharged': tot_d,
            'families': fams, 'functions_encoded': list(self.functions)[:400], 'bounds': self.bounds,
            'summaries_used': list(self.summaries), 'unmodelled_calls': dict(self.unmodelled),
            'inconclusive': self.inconclusive, 'known_findings_reestablished': known_lines, 'broken': broken,
            'solver_time_s': round(self.solver_s, 2), 'build_times_s': self.times, 'kani_harnesses': self.kani,
            'queries': self.queries, 'notes': self.notes,
            'exhaustive': False,
        }
        ev = {'property_id': self.prop, 'tier': self.tier, 'seed': self.seed, 'level': 'model_checking', 'coverage': cov,
              'assumptions': self.assumptions + ['summary: ' + s for s in self.summaries],
              'wall_s': round(time.time() - self.t0, 2), 'violations': n_viol}
        p = os.path.join(VERIF, 'evidence', f'{self.prop}.json')
        tmp = p + f'.tmp{os.getpid()}'          # two runs of the same check at once (regression tooling) must not share it
        with open(tmp, 'w') as fh:
            json.dump(ev, fh, indent=1, default=str)
        os.rename(tmp, p)


def slug(s):
    return re.sub(r'[^A-Za-z0-9]+', '_', s).strip('_')[:60]


def load_known():
    out = []
    if os.path.exists(KNOWN):
        for ln in open(KNOWN):
            ln = ln.strip()
            if not ln or ln.startswith('#') or ln.startswith('fixed:'):
                continue
            m = re.match(r'finding:\s+property=(\S+)\s+family=(.+?)\s+role=(\S+)\s+(.*)$', ln)
            if m:
                out.append({'prop': m.group(1), 'family': m.group(2).strip(), 'role': m.group(3), 'text': m.group(4)})
    return out


def match_known(known, prop, c):
    for k in known:
        if k['prop'] == prop and k['family'] == c.family and k['role'] == c.role:
            return k
    return None
