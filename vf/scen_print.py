"""The JSON printer (src/output_style.rs) on symbolic strings / numbers and concrete shapes with a symbolic style."""
import json, itertools
import z3
from .lib import *
from .report import Candidate, Broken
from .fmt import calibrate, fmt_summaries, Tok
from .scen_parser import utf8_cases, PC, Ref, isdig
from .par import pmap


def s_chars(ex, st, func, args, ty):
    return [(st, seqobj(st, 'Chars', model(st, args[0])))]


def s_range_new(ex, st, func, args, ty):
    o = named(st, st.fresh_name('range'), 'RangeInclusive'); st.heap[o.oid]['lohi'] = (args[0], args[1]); return [(st, o)]


def s_contains(ex, st, func, args, ty):
    r = obj(st, args[0]); lo, hi = st.heap[r.oid]['lohi']; c = obj(st, args[1])
    return [(st, BoolV(z3.And(z3.UGE(c.t, lo.t), z3.ULE(c.t, hi.t))))]


def base_summaries(calib, write='write_ok'):
    F = fmt_summaries(calib, utf8_cases)
    return [F['from_str'], F['display'], F['lower_hex'], F['new'], F[write],
            (r'impl str>::chars$', s_chars), (r'<Chars<.*> as IntoIterator>::into_iter$', s_identity), (r'<Chars<.*> as Iterator>::next$', s_iter_next),
            (r'RangeInclusive::<char>::new$', s_range_new), (r'RangeInclusive::<char>::contains', s_contains),
            (r'impl char>::encode_utf16$', s_encode_utf16), (r'<&mut \[u16\] as IntoIterator>::into_iter$|impl \[u16\]>::iter$|<&\[u16\] as IntoIterator>::into_iter$', s_iter_ref),
            (r'<std::slice::Iter<.*u16> as Iterator>::next$|<std::slice::IterMut<.*u16> as Iterator>::next$', s_iter_next),
            (r'impl char>::len_utf16$', s_len_utf16)]


def s_encode_utf16(ex, st, func, args, ty):
    c = args[0].t; out = []
    bmp = z3.ULT(c, 0x10000)
    if ex.feasible(st, bmp):
        s2 = st.clone(); s2.pc.append(bmp); out.append((s2, slot(s2, seqobj(s2, 'u16s', [BV(z3.Extract(15, 0, c))]))))
    if ex.feasible(st, z3.Not(bmp)):
        s2 = st.clone(); s2.pc.append(z3.Not(bmp)); v = c - 0x10000
        hi = z3.Extract(15, 0, z3.LShR(v, 10)) + 0xD800; lo = (z3.Extract(15, 0, v) & 0x3FF) + 0xDC00
        out.append((s2, slot(s2, seqobj(s2, 'u16s', [BV(hi), BV(lo)]))))
    return out


def s_len_utf16(ex, st, func, args, ty):
    c = args[0].t
    return [(st, BV(z3.If(z3.ULT(c, 0x10000), z3.BitVecVal(1, 64), z3.BitVecVal(2, 64))))]


# ---------------------------------------------------------------- reference RFC 8259 string-token decoder (symbolic)
ESC = {ord('"'): 0x22, ord('\\'): 0x5c, ord('/'): 0x2f, ord('b'): 8, ord('f'): 12, ord('n'): 10, ord('r'): 13, ord('t'): 9}


def decode_string_token(ref, pc, bs):
    """yields (pc', items | None) ; items = [('cp', BV32) from an escape | ('raw', byte term)] ; None = malformed token"""
    def go(pc, i, acc):
        if i >= len(bs):
            yield pc, None; return
        b = bs[i]
        if i == 0:
            for p, t in ref.fork(pc, [(b == ord('"'), 'q')]):
                if t: yield from go(p, 1, acc)
                else: yield p, None
            return
        for p, t in ref.fork(pc, [(b == ord('"'), 'q'), (b == ord('\\'), 'e'), (z3.ULT(b, 0x20), 'ctl')]):
            if t == 'q':
                yield p, (acc if i == len(bs) - 1 else None)
            elif t == 'ctl':
                yield p, None
            elif t is None:
                yield from go(p, i + 1, acc + [('raw', b)])
            else:
                if i + 1 >= len(bs):
                    yield p, None; continue
                e = bs[i + 1]
                for p2, t2 in ref.fork(p, [(e == k, v) for k, v in ESC.items()] + [(e == ord('u'), 'u')]):
                    if t2 is None: yield p2, None
                    elif t2 == 'u':
                        if i + 6 > len(bs): yield p2, None; continue
                        yield from hx(p2, i, 0, z3.BitVecVal(0, 32), acc)
                    else: yield from go(p2, i + 2, acc + [('cp', z3.BitVecVal(t2, 32))])
    def hx(pc, i, j, accv, acc):
        if j == 4:
            yield from go(pc, i + 6, acc + [('cp', accv)]); return
        hb = bs[i + 2 + j]; z = z3.ZeroExt(24, hb)
        alts = [(isdig(hb), z - ord('0')), (z3.And(z3.UGE(hb, ord('a')), z3.ULE(hb, ord('f'))), z - ord('a') + 10), (z3.And(z3.UGE(hb, ord('A')), z3.ULE(hb, ord('F'))), z - ord('A') + 10)]
        for p, t in ref.fork(pc, alts):
            if t is None: yield p, None
            else: yield from hx(p, i, j + 1, (accv << 4) | t, acc)
    yield from go(pc, 0, [])


def match_chars(ref, pc, items, chars):
    """does the decoded item list denote exactly the code points `chars`? yields (pc', formula|False)"""
    def go(pc, k, ci, conj):
        if ci == len(chars):
            yield pc, (z3.And(*conj) if conj else z3.BoolVal(True)) if k == len(items) else False
            return
        if k >= len(items):
            yield pc, False; return
        c = chars[ci]
        kind, v = items[k]
        if kind == 'cp':
            # one BMP escape, or a surrogate pair for an astral code point
            for p, t in ref.fork(pc, [(z3.ULT(c, 0x10000), 'bmp')]):
                if t: yield from go(p, k + 1, ci + 1, conj + [v == c])
                else:
                    if k + 1 >= len(items) or items[k + 1][0] != 'cp': yield p, False; continue
                    lo = items[k + 1][1]; w = c - 0x10000
                    yield from go(p, k + 2, ci + 1, conj + [v == (z3.LShR(w, 10) + 0xD800), lo == ((w & 0x3FF) + 0xDC00)])
        else:
            for p, bs_ in ref.fork(pc, [(cnd, b) for cnd, b in utf8_cases(c)]):
                if bs_ is None: yield p, False; continue
                L = len(bs_)
                if k + L > len(items) or any(items[k + q][0] != 'raw' for q in range(L)): yield p, False; continue
                yield from go(p, k + L, ci + 1, conj + [items[k + q][1] == bs_[q] for q in range(L)])
    yield from go(pc, 0, 0, [])


def _print_string_task(args):
    ctx, nch, part, utf8 = args
    calib = calibrate()
    ex = ctx.exec(summaries=base_summaries(calib), max_visits=6 * nch + 12)
    F = ex.find(r'^output_style::<impl at [^>]*>::print_string$') if False else None
    cands_f = [n for n in ctx.fns if re.search(r'^output_style::<impl at [^>]*>::print_string$', n) and 'JsonOutputOptions' in ctx.fns[n].params[0][1]]
    if len(cands_f) != 1: raise Broken(f'print_string of JsonOutputOptions: {cands_f}')
    F = ctx.fns[cands_f[0]]
    JO = ctx.structs['JsonOutputOptions']
    st = State()
    so = st.new_obj('self', 'JsonOutputOptions'); selfref = slot(st, ObjV(so), 'self*')
    utf8flag = z3.Bool('utf8_strings'); st.heap[so][('f', None, JO.index('utf8_strings'))] = BoolV(utf8flag)
    if utf8 is not None: st.pc.append(utf8flag if utf8 else z3.Not(utf8flag))
    st.heap[so][('f', None, JO.index('style'))] = named(st, 'style', 'JsonStyle')
    chars = [z3.BitVec(f'c{i}', 32) for i in range(nch)]
    for c in chars: st.pc.append(z3.Or(z3.ULT(c, 0xD800), z3.And(z3.UGE(c, 0xE000), z3.ULE(c, 0x10FFFF))))
    st.pc.append(part(chars[0]))
    sobj = seqobj(st, 'str', [BV(c) for c in chars]); sref = slot(st, sobj, 'str*')
    w = slot(st, named(st, 'W', 'W'), 'w*')
    ex.new_frame(st, F, [selfref, w, sref])
    done = ex.run(st)
    res = {'paths': 0, 'obl': 0, 'ok': 0, 'cands': [], 'samples': []}
    for d in done:
        if d.status == 'infeasible': continue
        res['paths'] += 1
        hav = (d.havoc or [None])[0]
        def cand(role, text, m):
            cps = [m.eval(c, True).as_long() for c in chars] if m is not None else []
            res['cands'].append({'role': role, 'text': text + ' for code points ' + str([hex(x) for x in cps]) + f' utf8_strings={m.eval(utf8flag, True) if m is not None else "?"}',
                                 'model': {'chars': cps, 'utf8_strings': bool(z3.is_true(m.eval(utf8flag, True))) if m is not None else None}, 'unmodelled': hav})
        if d.status != 'returned':
            res['obl'] += 1
            ok_, m = ex.valid(d, z3.BoolVal(False)); cand('path-' + d.status, f'print_string ends as {d.status} {d.notes}', m); continue
        out = [b for e in d.events if e[0] == 'out' for b in e[2]]
        if any(isinstance(b, Tok) for b in out):
            res['obl'] += 1; cand('opaque-token', 'print_string writes something that is not text', None); continue
        ref = Ref(ex, d.pc)
        for p, items in decode_string_token(ref, PC(d.pc), out):
            res['obl'] += 1
            if items is None:
                m = ref.model_of(p)
                cand('malformed-token', 'output is not a well-formed JSON string token: ' + repr(bytes(m.eval(b, True).as_long() for b in out)), m); continue
            good = True
            for p2, f in match_chars(ref, p, items, chars):
                extra = []
                # with utf8_strings off every byte must be printable ASCII
                ascii_ok = z3.Implies(z3.Not(utf8flag), z3.And(*[z3.And(z3.UGE(b, 0x20), z3.ULE(b, 0x7e)) for b in out]))
                prop = False if f is False else z3.And(f, ascii_ok)
                if prop is False:
                    m = ref.model_of(p2); good = False
                else:
                    ex.solver.push(); [ex.solver.add(x) for x in p2]; ex.solver.add(z3.Not(prop)); r = ex.solver.check(); m = ex.solver.model() if r == z3.sat else None; ex.solver.pop(); ex.queries += 1
                    good = r == z3.unsat
                if not good:
                    cand('decodes-differently', 'output decodes to a different string (or is not ASCII without --utf8-strings): ' + repr(bytes(m.eval(b, True).as_long() for b in out)), m); break
            if good:
                res['ok'] += 1
                if len(res['samples']) < 1:
                    m = ref.model_of(p)
                    res['samples'].append({'chars': [hex(m.eval(c, True).as_long()) for c in chars], 'utf8_strings': str(m.eval(utf8flag, True)), 'output': repr(bytes(m.eval(b, True).as_long() for b in out)),
                                           'verdict': 'well-formed token that decodes to the input for every code point on this path'})
    res.update(queries=ex.queries, solver_s=ex.solver_s, unhandled=dict(ex.unhandled), summaries=list(ex.used_summaries), bodies=list(ex.used_bodies))
    return res


import re
CHAR_PARTS = [lambda c: z3.ULT(c, 0x20), lambda c: z3.And(z3.UGE(c, 0x20), z3.ULT(c, 0x30)), lambda c: z3.And(z3.UGE(c, 0x30), z3.ULT(c, 0x5c)),
              lambda c: z3.And(z3.UGE(c, 0x5c), z3.ULT(c, 0x80)), lambda c: z3.And(z3.UGE(c, 0x80), z3.ULT(c, 0x800)),
              lambda c: z3.And(z3.UGE(c, 0x800), z3.ULT(c, 0x10000)), lambda c: z3.UGE(c, 0x10000)]


def print_string(ctx, utf8=None):
    """utf8: None = the flag is free; True / False = only that setting (text and csv fields print nested values with the flag on)"""
    run = ctx.run
    ns = [1, 2] if ctx.quick else [1, 2, 3]
    run.bounds['print_string'] = f'strings of {ns} code points, each any Unicode scalar value (21-bit, surrogates excluded); utf8_strings ' + ('free' if utf8 is None else str(utf8))
    run.assume('core::fmt renders a literal template as its bytes, `{}` of a char as its UTF-8 and `{:04x}` as lower-case hex zero-padded to 4 (template byte code calibrated against the same compiler at run time)')
    fam = run.family('print.string', 'JsonOutputOptions::print_string writes one well-formed RFC 8259 string token that decodes (independent symbolic reader) to exactly the input code points; ASCII only unless --utf8-strings')
    tasks = [(ctx, n, p, utf8) for n in ns for p in CHAR_PARTS]
    results = pmap(_print_string_task, tasks)
    cands = {}
    for r in results:
        run.paths += r['paths']; run.queries += r['queries']; run.solver_s += r['solver_s']
        fam.obligations += r['obl']; fam.discharged += r['ok']; fam.witnesses += r['ok']; fam.paths += r['paths']
        for k, v in r['unhandled'].items(): run.unmodelled[k] += v
        for s in r['summaries']: run.summaries[s] = True
        for b in r['bodies']: run.functions[b] = True
        for s in r['samples']: fam.add_sample(s)
        for c in r['cands']:
            cps = c['model'].get('chars') or [0]
            cls = 'c0-control' if any(x < 0x20 for x in cps) and c['role'].startswith('malformed') else 'astral' if any(x >= 0x10000 for x in cps) else 'c0-control' if any(x < 0x20 for x in cps) else 'other'
            role = c['role'] + ':' + cls + (':utf8' if c['model'].get('utf8_strings') else ':ascii')
            if role not in cands: cands[role] = Candidate(fam.name, role, c['text'], c['model'], unmodelled=c['unmodelled'])
    fam.candidates = list(cands.values())
    replay_print_string(ctx, fam.candidates)


def strict_json_string_ok(line, expected):
    """independent check with python's json (strict=True rejects raw control characters)"""
    try:
        v = json.loads(line, strict=True)
    except Exception as e:
        return False, 'not valid JSON: ' + str(e)[:80]
    return (v == expected), v


def replay_print_string(ctx, cands):
    from .cli import run_jawk, show
    for c in cands:
        cps = c.model.get('chars')
        if not cps:
            c.status = 'unit'; continue
        s = ''.join(chr(x) for x in cps)
        stdin = json.dumps(s).encode()          # ascii-escaped spelling (surrogate pairs for astral)
        if any(x >= 0x10000 for x in cps):
            stdin = ('"' + s + '"').encode('utf-8')      # jawk's reader takes raw UTF-8; \\uD83D escapes are outside C01
        argv = ['--style', 'consise'] + (['--utf8-strings'] if c.model.get('utf8_strings') else [])
        r = run_jawk(ctx, argv, stdin)
        line = r['stdout'].decode('utf-8', errors='replace').rstrip('\n')
        good, got = strict_json_string_ok(line, s)
        if good and not c.model.get('utf8_strings'):
            good = all(0x20 <= b <= 0x7e for b in r['stdout'].rstrip(b'\n'))
        c.replay = {'argv': argv, 'stdin': show(stdin), 'expected_value': s, 'actual_output': show(r['stdout']), 'independent_parser': str(got)[:100]}
        c.status = 'not-reproduced' if good else 'reproduced'


# ---------------------------------------------------------------- numbers and framing
def print_numbers(ctx):
    run = ctx.run
    calib = calibrate()
    fam = run.family('print.number', 'print_u64 / print_i64 / print_f64 hand their argument to Display unchanged (one `{}` placeholder, nothing else)')
    run.assume('Display for u64/i64 and for finite f64 yields an RFC 8259 number that re-reads to the same value (std contract)')
    ex = ctx.exec(summaries=base_summaries(calib), max_visits=8)
    for name, ty in (('print_u64', 'u64'), ('print_i64', 'i64'), ('print_f64', 'f64')):
        for who in ('JsonOutputOptions', 'TextPrinter'):
            cs = [n for n in ctx.fns if re.search(r'^output_style::<impl at [^>]*>::' + name + '$', n) and who in ctx.fns[n].params[0][1]]
            if len(cs) != 1: raise Broken(f'{who}::{name}: {cs}')
            F = ctx.fns[cs[0]]
            st = State(); selfref = slot(st, named(st, 'self', who), 'self*'); w = slot(st, named(st, 'W', 'W'), 'w*')
            v = BV(z3.BitVec('value', 64), ty == 'i64') if ty != 'f64' else named(st, 'VALUE', 'f64')
            ex.new_frame(st, F, [selfref, w, v])
            for d in ex.run(st):
                run.paths += 1
                if d.status == 'infeasible': continue
                fam.obligations += 1; fam.witnesses += 1
                outs = [e for e in d.events if e[0] == 'out']
                good = d.status == 'returned' and len(outs) == 1 and len(outs[0][2]) == 1 and isinstance(outs[0][2][0], Tok)
                if good:
                    t = outs[0][2][0]
                    good = (t.ty == ty) and ((ty == 'f64' and t.value == 'VALUE') or (ty != 'f64' and ex.valid(d, t.value == v.t)[0]))
                if good:
                    fam.discharged += 1; fam.add_sample({'function': f'{who}::{name}', 'event': str(outs[0][2]), 'verdict': 'argument reaches Display unchanged'})
                else:
                    c = Candidate(fam.name, f'{who}.{name}', f'{who}::{name} does not print exactly its argument: {[e[2] for e in outs]} ({d.status})', {'who': who, 'fn': name}, unmodelled=(d.havoc or [None])[0])
                    fam.candidates.append(c)
    run.absorb(ex)
    from .cli import run_jawk, show
    for c in fam.candidates:
        vals = {'print_u64': ['18446744073709551615', '0'], 'print_i64': ['-9223372036854775808', '-1'], 'print_f64': ['1.5', '1e30', '-1e19', '5e-324', '18446744073709551616']}
        argv = ['--style', 'consise'] if c.model['who'] == 'JsonOutputOptions' else ['-o', 'text']
        c.status = 'unit'
        for v_ in vals[c.model['fn']]:
            r = run_jawk(ctx, argv, v_.encode())
            try: same = float(show(r['stdout']).strip()) == float(v_) and (c.model['fn'] == 'print_f64' or show(r['stdout']).strip() == v_)
            except Exception: same = False
            c.replay = {'argv': argv, 'stdin': v_, 'actual': show(r['stdout'])}
            if not same: c.status = 'reproduced'; break


def json_framing(ctx):
    """JsonProcess::process: exactly one write of `{row}{separator}`; start/complete write nothing"""
    run = ctx.run
    calib = calibrate()
    fam = run.family('print.framing', 'JsonProcess::process writes exactly once: the printed row followed by the row separator; a failing write is returned as Err; start/complete write nothing')
    def s_build(ex, st, func, args, ty): return [(st, named(st, 'BUILT', 'JsonValue'))]
    def s_print_something(ex, st, func, args, ty):
        s = obj(st, args[1])
        if 'model' not in st.heap[s.oid]: st.heap[s.oid]['model'] = ()
        st.heap[s.oid]['model'] = tuple(st.heap[s.oid]['model']) + (Tok('row', origin(st, args[2])),)
        return [(st, ok(st, UNIT))]
    def s_borrow_mut(ex, st, func, args, ty): return [(st, named(st, 'refmut:' + origin(st, args[0]), ty))]
    def s_string_new(ex, st, func, args, ty): return [(st, seqobj(st, 'String', ()))]
    summ = [(r'Context::build$', s_build), (r'Print<.*>>::print_something$', s_print_something), (r'RefCell::<.*>::borrow_mut$', s_borrow_mut),
            (r'String::new$', s_string_new), (r'as DerefMut>::deref_mut$| as Deref>::deref$', s_identity)] + base_summaries(calib, 'write_any')
    ex = ctx.exec(summaries=summ, max_visits=8)
    JP = ctx.structs['JsonProcess']
    for meth in ('process', 'start', 'complete'):
        cs = [n for n in ctx.fns if re.search(r'^output_style::<impl at [^>]*>::' + meth + '$', n) and 'JsonProcess' in ctx.fns[n].params[0][1]]
        if len(cs) != 1: raise Broken(f'JsonProcess::{meth}: {cs}')
        st = State(); so = st.new_obj('self', 'JsonProcess'); selfref = slot(st, ObjV(so), 'self*')
        st.heap[so][('f', None, JP.index('line_seperator'))] = seqobj(st, 'String', [Tok('sep', 'self.line_seperator')], origin='self.line_seperator')
        st.heap[so][('f', None, JP.index('writer'))] = named(st, 'self.writer', 'Rc<RefCell<dyn Write>>')
        args = [selfref] + ([named(st, 'ctx', 'Context')] if meth == 'process' else [named(st, 'titles', 'Titles')] if meth == 'start' else [])
        ex.new_frame(st, ctx.fns[cs[0]], args)
        for d in ex.run(st):
            run.paths += 1
            if d.status == 'infeasible': continue
            fam.obligations += 1; fam.witnesses += 1
            outs = [e for e in d.events if e[0] == 'out']
            hav = (d.havoc or [None])[0]
            if d.status != 'returned':
                fam.candidates.append(Candidate(fam.name, f'{meth}-{d.status}', f'JsonProcess::{meth} ends as {d.status} {d.notes}', unmodelled=hav)); continue
            rd = ex.discr(d, obj(d, d.ret)).t
            if meth != 'process':
                good = not outs and ex.valid(d, rd == 0)[0]
            else:
                good = len(outs) == 1 and 'self.writer' in outs[0][1] and [str(x) for x in outs[0][2]] == ['<row:BUILT>', '<sep:self.line_seperator>']
                if good:
                    wd = ex.discr(d, outs[0][3]).t
                    good = ex.valid(d, z3.And(rd == wd, z3.Implies(rd == 0, ex.discr(d, ex.load(d, obj(d, d.ret).oid, ('f', 'Ok', 0), 'ProcessDesision')).t == 0)))[0]
            if good:
                fam.discharged += 1; fam.add_sample({'method': meth, 'writes': [[str(x) for x in e[2]] for e in outs], 'verdict': 'as specified'})
            else:
                fam.candidates.append(Candidate(fam.name, f'{meth}-framing', f'JsonProcess::{meth} writes {[[str(x) for x in e[2]] for e in outs]}', {'meth': meth}, unmodelled=hav))
    run.absorb(ex)
    from .cli import run_driver, show
    for c in fam.candidates:
        r = run_driver(ctx, ['--style', 'consise', '--row-seperator', '|'], b'1 [2] "x"')
        bad_w = None
        for kind in ('other', 'brokenpipe', 'wouldblock'):
            r2 = run_driver(ctx, ['--style', 'consise'], b'1 2', env={'FAIL_WRITE_AT': '1', 'FAIL_WRITE_KIND': kind})
            if not str(r2['result']).startswith('err'): bad_w = (kind, r2['result']); break
        c.replay = {'argv': ['--style', 'consise', '--row-seperator', '|'], 'stdin': '1 [2] "x"', 'expected': '1|[2]|"x"|', 'actual': show(r['stdout']), 'write_failure_not_reported': bad_w}
        c.status = 'reproduced' if r['stdout'] != b'1|[2]|"x"|' or bad_w else 'unit'
        if c.status != 'reproduced':
            # what a row looks like depends on that row only: neighbours that are equal but not identical, selections that share a name,
            # a selection missing in one row and present in the next, a write failure on a long non-ASCII row
            BAT = [([], '{"a":1,"b":2} {"b":2,"a":1} [{"x":1,"y":2}] [{"y":2,"x":1}] 18446744073709551615 18446744073709551616 -9223372036854775808 -9223372036854775809 1 1.0 "a" "a"',
                    '{"a":1,"b":2}\n{"b":2,"a":1}\n[{"x":1,"y":2}]\n[{"y":2,"x":1}]\n18446744073709551615\n18446744073709552000\n-9223372036854775808\n-9223372036854776000\n1\n1\n"a"\n"a"\n'),
                   (['--select', '.id=id', '--select', '.name=name'], '{"id":1,"name":"a"} {"name":"b"} {"id":3,"name":"c"} {"id":4}', '{"id":1,"name":"a"}\n{"name":"b"}\n{"id":3,"name":"c"}\n{"id":4}\n')]
            for argv_, stdin_, exp_ in BAT:
                rb = run_driver(ctx, ['--style', 'consise'] + argv_, stdin_.encode())
                if show(rb['stdout']) != exp_ or rb['result'] != 'ok':
                    c.status = 'reproduced'; c.unmodelled = None; c.replay = {'argv': ['--style', 'consise'] + argv_, 'stdin': stdin_, 'expected_stdout': exp_, 'actual_stdout': show(rb['stdout']), 'result': rb['result']}; break
            if c.status != 'reproduced':
                rd_ = run_driver(ctx, ['--style', 'consise', '--select', '.a=name', '--select', '.b=name'], b'{"a":"Ada","b":"Lovelace"}')
                try:
                    keys = [k for k, _ in json.loads(show(rd_['stdout']), object_pairs_hook=list)]
                    dup = len(keys) != len(set(keys))
                except Exception: dup = True
                if dup: c.status = 'reproduced'; c.unmodelled = None; c.replay = {'argv': ['--select', '.a=name', '--select', '.b=name'], 'stdin': '{"a":"Ada","b":"Lovelace"}', 'what': 'a member name occurs twice in one row', 'actual_stdout': show(rd_['stdout'])}
            if c.status != 'reproduced':
                long_row = json.dumps('x' * 46 + '\u00e9\u4e2d' * 20, ensure_ascii=False).encode('utf-8')
                for extra_ in (['--utf8-strings'], ['-o', 'text']):
                    rw = run_driver(ctx, ['--style', 'consise'] + extra_ if extra_[0] != '-o' else extra_, long_row + b' ' + long_row, env={'FAIL_WRITE_AT': '10'})
                    if not str(rw['result']).startswith('err'):
                        c.status = 'reproduced'; c.unmodelled = None; c.replay = {'argv': extra_, 'stdin': 'a long non-ASCII string, twice', 'write_failure_at': 10, 'result': rw['result']}; break
        if c.status != 'reproduced':
            # a writer that takes one byte per call (short writes are legal for io::Write::write) and a run that must stream: rows are out
            # before a later fatal point
            r3 = run_driver(ctx, ['--style', 'consise', '--row-seperator', '|'], b'1 [2] "x"', env={'WRITE_CHUNK': '1'})
            r4 = run_driver(ctx, ['--style', 'consise', '--on-error', 'panic'], b'{"a":1} [2] x 3')
            if r3['stdout'] != b'1|[2]|"x"|' or r3['result'] != 'ok':
                c.status = 'reproduced'; c.unmodelled = None; c.replay = {'writer': 'accepts one byte per write call', 'expected': '1|[2]|"x"|', 'actual': show(r3['stdout']), 'result': r3['result']}
            elif r4['stdout'] != b'{"a":1}\n[2]\n' or not str(r4['result']).startswith('err'):
                c.status = 'reproduced'; c.unmodelled = None; c.replay = {'argv': ['--on-error', 'panic'], 'stdin': '{"a":1} [2] x 3', 'expected_stdout': '{"a":1}\n[2]\n', 'actual': show(r4['stdout']), 'result': r4['result']}


# ---------------------------------------------------------------- structure x style
def shapes(width, depth):
    leaves = [None, True, 7, 'k']
    def gen(d):
        out = list(leaves)
        if d == 0: return out
        sub = gen(d - 1)
        small = [None, 7, 'k'] + [s for s in sub if isinstance(s, (list, dict))][:6]
        for w in range(0, width + 1):
            if w == 0: out += [[], {}]; continue
            for combo in itertools.islice(itertools.product(small, repeat=w), 0, 40 if w > 1 else 10):
                out.append(list(combo)); out.append({f'k{i}': v for i, v in enumerate(combo)})
        return out
    res = []
    for s in gen(depth):
        if s not in res: res.append(s)
    # member names and strings that need escaping (member names go through the same string printer)
    deep = 7
    for _ in range(30): deep = [deep]
    res += [deep, {'q"': 7}, {'b\\': None}, {'n\n': 'k'}, {'\u00e9': 7, 'k': 'a"b'}, ['a"b', 'c\\d'], {'k': {'q"': [7]}}]
    return res


def build_value(st, ex, v, N):
    JV = ex.enums['JsonValue']; NV = ex.enums['NumberValue']
    if v is None: return mk_enum(st, 'JsonValue', JV.index('Null'))
    if isinstance(v, bool): return mk_enum(st, 'JsonValue', JV.index('Boolean'), 'Boolean', (BoolV(z3.BoolVal(v)),))
    if isinstance(v, int): return mk_enum(st, 'JsonValue', JV.index('Number'), 'Number', (mk_enum(st, 'NumberValue', NV.index('Positive'), 'Positive', (BV(N),)),))
    if isinstance(v, str): return mk_enum(st, 'JsonValue', JV.index('String'), 'String', (seqobj(st, 'String', [BV(z3.BitVecVal(ord(c), 32)) for c in v]),))
    if isinstance(v, list): return mk_enum(st, 'JsonValue', JV.index('Array'), 'Array', (seqobj(st, 'Vec', [build_value(st, ex, x, N) for x in v]),))
    return mk_enum(st, 'JsonValue', JV.index('Object'), 'Object', (seqobj(st, 'IndexMap', [(seqobj(st, 'String', [BV(z3.BitVecVal(ord(c), 32)) for c in k]), build_value(st, ex, x, N)) for k, x in v.items()]),))


def _structure_task(args):
    ctx, chunk = args
    calib = calibrate()
    def s_enumerate(ex, st, func, args, ty):
        it = obj(st, args[0]); items = []
        for i, x in enumerate(st.heap[it.oid]['model']):
            t = named(st, st.fresh_name('ix'), 'tuple'); st.heap[t.oid][('f', None, 0)] = BV(bv64(i)); st.heap[t.oid][('f', None, 1)] = x; items.append(t)
        return [(st, seqobj(st, 'Enumerate', items))]
    def s_map_iter(ex, st, func, args, ty):
        items = []
        for k, v in model(st, args[0]):
            t = named(st, st.fresh_name('kv'), 'tuple'); st.heap[t.oid][('f', None, 0)] = slot(st, k); st.heap[t.oid][('f', None, 1)] = slot(st, v); items.append(t)
        return [(st, seqobj(st, 'Iter', items))]
    def s_ri_new(ex, st, func, args, ty):
        o = named(st, st.fresh_name('ri'), 'RangeInclusive'); st.heap[o.oid]['cur'] = cval(args[0].t); st.heap[o.oid]['end'] = cval(args[1].t)
        if st.heap[o.oid]['cur'] is None or st.heap[o.oid]['end'] is None: raise Broken('symbolic indentation range')
        return [(st, o)]
    def s_ri_next(ex, st, func, args, ty):
        o = obj(st, args[0]); c, e = st.heap[o.oid]['cur'], st.heap[o.oid]['end']
        if c > e: return [(st, none(st))]
        st.heap[o.oid]['cur'] = c + 1; return [(st, some(st, BV(bv64(c))))]
    def s_str_deref(ex, st, func, args, ty): return [(st, args[0])]
    summ = [(r'IndexMap::<.*>::iter$|<&IndexMap<.*> as IntoIterator>::into_iter$', s_map_iter), (r'as Iterator>::enumerate$', s_enumerate),
            (r'impl \[.*\]>::iter$|<&\[.*\] as IntoIterator>::into_iter$|<&Vec<.*> as IntoIterator>::into_iter$', s_iter_ref),
            (r'RangeInclusive::<usize>::new$', s_ri_new), (r'RangeInclusive<usize> as Iterator>::next$', s_ri_next),
            (r'IndexMap::<.*>::len$|impl \[.*\]>::len$|Vec::<.*>::len$', s_seq_len), (r'IndexMap::<.*>::is_empty$|impl \[.*\]>::is_empty$|Vec::<.*>::is_empty$', s_seq_is_empty),
            (r'<std::string::String as Deref>::deref$|<Vec<.*> as Deref>::deref$|String::as_str$', s_str_deref), (r'as IntoIterator>::into_iter$', s_identity)] + base_summaries(calib) + \
           [(r'<Enumerate<.*> as Iterator>::next$|<indexmap::map::Iter<.*> as Iterator>::next$|<std::slice::Iter<.*> as Iterator>::next$', s_iter_next)]
    inl = []
    for name in ctx.fns:
        m = re.match(r'^Print::(print_something|print_number|print)$', name)
        if m:
            inl.append((r'Print<[^>]*>>::%s$' % m.group(1), '^' + re.escape(name) + '$'))
        m = re.match(r'^output_style::<impl at [^>]*>::(print_object_with_indent|print_array_with_indent|insert_indent|insert_comma)$', name)
        if m:
            inl.append((r'JsonOutputOptions::%s(::<W>)?$' % m.group(1), '^' + re.escape(name) + '$'))
        m = re.match(r'^output_style::<impl at [^>]*>::(print_\w+)$', name)
        if m and 'JsonOutputOptions' in ctx.fns[name].params[0][1] and not m.group(1).endswith('_with_indent'):
            inl.append((r'<JsonOutputOptions as Print<[^>]*>>::%s$|<Self as Print<W>>::%s$' % (m.group(1), m.group(1)), '^' + re.escape(name) + '$'))
    ex = ctx.exec(summaries=summ, inline=inl, max_visits=200)
    F = ex.find(r'^Print::print_something$')
    JO = ctx.structs['JsonOutputOptions']; STY = ctx.enums['JsonStyle']
    res = {'paths': 0, 'obl': 0, 'ok': 0, 'cands': [], 'samples': []}
    N = z3.BitVec('N', 64)
    for v in chunk:
        st = State(); so = st.new_obj('self', 'JsonOutputOptions'); selfref = slot(st, ObjV(so), 'self*')
        style = named(st, 'style', 'JsonStyle'); st.heap[so][('f', None, JO.index('style'))] = style
        sd = ex.discr(st, style).t; st.pc.append(z3.And(sd >= 0, sd < len(STY)))
        st.heap[so][('f', None, JO.index('utf8_strings'))] = BoolV(z3.BoolVal(False))      # string escaping is print.string's subject
        val = build_value(st, ex, v, N)
        ex.new_frame(st, F, [selfref, slot(st, named(st, 'W', 'W'), 'w*'), slot(st, val, 'val*')])
        from .mirsym import PathLimit
        try:
            finished = ex.run(st, max_paths=1500)
        except PathLimit as e:
            # a printer that forks at every nesting level (not the case on the pinned tree: 3 paths per shape) cannot be
            # explored on this shape; the shape is handed to the native comparison instead
            res['obl'] += 1
            for sty_ in STY:
                res['cands'].append({'role': f'structure:{sty_}:unexplored', 'text': f'print_something({json.dumps(v)[:60]}): {e}', 'model': {'value': v, 'style': sty_}, 'unmodelled': 'path limit'})
            continue
        for d in finished:
            if d.status == 'infeasible': continue
            res['paths'] += 1; res['obl'] += 1
            hav = (d.havoc or [None])[0]
            ok_, m = ex.valid(d, z3.BoolVal(False))
            sty = STY[m.eval(sd, True).as_long()] if m is not None else '?'
            feas = [x for x in STY if ex.feasible(d, sd == STY.index(x))]
            if d.status != 'returned':
                res['cands'].append({'role': f'path-{d.status}', 'text': f'print_something({json.dumps(v)}) {sty}: {d.status} {d.notes[-1:]}', 'model': {'value': v, 'style': sty}, 'unmodelled': hav}); continue
            out = [b for e in d.events if e[0] == 'out' for b in e[2]]
            txt = ''
            bad = None
            for b in out:
                if isinstance(b, Tok):
                    if b.ty != 'u64' or not ex.valid(d, b.value == N)[0]: bad = 'number token is not the value'
                    txt += '7'
                else:
                    c = cval(b)
                    if c is None: bad = 'symbolic byte in structural output'; break
                    txt += chr(c)
            exps = {'OneLine': json.dumps(v), 'Consise': json.dumps(v, separators=(',', ':')), 'Pretty': json.dumps(v, indent=2)}
            for x in feas:       # every style this path stands for
                if bad is None and txt != exps[x]: bad = f'prints {txt!r}, expected {exps[x]!r}'; sty = x
            if bad is None:
                res['ok'] += 1
                if len(feas) == 1 and not d.havoc and isinstance(v, (list, dict)) and len(res.setdefault('texts', [])) < 6: res['texts'].append((v, sty, txt))
                if sty == 'Pretty' and isinstance(v, (list, dict)) and len(v) >= 2 and len(res['samples']) < 1:
                    res['samples'].append({'value': v, 'style': sty, 'text': txt, 'verdict': 'RFC 8259 text of the value with the style\'s whitespace, for every number N'})
            else:
                kind = 'nested' if any(isinstance(x, (list, dict)) for x in (v.values() if isinstance(v, dict) else v if isinstance(v, list) else [])) else 'flat' if isinstance(v, (list, dict)) else 'scalar'
                nval = m.eval(N, True).as_long() if m is not None else 7
                if 'number token' in bad:
                    # find an N for which the printed number differs: ask the solver for a model of (token != N)
                    for b in out:
                        if isinstance(b, Tok) and b.ty in ('u64', 'i64') and not isinstance(b.value, str):
                            okn, m2 = ex.valid(d, z3.ZeroExt(0, b.value) == N) if b.value.size() == 64 else (True, None)
                            if m2 is not None: nval = m2.eval(N, True).as_long()
                res['cands'].append({'role': f'structure:{sty}:{kind}' if 'number token' not in bad else 'structure:number', 'text': f'{sty} output of {json.dumps(v)}: {bad}' + (f' (N = {nval})' if 'number token' in bad else ''),
                                     'model': {'value': v, 'style': sty, 'N': nval}, 'unmodelled': hav})
    res.update(queries=ex.queries, solver_s=ex.solver_s, unhandled=dict(ex.unhandled), summaries=list(ex.used_summaries), bodies=list(ex.used_bodies))
    return res


def print_structure(ctx):
    run = ctx.run
    width, depth = (2, 2) if ctx.quick else (3, 2)
    sh = shapes(width, depth)
    run.bounds['print structure'] = f'{len(sh)} value shapes: containers up to {width} wide and {depth} deep over leaves null/true/number(any u64)/string; the style is a free variable'
    fam = run.family('print.structure', 'for every shape and style the output is the RFC 8259 text of the value: concise without whitespace, one-line `, `/`: ` separated, pretty one element per line with 2*depth spaces')
    chunks = [sh[i::16] for i in range(16)]
    results = pmap(_structure_task, [(ctx, c) for c in chunks if c])
    seen = {}
    for r in results:
        run.paths += r['paths']; run.queries += r['queries']; run.solver_s += r['solver_s']
        fam.obligations += r['obl']; fam.discharged += r['ok']; fam.witnesses += r['ok']; fam.paths += r['paths']
        for k, v in r['unhandled'].items(): run.unmodelled[k] += v
        for s in r['summaries']: run.summaries[s] = True
        for b in r['bodies']: run.functions[b] = True
        for s in r['samples']: fam.add_sample(s)
        for c in r['cands']:
            seen.setdefault(c['role'], []).append(c)
    # one candidate per role; among the shapes of a role the one that reproduces natively is reported (deepest first)
    def depth_of(x): return 1 + max([depth_of(y) for y in (x.values() if isinstance(x, dict) else x)] or [0]) if isinstance(x, (list, dict)) else 0
    alts = {}
    fam.candidates = []
    for role, cs in seen.items():
        cs.sort(key=lambda c: -depth_of(c['model'].get('value')))
        fam.candidates.append(Candidate(fam.name, role, cs[0]['text'], cs[0]['model'], unmodelled=cs[0]['unmodelled']))
        alts[role] = cs[:24]
    from .cli import run_jawk, show
    # translator self-check: for a sample of shapes the text the MIR execution produced (recorded by the workers) is
    # compared with what the real binary prints
    checked = 0
    for r in results:
        for v_, sty_, txt_ in r.get('texts', [])[:3]:
            rr = run_jawk(ctx, ['--style', {'OneLine': 'one-line', 'Consise': 'consise', 'Pretty': 'pretty'}[sty_]], json.dumps(v_).encode())
            if show(rr['stdout']) != txt_ + '\n':
                raise Broken(f'translator self-check (printer): MIR execution prints {txt_!r} for {v_} in style {sty_}, the real binary prints {show(rr["stdout"])!r}')
            checked += 1
    run.notes.append(f'printer self-check: {checked} (shape, style) texts produced by the MIR execution compared with the real binary: all agree')
    for c in fam.candidates:
      for alt in alts.get(c.role, [None]):
          if alt is not None: c.model = alt['model']; c.text = alt['text']
          if 'value' not in c.model: break
          v = c.model['value']; sty = c.model.get('style', 'OneLine')
          nval = c.model.get('N', 7)
          def subst(x):
              if isinstance(x, bool) or x is None: return x
              if isinstance(x, int): return nval
              if isinstance(x, list): return [subst(y) for y in x]
              if isinstance(x, dict): return {k: subst(y) for k, y in x.items()}
              return x
          v = subst(v)
          argv = ['--style', {'OneLine': 'one-line', 'Consise': 'consise', 'Pretty': 'pretty'}[sty]]
          r = run_jawk(ctx, argv, json.dumps(v).encode())
          exp = {'OneLine': json.dumps(v), 'Consise': json.dumps(v, separators=(',', ':')), 'Pretty': json.dumps(v, indent=2)}[sty] + '\n'
          c.replay = {'argv': argv, 'stdin': json.dumps(v), 'expected': exp, 'actual': show(r['stdout'])}
          c.status = 'reproduced' if show(r['stdout']) != exp else ('unit' if c.role == 'structure:number' else 'not-reproduced')
          if c.status == 'reproduced': break
