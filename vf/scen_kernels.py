"""Function kernels on collections and strings (src/functions/**): the closure's MIR with Vec / IndexMap / String
sequence models of concrete length, opaque elements, free u64 counts, strings as symbolic well-formed UTF-8."""
import json, re
import z3
from .lib import *
from .report import Candidate, Broken
from .scen_parser import utf8_valid


# ---------------------------------------------------------------- value builders
def jv(st, ex, name, payload=None, var=None):
    JV = ex.enums['JsonValue']
    return mk_enum(st, 'JsonValue', JV.index(name), var or name, (payload,) if payload is not None else ())


def mk_array(st, ex, k, tag='E'):
    return jv(st, ex, 'Array', seqobj(st, 'Vec', [named(st, f'{tag}{i}', 'JsonValue') for i in range(k)]))


def mk_object(st, ex, k):
    return jv(st, ex, 'Object', seqobj(st, 'IndexMap', [(named(st, f'K{i}', 'String'), named(st, f'V{i}', 'JsonValue')) for i in range(k)]))


def mk_string(st, ex, bytes_):
    return jv(st, ex, 'String', seqobj(st, 'String', [BV(b) for b in bytes_]))


def mk_num(st, ex, term):
    NV = ex.enums['NumberValue']
    return jv(st, ex, 'Number', mk_enum(st, 'NumberValue', NV.index('Positive'), 'Positive', (BV(term),)))


# ---------------------------------------------------------------- summaries
PANICS = []


def s_try_into_usize(ex, st, func, args, ty):
    nv = obj(st, args[0]); NV = ex.enums['NumberValue']
    d = cval(ex.discr(st, nv).t)
    if d == NV.index('Positive'):
        return [(st, ok(st, st.heap[nv.oid][('f', 'Positive', 0)]))]
    return [(st, err(st, named(st, st.fresh_name('casterr'), 'CastError')))]


def s_len(ex, st, func, args, ty):
    o = obj(st, args[0])
    if 'model' not in st.heap[o.oid]: raise Broken(f'len of an unmodelled container {st.meta[o.oid]} in {func}; keys {list(st.heap[o.oid])[:5]}')
    return [(st, BV(bv64(len(model(st, args[0])))))]
def s_with_capacity(ex, st, func, args, ty): return [(st, seqobj(st, 'IndexMap' if 'IndexMap' in func else 'Vec', ()))]
def s_into_jv(ex, st, func, args, ty):
    src = obj(st, args[0]); t = st.meta[src.oid][1]
    if 'IndexMap' in func or t == 'IndexMap': return [(st, jv(st, ex, 'Object', src))]
    if 'String' in func or '&str' in func or 'str' == t or t == 'String': return [(st, jv(st, ex, 'String', src))]
    if 'usize' in func or 'bool' in func or 'f64' in func: return None
    return [(st, jv(st, ex, 'Array', src))]
def s_map_into_iter(ex, st, func, args, ty):
    items = []
    for k, v in model(st, args[0]):
        t = named(st, st.fresh_name('kv'), 'tuple'); st.heap[t.oid][('f', None, 0)] = k; st.heap[t.oid][('f', None, 1)] = v; items.append(t)
    return [(st, seqobj(st, 'IntoIter', items))]
def same_key(st, a, b):
    """keys are opaque tags (compared by name) in the symbolic scenarios and concrete byte strings in the self-check"""
    a, b = obj(st, a), obj(st, b)
    ha, hb = st.heap[a.oid], st.heap[b.oid]
    if 'model' in ha and 'model' in hb:
        va = [cval(x.t) for x in ha['model']]; vb = [cval(x.t) for x in hb['model']]
        if None not in va and None not in vb: return va == vb
    return origin(st, a) == origin(st, b)


def s_map_insert(ex, st, func, args, ty):
    mp = obj(st, args[0]); k = obj(st, args[1]); items = list(model(st, mp)); name = origin(st, k)
    for i, (kk, vv) in enumerate(items):
        if same_key(st, kk, k):          # key names are distinct concrete tags in these scenarios
            items[i] = (kk, args[2]); set_model(st, mp, items); return [(st, some(st, vv))]
    set_model(st, mp, items + [(k, args[2])]); return [(st, none(st))]
def s_contains_key(ex, st, func, args, ty):
    mp = obj(st, args[0])
    return [(st, BoolV(z3.BoolVal(any(same_key(st, kk, args[1]) for kk, _ in model(st, mp)))))]
def s_enumerate(ex, st, func, args, ty):
    it = obj(st, args[0]); items = []
    for i, x in enumerate(st.heap[it.oid]['model']):
        t = named(st, st.fresh_name('ix'), 'tuple'); st.heap[t.oid][('f', None, 0)] = BV(bv64(i)); st.heap[t.oid][('f', None, 1)] = x; items.append(t)
    return [(st, seqobj(st, 'Enumerate', items))]
def s_vec_insert(ex, st, func, args, ty):
    v = obj(st, args[0]); i = cval(args[1].t); m = list(model(st, v))
    if i is None: raise Broken('Vec::insert at a symbolic index')
    m.insert(i, args[2]); set_model(st, v, m); return [(st, UNIT)]
def s_first(ex, st, func, args, ty):
    m = model(st, args[0]); return [(st, some(st, slot(st, m[0])) if m else none(st))]
def s_last(ex, st, func, args, ty):
    m = model(st, args[0]); return [(st, some(st, slot(st, m[-1])) if m else none(st))]
def s_cloned(ex, st, func, args, ty):
    o = obj(st, args[0])
    if 'model' in st.heap[o.oid]: return [(st, seqobj(st, 'Cloned', [obj(st, x) for x in st.heap[o.oid]['model']]))]
    d = cval(ex.discr(st, o).t)
    if d == 0: return [(st, none(st))]
    return [(st, some(st, obj(st, st.heap[o.oid][('f', 'Some', 0)])))]
def s_string_new(ex, st, func, args, ty): return [(st, seqobj(st, 'String', ()))]
def s_to_string(ex, st, func, args, ty):
    o = obj(st, args[0])
    if 'model' in st.heap[o.oid]: return [(st, seqobj(st, 'String', model(st, o)))]
    return None


def boundary(bs, i):
    """is byte offset i a char boundary of the byte string bs (terms)"""
    if i == 0 or i == len(bs): return z3.BoolVal(True)
    return (bs[i] & 0xC0) != 0x80


def s_str_index(ex, st, func, args, ty):
    """<String as Index<Range*<usize>>>::index: panics unless in range and on char boundaries"""
    s = obj(st, args[0]); m = list(model(st, s)); bs = [b.t for b in m]; n = len(m)
    r = obj(st, args[1])
    kind = 'to' if 'RangeTo<' in func else 'from' if 'RangeFrom<' in func else 'range'
    f0 = st.heap[r.oid].get(('f', None, 0)); f1 = st.heap[r.oid].get(('f', None, 1))
    if kind == 'to': lo_t, hi_t = z3.BitVecVal(0, 64), f0.t
    elif kind == 'from': lo_t, hi_t = f0.t, z3.BitVecVal(n, 64)
    else: lo_t, hi_t = f0.t, f1.t
    out = []; okc = []
    for lo in range(n + 1):
        for hi in range(lo, n + 1):
            c = z3.And(lo_t == lo, hi_t == hi, boundary(bs, lo), boundary(bs, hi))
            if z3.is_false(z3.simplify(c)): continue
            okc.append(c)
            if ex.feasible(st, c):
                s2 = st.clone(); s2.pc.append(c); out.append((s2, slot(s2, seqobj(s2, 'str', m[lo:hi]))))
    bad = z3.Not(z3.Or(*okc)) if okc else z3.BoolVal(True)
    if ex.feasible(st, bad):
        s2 = st.clone(); s2.pc.append(bad); s2.status = 'panic'; s2.notes.append('string slice out of range or not on a char boundary'); PANICS.append(s2)
    return out


def s_chars(ex, st, func, args, ty):
    """str::chars on symbolic well-formed UTF-8: fork over the segmentations into code points the path allows;
    a char is carried as the tuple of its bytes"""
    m = list(model(st, args[0])); bs = [b.t for b in m]
    out = []
    def go(s_, i, groups, cur):
        if i == len(bs):
            it = seqobj(s_, 'CharIter', [tuple(g) for g in groups + ([cur] if cur else [])])
            s_.heap[it.oid]['skip'] = None; s_.heap[it.oid]['take'] = None
            out.append((s_, it)); return
        if i == 0:
            go(s_, 1, groups, [m[0]]); return
        start = (bs[i] & 0xC0) != 0x80
        for c, isstart in ((start, True), (z3.Not(start), False)):
            if ex.feasible(s_, c):
                s2 = s_.clone(); s2.pc.append(c)
                if isstart: go(s2, i + 1, groups + [cur], [m[i]])
                else: go(s2, i + 1, groups, cur + [m[i]])
    go(st, 0, [], [])
    return out


def s_iter_count(ex, st, func, args, ty):
    it = obj(st, args[0]); return [(st, BV(bv64(len(st.heap[it.oid]['model']))))]


def _cut(ex, st, args, which):
    """Iterator::take(n) / skip(n) on a modelled iterator: fork over the effective count, so that everything downstream
    has a concrete length"""
    it = obj(st, args[0]); items = list(st.heap[it.oid]['model']); L = len(items); n = args[1].t; out = []
    for k in range(L + 1):
        c = (n == k) if k < L else z3.UGE(n, L)
        if ex.feasible(st, c):
            s2 = st.clone(); s2.pc.append(c)
            o = seqobj(s2, st.meta[it.oid][1], items[:k] if which == 'take' else items[k:]); out.append((s2, o))
    return out


def s_iter_skip(ex, st, func, args, ty): return _cut(ex, st, args, 'skip')
def s_iter_take(ex, st, func, args, ty): return _cut(ex, st, args, 'take')


def s_collect_string(ex, st, func, args, ty):
    it = obj(st, args[0]); items = list(st.heap[it.oid]['model'])
    return [(st, seqobj(st, 'String', [b for g in items for b in (g if isinstance(g, tuple) else (g,))]))]


def s_collect_map(ex, st, func, args, ty):
    """collect::<IndexMap<K, V>>() of (key, value) pairs: later equal keys replace earlier ones in place"""
    it = obj(st, args[0]); pairs = []
    for t in st.heap[it.oid]['model']:
        t = obj(st, t); k = obj(st, st.heap[t.oid][('f', None, 0)]); v = st.heap[t.oid][('f', None, 1)]
        for i_, (kk, vv) in enumerate(pairs):
            if same_key(st, kk, k): pairs[i_] = (kk, v); break
        else: pairs.append((k, v))
    return [(st, seqobj(st, 'IndexMap', pairs))]


def s_mem_take(ex, st, func, args, ty):
    """std::mem::take(&mut x): the old value out, an empty default in"""
    r = args[0]; old = deref(st, r)
    if isinstance(old, ObjV) and 'model' in st.heap[old.oid]:
        st.heap[r.oid][r.key] = seqobj(st, st.meta[old.oid][1], ())
        return [(st, old)]
    return None


def s_vec_index_range(ex, st, func, args, ty):
    """<Vec<T> as Index<Range*<usize>>>::index / <[T]>::index: panics unless start <= end <= len"""
    s = obj(st, args[0]); m = list(model(st, s)); n = len(m)
    r = obj(st, args[1])
    kind = 'to' if 'RangeTo<' in func else 'from' if 'RangeFrom<' in func else 'range'
    f0 = st.heap[r.oid].get(('f', None, 0)); f1 = st.heap[r.oid].get(('f', None, 1))
    if kind == 'to': lo_t, hi_t = z3.BitVecVal(0, 64), f0.t
    elif kind == 'from': lo_t, hi_t = f0.t, z3.BitVecVal(n, 64)
    else: lo_t, hi_t = f0.t, f1.t
    out = []; okc = []
    for lo in range(n + 1):
        for hi in range(lo, n + 1):
            c = z3.And(lo_t == lo, hi_t == hi)
            if z3.is_false(z3.simplify(c)): continue
            okc.append(c)
            if ex.feasible(st, c):
                s2 = st.clone(); s2.pc.append(c); out.append((s2, slot(s2, seqobj(s2, 'slice', m[lo:hi]))))
    bad = z3.Not(z3.Or(*okc)) if okc else z3.BoolVal(True)
    if ex.feasible(st, bad):
        s2 = st.clone(); s2.pc.append(bad); s2.status = 'panic'; s2.notes.append('slice index out of range'); PANICS.append(s2)
    return out


def s_to_vec(ex, st, func, args, ty): return [(st, seqobj(st, 'Vec', model(st, args[0])))]


def s_map_get(ex, st, func, args, ty):
    mp = obj(st, args[0])
    for kk, vv in model(st, mp):
        if same_key(st, kk, args[1]): return [(st, some(st, slot(st, vv)))]
    return [(st, none(st))]


def s_vec_get(ex, st, func, args, ty):
    v = obj(st, args[0]); m = model(st, v); i = args[1].t; out = []
    for k in range(len(m)):
        if ex.feasible(st, i == k):
            s2 = st.clone(); s2.pc.append(i == k); out.append((s2, some(s2, slot(s2, model(s2, obj(s2, args[0]))[k]))))
    c = z3.UGE(i, len(m))
    if ex.feasible(st, c):
        s2 = st.clone(); s2.pc.append(c); out.append((s2, none(s2)))
    return out


def s_map_keys(ex, st, func, args, ty): return [(st, seqobj(st, 'Keys', [slot(st, k) if 'into' not in func else k for k, _ in model(st, args[0])]))]
def s_map_values(ex, st, func, args, ty): return [(st, seqobj(st, 'Values', [slot(st, v) if 'into' not in func else v for _, v in model(st, args[0])]))]
def s_collect_vec(ex, st, func, args, ty): return [(st, seqobj(st, 'Vec', [obj(st, x) for x in model(st, args[0])]))]
def s_map_into_json(ex, st, func, args, ty):
    """iter.map(Into::into) / map(JsonValue::from) over strings or values: strings become JsonValue::String"""
    it = obj(st, args[0]); out = []
    for x in model(st, it):
        x = obj(st, x)
        out.append(jv(st, ex, 'String', x) if st.meta[x.oid][1] == 'String' else x)
    return [(st, seqobj(st, 'Mapped', out))]


def s_range_next(ex, st, func, args, ty):
    r = obj(st, args[0]); a = st.heap[r.oid][('f', None, 0)]; b = st.heap[r.oid][('f', None, 1)]
    av = cval(a.t)
    out = []
    c = z3.ULT(a.t, b.t)
    if ex.feasible(st, z3.Not(c)):
        s2 = st.clone(); s2.pc.append(z3.Not(c)); out.append((s2, none(s2)))
    if ex.feasible(st, c):
        st.pc.append(c); rr = obj(st, args[0]); st.heap[rr.oid][('f', None, 0)] = BV(a.t + 1, a.signed); out.append((st, some(st, a)))
    return out


def s_usize_into(ex, st, func, args, ty):
    NV = ex.enums['NumberValue']
    return [(st, jv(st, ex, 'Number', mk_enum(st, 'NumberValue', NV.index('Positive'), 'Positive', (args[0],))))]


def make_summaries(argtable):
    def s_apply(ex, st, func, args, ty):
        idx = cval(args[2].t)
        st.events.append(('apply', idx, origin(st, args[1])))
        b = argtable.get(idx)
        if b is None: return [(st, none(st))]
        return [(st, some(st, b(st, ex)))]
    def dyn_get(ex, st, func, args, ty):
        g = origin(st, args[0]); m = re.match(r'G(\d+)$', g)
        if not m: raise Broken('getter call on an unknown receiver ' + g)
        idx = int(m.group(1)); st.events.append(('apply', idx, origin(st, args[1])))
        b = argtable.get(idx)
        return [(st, none(st) if b is None else some(st, b(st, ex)))]
    return [(r'Arguments>::apply$', s_apply), (r'<dyn Get as Get>::get$', dyn_get), (r'<NumberValue as TryInto<usize>>::try_into$|<usize as TryFrom<NumberValue>>::try_from$', s_try_into_usize),
            (r'Vec::<.*>::len$|String::len$|IndexMap::<.*>::len$|impl str>::len$', s_len), (r'Vec::<.*>::is_empty$|IndexMap::<.*>::is_empty$|String::is_empty$', s_seq_is_empty),
            (r'Vec::<.*>::with_capacity$|IndexMap::<.*>::with_capacity$|Vec::<.*>::new$|IndexMap::<.*>::new$', s_with_capacity),
            (r'<IndexMap<.*> as IntoIterator>::into_iter$', s_map_into_iter), (r'<Vec<.*> as IntoIterator>::into_iter$', s_iter_val),
            (r'<&Vec<.*> as IntoIterator>::into_iter$|impl \[.*\]>::iter$', s_iter_ref), (r'as Iterator>::enumerate$', s_enumerate),
            (r'as IntoIterator>::into_iter$', s_identity), (r'<std::ops::Range<usize> as Iterator>::next$', s_range_next), (r'as Iterator>::next$', s_iter_next),
            (r'as Iterator>::rev$|DoubleEndedIterator>::rev$', s_iter_rev),
            (r'impl str>::chars$', s_chars), (r'as Iterator>::count$', s_iter_count), (r'as Iterator>::skip$', s_iter_skip), (r'as Iterator>::take$', s_iter_take),
            (r'as Iterator>::collect::<std::string::String>$|as Iterator>::collect::<String>$', s_collect_string), (r'as Iterator>::collect::<IndexMap<', s_collect_map), (r'std::mem::take::<', s_mem_take),
            (r'Vec::<.*>::push$', s_seq_push), (r'Vec::<.*>::insert$', s_vec_insert), (r'IndexMap::<.*>::insert$', s_map_insert), (r'IndexMap::<.*>::contains_key::', s_contains_key),
            (r'IndexMap::<.*>::get::<', s_map_get), (r'impl \[.*\]>::get::<usize>$|Vec::<.*>::get::<usize>$', s_vec_get), (r'IndexMap::<.*>::keys$|IndexMap::<.*>::into_keys$', s_map_keys), (r'IndexMap::<.*>::values$|IndexMap::<.*>::into_values$', s_map_values),
            (r'as Iterator>::collect::<Vec<', s_collect_vec), (r'as Iterator>::map::<JsonValue', s_map_into_json),
            (r'impl \[.*\]>::first$', s_first), (r'impl \[.*\]>::last$', s_last), (r'Option::<.*>::cloned$|as Iterator>::cloned(::<.*>)?$', s_cloned),
            (r'<Vec<.*> as Clone>::clone$|<IndexMap<.*> as Clone>::clone$', lambda ex, st, f, a, t: [(st, seqobj(st, st.meta[obj(st, a[0]).oid][1], model(st, a[0])))]),
            (r'<JsonValue as Clone>::clone$|<std::string::String as Clone>::clone$', s_clone_shared), (r'as Deref>::deref$', s_identity),
            (r'<Vec<.*> as Index<.*Range.*>>::index$|<\[.*\] as Index<.*Range.*>>::index$', s_vec_index_range), (r'impl \[.*\]>::to_vec$|slice::<impl \[.*\]>::to_vec', s_to_vec),
            (r'String::new$', s_string_new), (r'ToString>::to_string$', s_to_string), (r'<std::string::String as Index<.*>>::index$|<str as Index<.*>>::index$', s_str_index),
            (r'<usize as Into<JsonValue>>::into$|<JsonValue as From<usize>>::from$', s_usize_into),
            (r' as Into<JsonValue>>::into$|<JsonValue as From<.*>>::from$|<&str as Into<std::string::String>>::into$|<std::string::String as From<&str>>::from$', s_into_generic)]


def s_into_generic(ex, st, func, args, ty):
    if 'Into<std::string::String>' in func or 'String as From<&str>' in func:
        return [(st, seqobj(st, 'String', model(st, args[0])))]
    return s_into_jv(ex, st, func, args, ty)


# ---------------------------------------------------------------- denotation of results
def show(st, ex, v):
    """python description of a result: None | ('array',[names]) | ('object',[(k,v)]) | ('string', [byte terms]) | ('num', term) | ('opaque', name)"""
    v = obj(st, v)
    if 'discr' not in st.heap[v.oid]: return ('opaque', origin(st, v))
    if st.meta[v.oid][1] != 'JsonValue' and 'JsonValue' not in str(st.meta[v.oid][1]): return ('opaque', origin(st, v))
    d = cval(ex.discr(st, v).t)
    if d is None or d >= len(ex.enums['JsonValue']): return ('symbolic-variant', origin(st, v))
    name = ex.enums['JsonValue'][d]
    if name == 'Array': return ('array', [origin(st, x) for x in model(st, st.heap[v.oid][('f', 'Array', 0)])])
    if name == 'Object': return ('object', [(origin(st, k), origin(st, x)) for k, x in model(st, st.heap[v.oid][('f', 'Object', 0)])])
    if name == 'String': return ('string', [b.t for b in model(st, st.heap[v.oid][('f', 'String', 0)])])
    if name == 'Number':
        nv = obj(st, st.heap[v.oid][('f', 'Number', 0)]); nd = ex.enums['NumberValue'][cval(ex.discr(st, nv).t)]
        return ('num', nd, st.heap[nv.oid][('f', nd, 0)].t)
    return (name.lower(),)


# ---------------------------------------------------------------- the kernel table
N = z3.BitVec('N', 64); M_ = z3.BitVec('M', 64)
LIM = 10 ** 4


def ite_list(cases, default):
    """cases: [(cond, pylist)] -> reference as list of (cond, value)"""
    return cases + [(z3.And(*[z3.Not(c) for c, _ in cases]), default)]


def ref_take(k, elems): return [(N == i, elems[:i]) for i in range(k)] + [(z3.UGE(N, k), elems)]
def ref_take_last(k, elems): return [(N == i, elems[k - i:]) for i in range(k)] + [(z3.UGE(N, k), elems)]
def ref_sub(k, elems):
    out = []
    for s in range(k + 1):
        for l in range(k - s + 1):
            if s < k or l == 0:
                pass
    cases = []
    for s in range(k):
        for l in range(k - s):
            cases.append((z3.And(N == s, M_ == l), elems[s:s + l]))
        cases.append((z3.And(N == s, z3.UGE(M_, k - s)), elems[s:]))
    cases.append((z3.UGE(N, k), []))
    return cases


KERNELS = {
    # name: (body regex, arg builders by kind, reference(kind, k, elems) -> [(cond, expected)], counts used)
    'take': (r'take::get::\{closure#0\}::<impl at [^>]*>::get$', 'coll+N', ref_take),
    'take_last': (r'take_last::get::\{closure#0\}::<impl at [^>]*>::get$', 'coll+N', ref_take_last),
    'sub': (r'sub::get::\{closure#0\}::<impl at [^>]*>::get$', 'coll+N+M', ref_sub),
    'pop': (r'(^|::)pop::get::\{closure#0\}::<impl at [^>]*>::get$', 'arr', lambda k, e: [(z3.BoolVal(True), e[:-1])]),
    'pop_first': (r'pop_first::get::\{closure#0\}::<impl at [^>]*>::get$', 'arr', lambda k, e: [(z3.BoolVal(True), e[1:])]),
    'reverese': (r'reverese::get::\{closure#0\}::<impl at [^>]*>::get$', 'arr', lambda k, e: [(z3.BoolVal(True), e[::-1])]),
    'push': (r'(^|::)push::get::\{closure#0\}::<impl at [^>]*>::get$', 'arr+X', lambda k, e: [(z3.BoolVal(True), e + ['X'])]),
    'push_front': (r'push_front::get::\{closure#0\}::<impl at [^>]*>::get$', 'arr+X', lambda k, e: [(z3.BoolVal(True), ['X'] + e)]),
    'first': (r'(^|::)first::get::\{closure#0\}::<impl at [^>]*>::get$', 'arr->elem', lambda k, e: [(z3.BoolVal(True), e[0] if e else None)]),
    'last': (r'(^|::)last::get::\{closure#0\}::<impl at [^>]*>::get$', 'arr->elem', lambda k, e: [(z3.BoolVal(True), e[-1] if e else None)]),
    'size': (r'(^|::)size::get::\{closure#0\}::<impl at [^>]*>::get$', 'sizeof', None),
    'get': (r'collection::get::get::\{closure#0\}::<impl at [^>]*>::get$|(^|::)get::get::\{closure#0\}::<impl at [^>]*>::get$', 'index', None),
    'range': (r'list_producers::range::get::\{closure#0\}::<impl at [^>]*>::get$|(^|::)range::get::\{closure#0\}::<impl at [^>]*>::get$', 'range', None),
    'put': (r'(^|::)put::get::\{closure#0\}::<impl at [^>]*>::get$', 'put', None),
    'keys': (r'(^|::)keys::get::\{closure#0\}::<impl at [^>]*>::get$', 'keys', None),
    'values': (r'(^|::)values::get::\{closure#0\}::<impl at [^>]*>::get$', 'values', None),
    'default': (r'flow::default::get::\{closure#0\}::<impl at [^>]*>::get$|(^|::)default::get::\{closure#0\}::<impl at [^>]*>::get$', 'default', None),
    'head': (r'head::get::\{closure#0\}::<impl at [^>]*>::get$', 'str+N', ref_take),
    'tail': (r'tail::get::\{closure#0\}::<impl at [^>]*>::get$', 'str+N', lambda k, e: [(N == i, e[i:]) for i in range(k)] + [(z3.UGE(N, k), e)] if False else [(N == i, e[i:]) for i in range(k + 1)] + [(z3.UGT(N, k), e)]),
}


def char_starts(bs):
    """[z3 bool] per byte offset: a code point starts here"""
    return [z3.BoolVal(True) if i == 0 else (b & 0xC0) != 0x80 for i, b in enumerate(bs)]


def kernels(ctx, names=None, strings=True):
    run = ctx.run
    K = 3 if ctx.quick else 4
    run.bounds['kernels'] = f'arrays / objects of 0..{K} opaque elements, counts N (and M) any u64; strings: every well-formed UTF-8 byte string of 0..3 bytes (all code point widths at every offset); wrong-typed first argument (number) and absent count'
    run.assume('Vec / IndexMap / String are modelled as sequences of concrete length per path; string slicing panics unless in range and on char boundaries (std contract)')
    names = names or list(KERNELS)
    allc = []
    for name in names:
        body_rx, kind, ref = KERNELS[name]
        fam = run.family(f'fn.{name}', f'({name} ...) returns what its documentation prescribes for every count, keeps element/member order, gives nothing for ill-typed arguments, and never panics')
        shapes = []
        if kind.startswith('coll'):
            shapes = [('array', k) for k in range(K + 1)] + [('object', k) for k in range(K + 1)] + ([('string', k) for k in range(0, 4)] if strings else []) + [('number', 0)]
        elif kind.startswith('arr'):
            shapes = [('array', k) for k in range(K + 1)] + [('number', 0), ('string', 1)]
        elif kind.startswith('str'):
            shapes = [('string', k) for k in range(0, 4)] + [('number', 0), ('array', 1)]
        elif kind == 'sizeof':
            shapes = [('array', k) for k in range(K + 1)] + [('object', k) for k in range(K + 1)] + [('string', k) for k in range(0, 4)] + [('number', 0)]
        elif kind == 'index':
            shapes = [('array', k) for k in range(K + 1)] + [('object', k) for k in range(K + 1)] + [('number', 0), ('string', 1)]
        elif kind == 'range':
            shapes = [('number', 0), ('array', 1), ('string', 1)]
        elif kind in ('put', 'keys', 'values'):
            shapes = [('object', k) for k in range(K + 1)] + [('array', 1), ('number', 0)]
        elif kind == 'default':
            shapes = [('dflt', i) for i in range(8)]
        for shape, k in shapes:
            for absent_count in ((False, True) if '+N' in kind and k == 1 and shape != 'number' else (False,)):
                sbytes = [z3.BitVec(f's{i}', 8) for i in range(k)] if shape == 'string' else []
                def a0(st, ex, shape=shape, k=k, sbytes=sbytes):
                    if shape == 'array': return mk_array(st, ex, k)
                    if shape == 'object': return mk_object(st, ex, k)
                    if shape == 'string': return mk_string(st, ex, sbytes)
                    return mk_num(st, ex, z3.BitVec('A0', 64))
                table = {0: a0}
                variants_extra = [None]
                if kind == 'default':
                    # G0, G1: nothing (bit clear) or an explicit null (bit set); G2: a value or nothing
                    table = {}
                    if k & 1: table[0] = lambda st, ex: jv(st, ex, 'Null')
                    if k & 2: table[1] = lambda st, ex: jv(st, ex, 'Null')
                    if k & 4: table[2] = lambda st, ex: named(st, 'VALUE2', 'JsonValue')
                if '+N' in kind and not absent_count: table[1] = lambda st, ex: mk_num(st, ex, N)
                if kind == 'index' and shape == 'array': table[1] = lambda st, ex: mk_num(st, ex, N)
                if kind == 'range' and shape == 'number': table[0] = lambda st, ex: mk_num(st, ex, N)
                if '+M' in kind: table[2] = lambda st, ex: mk_num(st, ex, M_)
                if '+X' in kind: table[1] = lambda st, ex: named(st, 'X', 'JsonValue')
                if kind == 'index' and shape == 'object':
                    variants_extra = [f'K{i}' for i in range(k)] + ['KX']
                if kind == 'put' and shape == 'object':
                    variants_extra = [f'K{i}' for i in range(k)] + ['KX']
                    table[2] = lambda st, ex: named(st, 'NEWV', 'JsonValue')
                for keyname in variants_extra:
                  if keyname is not None:
                      table[1] = lambda st, ex, keyname=keyname: jv(st, ex, 'String', named(st, keyname, 'String'))
                  ex = ctx.exec(summaries=make_summaries(table), inline=[(r'<NumberValue as TryInto<usize>>::try_into$', r'^$')] if False else [], max_visits=4 * K + 12)
                  F = ex.find(body_rx)
                  st = State(); so = named(st, 'self', 'Impl'); selfref = slot(st, so, 'self*'); c = slot(st, named(st, 'ctx', 'Context'), 'ctx*')
                  nargs = 1 + ('+N' in kind) + ('+M' in kind) + ('+X' in kind) + (kind == 'index') + 2 * (kind == 'put') + 2 * (kind == 'default')
                  st.heap[so.oid][('f', None, 0)] = seqobj(st, 'Vec', [named(st, f'G{i}', 'Rc<dyn Get>') for i in range(nargs)], origin='self.0')
                  if shape == 'string' and sbytes: st.pc.append(utf8_valid(sbytes))
                  st.pc.append(z3.ULE(N, LIM if kind != 'range' else 4)); st.pc.append(z3.ULE(M_, LIM))
                  PANICS.clear()
                  try:
                      ex.new_frame(st, F, [selfref, c]); done = ex.run(st) + list(PANICS)
                  except Broken as e:
                      raise Broken(f'kernel {name} on {shape} of {k}: {e}')
                  for d in done:
                      run.paths += 1
                      if d.status == 'infeasible': continue
                      fam.obligations += 1; fam.paths += 1; fam.witnesses += 1
                      hav = (d.havoc or [None])[0]
                      terms = {'N': N, 'M': M_}
                      for i, b in enumerate(sbytes): terms[f's{i}'] = b
                      def cand(role, text, m):
                          mv = model_values(m, terms) if m is not None else {}
                          mv.update(fn=name, shape=shape, k=k, absent_count=absent_count)
                          cd = Candidate(fam.name, role, f'({name} <{shape} of {k}> ...) {text}' + (f' at N={mv.get("N")}' + (f', M={mv.get("M")}' if '+M' in kind else '') + (f', string bytes {[mv.get(f"s{i}") for i in range(k)]}' if shape == 'string' else '') if m is not None else ''), mv, unmodelled=hav)
                          fam.candidates.append(cd); allc.append(cd)
                      if d.status == 'panic' or d.status not in ('returned',):
                          ok_, m = ex.valid(d, z3.BoolVal(False))
                          cand('panic:' + shape if d.status == 'panic' else f'path-{d.status}', f'{d.status}: {d.notes[-1] if d.notes else ""}', m); continue
                      r = obj(d, d.ret); rd = cval(ex.discr(d, r).t)
                      got = show(d, ex, d.heap[r.oid][('f', 'Some', 0)]) if rd == 1 else None
                      # ---- reference
                      wrong_type = (kind.startswith('coll') and shape == 'number') or (kind.startswith('arr') and shape != 'array') or (kind.startswith('str') and shape != 'string') \
                          or (kind == 'sizeof' and shape == 'number') or (kind == 'index' and shape in ('number', 'string')) or (kind == 'range' and shape != 'number') \
                          or (kind in ('put', 'keys', 'values') and shape != 'object') \
                        or (kind == 'sizeof' and shape == 'number') or (kind == 'index' and shape in ('number', 'string')) or (kind == 'range' and shape != 'number') \
                        or (kind in ('put', 'keys', 'values') and shape != 'object')
                      if wrong_type or absent_count:
                          if got is None: fam.discharged += 1
                          else: cand('ill-typed-not-nothing', f'gives {got[0]} instead of nothing for an ill-typed / absent argument', ex.valid(d, z3.BoolVal(False))[1])
                          continue
                      if kind == 'default':
                          # the first argument that yields a value - an explicit null is a value - is the result
                          first = 0 if k & 1 else 1 if k & 2 else 2 if k & 4 else None
                          exp = None if first is None else ('null',) if first < 2 else ('opaque', 'VALUE2')
                          if got == exp: fam.discharged += 1
                          else: cand('wrong-result:default', f'arguments (G0, G1: {"null" if k & 1 else "nothing"}, {"null" if k & 2 else "nothing"}; G2: {"a value" if k & 4 else "nothing"}) give {got}, expected {exp}', ex.valid(d, z3.BoolVal(False))[1])
                          continue
                      if kind in ('sizeof', 'index', 'range', 'put', 'keys', 'values'):
                          conj = None; why = None
                          if kind == 'sizeof':
                              if shape == 'string':
                                  starts = char_starts(sbytes)
                                  want = sum([z3.If(s_, z3.BitVecVal(1, 64), z3.BitVecVal(0, 64)) for s_ in starts]) if sbytes else z3.BitVecVal(0, 64)
                              else: want = z3.BitVecVal(k, 64)
                              if got is None or got[0] != 'num' or got[1] != 'Positive': why = f'returns {got}'
                              else: conj = got[2] == want
                          elif kind == 'index':
                              if shape == 'array':
                                  cs_ = [z3.Implies(N == i, z3.BoolVal(got == ('opaque', f'E{i}'))) for i in range(k)] + [z3.Implies(z3.UGE(N, k), z3.BoolVal(got is None))]
                                  conj = z3.And(*cs_)
                              else:
                                  exp = ('opaque', 'V' + keyname[1:]) if keyname != 'KX' else None
                                  if got != exp: why = f'key {keyname}: returns {got}'
                                  else: conj = z3.BoolVal(True)
                          elif kind == 'range':
                              r_ = obj(d, d.ret); rv = obj(d, d.heap[r_.oid][('f', 'Some', 0)]) if rd == 1 else None
                              if rv is None: why = 'returns nothing'
                              else:
                                  items = model(d, d.heap[rv.oid][('f', 'Array', 0)]) if ('f', 'Array', 0) in d.heap[rv.oid] else None
                                  if items is None: why = 'not an array'
                                  else:
                                      descs = [show(d, ex, x) for x in items]
                                      cs_ = [N == len(items)] + [z3.BoolVal(ds[0] == 'num' and ds[1] == 'Positive') for ds in descs] + [ds[2] == i for i, ds in enumerate(descs) if ds[0] == 'num']
                                      conj = z3.And(*cs_)
                          elif kind == 'put':
                              base = [(f'K{i}', f'V{i}') for i in range(k)]
                              exp = [(kk, 'NEWV' if kk == keyname else vv) for kk, vv in base] + ([('KX', 'NEWV')] if keyname == 'KX' else [])
                              if got is None or got[0] != 'object' or got[1] != exp: why = f'put {keyname}: returns {got}, expected {exp}'
                              else: conj = z3.BoolVal(True)
                          elif kind == 'keys':
                              if got is None or got[0] != 'array': why = f'returns {got}'
                              else:
                                  r_ = obj(d, d.ret); rv = obj(d, d.heap[r_.oid][('f', 'Some', 0)])
                                  names = []
                                  for x in model(d, d.heap[rv.oid][('f', 'Array', 0)]):
                                      x = obj(d, x); names.append(origin(d, d.heap[x.oid].get(('f', 'String', 0))) if ('f', 'String', 0) in d.heap[x.oid] else origin(d, x))
                                  if names != [f'K{i}' for i in range(k)]: why = f'keys are {names}'
                                  else: conj = z3.BoolVal(True)
                          elif kind == 'values':
                              if got is None or got[0] != 'array' or got[1] != [f'V{i}' for i in range(k)]: why = f'returns {got}'
                              else: conj = z3.BoolVal(True)
                          if why is None:
                              ok_, m = ex.valid(d, conj)
                              if ok_: fam.discharged += 1
                              else: cand('wrong-result:' + shape, f'returns {got}', m)
                          else:
                              cand('wrong-result:' + shape, why, ex.valid(d, z3.BoolVal(False))[1])
                          continue
                      if shape == 'string':
                          # elements are code points: expected byte length is the offset of the n-th char start
                          bs = sbytes; starts = char_starts(bs)
                          nchars = sum([z3.If(s_, z3.BitVecVal(1, 64), z3.BitVecVal(0, 64)) for s_ in starts]) if bs else z3.BitVecVal(0, 64)
                          def offset_of(nth):      # byte offset where the nth (0-based) char starts; len if beyond
                              off = z3.BitVecVal(len(bs), 64); cnt = z3.BitVecVal(0, 64)
                              res = z3.BitVecVal(len(bs), 64)
                              seen = z3.BitVecVal(0, 64); found = z3.BoolVal(False)
                              for i, s_ in enumerate(starts):
                                  hit = z3.And(s_, seen == nth, z3.Not(found))
                                  res = z3.If(hit, z3.BitVecVal(i, 64), res); found = z3.Or(found, hit)
                                  seen = seen + z3.If(s_, z3.BitVecVal(1, 64), z3.BitVecVal(0, 64))
                              return res
                          if name in ('take', 'head'): lo, hi = z3.BitVecVal(0, 64), offset_of(N)
                          elif name == 'tail': lo, hi = z3.If(z3.UGT(N, nchars), z3.BitVecVal(0, 64), offset_of(N)), z3.BitVecVal(len(bs), 64)
                          elif name == 'take_last': lo, hi = z3.If(z3.UGE(N, nchars), z3.BitVecVal(0, 64), offset_of(nchars - N)), z3.BitVecVal(len(bs), 64)
                          elif name == 'sub': lo, hi = offset_of(N), z3.If(z3.UGE(M_, nchars - z3.If(z3.UGT(N, nchars), nchars, N)), z3.BitVecVal(len(bs), 64), offset_of(N + M_))
                          if got is None or got[0] != 'string':
                              cand('string-not-string', f'returns {got} for a string', ex.valid(d, z3.BoolVal(False))[1]); continue
                          gb = got[1]
                          # result must be the byte slice [lo, hi): same length and bytes
                          conj = [hi - lo == len(gb)]
                          for j, g in enumerate(gb):
                              alts = [z3.And(lo == i, g == bs[i + j]) for i in range(len(bs)) if i + j < len(bs)]
                              conj.append(z3.Or(*alts) if alts else z3.BoolVal(False))
                          ok_, m = ex.valid(d, z3.And(*conj))
                          if ok_: fam.discharged += 1
                          else: cand('string-wrong-slice', f'returns {len(gb)} bytes; expected the code points [{m.eval(lo, True)}..{m.eval(hi, True)}) (byte offsets)', m)
                          continue
                      elems = [f'E{i}' for i in range(k)] if shape == 'array' else [(f'K{i}', f'V{i}') for i in range(k)]
                      cases = ref(k, elems)
                      conj = []
                      for cnd, exp in cases:
                          if kind.endswith('->elem'):
                              good = (got is None and exp is None) or (got is not None and exp is not None and got == ('opaque', exp))
                          else:
                              good = got is not None and got[0] == shape and got[1] == exp
                          conj.append(z3.Implies(cnd, z3.BoolVal(bool(good))))
                      ok_, m = ex.valid(d, z3.And(*conj))
                      if ok_:
                          fam.discharged += 1
                          if k >= 2: fam.add_sample({'call': f'({name} <{shape} of {k}> N)', 'path_result': str(got)[:120], 'verdict': 'equals the reference for every N on this path'})
                      else:
                          cand('wrong-result:' + shape, f'returns {got}', m)
                  run.absorb(ex)
        seen = set(); keep = []
        for cd in fam.candidates:
            if cd.role in seen: continue
            seen.add(cd.role); keep.append(cd)
        fam.candidates = keep
    replay_kernels(ctx, [c for f in run.families.values() if f.name.startswith('fn.') for c in f.candidates])


def replay_kernels(ctx, cands):
    from .cli import run_jawk, show as shw
    for c in cands:
        mv = c.model; name = mv['fn']; shape = mv['shape']; k = mv['k']
        if shape == 'array': a0 = json.dumps(list(range(10, 10 + k))); elems = list(range(10, 10 + k))
        elif shape == 'object': a0 = json.dumps({f'k{i}': i for i in range(k)}); elems = [(f'k{i}', i) for i in range(k)]
        elif shape == 'string':
            bs = bytes(mv.get(f's{i}', 0x61) for i in range(k))
            try: s = bs.decode('utf-8')
            except Exception: c.status = 'unit'; continue
            a0 = json.dumps(s, ensure_ascii=False); elems = list(s)
        else: a0 = '5'; elems = None
        args = [a0]
        n = mv.get('N', 0); m_ = mv.get('M', 0)
        kind = KERNELS[name][1]
        if kind == 'default':
            r = run_jawk(ctx, ['--select', '(default .a "x")=r', '--select', '(default .b .a 3)=s', '--style', 'consise'], b'{"a":null}')
            exp = {'r': None, 's': None}
            try: got = json.loads(shw(r['stdout']))
            except Exception: got = shw(r['stdout'])
            c.replay = {'argv': ['--select', '(default .a "x")=r', '--select', '(default .b .a 3)=s'], 'stdin': '{"a":null}', 'expected': exp, 'actual': got}
            c.status = 'reproduced' if got != exp else 'unit'
            continue
        if kind in ('sizeof', 'index', 'range', 'put', 'keys', 'values'):
            # small concrete demonstrations per kernel (the model's N where it matters)
            DEMOS = {'size': [('(size "h\u00e9llo")', 5), ('(size [1,2,3])', 3), ('(size {"a":1})', 1), ('(size "")', 0)],
                     'get': [(f'(get [10,11,12] {n})', [10, 11, 12][n] if n < 3 else 'nothing'), ('(get {"a":1,"b":2} "b")', 2), ('(get {"a":1} "x")', 'nothing'), ('(get [10,11] 0)', 10)],
                     'range': [(f'(range {min(n, 6)})', list(range(min(n, 6)))), ('(range 0)', []), ('(range 3)', [0, 1, 2])],
                     'put': [('(put {"a":1,"b":2} "a" 9)', {'a': 9, 'b': 2}), ('(put {"a":1} "z" 9)', {'a': 1, 'z': 9}), ('(put {} "z" 9)', {'z': 9})],
                     'keys': [('(keys {"b":1,"a":2,"c":3})', ['b', 'a', 'c']), ('(keys {})', [])],
                     'default': [('(default .a "x")', None)],
                     'values': [('(values {"b":1,"a":2,"c":3})', [1, 2, 3]), ('(values {})', [])]}
            c.status = 'unit'
            for expr, exp in DEMOS[name]:
                r = run_jawk(ctx, ['--select', expr + '=r', '--style', 'consise', '--utf8-strings'], b'null')
                out = shw(r['stdout']).strip()
                try: got = json.loads(out).get('r', 'nothing') if out else 'no-output'
                except Exception: got = 'unparsable:' + out
                c.replay = {'argv': ['--select', expr + '=r'], 'expected': exp, 'actual': got}
                if got != exp or (isinstance(exp, dict) and list(got.keys()) != list(exp.keys())): c.status = 'reproduced'; break
            continue
        if '+N' in kind and not mv.get('absent_count'): args.append(str(n))
        if '+M' in kind: args.append(str(m_))
        if '+X' in kind: args.append('"X"')
        expr = f'({name} ' + ' '.join(args) + ')'
        r = run_jawk(ctx, ['--select', expr + '=r', '--style', 'consise'], b'null')
        # python reference
        exp = 'nothing'
        if elems is not None and not mv.get('absent_count'):
            seq = elems
            if name in ('take', 'head'): e = seq[:n]
            elif name == 'tail': e = seq[n:] if n <= len(seq) else seq
            elif name == 'take_last': e = seq[max(0, len(seq) - n):]
            elif name == 'sub': e = seq[n:n + m_]
            elif name == 'pop': e = seq[:-1]
            elif name == 'pop_first': e = seq[1:]
            elif name == 'reverese': e = seq[::-1]
            elif name == 'push': e = seq + ['X']
            elif name == 'push_front': e = ['X'] + seq
            elif name == 'first': e = seq[0] if seq else 'nothing'
            elif name == 'last': e = seq[-1] if seq else 'nothing'
            else: e = None
            if kind.endswith('->elem'): exp = e
            elif shape == 'object': exp = dict(e)
            elif shape == 'string': exp = ''.join(e)
            else: exp = e
            if (kind.startswith('arr') and shape != 'array') or (kind.startswith('str') and shape != 'string'): exp = 'nothing'
        out = shw(r['stdout']).strip()
        try: got = json.loads(out).get('r', 'nothing') if out else 'no-output'
        except Exception: got = 'unparsable:' + out
        bad = r['rc'] != 0 or got != exp or (isinstance(exp, dict) and list(got.keys()) != list(exp.keys()))
        c.replay = {'argv': ['--select', expr + '=r'], 'stdin': 'null', 'expected': exp, 'actual': got, 'rc': r['rc'], 'stderr': shw(r['stderr'])[-200:]}
        c.status = 'reproduced' if bad else 'not-reproduced'


# ---------------------------------------------------------------- translator self-check on the repository's own examples
def heap_value(st, ex, v):
    """python JSON value -> heap JsonValue with byte strings (the kernels' representation)"""
    NV = ex.enums['NumberValue']
    if v is None: return jv(st, ex, 'Null')
    if isinstance(v, bool): return jv(st, ex, 'Boolean', BoolV(z3.BoolVal(v)))
    if isinstance(v, int) and v >= 0: return jv(st, ex, 'Number', mk_enum(st, 'NumberValue', NV.index('Positive'), 'Positive', (BV(bv64(v)),)))
    if isinstance(v, int): return jv(st, ex, 'Number', mk_enum(st, 'NumberValue', NV.index('Negative'), 'Negative', (BV(z3.BitVecVal(v, 64), True),)))
    if isinstance(v, float): raise ValueError('float argument')
    if isinstance(v, str): return jv(st, ex, 'String', seqobj(st, 'String', [BV(bv8(b)) for b in v.encode('utf-8')]))
    if isinstance(v, list): return jv(st, ex, 'Array', seqobj(st, 'Vec', [heap_value(st, ex, x) for x in v]))
    items = []
    for k, x in v.items():
        ko = seqobj(st, 'String', [BV(bv8(b)) for b in k.encode('utf-8')], origin='key:' + k); items.append((ko, heap_value(st, ex, x)))
    return jv(st, ex, 'Object', seqobj(st, 'IndexMap', items))


def py_value(st, ex, v):
    v = obj(st, v); d = cval(ex.discr(st, v).t); name = ex.enums['JsonValue'][d]
    if name == 'Null': return None
    if name == 'Boolean': return bool(cval(st.heap[v.oid][('f', 'Boolean', 0)].t))
    if name == 'String': return bytes(cval(b.t) for b in model(st, st.heap[v.oid][('f', 'String', 0)])).decode('utf-8')
    if name == 'Array': return [py_value(st, ex, x) for x in model(st, st.heap[v.oid][('f', 'Array', 0)])]
    if name == 'Object': return {bytes(cval(b.t) for b in model(st, k)).decode('utf-8'): py_value(st, ex, x) for k, x in model(st, st.heap[v.oid][('f', 'Object', 0)])}
    nv = obj(st, st.heap[v.oid][('f', 'Number', 0)]); nd = ex.enums['NumberValue'][cval(ex.discr(st, nv).t)]
    n = cval(st.heap[nv.oid][('f', nd, 0)].t)
    return n - 2**64 if nd == 'Negative' and n >= 2**63 else n


def kernel_examples(ctx, names=None):
    """the documentation examples of the covered kernels (the repository's own test inputs: functions_definitions::tests
    runs them) are executed *concretely* through the MIR with the same container / string models and compared with
    their documented output - a disagreement is a bug in the models, not in jawk"""
    import glob, os
    run = ctx.run
    srcs = {os.path.basename(p)[:-3]: p for p in glob.glob(os.path.join(ctx.tree.src, 'src', 'functions', '**', '*.rs'), recursive=True)}
    n_ok = 0; n_skipped = 0
    for name in (names or list(KERNELS)):
        if name not in srcs or KERNELS[name][1] == 'default': continue
        txt = open(srcs[name]).read()
        for m in re.finditer(r'Example::new\(\)((?:\s*\.\w+\((?:[^()]|\([^()]*\))*\))+)', txt):
            calls = re.findall(r'\.(\w+)\(\s*((?:"(?:[^"\\]|\\.)*"\s*)*)\)', m.group(1))
            args = []; exp = 'nothing'; simple = True
            for fn_, a in calls:
                lit = ''.join(re.findall(r'"((?:[^"\\]|\\.)*)"', a)).encode().decode('unicode_escape') if a else None
                if fn_ == 'add_argument': args.append(lit)
                elif fn_ == 'expected_output': exp = lit
                elif fn_ in ('input', 'validate_output', 'expected_json'): simple = False
            try:
                pargs = [json.loads(a) for a in args]
                pexp = 'nothing' if exp == 'nothing' else json.loads(exp)
            except Exception:
                simple = False
            if not simple or any(isinstance(a, float) for a in pargs if not isinstance(a, bool)): n_skipped += 1; continue
            table = {i: (lambda st, ex, a=a: heap_value(st, ex, a)) for i, a in enumerate(pargs)}
            ex = ctx.exec(summaries=make_summaries(table), max_visits=60)
            try: F = ex.find(KERNELS[name][0])
            except Broken: continue
            st = State(); so = named(st, 'self', 'Impl'); selfref = slot(st, so, 'self*')
            st.heap[so.oid][('f', None, 0)] = seqobj(st, 'Vec', [named(st, f'G{i}', 'Rc<dyn Get>') for i in range(len(pargs))], origin='self.0')
            PANICS.clear()
            try:
                ex.new_frame(st, F, [selfref, slot(st, named(st, 'ctx', 'Context'), 'ctx*')])
                outs = [d for d in ex.run(st) + list(PANICS) if d.status != 'infeasible']
            except (Broken, ValueError):
                n_skipped += 1; continue
            if len(outs) != 1 or outs[0].status != 'returned' or outs[0].havoc:
                if any(d.havoc for d in outs): n_skipped += 1; continue
                raise Broken(f'kernel self-check: ({name} {args}) does not execute to exactly one path concretely ({[d.status for d in outs]})')
            d = outs[0]; r = obj(d, d.ret)
            try:
                got = py_value(d, ex, d.heap[r.oid][('f', 'Some', 0)]) if cval(ex.discr(d, r).t) == 1 else 'nothing'
            except Exception:
                n_skipped += 1; continue
            if got != pexp:
                raise Broken(f'kernel self-check: the MIR execution of ({name} {" ".join(args)}) gives {got!r}, the documentation says {pexp!r}')
            n_ok += 1; run.traces_validated += 1
    run.notes.append(f'kernel self-check: {n_ok} documentation examples of the covered functions executed concretely through the MIR agree with their documented output ({n_skipped} examples with expressions / floats / unmodelled calls skipped)')
    return n_ok
