"""The selection-expression reader (src/selection.rs, extractor.rs, variables_extractor.rs, selection_extractor.rs,
const_getter.rs) and the option readers (`from_str` of Selection/Filter/Splitter/Sorter/Grouper), executed from MIR on
skeleton texts with free bytes."""
import re, json, os
import z3
from .lib import *
from .report import Candidate, Broken
from .scen_parser import ParserScenario, isws, isdig, inset, utf8_valid
from .scen_kernels import s_str_index, PANICS as KPANICS
from .par import pmap

SEPS = [0x20, 0x09, 0x0d, 0x0a, ord(',')]


def expr_scenario(ctx, text_terms, finished):
    """a ParserScenario whose input is the byte terms `text_terms` (concrete or symbolic), with the expression reader inlined"""
    n = len(text_terms)

    def s_find_function(ex, st, func, args, ty):
        nm = obj(st, args[0]); out = []
        for found in (True, False):
            s2 = st.clone(); s2.events.append(('find_function', tuple(b.t for b in model(s2, nm)), found))
            if found:
                d = named(s2, s2.fresh_name('fndef'), 'FunctionDefinitions'); s2.heap[d.oid]['fname'] = tuple(b.t for b in model(s2, nm))
                out.append((s2, ok(s2, slot(s2, d))))
            else:
                out.append((s2, err(s2, mk_enum(s2, 'FunctionDefinitionsError', 0, 'UnknownFunction', ()))))
        return out

    def s_create(ex, st, func, args, ty):
        d = obj(st, args[0]); av = obj(st, args[1]); out = []
        for good in (True, False):
            s2 = st.clone()
            if good:
                g = named(s2, s2.fresh_name('call'), 'Call'); s2.heap[g.oid]['call'] = (s2.heap[d.oid].get('fname'), tuple(model(s2, av)))
                out.append((s2, ok(s2, g)))
            else:
                s2.events.append(('arity_error',)); out.append((s2, err(s2, mk_enum(s2, 'FunctionDefinitionsError', 1, 'MissingArgument', ()))))
        return out

    def s_root(ex, st, func, args, ty): return [(st, named(st, st.fresh_name('ROOT'), 'Root'))]

    def s_starts_with(ex, st, func, args, ty):
        m = model(st, args[0]); c = args[1]
        if not m: return [(st, BoolV(z3.BoolVal(False)))]
        return [(st, BoolV(m[0].t == z3.Extract(7, 0, c.t)))]

    def s_is_ascii_ws(ex, st, func, args, ty):
        b = obj(st, args[0]).t if isinstance(obj(st, args[0]), BV) else args[0].t
        return [(st, BoolV(z3.Or(b == 0x20, b == 0x09, b == 0x0a, b == 0x0c, b == 0x0d)))]

    def s_is_ascii_ctl(ex, st, func, args, ty):
        b = obj(st, args[0]).t if isinstance(obj(st, args[0]), BV) else args[0].t
        return [(st, BoolV(z3.Or(z3.ULT(b, 0x20), b == 0x7f)))]

    def s_from_err(ex, st, func, args, ty):
        """From<X> for SelectionParseError etc.: wrap"""
        w = named(st, st.fresh_name('converted'), ty or 'err'); st.heap[w.oid][('f', None, 0)] = args[0]; return [(st, w)]

    def s_trim(ex, st, func, args, ty):
        m = list(model(st, args[0]))
        # only concrete-class trimming is needed (names are concrete in the skeletons)
        while m and cval(m[0].t) in (0x20, 9, 10, 13): m.pop(0)
        while m and cval(m[-1].t) in (0x20, 9, 10, 13): m.pop()
        if any(cval(b.t) is None and i in (0, len(m) - 1) for i, b in enumerate(m)): raise Broken('trim of a symbolic string edge')
        return [(st, slot(st, seqobj(st, 'str', m)))]

    def s_opt_map_const(ex, st, func, args, ty):
        """Option::map(|value| ConstGetters { value })"""
        o = args[0]; d = ex.discr(st, o).t; out = []
        if ex.feasible(st, d == 0):
            s2 = st.clone(); s2.pc.append(d == 0); out.append((s2, none(s2)))
        if ex.feasible(st, d == 1):
            st.pc.append(d == 1); g = named(st, st.fresh_name('const'), 'ConstGetters'); st.heap[g.oid]['const'] = st.heap[o.oid][('f', 'Some', 0)]
            out.append((st, some(st, g)))
        return out

    def s_to_string(ex, st, func, args, ty):
        o = obj(st, args[0])
        if isinstance(o, ObjV) and 'model' in st.heap[o.oid]: return [(st, seqobj(st, 'String', model(st, o)))]
        return None

    def s_string_clone(ex, st, func, args, ty): return [(st, seqobj(st, 'String', model(st, args[0])))]

    def s_string_push(ex, st, func, args, ty):
        """String::push(char) on a byte-modelled String: the UTF-8 encoding of the char (concrete or < 0x800 by case split)"""
        so = obj(st, args[0]); c = args[1]
        if not isinstance(c, BV) or 'model' not in st.heap[so.oid]: return None
        t = c.t if c.t.size() == 32 else z3.ZeroExt(32 - c.t.size(), c.t)
        out = []
        one = z3.ULT(t, 0x80); two = z3.And(z3.UGE(t, 0x80), z3.ULT(t, 0x800))
        for cond, bs in ((one, [z3.Extract(7, 0, t)]), (two, [z3.Extract(7, 0, 0xC0 | z3.LShR(t, 6)), z3.Extract(7, 0, 0x80 | (t & 0x3f))])):
            if not ex.feasible(st, cond): continue
            s2 = st.clone(); s2.pc.append(cond)
            o2 = obj(s2, args[0]); s2.heap[o2.oid]['model'] = list(s2.heap[o2.oid]['model']) + [BV(z3.simplify(b)) for b in bs]
            out.append((s2, UNIT))
        if ex.feasible(st, z3.UGE(t, 0x800)): return None
        return out

    def s_from_string(ex, st, func, args, ty):
        """reader::from_string(&source): a fresh Reader over the bytes of source (the name truncation is the C05.c obligation)"""
        src = model(st, args[0])
        RDR = ex.structs['Reader']; LOC = ex.structs['Location']
        ro = named(st, st.fresh_name('reader'), 'Reader')
        by = named(st, st.fresh_name('bytes'), 'Bytes'); st.heap[by.oid]['pos'] = 0; st.heap[by.oid]['data'] = tuple(src)
        st.heap[ro.oid][('f', None, RDR.index('bytes'))] = by
        st.heap[ro.oid][('f', None, RDR.index('current_byte'))] = none(st)
        st.heap[ro.oid][('f', None, RDR.index('eof'))] = BoolV(z3.BoolVal(False))
        loc = named(st, st.fresh_name('loc'), 'Location')
        st.heap[loc.oid][('f', None, LOC.index('line_number'))] = BV(bv64(1)); st.heap[loc.oid][('f', None, LOC.index('char_number'))] = BV(bv64(1))
        st.heap[loc.oid][('f', None, LOC.index('input'))] = named(st, 'locname', 'Option<String>')
        st.heap[ro.oid][('f', None, RDR.index('location'))] = loc
        return [(st, ro)]

    def s_bytes_next_data(ex, st, func, args, ty):
        b = obj(st, args[0])
        if 'data' not in st.heap[b.oid]: return None
        pos = st.heap[b.oid].get('pos', 0); data = st.heap[b.oid]['data']
        if pos >= len(data):
            st.events.append(('read_end',)); return [(st, none(st))]
        st.heap[b.oid]['pos'] = pos + 1; st.events.append(('read', pos))
        return [(st, some(st, ok(st, data[pos])))]

    def s_to_uppercase(ex, st, func, args, ty):
        m = model(st, args[0]); out = []
        for b in m:
            t = b.t
            out.append(BV(z3.If(z3.And(z3.UGE(t, ord('a')), z3.ULE(t, ord('z'))), t - 32, t)))
        # non-ASCII letters are outside the direction keywords; the tail is constrained to ASCII in the scenario
        return [(st, seqobj(st, 'String', out))]

    def s_str_trim_sym(ex, st, func, args, ty):
        """str::trim on a short symbolic ASCII string: fork over how many bytes are stripped at each end"""
        m = list(model(st, args[0])); L = len(m); out = []
        wsb = lambda b: z3.Or(b.t == 0x20, b.t == 9, b.t == 10, b.t == 13, b.t == 11, b.t == 12)
        for lo in range(L + 1):
            for hi in range(lo, L + 1):
                if lo == hi and lo != L: continue       # empty result is represented once (lo = hi = L)
                c = [wsb(m[i]) for i in range(lo)] + [wsb(m[i]) for i in range(hi, L)]
                if lo < hi: c += [z3.Not(wsb(m[lo])), z3.Not(wsb(m[hi - 1]))]
                cc = z3.And(*c) if c else z3.BoolVal(True)
                if ex.feasible(st, cc):
                    s2 = st.clone(); s2.pc.append(cc); out.append((s2, slot(s2, seqobj(s2, 'str', m[lo:hi]))))
        return out

    def s_str_eq(ex, st, func, args, ty):
        a = model(st, args[0]); b = args[1]
        if isinstance(b, Const):
            lit = re.match(r'^"(.*)"$', b.text).group(1).encode()
            if len(a) != len(lit): return [(st, BoolV(z3.BoolVal(False)))]
            return [(st, BoolV(z3.And(*[x.t == y for x, y in zip(a, lit)]) if lit else z3.BoolVal(True)))]
        bm = model(st, b)
        if len(a) != len(bm): return [(st, BoolV(z3.BoolVal(False)))]
        return [(st, BoolV(z3.And(*[x.t == y.t for x, y in zip(a, bm)]) if a else z3.BoolVal(True)))]

    def s_find_char(ex, st, func, args, ty):
        m = model(st, args[0]); c = z3.Extract(7, 0, args[1].t); out = []; none_so_far = []
        for i, b in enumerate(m):
            cnd = z3.And(*(none_so_far + [b.t == c]))
            if ex.feasible(st, cnd):
                s2 = st.clone(); s2.pc.append(cnd); out.append((s2, some(s2, BV(bv64(i)))))
            none_so_far.append(b.t != c)
        cnd = z3.And(*none_so_far) if none_so_far else z3.BoolVal(True)
        if ex.feasible(st, cnd):
            s2 = st.clone(); s2.pc.append(cnd); out.append((s2, none(s2)))
        return out

    def s_ok_or_else(ex, st, func, args, ty):
        o = args[0]; d = ex.discr(st, o).t; out = []
        if ex.feasible(st, d == 1):
            s2 = st.clone(); s2.pc.append(d == 1); out.append((s2, ok(s2, s2.heap[o.oid][('f', 'Some', 0)])))
        if ex.feasible(st, d == 0):
            s2 = st.clone(); s2.pc.append(d == 0); out.append((s2, err(s2, named(s2, s2.fresh_name('presets_err'), 'PreSetParserError'))))
        return out

    def s_strip_prefix(ex, st, func, args, ty):
        m = list(model(st, args[0])); c = z3.Extract(7, 0, args[1].t); out = []
        if not m: return [(st, none(st))]
        if ex.feasible(st, m[0].t == c):
            s2 = st.clone(); s2.pc.append(m[0].t == c); out.append((s2, some(s2, slot(s2, seqobj(s2, 'str', m[1:])))))
        if ex.feasible(st, m[0].t != c):
            s2 = st.clone(); s2.pc.append(m[0].t != c); out.append((s2, none(s2)))
        return out

    def s_dyn_get(ex, st, func, args, ty):
        out = []
        for present in (True, False):
            s2 = st.clone(); s2.events.append(('evaluated', present)); out.append((s2, some(s2, named(s2, s2.fresh_name('evaluated'), 'JsonValue')) if present else none(s2)))
        return out

    summ = [
        (r'impl str>::find::<char>$', s_find_char), (r'Option::<.*>::ok_or_else::<', s_ok_or_else), (r'impl str>::strip_prefix::<char>$', s_strip_prefix),
        (r'<dyn Get as Get>::get$', s_dyn_get), (r'Context::new_empty$', lambda ex, st, f, a, t: [(st, named(st, st.fresh_name('emptyctx'), 'Context'))]),
        (r'ToOwned>::to_owned$', s_to_string),
        (r'^find_function$|functions_definitions::find_function$', s_find_function), (r'FunctionDefinitions::create$', s_create), (r'^root$|extractor::root$', s_root),
        (r'impl str>::starts_with::<char>$', s_starts_with), (r'impl u8>::is_ascii_whitespace$', s_is_ascii_ws), (r'impl u8>::is_ascii_control$', s_is_ascii_ctl),
        (r'<std::string::String as Index<.*>>::index$|<str as Index<.*>>::index$', s_str_index),
        (r'Rc::<.*>::new$', s_identity), (r'Vec::<.*>::is_empty$|String::is_empty$|impl str>::is_empty$', s_seq_is_empty),
        (r'as From<.*>>::from$', s_from_err_guard(s_from_err)), (r'impl str>::trim$', s_str_trim_sym),
        (r'Option::<JsonValue>::map::<ConstGetters', s_opt_map_const), (r'ToString>::to_string$', s_to_string), (r'<std::string::String as Clone>::clone$', s_string_clone), (r'^(std::string::)?String::push$', s_string_push), (r'^(std::string::)?String::new$', lambda ex, st, f, a, t: [(st, seqobj(st, 'String', []))]),
        (r'^from_string$|reader::from_string$', s_from_string), (r'<std::io::Bytes<R> as Iterator>::next$|<std::io::Bytes<&\[u8\]> as Iterator>::next$', s_bytes_next_data),
        (r'impl str>::to_uppercase$', s_to_uppercase), (r'<&str as Into<std::string::String>>::into$|<std::string::String as From<&str>>::from$', s_string_clone), (r'impl str>::as_str$|String::as_str$', s_identity),
        (r'<str as PartialEq>::eq$|<std::string::String as PartialEq<.*>>::eq$|<&str as PartialEq>::eq$', s_str_eq),
        (r'parse::<usize>$', None),
    ]
    summ = [x for x in summ if x[1] is not None]
    inl = []
    for name in ctx.fns:
        for rx, call in ((r'^read_getter$', r'^read_getter::<|selection::read_getter::<'), (r'^parse_function$', r'^parse_function::<'), (r'^read_function_name$', r'^read_function_name::<'),
                         (r'^parse_extractor$', r'^parse_extractor::<|extractor::parse_extractor::<'), (r'^read_number_of_parents$', r'^read_number_of_parents::<'),
                         (r'^parse_get_variable$', r'parse_get_variable::<'), (r'^parse_get_selection$', r'parse_get_selection::<'), (r'^read_to_eof$', r'^read_to_eof::<')):
            if re.match(rx, name): inl.append((call, '^' + re.escape(name) + '$'))
        m = re.match(r'^extractor::<impl at [^>]*>::(parse|read_extract_key|read_extract_index)$', name)
        if m: inl.append((r'ExtractFromInput::%s::<' % m.group(1), '^' + re.escape(name) + '$'))
        m = re.match(r'^const_getter::<impl at [^>]*>::parse$', name)
        if m: inl.append((r'ConstGetters::parse::<', '^' + re.escape(name) + '$'))
    sc = ParserScenario(ctx, n, extra_summaries=summ, extra_inline=inl, max_visits=6 * n + 16)
    sc.INPUT = list(text_terms)
    # parse::<usize> = parse::<u64> on this target
    sc.ex.summaries.insert(0, (r'parse::<usize>$', lambda ex, st, f, a, t: sc.s_parse_int(ex, st, f.replace('usize', 'u64'), a, t)))
    return sc


def s_from_err_guard(h):
    def from_err(ex, st, func, args, ty):
        if 'JsonValue' in func or 'u32 as From<u8>' in func or 'String' in func and 'Error' not in func: return None
        if not re.search(r'Error', func): return None
        return h(ex, st, func, args, ty)
    return from_err


def describe(sc, st, g):
    """python description of a parsed getter"""
    ex = sc.ex; g = obj(st, g)
    h = st.heap[g.oid]; ty = str(st.meta[g.oid][1])
    def txt(bs):
        vals = [cval(b.t if isinstance(b, BV) else b) for b in bs]
        return bytes(vals).decode('latin-1') if all(v is not None for v in vals) else [str(b) for b in bs]
    if 'call' in h:
        return ('call', txt(h['call'][0]) if h['call'][0] is not None else None, [describe(sc, st, a) for a in h['call'][1]])
    if 'const' in h:
        return ('const', sc.denote(st, h['const']))
    if st.meta[g.oid][0].startswith('ROOT'): return ('root',)
    S = ex.structs
    if 'VariableExtructor' in ty:
        f = S['VariableExtructor']; vt = cval(ex.discr(st, obj(st, h[('f', None, f.index('variable_type'))])).t)
        return ('var' if ex.enums['variables_extractor::Type'][vt] == 'Variable' else 'macro', txt(model(st, h[('f', None, f.index('name'))])))
    if 'SelectionExtructor' in ty:
        return ('selected', txt(model(st, h[('f', None, S['SelectionExtructor'].index('name'))])))
    if 'Extract' in ty:
        f = S['Extract']; np = cval(h[('f', None, f.index('number_of_parents'))].t)
        efi = obj(st, h[('f', None, f.index('extract_from_input'))]); dv = ex.enums['ExtractFromInput'][cval(ex.discr(st, efi).t)]
        if dv == 'Root': return ('extract', np, 'root')
        path = []
        for e in model(st, st.heap[efi.oid][('f', 'Element', 0)]):
            e = obj(st, e); kv = ex.enums['SingleExtract'][cval(ex.discr(st, e).t)]
            path.append(('key', txt(model(st, st.heap[e.oid][('f', 'ByKey', 0)]))) if kv == 'ByKey' else ('index', cval(st.heap[e.oid][('f', 'ByIndex', 0)].t)))
        return ('extract', np, path)
    return ('?', ty)


ARGS = {'lit': (b'1', ('const', ('int', 'Positive'))), 'ext': (b'.a', ('extract', 0, [('key', 'a')])), 'var': (b':v', ('var', 'v')), 'uvar': (b':\xc3\xa9', ('var', '\xc3\xa9')), 'mac': (b'@m', ('macro', 'm')),
        'sel': (b'/n/', ('selected', 'n')), 'call': (b'(g)', ('call', 'g', []))}


def norm(d):
    if d[0] == 'const': return ('const', (d[1][0], d[1][1]) if d[1][0] == 'int' else d[1][0])
    if d[0] == 'call': return ('call', d[1], [norm(x) for x in d[2]])
    return d


def _sep_task(args):
    ctx, a, b, nsep, form = args
    seps = [z3.BitVec(f'sep{i}', 8) for i in range(nsep)]
    A, B = ARGS[a][0], ARGS[b][0]
    if form == 'plain': text = [z3.BitVecVal(x, 8) for x in b'(f '] + [z3.BitVecVal(x, 8) for x in A] + seps + [z3.BitVecVal(x, 8) for x in B] + [z3.BitVecVal(ord(')'), 8)]
    else: text = [z3.BitVecVal(x, 8) for x in b'(f' ] + seps + [z3.BitVecVal(x, 8) for x in A] + seps[:0] + [z3.BitVecVal(0x20, 8)] + [z3.BitVecVal(x, 8) for x in B] + [z3.BitVecVal(ord(')'), 8)]
    fin = []
    sc = expr_scenario(ctx, text, fin); ex = sc.ex
    st, info = sc.initial(arbitrary=False)
    for s_ in seps: st.pc.append(inset(s_, SEPS))
    F = ex.find(r'^read_getter$')
    KPANICS.clear()
    ex.new_frame(st, F, [info['rref']])
    done = ex.run(st) + sc.extra + list(KPANICS)
    res = {'obl': 0, 'ok': 0, 'cands': [], 'paths': 0, 'samples': []}
    want = ('call', 'f', [norm(ARGS[a][1]), norm(ARGS[b][1])])
    for d in done:
        if d.status == 'infeasible': continue
        if any(e[0] == 'find_function' and not e[2] for e in d.events) or any(e[0] == 'arity_error' for e in d.events): continue     # those outcomes are C18.b
        if any(e[0] == 'parse_f64' for e in d.events): continue
        res['paths'] += 1; res['obl'] += 1
        hav = (d.havoc or [None])[0]
        ok_, m = ex.valid(d, z3.BoolVal(False))
        sv = bytes(m.eval(s_, True).as_long() for s_ in seps) if m is not None else b''
        def cand(role, text_):
            res['cands'].append({'role': role, 'text': f'`(f {A.decode()}<sep>{B.decode()})` with separator {sv!r}: {text_}', 'model': {'a': a, 'b': b, 'sep_hex': sv.hex(), 'form': form}, 'unmodelled': hav})
        if d.status != 'returned':
            cand(f'path-{d.status}', f'{d.status} {d.notes[-1:] if d.notes else ""}'); continue
        r = obj(d, d.ret); rd = cval(ex.discr(d, r).t)
        if rd != 0:
            cand(f'rejected:{a}', 'the expression is rejected'); continue
        try:
            got = norm(describe(sc, d, d.heap[r.oid][('f', 'Ok', 0)]))
        except Exception as e:
            cand('undescribable', f'result not describable: {e}'); continue
        if got == want:
            res['ok'] += 1
            if not res['samples']: res['samples'].append({'text': f'(f {A.decode()}{sv.decode("latin-1")}{B.decode()})', 'parsed': str(got), 'verdict': 'argument list [A, B] for every separator on this path'})
        else:
            cand(f'args-differ:{a}', f'parsed as {got}, expected {want}')
    res.update(queries=ex.queries, solver_s=ex.solver_s, unhandled=dict(ex.unhandled), summaries=list(ex.used_summaries), bodies=list(ex.used_bodies))
    return res


def separators(ctx):
    """C13.b: `(f A<sep>B)` parses to the call of f with [A, B] for every separator run of 1..2 bytes over {space, tab, CR, LF, ','}"""
    run = ctx.run
    kinds = list(ARGS)
    nseps = (1, 2) if ctx.quick else (1, 2, 3)
    run.bounds['separators'] = f'skeleton (f A<sep>B) for A in {kinds}, B in {{lit, var}} ({"quick" if ctx.quick else "all pairs"}), separator run of {nseps} free bytes over space/tab/CR/LF/comma'
    run.assume('find_function answers found/unknown and FunctionDefinitions::create answers Ok/arity error (their own behaviour is C18.b); only the found/Ok paths are compared')
    fam = run.family('expr.separators', 'arguments may be separated by any run of whitespace and commas: the argument list is the same for every separator')
    pairs = [(a, b) for a in kinds for b in (('lit', 'var') if ctx.quick else kinds) if a != 'uvar' or b == 'lit'] + [('lit', 'uvar')]
    tasks = [(ctx, a, b, n, 'plain') for a, b in pairs for n in nseps]
    results = pmap(_sep_task, tasks)
    merge(run, fam, results)
    replay_sep(ctx, fam.candidates)


def merge(run, fam, results):
    seen = {}
    for r in results:
        run.paths += r['paths']; run.queries += r['queries']; run.solver_s += r['solver_s']
        fam.obligations += r['obl']; fam.discharged += r['ok']; fam.witnesses += r['ok']; fam.paths += r['paths']
        for k, v in r['unhandled'].items(): run.unmodelled[k] += v
        for s in r['summaries']: run.summaries[s] = True
        for b in r['bodies']: run.functions[b] = True
        for s in r.get('samples', []): fam.add_sample(s)
        for c in r['cands']:
            if c['role'] not in seen:
                seen[c['role']] = Candidate(fam.name, c['role'], c['text'], c['model'], unmodelled=c['unmodelled'])
    fam.candidates += list(seen.values())


def replay_sep(ctx, cands):
    from .cli import run_jawk, show
    for c in cands:
        mv = c.model; sep = bytes.fromhex(mv['sep_hex']).decode('latin-1')
        A = {'lit': '1', 'ext': '.a', 'var': ':v', 'uvar': ':\u00e9', 'mac': '@m', 'sel': '/n/', 'call': '(size "xy")'}[mv['a']]
        B = {'lit': '1', 'ext': '.a', 'var': ':v', 'uvar': ':\u00e9', 'mac': '@m', 'sel': '/n/', 'call': '(size "xy")'}[mv['b']]
        val = {'lit': 1, 'ext': 5, 'var': 7, 'uvar': 11, 'mac': 9, 'sel': 5, 'call': 2}
        argv = ['--set', 'v=7', '--set', '\u00e9=11', '--set', '@m=9', '--select', '.a=n', '--select', f'(+ {A}{sep}{B})=r', '--style', 'consise']
        r = run_jawk(ctx, argv, b'{"a":5}')
        exp = {'n': 5, 'r': val[mv['a']] + val[mv['b']]}
        try: got = json.loads(show(r['stdout']))
        except Exception: got = show(r['stdout']) + show(r['stderr'])[-200:]
        c.replay = {'argv': argv, 'stdin': '{"a":5}', 'expected': exp, 'actual': got, 'rc': r['rc']}
        c.status = 'reproduced' if got != exp else 'not-reproduced'


# ---------------------------------------------------------------- option readers: trailing text must be rejected
OPTION_READERS = {
    'Filter': (r'^filter::<impl at [^>]*>::from_str$', 'eof'),
    'Splitter': (r'^splitter::<impl at [^>]*>::from_str$', 'eof'),
    'Grouper': (r'^grouper::<impl at [^>]*>::from_str$', 'eof'),
    'Selection': (r'^selection::<impl at [^>]*>::from_str$', 'name'),
    'Sorter': (r'^sorters::<impl at [^>]*>::from_str$', 'direction'),
    'PreSet': (r'^pre_sets::<impl at [^>]*>::from_str$', 'eof'),
    'PreSetMacro': (r'^pre_sets::<impl at [^>]*>::from_str$', 'eof'),
}


def _tail_task(args):
    ctx, opt, ntail = args
    body_rx, kind = OPTION_READERS[opt]
    tail = [z3.BitVec(f't{i}', 8) for i in range(ntail)]
    text = [z3.BitVecVal(x, 8) for x in (b'v=1' if opt == 'PreSet' else b'@m=1' if opt == 'PreSetMacro' else b'.a')] + tail
    fin = []
    sc = expr_scenario(ctx, text, fin); ex = sc.ex
    st = State()
    src = seqobj(st, 'String', [BV(t) for t in text])
    for t in tail: st.pc.append(z3.And(z3.ULT(t, 0x80), t != 0))
    # the first tail byte must end the key `.a` (otherwise it is part of the key, which is a different, valid expression)
    if tail: st.pc.append(z3.Or(isws(tail[0]), tail[0] == ord('=')) if not opt.startswith('PreSet') else isws(tail[0]))
    F = ex.find(body_rx)
    KPANICS.clear()
    ex.new_frame(st, F, [slot(st, src, 'src*')])
    if opt.startswith('PreSet'):
        for t in tail: st.pc.append(t != ord('='))
    done = ex.run(st) + sc.extra + list(KPANICS)
    res = {'obl': 0, 'ok': 0, 'cands': [], 'paths': 0, 'samples': []}
    # the sorter trims its tail with str::trim, which also strips VT and FF; the other readers use the JSON blanks
    wsb = (lambda b: z3.Or(b == 0x20, b == 9, b == 10, b == 13, b == 11, b == 12)) if kind == 'direction' else (lambda b: z3.Or(b == 0x20, b == 9, b == 10, b == 13))
    allws = z3.And(*[wsb(t) for t in tail]) if tail else z3.BoolVal(True)
    if kind == 'eof': valid = allws
    elif kind == 'name':
        alts = [allws]
        for i in range(ntail):
            alts.append(z3.And(*([wsb(t) for t in tail[:i]] + [tail[i] == ord('=')])))
        valid = z3.Or(*alts)
    else:
        # ws* then (nothing | one of ASC/DESC in any letter case) then ws* ; '=' is not part of the documented syntax but `.a=DESC` is: the key reader stops at '='
        up = lambda t: z3.If(z3.And(z3.UGE(t, ord('a')), z3.ULE(t, ord('z'))), t - 32, t)
        alts = [allws]
        for word in (b'ASC', b'DESC'):
            for lo in range(ntail - len(word) + 1):
                hi = lo + len(word)
                alts.append(z3.And(*([wsb(t) for t in tail[:lo]] + [up(tail[lo + j]) == word[j] for j in range(len(word))] + [wsb(t) for t in tail[hi:]])))
        valid = z3.Or(*alts)
        # `=` directly after the key is consumed as the key terminator: treat a leading '=' like a blank
        if tail:
            t0 = tail[0]
            alts2 = []
            for word in (b'ASC', b'DESC'):
                for lo in range(1, ntail - len(word) + 1):
                    hi = lo + len(word)
                    alts2.append(z3.And(*([t0 == ord('=')] + [wsb(t) for t in tail[1:lo]] + [up(tail[lo + j]) == word[j] for j in range(len(word))] + [wsb(t) for t in tail[hi:]])))
            alts2.append(z3.And(t0 == ord('='), *[wsb(t) for t in tail[1:]]))
            valid = z3.Or(valid, *alts2)
    for d in done:
        if d.status == 'infeasible': continue
        if any(e[0] == 'evaluated' and not e[1] for e in d.events): continue       # a --set value that evaluates to nothing is rejected for that reason
        if any(e[0] == 'parse_f64' for e in d.events): continue
        res['paths'] += 1; res['obl'] += 1
        hav = (d.havoc or [None])[0]
        def cand(role, text_, m):
            tv = bytes(m.eval(t, True).as_long() for t in tail) if m is not None else b''
            res['cands'].append({'role': role, 'text': f'{opt}::from_str(<expression> + {tv!r}): {text_}', 'model': {'opt': opt, 'tail_hex': tv.hex()}, 'unmodelled': hav})
        if d.status != 'returned':
            cand(f'path-{d.status}', f'{d.status} {d.notes[-1:]}', ex.valid(d, z3.BoolVal(False))[1]); continue
        rd = cval(ex.discr(d, obj(d, d.ret)).t)
        if rd is None: cand('symbolic', 'result undecided', None); continue
        prop = valid if rd == 0 else z3.Not(valid)
        ok_, m = ex.valid(d, prop)
        if ok_:
            res['ok'] += 1
            if rd == 1 and not res['samples']:
                m2 = ex.valid(d, z3.BoolVal(False))[1]
                res['samples'].append({'option': opt, 'text': '.a' + bytes(m2.eval(t, True).as_long() for t in tail).decode('latin-1'), 'verdict': 'rejected, as required for every tail on this path'})
        else:
            cand(('accepts-trailing-text:' if rd == 0 else 'rejects-valid-text:') + opt, 'accepted although text follows the expression' if rd == 0 else 'rejected although the text is valid', m)
    res.update(queries=ex.queries, solver_s=ex.solver_s, unhandled=dict(ex.unhandled), summaries=list(ex.used_summaries), bodies=list(ex.used_bodies))
    return res


def option_tails(ctx):
    """C18.b / C13.a: every option reader accepts exactly its documented tail after the expression"""
    run = ctx.run
    nt = (0, 1, 2) if ctx.quick else (0, 1, 2, 3, 4)
    run.bounds['option tails'] = f'expression `.a` followed by {nt} free ASCII bytes (the first one ends the key) in each of {list(OPTION_READERS)}::from_str; sort direction words need >= 3/4 bytes: thorough tier'
    fam = run.family('expr.option_tail', 'Filter/Splitter/Grouper accept only blanks after the expression, Selection blanks or `=name`, Sorter blanks or ASC/DESC in any letter case; anything else is an error')
    tasks = [(ctx, o, n) for o in OPTION_READERS for n in nt]
    if not ctx.quick: pass
    else: tasks += [(ctx, 'Sorter', 4)]
    results = pmap(_tail_task, tasks)
    merge(run, fam, results)
    from .cli import run_jawk, show
    OPT = {'Filter': '--filter', 'Splitter': '--split-by', 'Grouper': '--group-by', 'Selection': '--select', 'Sorter': '--sort-by', 'PreSet': '--set', 'PreSetMacro': '--set'}
    for c in fam.candidates:
        tail = bytes.fromhex(c.model['tail_hex']).decode('latin-1')
        argv = [OPT[c.model['opt']], ('v=1' if c.model['opt'] == 'PreSet' else '@m=1' if c.model['opt'] == 'PreSetMacro' else '.a') + tail]
        r = run_jawk(ctx, argv, b'{"a":true}')
        c.replay = {'argv': argv, 'rc': r['rc'], 'stdout': show(r['stdout']), 'stderr': show(r['stderr'])[-200:]}
        accepted = r['rc'] == 0
        c.status = 'reproduced' if accepted == c.role.startswith('accepts-trailing-text') else 'not-reproduced'


# ---------------------------------------------------------------- reader::from_string: the 32-byte name truncation
def truncation(ctx):
    """C05.c: from_string keeps the first 32 bytes of the expression as the reader name; String::truncate panics when
    byte 32 is not a char boundary"""
    from .scen_kernels import boundary
    run = ctx.run
    fam = run.family('expr.name_truncation', 'reader::from_string never panics, whatever multi-byte character sits across byte offset 32 of the expression text')
    run.bounds['truncation'] = 'expression texts of 29..31 ASCII bytes followed by 3 free bytes forming well-formed UTF-8 (every code point width across offset 32), and short texts'
    panics = []
    def s_truncate(ex, st, func, args, ty):
        s = obj(st, args[0]); m = list(model(st, s)); n = cval(args[1].t)
        if n is None: raise Broken('truncate to a symbolic length')
        if n > len(m): return [(st, UNIT)]
        bs = [b.t for b in m]; okb = boundary(bs, n); out = []
        if ex.feasible(st, z3.Not(okb)):
            s2 = st.clone(); s2.pc.append(z3.Not(okb)); s2.status = 'panic'; s2.notes.append('String::truncate not on a char boundary'); panics.append(s2)
        if ex.feasible(st, okb):
            st.pc.append(okb); set_model(st, s, m[:n]); out.append((st, UNIT))
        return out
    def s_is_boundary(ex, st, func, args, ty):
        m = model(st, args[0]); n = cval(args[1].t)
        if n is None: raise Broken('is_char_boundary at a symbolic index')
        if n > len(m): return [(st, BoolV(z3.BoolVal(False)))]
        return [(st, BoolV(boundary([b.t for b in m], n)))]
    def s_reader_new(ex, st, func, args, ty): return [(st, named(st, st.fresh_name('reader'), 'Reader'))]
    summ = [(r'String::truncate$', s_truncate), (r'impl str>::is_char_boundary$|String::is_char_boundary$', s_is_boundary), (r'Reader::<.*>::new$', s_reader_new),
            (r'<std::string::String as Clone>::clone$', lambda ex, st, f, a, t: [(st, seqobj(st, 'String', model(st, a[0])))]), (r'String::as_bytes$|impl str>::as_bytes$', s_identity),
            (r'<std::string::String as Index<.*>>::index$|<str as Index<.*>>::index$', __import__('vf.scen_kernels', fromlist=['s_str_index']).s_str_index),
            (r'ToString>::to_string$|<str as ToOwned>::to_owned$|String::from$|<std::string::String as From<&str>>::from$', lambda ex, st, f, a, t: [(st, seqobj(st, 'String', model(st, a[0])))]),
            (r'String::len$|impl str>::len$', s_seq_len), (r'as Deref>::deref$', s_identity), (r'std::cmp::min::<usize>$|Ord>::min$', lambda ex, st, f, a, t: [(st, BV(z3.If(z3.ULT(a[0].t, a[1].t), a[0].t, a[1].t)))])]
    ex = ctx.exec(summaries=summ, max_visits=40)
    F = ex.find(r'^from_string$|^reader::from_string$')
    for pre in (0, 5, 29, 30, 31):
        free = [z3.BitVec(f'u{i}', 8) for i in range(3)]
        st = State(); src = seqobj(st, 'String', [BV(bv8(0x61)) for _ in range(pre)] + [BV(b) for b in free] + [BV(bv8(0x62))] * 2)
        st.pc.append(utf8_valid(free))
        panics.clear()
        from .scen_kernels import PANICS as KPANICS
        KPANICS.clear()
        ex.new_frame(st, F, [slot(st, src, 'src*')])
        for d in ex.run(st) + list(panics) + list(KPANICS):
            run.paths += 1
            if d.status == 'infeasible': continue
            fam.obligations += 1; fam.witnesses += 1
            if d.status == 'returned' and not d.havoc: fam.discharged += 1; continue
            if d.status == 'returned':
                # the name is built through a call the scenario has no model for: undecided here, settled natively below
                if not any(c.role == 'unmodelled-name' for c in fam.candidates):
                    fam.candidates.append(Candidate(fam.name, 'unmodelled-name', f'from_string builds the reader name through {d.havoc[0]}', {'pre': 31, 'free_hex': 'e0a080'}, unmodelled=d.havoc[0]))
                continue
            ok_, m = ex.valid(d, z3.BoolVal(False))
            bs = bytes(m.eval(b, True).as_long() for b in free)
            if not any(c.role == 'truncate-panic' for c in fam.candidates):
                fam.candidates.append(Candidate(fam.name, 'truncate-panic' if d.status == 'panic' else f'path-{d.status}', f'from_string on {pre} ASCII bytes + {bs!r} + "bb": {d.status} {d.notes[-1:]}',
                                                {'pre': pre, 'free_hex': bs.hex()}, unmodelled=(d.havoc or [None])[0]))
    if fam.discharged: fam.add_sample({'text': '31 x "a" + any 3 well-formed UTF-8 bytes + "bb"', 'verdict': 'no panic path'})
    run.absorb(ex)
    from .cli import run_jawk, show
    for c in fam.candidates:
        text = '"' + 'a' * (c.model['pre'] - 1) + bytes.fromhex(c.model['free_hex']).decode('utf-8') + 'bb"'
        r = run_jawk(ctx, ['--select', text + '=x'], b'1')
        c.replay = {'argv': ['--select', text + '=x'], 'rc': r['rc'], 'stderr': show(r['stderr'])[-300:]}
        c.status = 'reproduced' if r['rc'] == 101 or b'panicked' in r['stderr'] else 'not-reproduced'


# ---------------------------------------------------------------- the expression reader never panics (C05.d)
EXPR_CLASSES = [('paren', [ord('(')]), ('dot', [ord('.')]), ('hash', [ord('#')]), ('caret', [ord('^')]), ('colon', [ord(':')]), ('at', [ord('@')]), ('slash', [ord('/')]),
                ('quote', [ord('"')]), ('digit', list(b'0123456789-')), ('ws', [0x20, 9, 10, 13]), ('other', None)]


def _expr_np_task(args):
    ctx, n, cname, cls = args
    text = [z3.BitVec(f'e{i}', 8) for i in range(n)]
    fin = []
    sc = expr_scenario(ctx, text, fin); ex = sc.ex
    st, info = sc.initial(arbitrary=False)
    if cls is not None: st.pc.append(inset(text[0], cls))
    else:
        used = [b for _, c in EXPR_CLASSES if c for b in c] + [ord('&')]
        st.pc.append(z3.And(*[text[0] != b for b in used]))
    for t in text: st.pc.append(t != ord('&'))        # input-context selectors (&name) are a separate reader, not executed here
    F = ex.find(r'^read_getter$')
    KPANICS.clear()
    ex.new_frame(st, F, [info['rref']])
    done = ex.run(st) + sc.extra + list(KPANICS)
    res = {'obl': 0, 'ok': 0, 'cands': [], 'paths': 0, 'samples': []}
    for d in done:
        if d.status == 'infeasible': continue
        res['paths'] += 1; res['obl'] += 1
        if d.status in ('returned',):
            res['ok'] += 1; continue
        ok_, m = ex.valid(d, z3.BoolVal(False))
        tv = bytes(m.eval(t, True).as_long() for t in text) if m is not None else b''
        role = 'panic' if d.status == 'panic' else 'loop-bound' if d.status == 'bound' else f'path-{d.status}'
        res['cands'].append({'role': role + ':' + cname, 'text': f'read_getter on {tv!r}: {d.status} {d.notes[-1:]}', 'model': {'text_hex': tv.hex()}, 'unmodelled': (d.havoc or [None])[0]})
    res.update(queries=ex.queries, solver_s=ex.solver_s, unhandled=dict(ex.unhandled), summaries=list(ex.used_summaries), bodies=list(ex.used_bodies))
    return res


def expr_nopanic(ctx):
    run = ctx.run
    ns = (1, 2, 3) if ctx.quick else (1, 2, 3, 4)
    run.bounds['expression reader'] = f'every expression text of {ns} bytes (all 256 values per byte except `&`) given to read_getter: extractors, calls, variables, macros, selections, literals'
    fam = run.family('expr.nopanic', 'the expression reader returns a getter or an error for every text: no panic path, no loop running past the end of the text'); fam.need_witness = False
    tasks = [(ctx, n, cn, cl) for n in ns for cn, cl in EXPR_CLASSES]
    results = pmap(_expr_np_task, tasks)
    merge(run, fam, results)
    if fam.obligations == fam.discharged: fam.add_sample({'texts': f'all texts of {ns} bytes', 'verdict': 'every path returns'})
    from .cli import run_jawk, show
    for c in fam.candidates:
        t = bytes.fromhex(c.model['text_hex'])
        try: arg = t.decode('utf-8')
        except Exception: c.status = 'unit'; continue
        if '\x00' in arg: c.status = 'unit'; continue
        r = run_jawk(ctx, ['--select', arg], b'1', timeout=10)
        c.replay = {'argv': ['--select', arg], 'rc': r['rc'], 'stderr': show(r['stderr'])[-200:]}
        c.status = 'reproduced' if r['rc'] in (101, 'timeout') or b'panicked' in r['stderr'] else 'unit'


# ---------------------------------------------------------------- truncated calls are rejected
UNBAL = [b'(f 1 :v)', b'(f (g .a) 1)', b'(f)', b'(f "x" (g (h 1)))', b'(.f 1)']


def _unbal_task(args):
    ctx, full, cut, ntail = args
    tail = [z3.BitVec(f'tail{i}', 8) for i in range(ntail)]
    text = [z3.BitVecVal(x, 8) for x in full[:cut]] + tail
    sc = expr_scenario(ctx, text, []); ex = sc.ex
    st, info = sc.initial(arbitrary=False)
    for t in tail: st.pc.append(inset(t, SEPS))
    F = ex.find(r'^read_getter$')
    KPANICS.clear()
    ex.new_frame(st, F, [info['rref']])
    done = ex.run(st) + sc.extra + list(KPANICS)
    res = {'obl': 0, 'ok': 0, 'cands': [], 'paths': 0, 'samples': []}
    for d in done:
        if d.status == 'infeasible': continue
        res['paths'] += 1; res['obl'] += 1
        hav = (d.havoc or [None])[0]
        ok_, m = ex.valid(d, z3.BoolVal(False))
        tv = bytes(m.eval(t, True).as_long() for t in tail) if m is not None else b''
        txt = full[:cut] + tv
        def cand(role, what):
            res['cands'].append({'role': role, 'text': f'truncated call {txt!r}: {what}', 'model': {'text_hex': txt.hex()}, 'unmodelled': hav})
        if d.status != 'returned':
            cand(f'path-{d.status}', f'{d.status} {d.notes[-1:] if d.notes else ""}'); continue
        r = obj(d, d.ret); rd = cval(ex.discr(d, r).t)
        if rd == 1:
            res['ok'] += 1
            if not res['samples']: res['samples'].append({'text': txt.decode('latin-1'), 'verdict': 'Err for every tail on this path'})
        else:
            cand('accepts-unbalanced', 'accepted although a closing parenthesis is missing')
    res.update(queries=ex.queries, solver_s=ex.solver_s, unhandled=dict(ex.unhandled), summaries=list(ex.used_summaries), bodies=list(ex.used_bodies))
    return res


def unbalanced(ctx):
    """C18.b: a call whose closing parenthesis(es) are missing at the end of the text is an error, with or without trailing separators"""
    run = ctx.run
    nt = (0, 1) if ctx.quick else (0, 1, 2)
    run.bounds['unbalanced'] = f'every proper prefix of {[u.decode() for u in UNBAL]} that ends inside a call (and not inside a string literal), followed by {nt} free separator bytes'
    fam = run.family('expr.unbalanced', 'read_getter answers Err for every text that ends inside an open call, whatever functions exist and whatever their arity (find_function / create answer arbitrarily)')
    tasks = []
    for full in UNBAL:
        depth = 0; instr = False
        for cut in range(1, len(full)):
            ch = full[cut - 1:cut]
            if ch == b'"': instr = not instr
            if not instr: depth += (ch == b'(') - (ch == b')')
            if depth > 0 and not instr:
                tasks += [(ctx, full, cut, n) for n in nt]
    results = pmap(_unbal_task, tasks)
    alts = {}
    for r in results:
        for c in r['cands']: alts.setdefault(c['role'], []).append(c)
    merge(run, fam, results)
    from .cli import run_jawk, show
    for c in fam.candidates:
      for alt in sorted(alts.get(c.role, []), key=lambda a: -len(a['model']['text_hex']))[:40]:
          c.model = alt['model']; c.text = alt['text']
          txt = bytes.fromhex(c.model['text_hex']).decode('latin-1')
          hits = []
          # the skeleton's f/g/h stand for any function: try real ones of matching arity
          for f, g, h in (('+', '+', '+'), ('concat', 'size', 'size'), ('?', 'default', 'default')):
              real = txt.replace('(f', '(' + f).replace('(g', '(' + g).replace('(h', '(' + h).replace('(.f', '(.' + 'size')
              argv = ['--set', 'v=7', '--select', real]
              r = run_jawk(ctx, argv, b'{"a":5}')
              if r['rc'] == 0: hits.append({'argv': argv, 'rc': r['rc'], 'stdout': show(r['stdout'])})
          c.replay = {'accepted': hits[:2], 'expected': 'a non-zero exit status with an error message for every one of the spellings tried'}
          c.status = 'reproduced' if hits else ('not-reproduced' if c.role == 'accepts-unbalanced' and not c.unmodelled else 'not-reproduced')
          if c.status == 'reproduced': break



# ---------------------------------------------------------------- arity
def arity(ctx):
    """C18.b: FunctionDefinitions::create answers Err exactly when the number of arguments is outside [min, max]"""
    run = ctx.run
    run.bounds['arity'] = 'FunctionDefinitions::create with free min_args_count, max_args_count (min <= max) and free argument count (all 64-bit values); the factory call is an opaque value'
    fam = run.family('expr.arity', 'create(args) is Err iff len(args) < min_args_count or len(args) > max_args_count, for every definition')
    FD = ctx.structs['FunctionDefinitions']
    body = ctx.find(r'^functions_definitions::<impl at [^>]*>::create$')
    impl = body.name.rsplit('::', 1)[0]
    inl = [(r'FunctionDefinitions::%s$' % n.rsplit('::', 1)[1], '^' + re.escape(n) + '$') for n in ctx.fns
           if n.startswith(impl + '::') and n.count('::') == impl.count('::') + 1 and n.rsplit('::', 1)[1] not in ('create', 'name', 'names', 'file_name', 'new', 'add_alias', 'add_description_line', 'add_example')]
    L = z3.BitVec('argc', 64); MN = z3.BitVec('min_args', 64); MX = z3.BitVec('max_args', 64)
    def s_len(ex, st, func, args, ty): return [(st, BV(L))]
    def s_name(ex, st, func, args, ty): return [(st, named(st, st.fresh_name('name'), 'String'))]
    ex = ctx.exec(summaries=[(r'Vec::<.*>::len$', s_len), (r'FunctionDefinitions::name$', s_name)], inline=inl, max_visits=6)
    st = State(); so = st.new_obj('self', 'FunctionDefinitions')
    st.heap[so][('f', None, FD.index('min_args_count'))] = BV(MN); st.heap[so][('f', None, FD.index('max_args_count'))] = BV(MX)
    st.pc.append(z3.ULE(MN, MX))
    ex.new_frame(st, body, [slot(st, ObjV(so), 'self*'), named(st, 'ARGS', 'Vec')])
    for d in ex.run(st) + list(ex.extra_paths):
        if d.status == 'infeasible': continue
        run.paths += 1; fam.paths += 1; fam.obligations += 1
        hav = (d.havoc or [None])[0]
        bad_count = z3.Or(z3.ULT(L, MN), z3.UGT(L, MX))
        if d.status != 'returned':
            want = None; okk, m = ex.valid(d, z3.BoolVal(False))
        else:
            r = obj(d, d.ret); rd = ex.discr(d, r).t
            okk, m = ex.valid(d, (rd == 1) == bad_count)
        if okk and d.status == 'returned':
            fam.discharged += 1; fam.witnesses += 1
            if len(fam.samples) < 3: fam.add_sample({'path': [str(z3.simplify(c))[:80] for c in d.pc[-2:]], 'verdict': 'Err iff the count is outside [min, max] on this path'})
            continue
        mv = {k: m.eval(v, True).as_long() for k, v in (('argc', L), ('min', MN), ('max', MX))} if m is not None else {}
        role = 'arity-wrong' if d.status == 'returned' else f'path-{d.status}'
        c = Candidate(fam.name, role, f'FunctionDefinitions::create with min={mv.get("min")} max={mv.get("max")} and {mv.get("argc")} arguments: ' +
                      ('answers Ok/Err against the range' if d.status == 'returned' else d.status), mv, unmodelled=hav if d.status != 'returned' else None)
        fam.candidates.append(c)
    run.queries += ex.queries; run.solver_s += ex.solver_s
    for b in ex.used_bodies: run.functions[b] = True
    # native: every function of the table with one argument more than its maximum and one less than its minimum
    if fam.candidates:
        from .cli import run_jawk, show
        table = []
        for root, _, files in os.walk(os.path.join(ctx.tree.src, 'src', 'functions')):
            for fn in files:
                txt = open(os.path.join(root, fn), errors='replace').read()
                for m in re.finditer(r'FunctionDefinitions::new\(\s*"((?:[^"\\]|\\.)*)",\s*(\d+|usize::MAX),\s*(\d+|usize::MAX),', txt):
                    table.append((m.group(1), int(m.group(2)) if m.group(2).isdigit() else None, int(m.group(3)) if m.group(3).isdigit() else None))
        hits = []
        for name, mn, mx in table:
            if '"' in name or '\\' in name: continue
            for n in ([mx + 1] if mx is not None and mx < 12 else []) + ([mn - 1] if mn else []):
                argv = ['--select', '(' + name + ' 1' * n + ')']
                r = run_jawk(ctx, argv, b'1')
                if r['rc'] == 0: hits.append({'argv': argv, 'declared': [mn, mx], 'arguments': n, 'rc': 0, 'stdout': show(r['stdout'])[:80]})
        for c in fam.candidates:
            c.replay = {'accepted_out_of_range': hits[:4], 'functions_tried': len(table)}
            c.status = 'reproduced' if hits else 'unit'


# ---------------------------------------------------------------- the name of a selection is the text after `=`
def selection_name(ctx):
    """Selection::from_str on `.a=` followed by 1..3 free bytes that are well-formed UTF-8 and not blanks: accepted, and the column
    name is exactly those bytes (the header row of csv / text lists the names as given, whatever script they are written in)"""
    from .scen_parser import utf8_valid
    run = ctx.run
    fam = run.family('expr.selection_name', 'the name given after `=` in --select is kept byte for byte (every code point, not only ASCII)')
    run.bounds['selection name'] = '`.a=` + 1..3 free bytes forming well-formed UTF-8, no blanks'
    body_rx = OPTION_READERS['Selection'][0]
    for n in (1, 2, 3):
        tail = [z3.BitVec(f'n{i}', 8) for i in range(n)]
        text = [z3.BitVecVal(x, 8) for x in b'.a='] + tail
        fin = []
        sc = expr_scenario(ctx, text, fin); ex = sc.ex
        st = State(); src = seqobj(st, 'String', [BV(t) for t in text])
        st.pc.append(utf8_valid(tail))
        for t in tail: st.pc.append(z3.And(t != 0x20, t != 9, t != 10, t != 13, t != 0))
        F = ex.find(body_rx)
        KPANICS.clear(); ex.new_frame(st, F, [slot(st, src, 'src*')])
        for d in ex.run(st) + sc.extra + list(KPANICS):
            if d.status == 'infeasible': continue
            run.paths += 1; fam.obligations += 1; fam.paths += 1; fam.witnesses += 1
            hav = (d.havoc or [None])[0]; why = None; m = None
            if d.status != 'returned': why = f'{d.status} {d.notes[-1:]}'; m = ex.valid(d, z3.BoolVal(False))[1]
            else:
                r = obj(d, d.ret); rd = cval(ex.discr(d, r).t)
                if rd != 0: why = 'the selection is rejected'; m = ex.valid(d, z3.BoolVal(False))[1]
                else:
                    try:
                        sel = obj(d, d.heap[r.oid][('f', 'Ok', 0)]); SEL = ctx.structs['Selection']
                        nm = obj(d, d.heap[sel.oid][('f', None, SEL.index('name'))])
                        while 'model' not in d.heap[nm.oid] and 'inner' in d.heap[nm.oid]: nm = obj(d, d.heap[nm.oid]['inner'])
                        if 'model' not in d.heap[nm.oid] and ('f', None, 0) in d.heap[nm.oid]: nm = obj(d, d.heap[nm.oid][('f', None, 0)])
                        bs = [b.t for b in model(d, nm)]
                        okk, m = (False, ex.valid(d, z3.BoolVal(False))[1]) if len(bs) != n else ex.valid(d, z3.And(*[x == y for x, y in zip(bs, tail)]))
                        if not okk: why = f'the name has {len(bs)} bytes' + (' that differ from the text given' if len(bs) == n else f' for {n} bytes of text')
                    except Exception as e:
                        why = f'the name cannot be read back ({type(e).__name__})'; hav = hav or 'name construction'; m = ex.valid(d, z3.BoolVal(False))[1]
            if why is None: fam.discharged += 1
            elif not any(c.role == 'name' for c in fam.candidates):
                tv = bytes(m.eval(t, True).as_long() for t in tail) if m is not None else b'\xc3\xa9'
                fam.candidates.append(Candidate(fam.name, 'name', f'--select `.a=` + {tv!r}: {why}', {'tail_hex': tv.hex()}, unmodelled=hav))
        run.absorb(ex)
    if fam.discharged: fam.add_sample({'text': '.a=<any code point>', 'verdict': 'the name is the text after `=`'})
    from .cli import run_jawk, show
    for c in fam.candidates:
        c.status = 'unit'
        for name in (bytes.fromhex(c.model['tail_hex']).decode('utf-8', errors='ignore') or 'é', 'Größe', '中', 'naïve'):
            r = run_jawk(ctx, ['-o', 'csv', '--select', '.a=' + name], b'{"a":1}')
            first = show(r['stdout']).split('\n')[0]
            if r['rc'] != 0 or first != '"' + name.replace('"', '""') + '"':
                c.status = 'reproduced'; c.unmodelled = None; c.replay = {'argv': ['-o', 'csv', '--select', '.a=' + name], 'expected_header': '"' + name + '"', 'actual_header': first, 'rc': r['rc']}; break


# ---------------------------------------------------------------- an index that does not fit is not an index
def index_overflow(ctx):
    """--select `#D…D` with L free digits: accepted exactly when the digits denote a value below 2^64 (an index that does not fit
    usize is an unparsable expression, not the root)"""
    run = ctx.run
    fam = run.family('expr.index_overflow', 'an `#index` step is accepted exactly when its digits fit usize; a longer digit string is an error, never silently another expression')
    run.bounds['index overflow'] = '`#` + L free digits for L in 1, 19, 20, 21 (the 64-bit boundary), leading digit non-zero'
    body_rx = OPTION_READERS['Selection'][0]
    for L in (1, 19, 20, 21):
        ds = [z3.BitVec(f'd{i}', 8) for i in range(L)]
        text = [z3.BitVecVal(ord('#'), 8)] + ds
        fin = []
        sc = expr_scenario(ctx, text, fin); ex = sc.ex
        st = State(); src = seqobj(st, 'String', [BV(t) for t in text])
        for i, t in enumerate(ds): st.pc.append(z3.And(z3.UGE(t, ord('1') if i == 0 else ord('0')), z3.ULE(t, ord('9'))))
        val = z3.IntVal(0)
        for t in ds: val = val * 10 + (z3.BV2Int(t) - 48)
        fits = val < 2 ** 64
        F = ex.find(body_rx)
        KPANICS.clear(); ex.new_frame(st, F, [slot(st, src, 'src*')])
        for d in ex.run(st) + sc.extra + list(KPANICS):
            if d.status == 'infeasible': continue
            run.paths += 1; fam.obligations += 1; fam.paths += 1; fam.witnesses += 1
            hav = (d.havoc or [None])[0]; why = None
            if d.status != 'returned': why = f'{d.status} {d.notes[-1:]}'; m = ex.valid(d, z3.BoolVal(False))[1]
            else:
                rd = cval(ex.discr(d, obj(d, d.ret)).t)
                ok_, m = ex.valid(d, fits if rd == 0 else z3.Not(fits))
                if not ok_: why = 'is accepted although the index does not fit 64 bits' if rd == 0 else 'is rejected although the index fits'
            if why is None: fam.discharged += 1
            elif not any(c.role == 'index' for c in fam.candidates):
                tv = bytes(m.eval(t, True).as_long() for t in ds).decode() if m is not None else '9' * 21
                fam.candidates.append(Candidate(fam.name, 'index', f'--select `#{tv}` {why}', {'digits': tv}, unmodelled=hav))
        run.absorb(ex)
    if fam.discharged: fam.add_sample({'text': '#<20 digits>', 'verdict': 'accepted iff below 2^64'})
    from .cli import run_driver, show
    for c in fam.candidates:
        c.status = 'unit'
        for digits in (c.model['digits'], '18446744073709551616', '99999999999999999999', '184467440737095516150'):
            if int(digits) < 2 ** 64: continue
            for argv in (['--select', f'#{digits}=x'], ['--filter', f'(= #{digits} 1)']):
                r = run_driver(ctx, argv, b'[1,2]')
                if not str(r['result']).startswith('err') or r['pulled'] or r['stdout']:
                    c.status = 'reproduced'; c.unmodelled = None; c.replay = {'argv': argv, 'stdin': '[1,2]', 'expected': 'an error before anything is read', 'result': r['result'], 'pulled': r['pulled'], 'stdout': show(r['stdout'])[:80]}; break
            if c.status == 'reproduced': break
