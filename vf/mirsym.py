"""Prototype symbolic executor for rustc MIR text -> z3 (path enumeration, call summaries)."""
import re, sys, itertools, time
import z3
from .mirparse import parse_mir, Place, Operand, Rvalue

INT = {'u8': (8, False), 'u16': (16, False), 'u32': (32, False), 'u64': (64, False), 'u128': (128, False), 'usize': (64, False),
       'i8': (8, True), 'i16': (16, True), 'i32': (32, True), 'i64': (64, True), 'i128': (128, True), 'isize': (64, True),
       'char': (32, False)}

# enums whose discriminant values are not 0..n-1
DISCR_VALUES = {'Ordering': {'Less': -1, 'Equal': 0, 'Greater': 1}}

STD_VARIANTS = {'Option': ['None', 'Some'], 'Result': ['Ok', 'Err'], 'ControlFlow': ['Continue', 'Break'],
                'Ordering': ['Less', 'Equal', 'Greater']}


class BV:
    def __init__(self, t, signed=False):
        self.t = t; self.signed = signed
    def __repr__(self):
        return f'BV({self.t})'

class BoolV:
    def __init__(self, t): self.t = t
    def __repr__(self): return f'Bool({self.t})'

class Unit:
    def __repr__(self): return '()'
UNIT = Unit()

class ObjV:
    def __init__(self, oid): self.oid = oid
    def __repr__(self): return f'Obj#{self.oid}'

class RefV:
    def __init__(self, oid, key): self.oid = oid; self.key = key
    def __repr__(self): return f'&#{self.oid}.{self.key}'

class Const:
    def __init__(self, text): self.text = text
    def __repr__(self): return f'Const({self.text[:30]})'


class PathEnd(Exception):
    pass


class PathLimit(RuntimeError):
    pass


class Unmodelled(Exception):
    """raised by a summary that meets a value it has no model for: the call is then havocked like an unknown callee"""


class State:
    def __init__(self):
        self.heap = {}      # oid -> {key: value}
        self.meta = {}      # oid -> (origin, type)
        self.pc = []
        self.events = []
        self.next_oid = 1
        self.frames = []
        self.status = 'running'
        self.notes = []
        self.fresh = 0
        self.havoc = []

    def clone(self):
        s = State()
        s.heap = {k: dict(v) for k, v in self.heap.items()}
        s.meta = dict(self.meta)
        s.pc = list(self.pc)
        s.events = list(self.events)
        s.next_oid = self.next_oid
        s.frames = [dict(f) for f in self.frames]
        s.status = self.status
        s.notes = list(self.notes)
        s.fresh = self.fresh
        s.havoc = list(self.havoc)
        return s

    def new_obj(self, origin, ty=''):
        oid = self.next_oid; self.next_oid += 1
        self.heap[oid] = {}
        self.meta[oid] = (origin, ty)
        return oid

    def fresh_name(self, base):
        self.fresh += 1
        return f'{base}!{self.fresh}'


def is_ptr_type(ty):
    ty = ty.strip()
    return ty.startswith(('&', '*const ', '*mut ')) or ty.startswith(('std::ptr::NonNull<', 'NonNull<'))

def pointee(ty):
    ty = ty.strip()
    if ty.startswith('&'):
        ty = re.sub(r"^&('\w+ )?(mut )?", '', ty)
        return ty
    if ty.startswith('*const '): return ty[7:]
    if ty.startswith('*mut '): return ty[5:]
    m = re.match(r'(?:std::ptr::)?NonNull<(.*)>$', ty)
    return m.group(1)


class Exec:
    def __init__(self, fns, enums=None, structs=None, summaries=None, inline=None, max_visits=8):
        self.fns = fns
        self.enums = dict(STD_VARIANTS); self.enums.update(enums or {})
        self.structs = structs or {}
        self.summaries = summaries or []      # [(regex, fn(ex, st, func, args, dest_ty) -> list[(state, value)])]
        self.inline = inline or []            # [(regex on call text, fn name)]
        self.solver = z3.Solver()
        self.max_visits = max_visits
        self.queries = 0
        self.solver_s = 0.0
        self.unhandled = {}
        self.used_summaries = {}
        self.used_bodies = {}
        self.paths = 0
        self.extra_paths = []          # panic paths split off inside summaries

    KNOWN_RECEIVERS = ('Uniquness', 'ActiveFilter', 'SplitterProcess', 'SelectionProcess', 'PreSetProcessor', 'SortProcess', 'Limiter', 'GrouperProcess', 'Merger', 'JsonProcess', 'TextProcess',
                       'TextPrinter', 'JsonOutputOptions', 'Reader', 'Master', 'Context', 'RegexCache', 'Titles')

    def find(self, rx, hint=None):
        c = [n for n in self.fns if re.search(rx, n)]
        if len(c) > 1 and hint:
            # associated functions of two impl blocks of one module (`Uniquness::create_process` and that of a stage type an edit added):
            # the impl block is identified by the receiver type of its methods
            def span(n):
                m = re.match(r'^(.*<impl at [^>]*>)::', n); return m.group(1) if m else None
            def block_mentions(n):
                sp = span(n)
                for m2, f2 in self.fns.items():
                    if sp and m2.startswith(sp + '::') and (any(re.search(r'\b%s\b' % re.escape(hint), ty) for _, ty in f2.params[:1]) or re.search(r'\b%s\b' % re.escape(hint), f2.ret or '')): return True
                return False
            hinted = [n for n in c if block_mentions(n)]
            if len(hinted) == 1: c = hinted
        if len(c) > 1:
            # an edit added a second impl block with the same method name to the module (a new stage type): the scenarios mean the
            # receiver they were written for
            known = [n for n in c if self.fns[n].params and any(re.search(r'\b%s\b' % k, self.fns[n].params[0][1]) for k in self.KNOWN_RECEIVERS)]
            if len(known) == 1: c = known
        if len(c) != 1:
            from .report import Broken
            raise Broken(f'MIR body lookup {rx!r} matched {len(c)} bodies: {c[:5]}')
        return self.fns[c[0]]

    # ------------------------------------------------------------ solver
    def feasible(self, st, extra=None):
        if extra is not None:
            e = z3.simplify(extra)
            if z3.is_true(e): return True
            if z3.is_false(e): return False
        self.queries += 1
        t0 = time.time()
        self.solver.push()
        for c in st.pc: self.solver.add(c)
        if extra is not None: self.solver.add(extra)
        r = self.solver.check()
        self.solver.pop()
        self.solver_s += time.time() - t0
        if r == z3.unknown:
            from .report import Broken
            raise Broken('solver answered unknown on a feasibility query')
        return r == z3.sat

    def valid(self, st, prop):
        """is prop implied by the path condition? returns (bool, model or None)"""
        self.queries += 1
        t0 = time.time()
        self.solver.push()
        for c in st.pc: self.solver.add(c)
        self.solver.add(z3.Not(prop))
        r = self.solver.check()
        m = self.solver.model() if r == z3.sat else None
        self.solver.pop()
        self.solver_s += time.time() - t0
        if r == z3.unknown:
            from .report import Broken
            raise Broken('solver answered unknown on a validity query')
        return r == z3.unsat, m

    # ------------------------------------------------------------ values
    def fresh_value(self, st, ty, origin):
        ty = ty.strip()
        if ty in INT:
            w, sg = INT[ty]
            return BV(z3.BitVec(origin, w), sg)
        if ty == 'bool':
            return BoolV(z3.Bool(origin))
        if ty == '()':
            return UNIT
        if is_ptr_type(ty):
            box = st.new_obj(origin + '*box', 'box')
            st.heap[box]['v'] = self.fresh_value(st, pointee(ty), origin + '*')
            return RefV(box, 'v')
        oid = st.new_obj(origin, ty)
        return ObjV(oid)

    def load(self, st, oid, key, ty=None):
        d = st.heap[oid]
        if key not in d:
            origin, _ = st.meta[oid]
            if ty is None:
                raise RuntimeError(f'load of untyped unset slot {origin}.{key}')
            d[key] = self.fresh_value(st, ty, f'{origin}.{keyname(key)}')
        return d[key]

    def copy_val(self, st, v):
        if isinstance(v, ObjV):
            origin, ty = st.meta[v.oid]
            n = st.new_obj(origin, ty)
            for k, x in st.heap[v.oid].items():
                st.heap[n][k] = self.copy_val(st, x)
            return ObjV(n)
        return v

    def discr(self, st, v):
        assert isinstance(v, ObjV), v
        d = st.heap[v.oid]
        if 'discr' not in d:
            origin, _ = st.meta[v.oid]
            d['discr'] = BV(z3.BitVec(origin + '#d', 64), True)
        return d['discr']

    # ------------------------------------------------------------ places
    def lvalue(self, st, fr, pl, want_ty=None):
        """-> (oid, key, type or None)"""
        fn = fr['fn']
        oid, key, ty = fr['locals'], pl.local, fn.locals.get(pl.local)
        variant = None
        for pr in pl.proj:
            if pr[0] == 'deref':
                v = self.load(st, oid, key, ty)
                if not isinstance(v, RefV):
                    if isinstance(v, Const):
                        # a reference to a static / constant allocation: its contents are not interpreted (path marked)
                        st.havoc.append('static data')
                        self.unhandled['static data'] = self.unhandled.get('static data', 0) + 1
                        pt = pointee(ty) if ty and is_ptr_type(ty) else 'opaque'
                        box = st.new_obj(st.fresh_name('static'), 'box'); st.heap[box]['v'] = self.fresh_value(st, pt, st.fresh_name('static'))
                        v = RefV(box, 'v')
                    else:
                        raise RuntimeError(f'deref of non-ref {v} ({ty}) in {fn.name}')
                ty = pointee(ty) if ty and is_ptr_type(ty) else None
                oid, key = v.oid, v.key
                variant = None
            elif pr[0] == 'downcast':
                variant = pr[1]
            elif pr[0] == 'field':
                v = self.load(st, oid, key, ty or 'opaque')
                if not isinstance(v, ObjV):
                    raise RuntimeError(f'field of non-object {v} in {fn.name}: {pl}')
                oid, key, ty = v.oid, ('f', variant, pr[1]), pr[2]
                variant = None
            elif pr[0] == 'index':
                # P[_i] / P[k of n]: bounds are checked by an explicit MIR assert before; the element itself is read from a
                # sequence model when there is one and the index is concrete, otherwise it is unconstrained (path marked)
                base = self.load(st, oid, key, ty or 'opaque')
                idx_txt = pr[1].strip()
                elem_ty = None
                m = re.match(r'^\[(.*); \d+\]$|^\[(.*)\]$', (ty or '').strip())
                if m: elem_ty = (m.group(1) or m.group(2))
                k = None
                mm = re.match(r'^_(\d+)$', idx_txt)
                if mm:
                    iv = st.heap[fr['locals']].get(int(mm.group(1)))
                    if isinstance(iv, BV):
                        z = z3.simplify(iv.t)
                        if z3.is_bv_value(z): k = z.as_long()
                else:
                    mm = re.match(r'^(\d+) of \d+$', idx_txt)
                    if mm: k = int(mm.group(1))
                tgt = base
                while isinstance(tgt, RefV): tgt = st.heap[tgt.oid][tgt.key]
                if isinstance(tgt, ObjV) and k is not None and 'model' in st.heap[tgt.oid] and k < len(st.heap[tgt.oid]['model']):
                    box = st.new_obj(st.fresh_name('elem'), 'box'); st.heap[box]['v'] = st.heap[tgt.oid]['model'][k]
                    oid, key, ty = box, 'v', elem_ty
                elif isinstance(tgt, ObjV) and k is not None and ('f', None, k) in st.heap[tgt.oid]:
                    oid, key, ty = tgt.oid, ('f', None, k), elem_ty
                else:
                    st.havoc.append('index projection')
                    self.unhandled['index projection'] = self.unhandled.get('index projection', 0) + 1
                    box = st.new_obj(st.fresh_name('elem?'), 'box')
                    st.heap[box]['v'] = self.fresh_value(st, elem_ty or 'u64', st.fresh_name('elem'))
                    oid, key, ty = box, 'v', elem_ty
                variant = None
        return oid, key, ty

    def read_place(self, st, fr, pl):
        oid, key, ty = self.lvalue(st, fr, pl)
        return self.load(st, oid, key, ty)

    def operand(self, st, fr, op, ty_hint=None):
        if op.kind in ('copy', 'move'):
            v = self.read_place(st, fr, op.place)
            return self.copy_val(st, v)
        m = re.search(r'::promoted\[(\d+)\]$', op.const)
        if m:
            name = fr['fn'].name + '::promoted[' + m.group(1) + ']'
            if name in self.fns:
                return self.eval_const_body(st, self.fns[name])
        c = op.const.strip()
        if re.match(r'^[A-Za-z_][\w:]*$', c) and not c.startswith('fn '):
            # a named constant (`const json_parser::MAX_DIGITS`): its initialiser is a MIR body of the same name
            cands = [n for n in self.fns if n == c or n.endswith('::' + c) or c.endswith('::' + n)]
            if len(cands) == 1 and not self.fns[cands[0]].params:
                try:
                    return self.eval_const_body(st, self.fns[cands[0]])
                except Exception:
                    pass
        return self.const(st, op.const, ty_hint)

    def eval_const_body(self, st, fn):
        depth = len(st.frames)
        self.new_frame(st, fn, [])
        fr = st.frames[-1]
        try:
            for _ in range(200):
                bb = fn.blocks[fr['bb']]
                for s_ in bb.stmts:
                    if s_.lhs is None: continue
                    oid, key, ty = self.lvalue(st, fr, s_.lhs)
                    st.heap[oid][key] = self.rvalue(st, fr, s_.rv, ty)
                if bb.term.kind == 'return':
                    return st.heap[fr['locals']][0]
                if bb.term.kind == 'goto':
                    fr['bb'] = bb.term.data['target']; continue
                if bb.term.kind == 'assert':
                    # `const N: u64 = 256 * 1024;` is checked arithmetic: the overflow flag of a constant expression is a constant
                    c = self.operand(st, fr, bb.term.data['cond'])
                    v = z3.simplify(c.t)
                    if (z3.is_true(v) and bb.term.data['expected']) or (z3.is_false(v) and not bb.term.data['expected']):
                        fr['bb'] = bb.term.data['target']; continue
                    raise RuntimeError('const body: assertion not constant-true in ' + fn.name)
                if bb.term.kind == 'call':
                    outs = self.call(st, fr, bb.term)
                    assert len(outs) == 1 and outs[0] is st, 'forking call in const body'
                    continue
                raise RuntimeError('const body too complex: ' + fn.name)
            raise RuntimeError('const body does not end: ' + fn.name)
        finally:
            del st.frames[depth:]           # never leave the constant's frame behind, whatever happened

    def const(self, st, text, ty_hint=None):
        text = text.strip()
        if text == 'true': return BoolV(z3.BoolVal(True))
        if text == 'false': return BoolV(z3.BoolVal(False))
        if text == '()': return UNIT
        m = re.match(r'^(-?\d+)_(\w+)$', text)
        if m and m.group(2) in INT:
            w, sg = INT[m.group(2)]
            return BV(z3.BitVecVal(int(m.group(1)), w), sg)
        m = re.match(r"^'(.)'$", text)
        if m:
            return BV(z3.BitVecVal(ord(m.group(1)), 32), False)
        return Const(text)

    # ------------------------------------------------------------ rvalues
    def rvalue(self, st, fr, rv, lhs_ty):
        k = rv.kind
        if k == 'use':
            return self.operand(st, fr, rv.args[0], lhs_ty)
        if k == 'binop':
            a = self.operand(st, fr, rv.args[0]); b = self.operand(st, fr, rv.args[1])
            return self.binop(st, rv.extra, a, b)
        if k == 'unop':
            a = self.operand(st, fr, rv.args[0])
            if rv.extra == 'Not':
                return BoolV(z3.Not(a.t)) if isinstance(a, BoolV) else BV(~a.t, a.signed)
            if rv.extra == 'Neg':
                return BV(-a.t, a.signed)
            if rv.extra == 'PtrMetadata':
                # length of a slice / str reference: the pointee carries a sequence model
                v = a
                while isinstance(v, RefV):
                    v = st.heap[v.oid][v.key]
                if isinstance(v, ObjV) and 'model' in st.heap[v.oid]:
                    return BV(z3.BitVecVal(len(st.heap[v.oid]['model']), 64), False)
                raise RuntimeError('PtrMetadata of a pointee without a sequence model')
            raise RuntimeError('unop ' + rv.extra)
        if k == 'discr':
            v = self.read_place(st, fr, rv.args[0])
            if isinstance(v, BoolV):
                return BV(z3.If(v.t, z3.BitVecVal(1, 64), z3.BitVecVal(0, 64)), True)
            return self.discr(st, v)
        if k == 'ref':
            oid, key, ty = self.lvalue(st, fr, rv.args[0])
            self.load(st, oid, key, ty or 'opaque')
            return RefV(oid, key)
        if k == 'cast':
            v = self.operand(st, fr, rv.args[0])
            tgt, kind = rv.extra
            if kind in ('Transmute', 'PtrToPtr', 'MutToConstPointer') or kind.startswith('PointerCoercion'):
                return v
            if kind == 'IntToInt' and isinstance(v, BV) and tgt in INT:
                w, sg = INT[tgt]; cw = v.t.size()
                if w == cw: return BV(v.t, sg)
                if w < cw: return BV(z3.Extract(w - 1, 0, v.t), sg)
                return BV(z3.SignExt(w - cw, v.t) if v.signed else z3.ZeroExt(w - cw, v.t), sg)
            if kind == 'IntToInt' and isinstance(v, BoolV) and tgt in INT:
                w, sg = INT[tgt]
                return BV(z3.If(v.t, z3.BitVecVal(1, w), z3.BitVecVal(0, w)), sg)
            # float <-> int and other casts are not interpreted: the result is unconstrained and the path is marked
            st.havoc.append(f'cast {kind} to {tgt}')
            self.unhandled[f'cast {kind}'] = self.unhandled.get(f'cast {kind}', 0) + 1
            return self.fresh_value(st, tgt, st.fresh_name(f'cast:{kind}'))
        if k == 'aggregate':
            form = rv.extra
            vals = [self.operand(st, fr, o) for o in rv.args]
            oid = st.new_obj(st.fresh_name('agg'), lhs_ty or '')
            if form[0] in ('tuple', 'array'):
                for i, v in enumerate(vals): st.heap[oid][('f', None, i)] = v
                return ObjV(oid)
            path = form[1]
            segs = split_path(path)
            tyname, var = enum_variant(self.enums, segs)
            if tyname is None and lhs_ty and segs:
                lt = split_path(lhs_ty)
                if lt and lt[-1] in self.enums and segs[-1] in self.enums[lt[-1]]:
                    tyname, var = lt[-1], segs[-1]        # bare variant path (`_2 = NegOverflow;`): the enum is the lhs type
            if tyname is not None:
                dv = DISCR_VALUES.get(tyname, {}).get(var, self.enums[tyname].index(var))
                st.heap[oid]['discr'] = BV(z3.BitVecVal(dv, 64), True)
                for i, v in enumerate(vals): st.heap[oid][('f', var, i)] = v
                return ObjV(oid)
            if form[0] == 'adt_struct':
                sname = segs[-1]
                order = self.structs.get(sname)
                if order is None:
                    if 'closure@' not in path:
                        raise RuntimeError('unknown struct ' + sname)
                    order = list(form[2])
                for fname, v in zip(form[2], vals):
                    st.heap[oid][('f', None, order.index(fname))] = v
                return ObjV(oid)
            for i, v in enumerate(vals): st.heap[oid][('f', None, i)] = v
            return ObjV(oid)
        raise RuntimeError('rvalue kind ' + k + ' ' + str(rv.extra))

    def binop(self, st, op, a, b):
        if isinstance(a, BoolV) and isinstance(b, BoolV):
            f = {'Eq': lambda x, y: x == y, 'Ne': lambda x, y: x != y, 'BitAnd': z3.And, 'BitOr': z3.Or, 'BitXor': z3.Xor}[op]
            return BoolV(f(a.t, b.t))
        x, y, sg = a.t, b.t, a.signed
        if op in ('Lt', 'Le', 'Gt', 'Ge'):
            f = {('Lt', False): z3.ULT, ('Le', False): z3.ULE, ('Gt', False): z3.UGT, ('Ge', False): z3.UGE,
                 ('Lt', True): lambda p, q: p < q, ('Le', True): lambda p, q: p <= q, ('Gt', True): lambda p, q: p > q,
                 ('Ge', True): lambda p, q: p >= q}[(op, sg)]
            return BoolV(f(x, y))
        if op == 'Eq': return BoolV(x == y)
        if op == 'Ne': return BoolV(x != y)
        if op in ('Add', 'AddUnchecked'): return BV(x + y, sg)
        if op in ('Sub', 'SubUnchecked'): return BV(x - y, sg)
        if op in ('Mul', 'MulUnchecked'): return BV(x * y, sg)
        if op == 'BitAnd': return BV(x & y, sg)
        if op == 'BitOr': return BV(x | y, sg)
        if op == 'BitXor': return BV(x ^ y, sg)
        if op == 'Shl': return BV(x << y, sg)
        if op == 'Shr': return BV((x >> y) if sg else z3.LShR(x, y), sg)
        if op in ('AddWithOverflow', 'SubWithOverflow', 'MulWithOverflow'):
            w = x.size()
            ext = (lambda t: z3.SignExt(w, t)) if sg else (lambda t: z3.ZeroExt(w, t))
            wide = {'A': ext(x) + ext(y), 'S': ext(x) - ext(y), 'M': ext(x) * ext(y)}[op[0]]
            res = z3.Extract(w - 1, 0, wide)
            ov = ext(res) != wide
            oid = st.new_obj(st.fresh_name('ovf'), 'tuple')
            st.heap[oid][('f', None, 0)] = BV(res, sg)
            st.heap[oid][('f', None, 1)] = BoolV(ov)
            return ObjV(oid)
        raise RuntimeError('binop ' + op)

    # ------------------------------------------------------------ run
    def new_frame(self, st, fn, args, ret_to=None):
        self.used_bodies[fn.name] = True
        loc = st.new_obj(st.fresh_name('frame:' + fn.name[-30:]), 'frame')
        for (n, ty), v in zip(fn.params, args):
            st.heap[loc][n] = v
        st.frames.append({'fn': fn, 'locals': loc, 'bb': 0, 'ret_to': ret_to, 'visits': {}})

    def run(self, st0, max_paths=None):
        """explore all paths; returns list of finished states (PathLimit when more than max_paths are open or finished)"""
        work = [st0]; done = []
        while work:
            if max_paths is not None and len(work) + len(done) > max_paths:
                raise PathLimit(f'more than {max_paths} paths')
            st = work.pop()
            try:
                succ = self.step_block(st)
            except PathEnd:
                done.append(st); continue
            for s in succ:
                if s.status == 'running':
                    work.append(s)
                else:
                    done.append(s)
            if self.extra_paths:
                done.extend(self.extra_paths); self.extra_paths = []
        return done

    def step_block(self, st):
        fr = st.frames[-1]
        fn = fr['fn']
        bbn = fr['bb']
        fr['visits'] = dict(fr['visits'])
        fr['visits'][bbn] = fr['visits'].get(bbn, 0) + 1
        if fr['visits'][bbn] > self.max_visits:
            st.status = 'bound'; return [st]
        bb = fn.blocks[bbn]
        for s in bb.stmts:
            if s.lhs is None:
                continue
            oid, key, ty = self.lvalue(st, fr, s.lhs)
            try:
                st.heap[oid][key] = self.rvalue(st, fr, s.rv, ty)
            except (RuntimeError, AttributeError, KeyError, TypeError, z3.Z3Exception) as e:
                # an operation the interpreter has no exact semantics for (float arithmetic, pointer metadata of an
                # unmodelled pointee, ...): the result is unconstrained and the path is marked as havocked, so whatever
                # depends on it can only become a candidate that must reproduce natively - never a pass
                tag = 'uninterpreted ' + re.sub(r'_\d+', '_', s.text)[:50]
                st.havoc.append(tag); self.unhandled[tag] = self.unhandled.get(tag, 0) + 1
                st.heap[oid][key] = self.fresh_value(st, ty or 'u64', st.fresh_name('havoc'))
        t = bb.term
        if t.kind == 'goto':
            fr['bb'] = t.data['target']; return [st]
        if t.kind == 'return':
            rv = st.heap[fr['locals']].get(0, UNIT)
            if fn.ret.strip() != '()' and 0 not in st.heap[fr['locals']]:
                rv = self.load(st, fr['locals'], 0, fn.ret)
            st.frames.pop()
            if not st.frames:
                st.status = 'returned'; st.ret = rv; return [st]
            caller = st.frames[-1]
            dest, target = fr['ret_to']
            if dest is not None:
                oid, key, ty = self.lvalue(st, caller, dest)
                st.heap[oid][key] = rv
            caller['bb'] = target
            return [st]
        if t.kind == 'unreachable':
            st.status = 'infeasible'; return [st]
        if t.kind in ('resume', 'terminate'):
            st.status = 'unwound'; return [st]
        if t.kind == 'drop':
            st.events.append(('drop', placestr(t.data['place'])))
            fr['bb'] = t.data['target']; return [st]
        if t.kind == 'assert':
            c = self.operand(st, fr, t.data['cond'])
            ok = c.t if t.data['expected'] else z3.Not(c.t)
            out = []
            if self.feasible(st, z3.Not(ok)):
                bad = st.clone(); bad.pc.append(z3.Not(ok)); bad.status = 'panic'; bad.notes.append(t.data['msg'] + ' @' + fn.name)
                out.append(bad)
            st.pc.append(ok); fr['bb'] = t.data['target']
            if self.feasible(st): out.append(st)
            return out
        if t.kind == 'switch':
            v = self.operand(st, fr, t.data['op'])
            if isinstance(v, BoolV):
                term = z3.If(v.t, z3.BitVecVal(1, 64), z3.BitVecVal(0, 64))
            elif not isinstance(v, BV):
                # a scrutinee that is not a scalar (the value of a havocked call that should have been one): unconstrained, path marked
                st.havoc.append('switch on an uninterpreted value'); self.unhandled['switch on an uninterpreted value'] = self.unhandled.get('switch on an uninterpreted value', 0) + 1
                term = z3.BitVec(st.fresh_name('switch'), 64)
            else:
                term = v.t
            w = term.size()
            out = []; neg = []
            for val, tgt in t.data['cases']:
                c = term == z3.BitVecVal(val, w)
                neg.append(z3.Not(c))
                if self.feasible(st, c):
                    s2 = st.clone(); s2.pc.append(c); s2.frames[-1]['bb'] = tgt; out.append(s2)
            if t.data['otherwise'] is not None:
                c = z3.And(*neg) if neg else z3.BoolVal(True)
                if self.feasible(st, c):
                    s2 = st.clone(); s2.pc.append(c); s2.frames[-1]['bb'] = t.data['otherwise']; out.append(s2)
            return out
        if t.kind == 'call':
            return self.call(st, fr, t)
        raise RuntimeError('terminator ' + t.kind)

    def call(self, st, fr, t):
        func = t.data['func']
        args = [self.operand(st, fr, a) for a in t.data['args']]
        dest = t.data['dest']
        dest_ty = None
        if dest is not None:
            _, _, dest_ty = self.lvalue(st, fr, dest)
        for rx, target in self.inline:
            if re.search(rx, func):
                callee = self.fns[target]
                self.new_frame(st, callee, args, ret_to=(dest, t.data['target']))
                return [st]
        for rx, h in self.summaries:
            if re.search(rx, func):
                try:
                    outs = h(self, st, func, args, dest_ty)
                except Unmodelled as e:
                    st.notes.append(str(e)[:160]); break
                except (AttributeError, KeyError, TypeError, IndexError) as e:
                    # the summary met a shape it was not written for (e.g. a constant where it expects a heap value):
                    # the call is havocked like an unknown callee, the path is marked
                    st.notes.append(f'summary {getattr(h, "__name__", "?")} not applicable: {type(e).__name__} {str(e)[:80]}'); break
                if outs is None:
                    continue
                self.used_summaries[getattr(h, '__name__', 'summary') + ' <- ' + short(func)] = True
                res = []
                for s2, v in outs:
                    if t.data['target'] is None:
                        s2.status = 'diverged'; res.append(s2); continue
                    f2 = s2.frames[-1]
                    if dest is not None:
                        oid, key, ty = self.lvalue(s2, f2, dest)
                        s2.heap[oid][key] = v
                    f2['bb'] = t.data['target']
                    res.append(s2)
                return res
        # enum constructor shims:  Enum::Variant(args)
        segs = split_path(func)
        tyname, var = enum_variant(self.enums, segs)
        if tyname is not None:
            oid = st.new_obj(st.fresh_name('agg'), tyname)
            st.heap[oid]['discr'] = BV(z3.BitVecVal(DISCR_VALUES.get(tyname, {}).get(var, self.enums[tyname].index(var)), 64), True)
            for i, v in enumerate(args): st.heap[oid][('f', var, i)] = v
            if dest is not None:
                o2, k2, _ = self.lvalue(st, fr, dest); st.heap[o2][k2] = ObjV(oid)
            fr['bb'] = t.data['target']
            return [st]
        # default: havoc
        self.unhandled[short(func)] = self.unhandled.get(short(func), 0) + 1
        st.havoc.append(short(func))
        v = self.fresh_value(st, dest_ty or '()', st.fresh_name('ret:' + short(func)))
        if re.search(r'as (Iterator|DoubleEndedIterator)>::next(_back)?$', func) and isinstance(v, ObjV):
            # an iterator the summaries do not know: it yields at most one (unconstrained) element, so that a loop over
            # it cannot run to the visit bound with a fork at every round (the path is marked as havocked anyway)
            k = sum(1 for h in st.havoc if h == short(func))
            if k >= 2:
                st.heap[v.oid]['discr'] = BV(z3.BitVecVal(0, 64), True)
        st.events.append(('call', func, args, v))
        if t.data['target'] is None:
            st.status = 'diverged'; return [st]
        if dest is not None:
            oid, key, ty = self.lvalue(st, fr, dest)
            st.heap[oid][key] = v
        fr['bb'] = t.data['target']
        return [st]


def keyname(k):
    if isinstance(k, tuple):
        return (k[1] + '.' if k[1] else '') + str(k[2])
    return str(k)

def placestr(pl):
    return f'_{pl.local}' + ''.join('.' + (str(p[1]) if p[0] != 'deref' else '*') for p in pl.proj)

def short(func):
    return re.sub(r'<[^<>]*>', '', func)[-40:]

def split_path(path):
    # strip generic args, split on ::
    p = path
    while True:
        q = re.sub(r'<[^<>]*>', '', p)
        if q == p: break
        p = q
    return [s for s in p.split('::') if s]

def enum_variant(enums, segs):
    if len(segs) >= 3 and (segs[-3] + '::' + segs[-2]) in enums and segs[-1] in enums[segs[-3] + '::' + segs[-2]]:
        return segs[-3] + '::' + segs[-2], segs[-1]
    if len(segs) >= 2 and segs[-2] in enums and segs[-1] in enums[segs[-2]]:
        return segs[-2], segs[-1]
    return None, None


# ---------------------------------------------------------------- generic summaries
def sum_try_branch_option(ex, st, func, args, dest_ty):
    """<Option<T> as Try>::branch(o) : Some(v) -> Continue(v) ; None -> Break(None)"""
    o = args[0]
    if not isinstance(o, ObjV): return None
    d = ex.discr(st, o); out = []
    for dv in (1, 0):
        c = d.t == dv
        if not ex.feasible(st, c): continue
        s2 = st.clone(); s2.pc.append(c)
        oid = s2.new_obj(s2.fresh_name('cf'), dest_ty)
        if dv == 1:
            s2.heap[oid]['discr'] = BV(z3.BitVecVal(0, 64), True)
            s2.heap[oid][('f', 'Continue', 0)] = ex.load(s2, o.oid, ('f', 'Some', 0), 'opaque')
        else:
            s2.heap[oid]['discr'] = BV(z3.BitVecVal(1, 64), True)
            res = s2.new_obj(s2.fresh_name('residual'), 'Option<Infallible>'); s2.heap[res]['discr'] = BV(z3.BitVecVal(0, 64), True)
            s2.heap[oid][('f', 'Break', 0)] = ObjV(res)
        out.append((s2, ObjV(oid)))
    return out

def sum_from_residual_option(ex, st, func, args, dest_ty):
    oid = st.new_obj(st.fresh_name('none'), dest_ty); st.heap[oid]['discr'] = BV(z3.BitVecVal(0, 64), True)
    return [(st, ObjV(oid))]

def sum_result_ok(ex, st, func, args, dest_ty):
    """Result::ok / Result::err : Ok(v) -> Some(v) / None ..."""
    r = args[0]
    if not isinstance(r, ObjV): return None
    which = func.rsplit('::', 1)[1]
    d = ex.discr(st, r).t; out = []
    for dv in (0, 1):
        if not ex.feasible(st, d == dv): continue
        s2 = st.clone(); s2.pc.append(d == dv)
        oid = s2.new_obj(s2.fresh_name('opt'), dest_ty)
        keep = (dv == 0) == (which == 'ok')
        s2.heap[oid]['discr'] = BV(z3.BitVecVal(1 if keep else 0, 64), True)
        if keep: s2.heap[oid][('f', 'Some', 0)] = ex.load(s2, r.oid, ('f', 'Ok' if dv == 0 else 'Err', 0), 'opaque')
        out.append((s2, ObjV(oid)))
    return out

def sum_try_branch(ex, st, func, args, dest_ty):
    """<Result<T,E> as Try>::branch(r) : Ok(v) -> Continue(v) ; Err(e) -> Break(Err(e))"""
    r = args[0]
    d = ex.discr(st, r)
    out = []
    for dv, var in ((0, 'Ok'), (1, 'Err')):
        c = d.t == dv
        if not ex.feasible(st, c): continue
        s2 = st.clone(); s2.pc.append(c)
        oid = s2.new_obj(s2.fresh_name('cf'), dest_ty)
        if var == 'Ok':
            s2.heap[oid]['discr'] = BV(z3.BitVecVal(0, 64), True)
            m = re.match(r'.*ControlFlow<(.*)>$', dest_ty or '')
            payload_ty = None
            if m:
                from .mirparse import split_top
                parts = split_top(m.group(1))
                payload_ty = parts[1] if len(parts) > 1 else '()'
            s2.heap[oid][('f', 'Continue', 0)] = ex.load(s2, r.oid, ('f', 'Ok', 0), payload_ty or '()')
        else:
            s2.heap[oid]['discr'] = BV(z3.BitVecVal(1, 64), True)
            res = s2.new_obj(s2.fresh_name('residual'), 'Result<Infallible,E>')
            s2.heap[res]['discr'] = BV(z3.BitVecVal(1, 64), True)
            s2.heap[res][('f', 'Err', 0)] = ex.load(s2, r.oid, ('f', 'Err', 0), 'opaque')
            s2.heap[oid][('f', 'Break', 0)] = ObjV(res)
        out.append((s2, ObjV(oid)))
    return out

def sum_from_residual(ex, st, func, args, dest_ty):
    """from_residual(Err(e)) -> Err(From::from(e))"""
    res = args[0]
    oid = st.new_obj(st.fresh_name('fromres'), dest_ty)
    st.heap[oid]['discr'] = BV(z3.BitVecVal(1, 64), True)
    if not isinstance(res, ObjV):          # a constant residual (`Err(fmt::Error)`)
        e = ObjV(st.new_obj(st.fresh_name('consterr'), 'err'))
    else:
        e = ex.load(st, res.oid, ('f', 'Err', 0), 'opaque')
    w = st.new_obj(st.fresh_name('converted'), 'err')
    st.heap[w][('f', None, 0)] = e
    st.heap[oid][('f', 'Err', 0)] = ObjV(w)
    st.events.append(('propagate_err', e))
    return [(st, ObjV(oid))]

def sum_identity_deref(ex, st, func, args, dest_ty):
    """Rc/Box/RefMut deref: return reference to a slot 'inner' of the smart pointer object"""
    r = args[0]
    sp = ex.load(st, r.oid, r.key, 'opaque')
    if isinstance(sp, ObjV):
        ex.load(st, sp.oid, 'inner', pointee(dest_ty) if dest_ty and is_ptr_type(dest_ty) else 'opaque')
        return [(st, RefV(sp.oid, 'inner'))]
    return [(st, sp)]

def sum_fieldless_eq(ex, st, func, args, dest_ty):
    """derived PartialEq::eq / ne on a field-less enum: equality of discriminants"""
    from . import srcdefs
    m = re.match(r'^<&?(?:[\w]+::)*(\w+) as PartialEq>::(eq|ne)$', func)
    if not m or m.group(1) not in srcdefs.FIELDLESS:
        return None
    def tgt(v):
        while isinstance(v, RefV):
            v = st.heap[v.oid][v.key]
        return v
    a, b = tgt(args[0]), tgt(args[1])
    e = ex.discr(st, a).t == ex.discr(st, b).t
    return [(st, BoolV(e if m.group(2) == 'eq' else z3.Not(e)))]

def sum_map_err(ex, st, func, args, dest_ty):
    """Result::map_err(f) with f an error conversion (`E2::from`): Ok(v) -> Ok(v); Err(e) -> Err(wrapped e)"""
    if not re.search(r'as From<.*>>::from\}?>?$|::from\}>$', func):
        return None
    r = args[0]; d = ex.discr(st, r).t; out = []
    for dv in (0, 1):
        if not ex.feasible(st, d == dv): continue
        s2 = st.clone(); s2.pc.append(d == dv)
        oid = s2.new_obj(s2.fresh_name('maperr'), dest_ty or 'Result'); s2.heap[oid]['discr'] = BV(z3.BitVecVal(dv, 64), True)
        if dv == 0:
            s2.heap[oid][('f', 'Ok', 0)] = ex.load(s2, r.oid, ('f', 'Ok', 0), 'opaque') if ('f', 'Ok', 0) in s2.heap[r.oid] else UNIT
        else:
            w = s2.new_obj(s2.fresh_name('converted'), 'err'); s2.heap[w][('f', None, 0)] = ex.load(s2, r.oid, ('f', 'Err', 0), 'opaque')
            s2.heap[oid][('f', 'Err', 0)] = ObjV(w)
        out.append((s2, ObjV(oid)))
    return out

def _target(st, v):
    while isinstance(v, RefV):
        v = st.heap[v.oid][v.key]
    return v

def sum_is_variant(ex, st, func, args, dest_ty):
    """Option::is_some / is_none, Result::is_ok / is_err"""
    v = _target(st, args[0])
    if not isinstance(v, ObjV): return None
    d = ex.discr(st, v).t
    want = {'is_none': 0, 'is_some': 1, 'is_ok': 0, 'is_err': 1}[func.rsplit('::', 1)[1]]
    return [(st, BoolV(d == want))]

def sum_unwrap_or_default_int(ex, st, func, args, dest_ty):
    """Option::<int>::unwrap_or_default / unwrap_or(x)"""
    o = _target(st, args[0])
    if not isinstance(o, ObjV): return None
    m = re.search(r'Option::<(\w+)>::', func)
    if not m or m.group(1) not in INT: return None
    w, sg = INT[m.group(1)]
    d = ex.discr(st, o).t
    p = ex.load(st, o.oid, ('f', 'Some', 0), m.group(1))
    dflt = args[1].t if len(args) > 1 else z3.BitVecVal(0, w)
    return [(st, BV(z3.If(d == 1, p.t, dflt), sg))]

def sum_unwrap_or(ex, st, func, args, dest_ty):
    """Option::<T>::unwrap_or(default) for any T: the payload, or the default"""
    o = _target(st, args[0])
    if not isinstance(o, ObjV) or len(args) < 2: return None
    d = ex.discr(st, o).t; out = []
    if ex.feasible(st, d == 1):
        s2 = st.clone(); s2.pc.append(d == 1); out.append((s2, ex.load(s2, o.oid, ('f', 'Some', 0), 'opaque')))
    if ex.feasible(st, d == 0):
        st.pc.append(d == 0); out.append((st, args[1]))
    return out

def sum_option_or(ex, st, func, args, dest_ty):
    """Option::<T>::or(other): self when it is Some, other otherwise"""
    o = _target(st, args[0])
    if not isinstance(o, ObjV) or len(args) < 2: return None
    d = ex.discr(st, o).t; out = []
    if ex.feasible(st, d == 1):
        s2 = st.clone(); s2.pc.append(d == 1); out.append((s2, _target(s2, args[0])))
    if ex.feasible(st, d == 0):
        st.pc.append(d == 0); out.append((st, args[1]))
    return out

def sum_unwrap(ex, st, func, args, dest_ty):
    """Option::unwrap / expect, Result::unwrap / expect: the payload, or a panic path when there is none"""
    v = args[0]
    if not isinstance(v, ObjV): return None
    is_opt = 'Option' in func.split('::<')[0]
    d = ex.discr(st, v).t
    good = (d == 1) if is_opt else (d == 0)
    out = []
    if ex.feasible(st, z3.Not(good)):
        s2 = st.clone(); s2.pc.append(z3.Not(good)); s2.status = 'panic'
        s2.notes.append(('called `Option::unwrap()` on a `None` value' if is_opt else 'called `Result::unwrap()` on an `Err` value') + ' @' + st.frames[-1]['fn'].name)
        ex.extra_paths.append(s2)
    if ex.feasible(st, good):
        st.pc.append(good)
        out.append((st, ex.load(st, v.oid, ('f', 'Some' if is_opt else 'Ok', 0), 'opaque')))
    return out

def sum_int_minmax(ex, st, func, args, dest_ty):
    """Ord::min / max, cmp::min / max on machine integers"""
    m = re.search(r'<(\w+) as Ord>::(min|max)$|cmp::(min|max)::<(\w+)>$', func)
    if not m: return None
    ty = m.group(1) or m.group(4); op = m.group(2) or m.group(3)
    if ty not in INT or not all(isinstance(a, BV) for a in args[:2]): return None
    w, sg = INT[ty]
    a, b = args[0].t, args[1].t
    lt = (a < b) if sg else z3.ULT(a, b)
    return [(st, BV(z3.If(lt, a, b) if op == 'min' else z3.If(lt, b, a), sg))]

def sum_str_len_const(ex, st, func, args, dest_ty):
    """str::len of a string literal"""
    a = args[0]
    if isinstance(a, Const) and re.match(r'^"', a.text or ''):
        from .fmt import unescape_bytes
        return [(st, BV(z3.BitVecVal(len(unescape_bytes(a.text)), 64)))]
    return None

def sum_int_from(ex, st, func, args, dest_ty):
    """<T as From<S>>::from / <S as Into<T>>::into between machine integers (lossless widening), char from u8"""
    m = re.match(r'^<(\w+) as From<(\w+)>>::from$', func) or None
    if m: dst, src = m.group(1), m.group(2)
    else:
        m = re.match(r'^<(\w+) as Into<(\w+)>>::into$', func)
        if not m: return None
        src, dst = m.group(1), m.group(2)
    W = dict(INT); W['char'] = (32, False)
    if src not in W or dst not in W or not isinstance(args[0], BV): return None
    (ws, ss), (wd, sd) = W[src], W[dst]
    if wd < ws or args[0].t.size() != ws: return None
    t = args[0].t if wd == ws else (z3.SignExt(wd - ws, args[0].t) if ss else z3.ZeroExt(wd - ws, args[0].t))
    return [(st, BV(t, sd))]

def sum_ascii_class(ex, st, func, args, dest_ty):
    """u8 / char classification predicates of core (is_ascii_digit, is_ascii_control, ...): their definitions"""
    m = re.search(r'(?:u8|char)>?::is_(ascii(?:_\w+)?)$', func)
    if not m: return None
    v = args[0]
    while isinstance(v, RefV): v = st.heap[v.oid][v.key]
    if not isinstance(v, BV): return None
    x = v.t; w = x.size(); K = lambda n: z3.BitVecVal(n, w)
    def rng(a, b): return z3.And(z3.UGE(x, K(a)), z3.ULE(x, K(b)))
    cls = m.group(1)
    table = {'ascii': z3.ULE(x, K(0x7f)), 'ascii_digit': rng(0x30, 0x39), 'ascii_control': z3.Or(z3.ULE(x, K(0x1f)), x == K(0x7f)),
             'ascii_whitespace': z3.Or(x == K(0x20), x == K(0x09), x == K(0x0a), x == K(0x0c), x == K(0x0d)),
             'ascii_hexdigit': z3.Or(rng(0x30, 0x39), rng(0x41, 0x46), rng(0x61, 0x66)), 'ascii_alphabetic': z3.Or(rng(0x41, 0x5a), rng(0x61, 0x7a)),
             'ascii_alphanumeric': z3.Or(rng(0x30, 0x39), rng(0x41, 0x5a), rng(0x61, 0x7a)), 'ascii_uppercase': rng(0x41, 0x5a), 'ascii_lowercase': rng(0x61, 0x7a),
             'ascii_punctuation': z3.Or(rng(0x21, 0x2f), rng(0x3a, 0x40), rng(0x5b, 0x60), rng(0x7b, 0x7e)), 'ascii_graphic': rng(0x21, 0x7e)}
    if cls not in table: return None
    return [(st, BoolV(table[cls]))]

def sum_option_int_eq(ex, st, func, args, dest_ty):
    """<Option<int> as PartialEq>::eq / ne: both None, or both Some with equal payloads"""
    m = re.match(r'^<(?:std::option::)?Option<(\w+)> as PartialEq>::(eq|ne)$', func)
    if not m or m.group(1) not in INT: return None
    a, b = _target(st, args[0]), _target(st, args[1])
    if not isinstance(a, ObjV) or not isinstance(b, ObjV): return None
    da, db = ex.discr(st, a).t, ex.discr(st, b).t
    pa = ex.load(st, a.oid, ('f', 'Some', 0), m.group(1)).t; pb = ex.load(st, b.oid, ('f', 'Some', 0), m.group(1)).t
    e = z3.And(da == db, z3.Or(da == 0, pa == pb))
    return [(st, BoolV(e if m.group(2) == 'eq' else z3.Not(e)))]

def sum_char_to_digit(ex, st, func, args, dest_ty):
    """char::to_digit(radix) for radix 10 / 16: Some(value) for a digit of that radix, None otherwise"""
    v = args[0]
    while isinstance(v, RefV): v = st.heap[v.oid][v.key]
    if not isinstance(v, BV) or len(args) < 2 or not isinstance(args[1], BV): return None
    r = z3.simplify(args[1].t)
    if not z3.is_bv_value(r) or r.as_long() not in (10, 16): return None
    x = v.t if v.t.size() == 32 else z3.ZeroExt(32 - v.t.size(), v.t)
    K = lambda n: z3.BitVecVal(n, 32)
    dec = z3.And(z3.UGE(x, K(0x30)), z3.ULE(x, K(0x39))); lo = z3.And(z3.UGE(x, K(0x61)), z3.ULE(x, K(0x66))); up = z3.And(z3.UGE(x, K(0x41)), z3.ULE(x, K(0x46)))
    isd = dec if r.as_long() == 10 else z3.Or(dec, lo, up)
    val = z3.If(dec, x - K(0x30), z3.If(lo, x - K(0x61) + K(10), x - K(0x41) + K(10)))
    out = []
    if ex.feasible(st, isd):
        s2 = st.clone(); s2.pc.append(isd); o = s2.new_obj(s2.fresh_name('digit'), dest_ty or 'Option<u32>'); s2.heap[o]['discr'] = BV(z3.BitVecVal(1, 64), True); s2.heap[o][('f', 'Some', 0)] = BV(val); out.append((s2, ObjV(o)))
    if ex.feasible(st, z3.Not(isd)):
        s2 = st.clone(); s2.pc.append(z3.Not(isd)); o = s2.new_obj(s2.fresh_name('nodigit'), dest_ty or 'Option<u32>'); s2.heap[o]['discr'] = BV(z3.BitVecVal(0, 64), True); out.append((s2, ObjV(o)))
    return out

def sum_box_uninit(ex, st, func, args, dest_ty):
    """Box::<[T; N]>::new_uninit(): a fresh box object (the first half of `vec![..]`)"""
    return [(st, ObjV(st.new_obj(st.fresh_name('box'), dest_ty or 'Box')))]

def sum_box_into_vec(ex, st, func, args, dest_ty):
    """box_assume_init_into_vec_unsafe (the second half of `vec![a, b, ..]`): a Vec with the array the box was filled with"""
    m = re.search(r'::<.*, (\d+)>$', func)
    v = args[0]
    try:
        for _ in range(2): v = st.heap[v.oid][('f', None, 0)]            # Box.0: Unique, .0: NonNull
        while isinstance(v, RefV): v = st.heap[v.oid][v.key]
        for key in (('f', None, 1), ('f', None, 0), ('f', None, 0)): v = st.heap[v.oid][key]     # MaybeUninit.value, ManuallyDrop.0, MaybeDangling.0
        items = [st.heap[v.oid][('f', None, i)] for i in range(int(m.group(1)))]
    except (KeyError, AttributeError, TypeError):
        return None
    from .lib import seqobj
    return [(st, seqobj(st, 'Vec', items))]

GENERIC = [
    (r'(^|::)char::to_digit$|<impl char>::to_digit$', sum_char_to_digit),
    (r'^<(std::option::)?Option<\w+> as PartialEq>::(eq|ne)$', sum_option_int_eq),
    (r'(^|::)(u8|char)::is_ascii(_\w+)?$|<impl (u8|char)>::is_ascii(_\w+)?$', sum_ascii_class),
    (r'^Box::<\[.*\]>::new_uninit$', sum_box_uninit), (r'box_assume_init_into_vec_unsafe::<', sum_box_into_vec),
    (r'^<\w+ as From<\w+>>::from$|^<\w+ as Into<\w+>>::into$', sum_int_from),
    (r'^<\w+ as Ord>::(min|max)$|^(std|core)::cmp::(min|max)::<\w+>$', sum_int_minmax),
    (r'^core::str::<impl str>::len$', sum_str_len_const),
    (r'^(std::option::)?Option::<.*>::(unwrap|expect)$|^(std::result::)?Result::<.*>::(unwrap|expect)$', sum_unwrap),
    (r'^<Option<.*> as Try>::branch$|^<std::option::Option<.*> as Try>::branch$', sum_try_branch_option),
    (r'^<Option<.*> as FromResidual<Option<.*>>>::from_residual$|^<std::option::Option<.*> as FromResidual<.*Option<.*>>>::from_residual$', sum_from_residual_option),
    (r'^Result::<.*>::ok$|^Result::<.*>::err$|^std::result::Result::<.*>::(ok|err)$', sum_result_ok),
    (r'Option::<.*>::is_some$|Option::<.*>::is_none$|Result::<.*>::is_ok$|Result::<.*>::is_err$', sum_is_variant),
    (r'Option::<\w+>::unwrap_or_default$|Option::<\w+>::unwrap_or$', sum_unwrap_or_default_int),
    (r'^(std::option::)?Option::<.*>::unwrap_or$', sum_unwrap_or),
    (r'^(std::option::)?Option::<.*>::or$', sum_option_or),
    (r'Result::<.*>::map_err::<', sum_map_err),
    (r' as PartialEq>::(eq|ne)$', sum_fieldless_eq),
    (r'^<Result<.*> as Try>::branch$|^<std::result::Result<.*> as Try>::branch$', sum_try_branch),
    (r' as FromResidual<.*>>::from_residual$', sum_from_residual),
    (r' as Deref>::deref$| as DerefMut>::deref_mut$', sum_identity_deref),
]
