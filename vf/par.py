"""fork-based parallel map: the items (which may hold the parsed MIR, lambdas, z3 terms) are inherited through fork,
only indices travel to the workers; results must be picklable (dicts, lists, ints)"""
import multiprocessing as mp, os, traceback

_FN = None
_ITEMS = None

def _call(i):
    try:
        return i, _FN(_ITEMS[i]), None
    except Exception:
        return i, None, traceback.format_exc()

def pmap(fn, items, procs=None):
    global _FN, _ITEMS
    items = list(items)
    procs = min(procs or int(os.environ.get('VERIF_PROCS', os.cpu_count() or 4)), max(1, len(items)))
    if procs <= 1 or len(items) <= 1:
        return [fn(x) for x in items]
    _FN = fn; _ITEMS = items
    ctxm = mp.get_context('fork')
    with ctxm.Pool(procs) as pool:
        res = pool.map(_call, range(len(items)), chunksize=1)
    _ITEMS = None
    out = [None] * len(items)
    for i, r, e in res:
        if e:
            from .report import Broken
            if 'Broken' in e.splitlines()[-1]:
                raise Broken('worker: ' + e.splitlines()[-1])
            raise RuntimeError('worker failed:\n' + e)
        out[i] = r
    return out
