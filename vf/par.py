"""fork-based parallel map; workers return picklable results (dicts, lists, ints)"""
import multiprocessing as mp, os, traceback

_FN = None

def _call(i_item):
    i, item = i_item
    try:
        return i, _FN(item), None
    except Exception:
        return i, None, traceback.format_exc()

def pmap(fn, items, procs=None):
    global _FN
    items = list(items)
    procs = min(procs or int(os.environ.get('VERIF_PROCS', os.cpu_count() or 4)), max(1, len(items)))
    if procs <= 1 or len(items) <= 1:
        return [fn(x) for x in items]
    _FN = fn
    ctxm = mp.get_context('fork')
    with ctxm.Pool(procs) as pool:
        res = pool.map(_call, list(enumerate(items)), chunksize=1)
    out = [None] * len(items)
    for i, r, e in res:
        if e:
            raise RuntimeError('worker failed:\n' + e)
        out[i] = r
    return out
