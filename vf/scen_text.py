"""csv / text output (src/output_style.rs: TextProcess, TextPrinter): row layout for N columns; csv quoting on free
code points decoded by a symbolic RFC 4180 field reader."""
import re, json
import z3
from .lib import *
from .mirsym import Const
from .report import Candidate, Broken
from .fmt import calibrate, fmt_summaries, Tok, unescape_bytes
from .scen_parser import utf8_cases, PC, Ref
from .scen_print import base_summaries, s_chars


def find_method(ctx, meth, who):
    cs = [n for n in ctx.fns if re.search(r'^output_style::<impl at [^>]*>::' + meth + '$', n) and who in ctx.fns[n].params[0][1]]
    if len(cs) != 1: raise Broken(f'{who}::{meth}: {cs}')
    return ctx.fns[cs[0]]


def text_layout(ctx):
    run = ctx.run
    calib = calibrate()
    NMAX = 3 if ctx.quick else 5
    run.bounds['text layout'] = f'N = 0..{NMAX} columns, headers on/off, each value present or absent, every write outcome'
    fam = run.family('text.layout', 'with N selections every row is N fields, N-1 item separators and one row separator; the header row lists the N names in order; csv/--headers with N = 0 fails before writing')
    TP = ctx.structs['TextProcess']; TPR = ctx.structs['TextPrinter']; TO = ctx.structs['TextOutputOptions']

    def s_titles_len(ex, st, func, args, ty): return [(st, BV(bv64(len(model(st, args[0])))))]
    def s_titles_to_list(ex, st, func, args, ty):
        return [(st, seqobj(st, 'Vec', [some(st, named(st, f'TITLE{i}', 'JsonValue')) for i in range(len(model(st, args[0])))]))]
    def s_ctx_to_list(ex, st, func, args, ty):
        c = obj(st, args[0]); return [(st, seqobj(st, 'Vec', list(st.heap[c.oid]['row'])))]
    def s_print(ex, st, func, args, ty):
        s = obj(st, args[1]); v = obj(st, args[2])
        d = cval(ex.discr(st, v).t)
        tok = Tok('field', origin(st, st.heap[v.oid][('f', 'Some', 0)]) if d == 1 else 'ABSENT')
        st.heap[s.oid]['model'] = tuple(st.heap[s.oid].get('model', ())) + (tok,)
        return [(st, ok(st, UNIT))]
    def s_print_something(ex, st, func, args, ty):
        s = obj(st, args[1]); st.heap[s.oid]['model'] = tuple(st.heap[s.oid].get('model', ())) + (Tok('raw', origin(st, args[2])),); return [(st, ok(st, UNIT))]
    def s_borrow_mut(ex, st, func, args, ty): return [(st, named(st, 'refmut:' + origin(st, args[0]), ty))]
    def s_deref_slice(ex, st, func, args, ty): return [(st, args[0])]
    def s_enumerate(ex, st, func, args, ty):
        it = obj(st, args[0]); items = []
        for i, x in enumerate(st.heap[it.oid]['model']):
            t = named(st, st.fresh_name('ix'), 'tuple'); st.heap[t.oid][('f', None, 0)] = BV(bv64(i)); st.heap[t.oid][('f', None, 1)] = x; items.append(t)
        return [(st, seqobj(st, 'Enumerate', items))]
    summ = [(r'Titles::len$', s_titles_len), (r'Titles::to_list$', s_titles_to_list), (r'Context::to_list$', s_ctx_to_list), (r'Context::input$', lambda ex, st, f, a, t: [(st, slot(st, named(st, 'INPUT', 'Rc<JsonValue>')))]),
            (r'Print<.*>>::print$', s_print), (r'Print<.*>>::print_something$', s_print_something), (r'RefCell::<.*>::borrow_mut$', s_borrow_mut),
            (r'String::new$', lambda ex, st, f, a, t: [(st, seqobj(st, 'String', ()))]), (r'impl str>::is_empty$|String::is_empty$', lambda ex, st, f, a, t: [(st, BoolV(z3.BoolVal(len(model(st, a[0])) == 0)))]), (r'as DerefMut>::deref_mut$| as Deref>::deref$', s_deref_slice),
            (r'impl \[.*\]>::iter$|<&\[.*\] as IntoIterator>::into_iter$|<&Vec<.*> as IntoIterator>::into_iter$', s_iter_ref), (r'as IntoIterator>::into_iter$', s_identity), (r'as Iterator>::enumerate$', s_enumerate), (r'as Iterator>::next$', s_iter_next)] + base_summaries(calib, 'write_any')
    # every inherent method of TextProcess found in the MIR is executed (a helper added by an edit is code of the stage, not an unknown callee)
    pl = [n for n in ctx.fns if re.search(r'^output_style::<impl at [^>]*>::print_list$', n)]
    helpers = []
    if len(pl) == 1:
        span = re.match(r'^(output_style::<impl at [^>]*>)::', pl[0]).group(1)
        for n in ctx.fns:
            if n.startswith(span + '::') and '{' not in n[len(span):]:
                helpers.append((r'TextProcess::%s$' % re.escape(n[len(span) + 2:]), '^' + re.escape(n) + '$'))
    ex = ctx.exec(summaries=summ, inline=helpers or [(r'TextProcess::print_list$', r'^output_style::<impl at [^>]*>::print_list$')], max_visits=4 * NMAX + 10)
    F_START = find_method(ctx, 'start', 'TextProcess'); F_PROC = find_method(ctx, 'process', 'TextProcess')

    def mkself(st, headers):
        so = st.new_obj('self', 'TextProcess'); selfref = slot(st, ObjV(so), 'self*')
        st.heap[so][('f', None, TP.index('writer'))] = named(st, 'self.writer', 'Rc<RefCell<dyn Write>>')
        st.heap[so][('f', None, TP.index('line_seperator'))] = seqobj(st, 'String', [Tok('ROWSEP', '')], origin='self.line_seperator')
        st.heap[so][('f', None, TP.index('length'))] = BV(z3.BitVec('length0', 64))
        pr = st.new_obj('self.printer', 'TextPrinter'); st.heap[so][('f', None, TP.index('printer'))] = ObjV(pr)
        op = st.new_obj('self.printer.options', 'TextOutputOptions'); st.heap[pr][('f', None, TPR.index('options'))] = ObjV(op)
        st.heap[op][('f', None, TO.index('headers'))] = BoolV(z3.BoolVal(headers))
        st.heap[op][('f', None, TO.index('items_seperator'))] = seqobj(st, 'String', [Tok('ITEMSEP', '')], origin='items_seperator')
        return so, selfref

    def toks(outs):
        return [str(x) for e in outs for x in e[2]]

    for n in range(NMAX + 1):
        for headers in (False, True):
            st = State(); so, selfref = mkself(st, headers)
            titles = seqobj(st, 'Titles', [named(st, f't{i}') for i in range(n)], origin='TITLES')
            ex.new_frame(st, F_START, [selfref, titles])
            for d in ex.run(st):
                run.paths += 1
                if d.status == 'infeasible': continue
                fam.obligations += 1; fam.witnesses += 1
                hav = next((h for h in d.havoc if 'write' in h.lower()), (d.havoc or [None])[0])
                if d.status != 'returned':
                    fam.candidates.append(Candidate(fam.name, f'start-{d.status}', f'TextProcess::start N={n} headers={headers}: {d.status} {d.notes}', {'n': n, 'headers': headers}, unmodelled=hav)); continue
                outs = [e for e in d.events if e[0] == 'out']; rd = ex.discr(d, obj(d, d.ret)).t
                allok = z3.And(*[ex.discr(d, e[3]).t == 0 for e in outs]) if outs else z3.BoolVal(True)
                exp = []
                if headers and n > 0:
                    for i in range(n):
                        exp.append(f'<field:TITLE{i}>')
                        if i < n - 1: exp.append('<ITEMSEP:>')
                    exp.append('<ROWSEP:>')
                good = True; why = ''
                if headers and n == 0:
                    good = not outs and ex.valid(d, rd == 1)[0]; why = 'csv / --headers without columns must fail before writing'
                else:
                    # if every write succeeded the full header (or nothing) was written and the length is N
                    full = toks(outs) == exp
                    good = ex.valid(d, z3.Implies(allok, z3.And(z3.BoolVal(full), rd == 0, d.heap[so][('f', None, TP.index('length'))].t == n)))[0] and toks(outs) == exp[:len(toks(outs))] \
                        and ex.valid(d, z3.Implies(z3.Not(allok), rd == 1))[0]
                    why = f'writes {toks(outs)}, expected {exp}'
                if good: fam.discharged += 1
                else: fam.candidates.append(Candidate(fam.name, 'header-layout' if not (headers and n == 0) else 'no-columns-accepted', f'TextProcess::start with {n} columns, headers={headers}: {why}', {'n': n, 'headers': headers, 'what': 'start'}, unmodelled=hav))
            # one row
            for pattern in ([()] if n == 0 else [tuple(p) for p in __import__('itertools').product((True, False), repeat=n)]):
                st = State(); so, selfref = mkself(st, headers)
                st.heap[so][('f', None, TP.index('length'))] = BV(bv64(n))
                c = named(st, 'ctx', 'Context'); st.heap[c.oid]['row'] = [some(st, named(st, f'VAL{i}', 'JsonValue')) if p else none(st) for i, p in enumerate(pattern)]
                ex.new_frame(st, F_PROC, [selfref, c])
                for d in ex.run(st):
                    run.paths += 1
                    if d.status == 'infeasible': continue
                    fam.obligations += 1; fam.witnesses += 1
                    hav = next((h for h in d.havoc if 'write' in h.lower()), (d.havoc or [None])[0])
                    if d.status != 'returned':
                        fam.candidates.append(Candidate(fam.name, f'row-{d.status}', f'TextProcess::process N={n}: {d.status} {d.notes}', {'n': n}, unmodelled=hav)); continue
                    outs = [e for e in d.events if e[0] == 'out']; rd = ex.discr(d, obj(d, d.ret)).t
                    allok = z3.And(*[ex.discr(d, e[3]).t == 0 for e in outs]) if outs else z3.BoolVal(True)
                    if n == 0: exp = ['<raw:INPUT>', '<ROWSEP:>']
                    else:
                        exp = []
                        for i, p in enumerate(pattern):
                            exp.append(f'<field:VAL{i}>' if p else '<field:ABSENT>')
                            if i < n - 1: exp.append('<ITEMSEP:>')
                        exp.append('<ROWSEP:>')
                    got = toks(outs)
                    good = got == exp[:len(got)] and ex.valid(d, z3.Implies(allok, z3.And(z3.BoolVal(got == exp), rd == 0)))[0] and ex.valid(d, z3.Implies(z3.Not(allok), rd == 1))[0]
                    if good:
                        fam.discharged += 1
                        if n == 3 and all(pattern): fam.add_sample({'columns': n, 'writes': got, 'verdict': 'N fields, N-1 separators, one row separator'})
                    else:
                        fam.candidates.append(Candidate(fam.name, 'row-layout', f'TextProcess::process with {n} columns (present={pattern}): writes {got}, expected {exp}', {'n': n, 'what': 'row'}, unmodelled=hav))
    seen = set(); fam.candidates = [c for c in fam.candidates if not (c.role in seen or seen.add(c.role))]
    run.absorb(ex)
    from .cli import run_jawk, show, run_driver
    for c in fam.candidates:
        n = c.model.get('n', 2)
        if c.unmodelled and 'write' in str(c.unmodelled).lower():
            # the row reaches the writer through a call the scenario has no model for (io::Write::write may take fewer bytes than
            # it is given): the same run against a writer that accepts one byte per call must give the same output
            argv = ['-o', 'csv', '--select', '.a=a', '--select', '.b=b']; stdin = b'{"a":"x,y","b":[1,2]} {"a":null}'
            r0 = run_driver(ctx, argv, stdin); r1 = run_driver(ctx, argv, stdin, env={'WRITE_CHUNK': '1'})
            if r0['stdout'] != r1['stdout'] or r0['result'] != r1['result']:
                c.replay = {'argv': argv, 'stdin': show(stdin), 'writer': 'accepts one byte per write call', 'expected_stdout': show(r0['stdout']), 'actual_stdout': show(r1['stdout']), 'result': r1['result']}
                c.status = 'reproduced'; c.unmodelled = None; continue
        if c.role in ('row-layout', 'header-layout'):
            # rows are written when they are processed (a streaming output): what precedes a fatal point is already out
            argv = ['-o', 'csv', '--select', '.a=a', '--on-error', 'panic']; stdin = b'{"a":1} {"a":2} x {"a":3}'
            r = run_driver(ctx, argv, stdin)
            if show(r['stdout']) != '"a"\n1\n2\n' or not str(r['result']).startswith('err'):
                c.replay = {'argv': argv, 'stdin': show(stdin), 'expected_stdout': '"a"\n1\n2\n', 'actual_stdout': show(r['stdout']), 'result': r['result']}; c.status = 'reproduced'; c.unmodelled = None; continue
        if c.role == 'no-columns-accepted':
            r = run_jawk(ctx, ['-o', 'csv'], b'{"a":1}')
            c.replay = {'argv': ['-o', 'csv'], 'rc': r['rc'], 'stdout': show(r['stdout'])}
            c.status = 'reproduced' if r['rc'] == 0 or r['stdout'] else 'unit'; continue
        sels = [x for i in range(max(n, 1)) for x in ('--select', f'.c{i}=c{i}')]
        row = {f'c{i}': i for i in range(max(n, 1)) if i != 1}
        r = run_jawk(ctx, ['-o', 'csv'] + sels, json.dumps(row).encode())
        lines = show(r['stdout']).split('\n')
        exp_h = ', '.join(f'"c{i}"' for i in range(max(n, 1))); exp_r = ', '.join(str(i) if i != 1 else '' for i in range(max(n, 1)))
        c.replay = {'argv': ['-o', 'csv'] + sels, 'stdin': row, 'expected': [exp_h, exp_r, ''], 'actual': lines}
        c.status = 'reproduced' if lines != [exp_h, exp_r, ''] else 'unit'
        if c.status != 'reproduced' and c.role.startswith(('header', 'start')):
            # names go through the same field printer as values: a name with a quote / a configured escape
            for argv, stdin, exp in ((['-o', 'csv', '--select', '.a=x"y', '--select', '.b=p,q'], '{"a":1,"b":2}', ['"x""y", "p,q"', '1, 2', '']),
                                     (['-o', 'text', '--headers', '--escape-sequance', 'y<Y>', '--select', '.a=xyz'], '{"a":1}', ['x<Y>z', '1', ''])):
                r = run_jawk(ctx, argv, stdin.encode()); lines = show(r['stdout']).split('\n')
                if lines != exp:
                    c.replay = {'argv': argv, 'stdin': stdin, 'expected': exp, 'actual': lines}; c.status = 'reproduced'; break


# ---------------------------------------------------------------- csv quoting
def rfc4180_field(ref, pc, bs):
    """symbolic RFC 4180 quoted-field reader: yields (pc', content byte terms | None)"""
    def go(pc, i, acc):
        if i >= len(bs):
            yield pc, None; return
        b = bs[i]
        if i == 0:
            for p, t in ref.fork(pc, [(b == ord('"'), 'q')]):
                if t: yield from go(p, 1, acc)
                else: yield p, None
            return
        for p, t in ref.fork(pc, [(b == ord('"'), 'q')]):
            if t is None:
                yield from go(p, i + 1, acc + [b]); continue
            if i == len(bs) - 1:
                yield p, acc; continue
            for p2, t2 in ref.fork(p, [(bs[i + 1] == ord('"'), 'qq')]):
                if t2: yield from go(p2, i + 2, acc + [z3.BitVecVal(ord('"'), 8)])
                else: yield p2, None        # a lone quote inside the field: the field would end here
    yield from go(pc, 0, [])


def csv_quoting(ctx):
    run = ctx.run
    calib = calibrate()
    ns = (1, 2) if ctx.quick else (1, 2, 3)
    run.bounds['csv quoting'] = f'strings of {ns} code points, each any Unicode scalar value; csv preset (quote `"` doubled, prefix/postfix `"`)'
    fam = run.family('text.csv_string', 'a csv string field is `"`-quoted with every `"` doubled: a standard RFC 4180 reader recovers exactly the input code points, whatever quotes, commas or line breaks they contain')
    TPR = ctx.structs['TextPrinter']; TO = ctx.structs['TextOutputOptions']

    def s_hm_get(ex, st, func, args, ty):
        """HashMap<char,String>::get on the csv table {'"' -> '""'}"""
        c = obj(st, args[1]); out = []
        isq = c.t == ord('"')
        if ex.feasible(st, isq):
            s2 = st.clone(); s2.pc.append(isq); out.append((s2, some(s2, slot(s2, seqobj(s2, 'String', [BV(bv8(ord('"'))), BV(bv8(ord('"')))])))))
        if ex.feasible(st, z3.Not(isq)):
            s2 = st.clone(); s2.pc.append(z3.Not(isq)); out.append((s2, none(s2)))
        return out
    summ = [(r'HashMap::<char, .*>::get::<char>$', s_hm_get)] + base_summaries(calib)
    ex = ctx.exec(summaries=summ, max_visits=20)
    F = find_method(ctx, 'print_string', 'TextPrinter')
    for nch in ns:
        st = State()
        so = st.new_obj('self', 'TextPrinter'); selfref = slot(st, ObjV(so), 'self*')
        op = st.new_obj('self.options', 'TextOutputOptions'); st.heap[so][('f', None, TPR.index('options'))] = ObjV(op)
        q = lambda: seqobj(st, 'String', [BV(bv8(ord('"')))])
        st.heap[op][('f', None, TO.index('string_prefix'))] = q(); st.heap[op][('f', None, TO.index('string_postfix'))] = q()
        st.heap[so][('f', None, TPR.index('escape_sequandes'))] = named(st, 'csv_escapes', 'HashMap')
        chars = [z3.BitVec(f'c{i}', 32) for i in range(nch)]
        for c in chars: st.pc.append(z3.Or(z3.ULT(c, 0xD800), z3.And(z3.UGE(c, 0xE000), z3.ULE(c, 0x10FFFF))))
        sref = slot(st, seqobj(st, 'str', [BV(c) for c in chars]), 'str*'); w = slot(st, named(st, 'W', 'W'), 'w*')
        ex.new_frame(st, F, [selfref, w, sref])
        for d in ex.run(st):
            run.paths += 1
            if d.status == 'infeasible': continue
            hav = (d.havoc or [None])[0]
            def cand(role, text, m):
                cps = [m.eval(c, True).as_long() for c in chars] if m is not None else []
                fam.candidates.append(Candidate(fam.name, role, text + f' for code points {[hex(x) for x in cps]}', {'chars': cps}, unmodelled=hav))
            if d.status != 'returned':
                fam.obligations += 1; cand(f'path-{d.status}', f'print_string ends as {d.status} {d.notes}', ex.valid(d, z3.BoolVal(False))[1]); continue
            out = [b for e in d.events if e[0] == 'out' for b in e[2]]
            if any(not z3.is_expr(b) for b in out):
                fam.obligations += 1; fam.witnesses += 1; cand('opaque-output', 'the field is not built from the string\'s characters and the escape table alone', ex.valid(d, z3.BoolVal(False))[1]); continue
            ref = Ref(ex, d.pc)
            for p, content in rfc4180_field(ref, PC(d.pc), out):
                fam.obligations += 1; fam.witnesses += 1; fam.paths += 1
                if content is None:
                    m = ref.model_of(p); cand('not-a-quoted-field', 'the field is not a well-formed quoted csv field: ' + repr(bytes(m.eval(b, True).as_long() for b in out)), m); continue
                # content must be the UTF-8 of the chars
                okall = True
                def enc(pc, ci, k, conj):
                    if ci == len(chars):
                        yield pc, (z3.And(*conj) if conj else z3.BoolVal(True)) if k == len(content) else False; return
                    for p2, bs_ in ref.fork(pc, [(cnd, b) for cnd, b in utf8_cases(chars[ci])]):
                        if bs_ is None or k + len(bs_) > len(content): yield p2, False; continue
                        yield from enc(p2, ci + 1, k + len(bs_), conj + [content[k + q] == bs_[q] for q in range(len(bs_))])
                for p2, f in enc(p, 0, 0, []):
                    if f is False: m = ref.model_of(p2); okall = False
                    else:
                        ex.solver.push(); [ex.solver.add(x) for x in p2]; ex.solver.add(z3.Not(f)); r = ex.solver.check(); m = ex.solver.model() if r == z3.sat else None; ex.solver.pop(); ex.queries += 1
                        okall = r == z3.unsat
                    if not okall:
                        cand('field-decodes-differently', 'an RFC 4180 reader recovers a different string from ' + repr(bytes(m.eval(b, True).as_long() for b in out)), m); break
                if okall:
                    fam.discharged += 1
                    if not fam.samples:
                        m = ref.model_of(p); fam.add_sample({'chars': [hex(m.eval(c, True).as_long()) for c in chars], 'field': repr(bytes(m.eval(b, True).as_long() for b in out)), 'verdict': 'recovers the input for every code point on this path'})
    seen = set(); fam.candidates = [c for c in fam.candidates if not (c.role in seen or seen.add(c.role))]
    run.absorb(ex)
    import csv, io
    from .cli import run_jawk, show
    for c in fam.candidates:
        s = ''.join(chr(x) for x in c.model['chars']) or 'a"b'
        r = run_jawk(ctx, ['-o', 'csv', '--select', '.=v'], json.dumps(s).encode())
        txt = r['stdout'].decode('utf-8', errors='replace')
        rows = list(csv.reader(io.StringIO(txt, newline=''), skipinitialspace=True))
        c.replay = {'argv': ['-o', 'csv', '--select', '.=v'], 'stdin': json.dumps(s), 'csv_reader_rows': rows, 'raw': txt}
        c.status = 'reproduced' if len(rows) < 2 or rows[1] != [s] else 'not-reproduced'
        if c.status != 'reproduced':
            # text mode with several single-character escape sequences: each character is replaced at most once
            for table, value in (({';': '\\;', '\\': '\\\\'}, 'a;b\\c'), ({'a': 'b', 'b': 'a'}, 'abba'), ({'"': '""', ',': '\\,'}, 'x",y')):
                argv = ['-o', 'text', '--select', '.=v']
                for k_, v_ in table.items(): argv += ['--escape-sequance', k_ + v_]
                r2 = run_jawk(ctx, argv, json.dumps(value).encode())
                exp = ''.join(table.get(ch, ch) for ch in value) + '\n'
                if show(r2['stdout']) != exp:
                    c.replay = {'argv': argv, 'stdin': json.dumps(value), 'expected': exp, 'actual': show(r2['stdout'])}; c.status = 'reproduced'; break
            if c.status != 'reproduced' and c.role == 'opaque-output': c.status = 'unit'


# ---------------------------------------------------------------- the csv preset and the escape table built from it
CSV_PRESET = {'items_seperator': b', ', 'string_prefix': b'"', 'string_postfix': b'"', 'headers': True, 'escape_sequance': [b'"""'], 'null_keyword': b'null', 'true_keyword': b'True', 'false_keyword': b'False',
              'missing_value_keyword': None}


def text_presets(ctx):
    """(a) TextOutputOptions::csv() is the RFC 4180 dialect the property names; (b) From<TextOutputOptions> for
    TextPrinter turns every escape entry `cREST` into table[c] = REST (an entry of one character deletes it), for every
    ASCII entry of 0..3 bytes; (a)+(b) give the table {'"': '""'} that text.csv_string assumes."""
    run = ctx.run
    fam = run.family('text.csv_preset', 'csv() = `, ` separated, strings in `"` with `"` doubled, header row, null/True/False, absent = empty; the printer\'s escape table maps the first character of every --escape-sequance entry to the rest of the entry')
    NB = 3 if ctx.quick else 4
    run.bounds['text presets'] = f'csv(): all fields; escape table: 1..2 entries of 0..{NB} free ASCII bytes each (single-byte escape characters, as the property states)'
    TO = ctx.structs['TextOutputOptions']; TPR = ctx.structs['TextPrinter']

    def s_to_string(ex, st, func, args, ty):
        a = args[0]
        if isinstance(a, Const): return [(st, seqobj(st, 'String', [BV(bv8(x)) for x in unescape_bytes(a.text)]))]
        o = obj(st, a)
        if isinstance(o, ObjV) and 'model' in st.heap[o.oid]: return [(st, seqobj(st, 'String', model(st, o)))]
        return None
    def s_chars(ex, st, func, args, ty): return [(st, seqobj(st, 'CharIter', [BV(z3.ZeroExt(24, b.t)) for b in model(st, args[0])]))]
    def s_map_new(ex, st, func, args, ty): return [(st, seqobj(st, 'Map', ()))]
    def s_capacity(ex, st, func, args, ty): return [(st, BV(z3.BitVec(st.fresh_name('capacity'), 64)))]
    def s_insert(ex, st, func, args, ty):
        mo = obj(st, args[0]); k = args[1]; v = args[2]
        st.heap[mo.oid]['model'] = tuple(st.heap[mo.oid]['model']) + ((k, v),)
        st.events.append(('insert', k.t, tuple(b.t for b in model(st, v))))
        return [(st, none(st))]
    from .scen_kernels import s_str_index, PANICS
    summ = [(r'<str as ToString>::to_string$|<std::string::String as Clone>::clone$', s_to_string), (r'impl str>::chars$', s_chars), (r'<Chars<.*> as Iterator>::next$', s_iter_next),
            (r'HashMap::<.*>::with_capacity$|HashMap::<.*>::new$', s_map_new), (r'Vec::<.*>::capacity$|Vec::<.*>::len$', s_capacity), (r'HashMap::<.*>::insert$', s_insert),
            (r'<&Vec<.*> as IntoIterator>::into_iter$|impl \[.*\]>::iter$', s_iter_ref), (r'<std::slice::Iter<.*> as Iterator>::next$', s_iter_next),
            (r'<std::string::String as Index<.*>>::index$|<str as Index<.*>>::index$', s_str_index), (r'<std::string::String as Deref>::deref$|String::as_str$', s_identity)]
    ex = ctx.exec(summaries=summ, max_visits=16)
    # (a) the preset
    F = ex.find(r'^output_style::<impl at [^>]*>::csv$')
    st = State(); ex.new_frame(st, F, [])
    preset_escapes = None
    for d in ex.run(st):
        if d.status == 'infeasible': continue
        run.paths += 1; fam.paths += 1
        hav = (d.havoc or [None])[0]
        got = {}
        if d.status == 'returned':
            r = obj(d, d.ret)
            for name, want in CSV_PRESET.items():
                v = d.heap[r.oid].get(('f', None, TO.index(name)))
                def text(o):
                    o = obj(d, o)
                    if not isinstance(o, ObjV) or 'model' not in d.heap[o.oid]: return '?'
                    vals = [cval(b.t) for b in d.heap[o.oid]['model']]
                    return bytes(vals) if all(x is not None for x in vals) else '?'
                if isinstance(want, bool): got[name] = cval(v.t) == 1 if isinstance(v, BoolV) else '?'
                elif want is None: got[name] = None if isinstance(v, ObjV) and cval(ex.discr(d, v).t) == 0 else '?'
                elif isinstance(want, list):
                    vo = obj(d, v); got[name] = [text(x) for x in d.heap[vo.oid]['model']] if isinstance(vo, ObjV) and 'model' in d.heap[vo.oid] else '?'
                else: got[name] = text(v)
        for name, want in CSV_PRESET.items():
            fam.obligations += 1; fam.witnesses += 1
            if got.get(name, '?') == want: fam.discharged += 1
            else: fam.candidates.append(Candidate(fam.name, f'csv-preset:{name}', f'TextOutputOptions::csv(): {name} is {got.get(name, d.status)!r}, the csv dialect of the property needs {want!r}', {'field': name}, unmodelled=hav))
        preset_escapes = got.get('escape_sequance')
        fam.add_sample({'csv()': {k: (v.decode() if isinstance(v, bytes) else [x.decode() if isinstance(x, bytes) else x for x in v] if isinstance(v, list) else v) for k, v in got.items()}, 'verdict': 'the dialect the property names'})
    # (b) the table
    F2 = [f for n, f in ctx.fns.items() if re.match(r'^output_style::<impl at [^>]*>::from$', n) and 'TextOutputOptions' in f.params[0][1]]
    if len(F2) != 1: raise Broken('From<TextOutputOptions> for TextPrinter not found')
    shapes = [(n,) for n in range(NB + 1)] + [(1, 2), (3, 0), (2, 2)]
    for lens in shapes:
        st = State(); op = st.new_obj('options', 'TextOutputOptions')
        entries = []
        for i, n in enumerate(lens):
            bs = [z3.BitVec(f'e{i}_{j}', 8) for j in range(n)]
            for b in bs: st.pc.append(z3.ULT(b, 0x80))
            entries.append(bs)
        st.heap[op][('f', None, TO.index('escape_sequance'))] = seqobj(st, 'Vec', [seqobj(st, 'String', [BV(b) for b in bs]) for bs in entries])
        PANICS.clear()
        ex.new_frame(st, F2[0], [ObjV(op)])
        for d in ex.run(st) + list(PANICS):
            if d.status == 'infeasible': continue
            run.paths += 1; fam.paths += 1; fam.obligations += 1; fam.witnesses += 1
            hav = (d.havoc or [None])[0]
            ins = [e for e in d.events if e[0] == 'insert']
            want = [(bs[0], bs[1:]) for bs in entries if bs]
            good = d.status == 'returned' and len(ins) == len(want)
            m = None
            if good:
                conj = []
                for (_, k, v), (wk, wv) in zip(ins, want):
                    if len(v) != len(wv): good = False; break
                    conj += [k == z3.ZeroExt(24, wk)] + [a == b for a, b in zip(v, wv)]
                if good:
                    good, m = ex.valid(d, z3.And(*conj) if conj else z3.BoolVal(True))
            if good and d.status == 'returned':
                # the table ends up in the printer
                r = obj(d, d.ret); t = obj(d, d.heap[r.oid].get(('f', None, TPR.index('escape_sequandes'))))
                good = isinstance(t, ObjV) and len(d.heap[t.oid].get('model', ())) == len(want)
            if good:
                fam.discharged += 1
                if lens == (1, 2): fam.add_sample({'entries': 'c | cR', 'table': '[c -> "", c -> R]', 'verdict': 'for every ASCII c, R'})
            else:
                if m is None: _, m = ex.valid(d, z3.BoolVal(False))
                ev = [bytes(m.eval(b, True).as_long() for b in bs).decode('latin-1') for bs in entries] if m is not None else []
                fam.candidates.append(Candidate(fam.name, 'escape-table', f'TextPrinter::from with escape entries {ev!r}: {d.status}, inserts {len(ins)} entries, expected {len(want)} (first character -> rest)' + (f' {d.notes[-1:]}' if d.status != 'returned' else ''),
                                                {'entries': ev}, unmodelled=hav))
    # (a)+(b)
    fam.obligations += 1; fam.witnesses += 1
    if preset_escapes == [b'"""']: fam.discharged += 1
    run.absorb(ex)
    seen = set(); fam.candidates = [c for c in fam.candidates if not (c.role in seen or seen.add(c.role))]
    from .cli import run_jawk, show
    for c in fam.candidates:
        demos = [(['-o', 'csv', '--select', '.a=a', '--select', '.b=b', '--select', '.c=c', '--select', '.d=d', '--select', '.e=e'], '{"a":"x\\"y","b":null,"c":true,"d":false}', ['"a", "b", "c", "d", "e"', '"x""y", null, True, False, ', '']),
                 (['-o', 'text', '--escape-sequance', '\t', '--select', '.a=a'], '{"a":"p\\tq"}', ['pq', '']), (['-o', 'text', '--escape-sequance', ';\;', '--escape-sequance', 'z', '--select', '.a=a'], '{"a":"a;bzc"}', ['a\;bc', ''])]
        c.status = 'unit' if not c.unmodelled else 'not-reproduced'
        for argv, stdin, exp in demos:
            r = run_jawk(ctx, argv, stdin.encode()); lines = show(r['stdout']).split('\n')
            if lines != exp:
                c.replay = {'argv': argv, 'stdin': stdin, 'expected': exp, 'actual': lines}; c.status = 'reproduced'; break


# ---------------------------------------------------------------- nested values in a text / csv field
def text_nested(ctx):
    """TextPrinter::print_object / print_array: the value is printed by the JSON printer into a fresh string - in the concise
    style (no whitespace, one line) and with utf8_strings on (with it off, code points above U+FFFF would go through the
    \\u escape that reads back wrongly, the known finding of print.string) - and that string, whole and only it, is handed
    to the printer's own string quoting. The JSON printer and the quoting are decided by print.* and text.csv_string."""
    run = ctx.run
    fam = run.family('text.nested', 'an array / object in a text or csv field is the concise JSON text of that value (utf8 strings, the style without whitespace), passed once through the field quoting; a failing JSON print is returned')
    run.bounds['text nested'] = 'print_object / print_array of TextPrinter; the JSON printer and the string quoting are summarised (events with their arguments), their answers free'
    JS = ctx.enums.get('JsonStyle') or []
    JO = ctx.structs.get('JsonOutputOptions') or []
    for meth in ('print_object', 'print_array'):
        def s_json_print(ex, st, func, a, ty, meth=meth):
            o = obj(st, a[0]); tgt = obj(st, a[1])
            st.events.append(('json_print', func.split('::')[-1], o, origin(st, tgt), origin(st, a[2])))
            set_model(st, tgt, tuple(model(st, tgt)) + ('JSONTEXT',)) if 'model' in st.heap[tgt.oid] else None
            out = []
            for good in (True, False):
                s2 = st.clone(); out.append((s2, ok(s2, UNIT) if good else err(s2, named(s2, 'fmt::Error', 'fmt::Error'))))
            return out
        def s_print_string(ex, st, func, a, ty):
            s_ = obj(st, a[2])
            st.events.append(('quote', origin(st, a[0]), origin(st, a[1]), origin(st, s_), tuple(model(st, s_)) if 'model' in st.heap[s_.oid] else None))
            v = ex.fresh_value(st, ty, st.fresh_name('quoted')); st.pc.append(z3.Or(ex.discr(st, v).t == 0, ex.discr(st, v).t == 1)); return [(st, v)]
        summ = [(r'<JsonOutputOptions as Print<.*>>::print_(object|array)$', s_json_print), (r'<TextPrinter as Print<.*>>::print_string$', s_print_string),
                (r'String::new$', lambda ex, st, f, a, t: [(st, seqobj(st, 'String', (), origin='BUFFER'))]), (r'as Deref>::deref$|String::as_str$', s_identity)]
        ex = ctx.exec(summaries=summ, inline=[(r'JsonOutputOptions::\w+$', r'^output_style::<impl at [^>]*>::(consise|concise|compact|for_field|embedded)$')] if any(re.search(r'^output_style::<impl at [^>]*>::(consise|concise|compact|for_field|embedded)$', n) for n in ctx.fns) else [], max_visits=12)
        F = find_method(ctx, meth, 'TextPrinter')
        st = State(); so = named(st, 'self', 'TextPrinter'); w = named(st, 'W', 'W'); val = named(st, 'VALUE', 'container')
        ex.new_frame(st, F, [slot(st, so, 'self*'), slot(st, w, 'w*'), slot(st, val, 'v*')])
        for d in ex.run(st):
            run.paths += 1
            if d.status == 'infeasible': continue
            fam.obligations += 1; fam.paths += 1; fam.witnesses += 1
            hav = (d.havoc or [None])[0]
            why = None
            jp = [e for e in d.events if e[0] == 'json_print']; qs = [e for e in d.events if e[0] == 'quote']
            if d.status != 'returned': why = f'{d.status} {d.notes[-1:]}'
            elif len(jp) != 1 or jp[0][1] != meth or jp[0][4] != 'VALUE': why = f'the value is not printed exactly once by the JSON printer ({[(e[1], e[4]) for e in jp]})'
            else:
                o = jp[0][2]
                try:
                    style = ex.load(d, o.oid, ('f', None, JO.index('style')), 'JsonStyle'); utf8 = ex.load(d, o.oid, ('f', None, JO.index('utf8_strings')), 'bool')
                    sd = ex.discr(d, style).t
                    if not ex.valid(d, sd == JS.index('Consise'))[0]: why = 'the JSON text is not printed in the concise style'
                    elif not ex.valid(d, utf8.t)[0]: why = 'the JSON text is printed with utf8_strings off (non-ASCII text is escaped; code points above U+FFFF then read back wrongly)'
                except Exception as e_:
                    why = f'the options of the JSON printer cannot be read ({type(e_).__name__})'; hav = hav or 'unmodelled options constructor'
                rd = ex.discr(d, obj(d, d.ret)).t
                if why is None:
                    failed = jp and not qs
                    if failed:
                        if not ex.valid(d, rd == 1)[0]: why = 'a failing JSON print is not returned as an error'
                    elif len(qs) != 1 or qs[0][1] != 'self' or qs[0][2] != 'W' or qs[0][3] != 'BUFFER' or qs[0][4] != ('JSONTEXT',): why = f'the JSON text is not handed whole and once to the field quoting: {[(q[1], q[2], q[3], q[4]) for q in qs]}'
            if why is None: fam.discharged += 1
            elif not any(c.role == meth for c in fam.candidates):
                fam.candidates.append(Candidate(fam.name, meth, f'TextPrinter::{meth}: {why}', {'method': meth}, unmodelled=hav))
        run.absorb(ex)
    if fam.discharged: fam.add_sample({'call': 'TextPrinter::print_object(w, VALUE)', 'events': "json_print(Consise, utf8) -> BUFFER; quote(self, W, BUFFER)", 'verdict': 'as documented'})
    from .cli import run_jawk, show
    import csv, io
    DEMOS = [({'v': ['é', '\U0001F603', 'a"b'], 'o': {'k中': ',\n'}}, ['-o', 'csv'])]
    for c in fam.candidates:
        c.status = 'unit'
        for val, opts in DEMOS:
            r = run_jawk(ctx, opts + ['--select', '.v=v', '--select', '.o=o'], json.dumps(val, ensure_ascii=False).encode())
            rows = list(csv.reader(io.StringIO(show(r['stdout'])), skipinitialspace=True))
            bad = r['rc'] != 0 or len(rows) != 2 or len(rows[1]) != 2
            if not bad:
                try: bad = json.loads(rows[1][0]) != val['v'] or json.loads(rows[1][1]) != val['o'] or ' ' in rows[1][0]
                except Exception: bad = True
            if bad: c.status = 'reproduced'; c.replay = {'argv': opts + ['--select', '.v=v', '--select', '.o=o'], 'stdin': json.dumps(val, ensure_ascii=False), 'rows': rows, 'rc': r['rc']}; break


# ---------------------------------------------------------------- output options belong to the chosen style
def output_options(ctx):
    """OutputOptions::get_processor with a free output style and free presence of the json-only and the text-only option groups:
    Ok exactly when no group is given that does not belong to the style (csv takes neither, text only the text group, json only
    the json group); the process built is of the style asked for."""
    run = ctx.run
    fam = run.family('output.options', 'get_processor answers Err exactly when an option group that does not belong to the chosen output style is given (csv: neither group, text: no json options, json: no text options), and builds the process of that style otherwise')
    run.bounds['output options'] = 'output style csv / text / json x json options present or not x text options present or not (all 12 combinations)'
    OO = ctx.structs['OutputOptions']; OS = ctx.enums['OutputStyle']
    def s_opaque(tag):
        return lambda ex, st, f, a, t: [(st, named(st, st.fresh_name(tag), t or tag))]
    def s_text_new(ex, st, func, a, ty):
        st.events.append(('built', 'TextProcess')); return [(st, named(st, 'TEXTPROCESS', 'TextProcess'))]
    summ = [(r'TextOutputOptions::csv$', s_opaque('csv')), (r'TextProcess::new$', s_text_new), (r'as Clone>::clone$', s_clone_shared), (r'Option::<.*>::as_ref$', s_identity), (r'Option::<.*>::cloned$', s_identity),
            (r'Option::<.*>::unwrap_or_default$', s_opaque('options')), (r'^Box::<.*>::new$', lambda ex, st, f, a, t: [(st, a[0])])]
    gp = [n for n in ctx.fns if re.match(r'^output_style::<impl at [^>]*>::get_processor$', n)]
    helpers = []
    if len(gp) == 1:
        span = gp[0].rsplit('::', 1)[0]
        helpers = [(r'OutputOptions::%s$' % re.escape(n[len(span) + 2:]), '^' + re.escape(n) + '$') for n in ctx.fns if n.startswith(span + '::') and '{' not in n[len(span):] and not n.endswith('::get_processor')]
    ex = ctx.exec(summaries=summ, inline=helpers, max_visits=10)
    F = ex.find(r'^output_style::<impl at [^>]*>::get_processor$')
    for style in range(len(OS)):
        for has_json in (0, 1):
            for has_text in (0, 1):
                st = State(); so = named(st, 'self', 'OutputOptions')
                st.heap[so.oid][('f', None, OO.index('output_style'))] = mk_enum(st, 'OutputStyle', style, name='style')
                st.heap[so.oid][('f', None, OO.index('json_options'))] = some(st, named(st, 'JSONOPTS', 'JsonOutputOptions')) if has_json else none(st)
                st.heap[so.oid][('f', None, OO.index('text_options'))] = some(st, named(st, 'TEXTOPTS', 'TextOutputOptions')) if has_text else none(st)
                st.heap[so.oid][('f', None, OO.index('row_seperator'))] = named(st, 'ROWSEP', 'String')
                ex.new_frame(st, F, [slot(st, so, 'self*'), named(st, 'WRITER', 'Rc<RefCell<dyn Write>>')])
                nm = OS[style]
                should_fail = (nm == 'Csv' and (has_json or has_text)) or (nm == 'Text' and has_json) or (nm == 'Json' and has_text)
                for d in ex.run(st):
                    run.paths += 1
                    if d.status == 'infeasible': continue
                    fam.obligations += 1; fam.paths += 1; fam.witnesses += 1
                    hav = (d.havoc or [None])[0]; why = None
                    if d.status != 'returned': why = f'{d.status} {d.notes[-1:]}'
                    else:
                        rd = ex.discr(d, obj(d, d.ret)).t
                        if should_fail and not ex.valid(d, rd == 1)[0]: why = 'is accepted'
                        elif not should_fail and not ex.valid(d, rd == 0)[0]: why = 'is rejected'
                        elif not should_fail:
                            built = [e for e in d.events if e[0] == 'built']
                            if (nm == 'Json') == bool(built): why = f'builds {"a TextProcess" if built else "no TextProcess"} for style {nm}'
                    if why is None: fam.discharged += 1
                    elif not any(c.role == f'{nm}:{has_json}{has_text}' for c in fam.candidates):
                        fam.candidates.append(Candidate(fam.name, f'{nm}:{has_json}{has_text}', f'output style {nm} with json options {"given" if has_json else "absent"} and text options {"given" if has_text else "absent"} {why}', {'style': nm, 'json': has_json, 'text': has_text}, unmodelled=hav))
    run.absorb(ex)
    if fam.discharged: fam.add_sample({'style': 'Csv', 'json_options': 'given', 'text_options': 'given', 'verdict': 'Err'})
    from .cli import run_driver, show
    for c in fam.candidates:
        mv = c.model; argv = ['-o', mv['style'].lower(), '--select', '.a=a'] + (['--style', 'pretty'] if mv['json'] else []) + (['--headers'] if mv['text'] else [])
        r = run_driver(ctx, argv, b'{"a":1}')
        should_fail = (mv['style'] == 'Csv' and (mv['json'] or mv['text'])) or (mv['style'] == 'Text' and mv['json']) or (mv['style'] == 'Json' and mv['text'])
        failed = str(r['result']).startswith('err')
        c.replay = {'argv': argv, 'stdin': '{"a":1}', 'expected': 'an error before anything is read or written' if should_fail else 'ok', 'result': r['result'], 'pulled': r['pulled'], 'stdout': show(r['stdout'])[:80]}
        c.status = 'reproduced' if failed != should_fail or (should_fail and (r['pulled'] or r['stdout'])) else 'unit'
