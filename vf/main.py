"""./check <property> [--tier quick|thorough]  - entry point of every registered check."""
import argparse, importlib, os, random, sys, time, traceback

sys.path.insert(0, os.path.dirname(os.path.dirname(os.path.abspath(__file__))))
from vf import build, report, srcdefs                      # noqa: E402
from vf.mirparse import parse_mir                          # noqa: E402
from vf.mirsym import Exec, GENERIC                        # noqa: E402


class Ctx:
    """what a property module gets: the current tree's MIR, type layouts, the run record"""

    def __init__(self, run, tree, tier, seed):
        self.run = run; self.tree = tree; self.tier = tier; self.seed = seed
        self.quick = tier == 'quick'
        self.rng = random.Random(seed)
        t0 = time.time()
        text = tree.mir()
        self.mir_text = text
        self.skipped = []
        self.fns = parse_mir(text, self.skipped)
        self.enums, self.structs = srcdefs.load(tree.src)
        self.structs.setdefault('Range', ['start', 'end'])
        self.structs.setdefault('RangeTo', ['end'])
        self.structs.setdefault('RangeFrom', ['start'])
        self.enums.setdefault('IntErrorKind', ['Empty', 'InvalidDigit', 'PosOverflow', 'NegOverflow', 'Zero'])
        run.times['mir_parse_s'] = round(time.time() - t0, 2)
        run.notes.append(f'tree hash {tree.hash}; MIR bodies parsed {len(self.fns)}, unparsable {len(self.skipped)}')

    def exec(self, summaries=(), inline=(), max_visits=12):
        inl = []
        probe = Exec(self.fns)
        for rx, body_rx in inline:
            inl.append((rx, probe.find(body_rx).name))
        ex = Exec(self.fns, enums=self.enums, structs=self.structs, summaries=list(summaries) + GENERIC, inline=inl, max_visits=max_visits)
        return ex

    def find(self, rx):
        return Exec(self.fns).find(rx)


def main():
    ap = argparse.ArgumentParser()
    ap.add_argument('prop')
    ap.add_argument('--tier', default=os.environ.get('VERIF_TIER', 'quick'), choices=['quick', 'thorough'])
    ap.add_argument('--replay', default=None)
    a = ap.parse_args()
    seed = int(os.environ.get('VERIF_SEED', '0') or 0)
    prop = a.prop.upper()
    if a.replay:
        print(open(a.replay).read())
        return 0
    run = report.Run(prop, a.tier, seed)
    import signal
    limit = int(os.environ.get('VERIF_TIME_LIMIT', '1500' if a.tier == 'quick' else '14400'))
    def on_alarm(*_):
        raise report.Broken(f'time limit of {limit} s exceeded (a path explosion, usually through code the summaries do not know); nothing is claimed')
    signal.signal(signal.SIGALRM, on_alarm); signal.alarm(limit)
    try:
        tree = build.Tree()
        ctx = Ctx(run, tree, a.tier, seed)
        mod = importlib.import_module(f'vf.props.{prop.lower()}')
        mod.run(ctx)
        run.times.update(build.TIMES)
        code = run.finish()
    except (report.Broken, build.BuildError) as e:
        print(f'BROKEN: {prop}: {e}')
        run.notes.append('broken: ' + str(e)[:2000])
        try:
            run.write_evidence(0, [], [str(e)[:2000]])
        except Exception:
            pass
        code = 2
    except Exception:
        traceback.print_exc()
        print(f'BROKEN: {prop}: internal error in the checker')
        try:
            run.write_evidence(0, [], ['internal error: ' + traceback.format_exc()[-1500:]])
        except Exception:
            pass
        code = 2
    return code


if __name__ == '__main__':
    sys.exit(main())
