"""./check <property> [--tier quick|thorough]  - entry point of every registered check."""
import argparse, importlib, os, random, re, sys, time, traceback

sys.path.insert(0, os.path.dirname(os.path.dirname(os.path.abspath(__file__))))
from vf import build, report, srcdefs                      # noqa: E402
from vf.mirparse import parse_mir                          # noqa: E402
from vf.mirsym import Exec, GENERIC                        # noqa: E402


class Ctx:
    """what a property module gets: the current tree's MIR, type layouts, the run record"""

    def __init__(self, run, tree, tier, seed):
        self.run = run; self.tree = tree; self.tier = tier; self.seed = seed
        self.quick = tier == 'quick'
        self.rng = random.Random(seed)
        t0 = time.time()
        text = tree.mir()
        self.mir_text = text
        self.skipped = []
        self.fns = parse_mir(text, self.skipped)
        self.enums, self.structs = srcdefs.load(tree.src)
        self.structs.setdefault('Range', ['start', 'end'])
        self.structs.setdefault('RangeTo', ['end'])
        self.structs.setdefault('RangeFrom', ['start'])
        self.enums.setdefault('IntErrorKind', ['Empty', 'InvalidDigit', 'PosOverflow', 'NegOverflow', 'Zero'])
        run.times['mir_parse_s'] = round(time.time() - t0, 2)
        run.notes.append(f'tree hash {tree.hash}; MIR bodies parsed {len(self.fns)}, unparsable {len(self.skipped)}')

    def exec(self, summaries=(), inline=(), max_visits=12):
        inl = []
        probe = Exec(self.fns)
        for rx, body_rx in inline:
            m = re.search(r'(\w+)::\w+\$?$', rx.replace('\\', ''))
            try:
                inl.append((rx, probe.find(body_rx, hint=m.group(1) if m else None).name))
            except report.Broken:
                # two impl blocks of one module offer the method (an edit added a stage type): take the block whose header names the type
                cands = [n for n in self.fns if re.search(body_rx, n)]
                pick = [n for n in cands if m and self._impl_header_mentions(n, m.group(1))]
                if len(pick) != 1: raise
                inl.append((rx, pick[0]))
        ex = Exec(self.fns, enums=self.enums, structs=self.structs, summaries=list(summaries) + GENERIC, inline=inl, max_visits=max_visits)
        return ex

    def _impl_header_mentions(self, name, ty):
        m = re.search(r'<impl at (src/[^:>]+):(\d+):\d+: \d+:\d+>', name)
        if not m: return False
        try:
            line = open(os.path.join(self.tree.src, m.group(1))).read().splitlines()[int(m.group(2)) - 1]
        except Exception:
            return False
        return re.search(r'\b%s\b' % re.escape(ty), line) is not None

    def find(self, rx):
        return Exec(self.fns).find(rx)


def guard_scenarios(run):
    """A scenario that meets a program structure its analysis code was not written for (after an edit to /repo that the
    summaries do not know) must not take the whole check down: it ends as INCONCLUSIVE - printed, recorded in the
    evidence, exit code unchanged - and the other scenarios of the property still decide. Lookups of MIR bodies that
    no longer exist and solver / build problems stay fatal (exit 2)."""
    import glob, inspect, functools
    from vf.mirsym import Unmodelled
    for path in glob.glob(os.path.join(os.path.dirname(os.path.abspath(__file__)), 'scen_*.py')):
        mod = importlib.import_module('vf.' + os.path.basename(path)[:-3])
        for name, fn in list(vars(mod).items()):
            if not inspect.isfunction(fn) or fn.__module__ != mod.__name__ or name.startswith(('_', 'replay', 's_')): continue
            params = list(inspect.signature(fn).parameters)
            if not params or params[0] != 'ctx': continue
            def make(fn, name):
                @functools.wraps(fn)
                def wrapped(ctx, *a, **kw):
                    try:
                        return fn(ctx, *a, **kw)
                    except (KeyError, AttributeError, TypeError, IndexError, ValueError, Unmodelled, RuntimeError, AssertionError) as e:
                        if isinstance(e, report.Broken): raise
                        msg = f'scenario {name}: {type(e).__name__}: {str(e)[:200]}'
                        tb = traceback.format_exc().strip().splitlines()[-3:]
                        run.inconclusive.append(msg + ' @ ' + ' | '.join(t.strip() for t in tb))
                        print(f'INCONCLUSIVE property={run.prop} scenario={name} reason={type(e).__name__}: {str(e)[:160]}')
                        run.scenario_failures = getattr(run, 'scenario_failures', 0) + 1
                        return None
                return wrapped
            setattr(mod, name, make(fn, name))


def main():
    ap = argparse.ArgumentParser()
    ap.add_argument('prop')
    ap.add_argument('--tier', default=os.environ.get('VERIF_TIER', 'quick'), choices=['quick', 'thorough'])
    ap.add_argument('--replay', default=None)
    a = ap.parse_args()
    seed = int(os.environ.get('VERIF_SEED', '0') or 0)
    prop = a.prop.upper()
    if a.replay:
        print(open(a.replay).read())
        return 0
    run = report.Run(prop, a.tier, seed)
    import signal
    limit = int(os.environ.get('VERIF_TIME_LIMIT', '1500' if a.tier == 'quick' else '14400'))
    def on_alarm(*_):
        raise report.Broken(f'time limit of {limit} s exceeded (a path explosion, usually through code the summaries do not know); nothing is claimed')
    signal.signal(signal.SIGALRM, on_alarm); signal.alarm(limit)
    try:
        tree = build.Tree()
        ctx = Ctx(run, tree, a.tier, seed)
        guard_scenarios(run)
        mod = importlib.import_module(f'vf.props.{prop.lower()}')
        mod.run(ctx)
        run.times.update(build.TIMES)
        code = run.finish()
    except (report.Broken, build.BuildError) as e:
        print(f'BROKEN: {prop}: {e}')
        run.notes.append('broken: ' + str(e)[:2000])
        try:
            run.write_evidence(0, [], [str(e)[:2000]])
        except Exception:
            pass
        code = 2
    except Exception:
        traceback.print_exc()
        print(f'BROKEN: {prop}: internal error in the checker')
        try:
            run.write_evidence(0, [], ['internal error: ' + traceback.format_exc()[-1500:]])
        except Exception:
            pass
        code = 2
    return code


if __name__ == '__main__':
    sys.exit(main())
