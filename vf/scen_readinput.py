"""Master::read_input (src/lib.rs): the real read loop with parser and successor summarised; <= K values then EOF;
4 policies; every parser outcome (value of any type / end / recoverable error / I/O error) and successor answer."""
import json
import z3
from .lib import *
from .report import Candidate, Broken


def read_input(ctx, want):
    run = ctx.run
    K = 2 if ctx.quick else 3
    enums, structs = ctx.enums, ctx.structs
    run.bounds['read_input'] = f'<= {K} parser outcomes (each: any JSON type / recoverable error / IoError / end) then end of input; 4 --on-error policies; only_objects_and_arrays free; every successor answer; every write outcome'
    JPE = enums['JsonParserError']; IO = JPE.index('IoError')

    def s_where(ex, st, func, args, ty):
        n = sum(1 for e in st.events if e[0] == 'where')
        v = ex.fresh_value(st, ty, f'loc{n}')
        st.events.append(('where', n, v))
        return [(st, v)]

    def s_parse(ex, st, func, args, ty):
        n = sum(1 for e in st.events if e[0] == 'parse')
        v = ex.fresh_value(st, ty, f'parse{n}')
        d = ex.discr(st, v)
        st.pc.append(z3.Or(d.t == 0, d.t == 1))
        opt = ex.load(st, v.oid, ('f', 'Ok', 0), 'Option<JsonValue>')
        od = ex.discr(st, opt)
        st.pc.append(z3.Or(od.t == 0, od.t == 1))
        e_ = ex.load(st, v.oid, ('f', 'Err', 0), 'JsonParserError')
        ed = ex.discr(st, e_)
        st.pc.append(z3.And(ed.t >= 0, ed.t < len(JPE)))
        jv = ex.load(st, opt.oid, ('f', 'Some', 0), 'JsonValue')
        jd = ex.discr(st, jv)
        st.pc.append(z3.And(jd.t >= 0, jd.t < len(enums['JsonValue'])))
        if n >= K:
            st.pc.append(z3.And(d.t == 0, od.t == 0))       # bound: end of input at the latest after K outcomes
        st.events.append(('parse', n, v))
        return [(st, v)]

    def s_newctx(ex, st, func, args, ty):
        n = sum(1 for e in st.events if e[0] == 'new_ctx')
        v = named(st, f'newctx{n}', 'Context')
        st.events.append(('new_ctx', args[3], args[4], args[0], args[1], args[2]))       # in_file_index, index, value, started, ended
        return [(st, v)]

    def s_process(ex, st, func, args, ty):
        n = sum(1 for e in st.events if e[0] == 'process')
        v = ex.fresh_value(st, ty, f'proc{n}')
        d = ex.discr(st, v); st.pc.append(z3.Or(d.t == 0, d.t == 1))
        pd = ex.load(st, v.oid, ('f', 'Ok', 0), 'ProcessDesision')
        dd = ex.discr(st, pd); st.pc.append(z3.Or(dd.t == 0, dd.t == 1))
        st.events.append(('process', n, v, origin(st, args[1])))
        return [(st, v)]

    def s_into(ex, st, func, args, ty):
        oid = st.new_obj(st.fresh_name('mainerr'), ty)
        st.heap[oid][('f', None, 0)] = args[0]
        return [(st, ObjV(oid))]

    def s_borrow_mut(ex, st, func, args, ty):
        oid = st.new_obj('refmut:' + origin(st, args[0]), ty)
        return [(st, ObjV(oid))]

    def s_args_new(ex, st, func, args, ty):
        oid = st.new_obj(st.fresh_name('fmtargs'), ty)
        st.heap[oid]['template'] = args[0]
        return [(st, ObjV(oid))]

    def s_write_fmt(ex, st, func, args, ty):
        w = origin(st, args[0])
        a = obj(st, args[1])
        tmpl = st.heap[a.oid].get('template')
        n = sum(1 for e in st.events if e[0] == 'write')
        v = ex.fresh_value(st, ty, f'write{n}')
        d = ex.discr(st, v); st.pc.append(z3.Or(d.t == 0, d.t == 1))
        st.events.append(('write', w, tmpl.text if isinstance(tmpl, Const) else str(tmpl), v))
        return [(st, v)]

    summ = [
        (r'where_am_i$', s_where),
        (r'JsonParser>::next_json_value$', s_parse),
        (r'Context::new_with_input$', s_newctx),
        (r'<dyn Process as Process>::process$', s_process),
        (r'as Into<MainError>>::into$', s_into),
        (r'RefCell::<.*>::borrow_mut$', s_borrow_mut),
        (r'fmt::Arguments::<.*>::new::<|fmt::Arguments::<.*>::new_v1', s_args_new),
        (r'fmt::rt::Argument::<.*>::new_display::<|fmt::rt::Argument::<.*>::new_debug::<', lambda ex, st, f, a, t: [(st, named(st, st.fresh_name('fmtarg'), 'Argument'))]),
        (r'as std::io::Write>::write_fmt$', s_write_fmt),
    ]
    import re as _re
    inl = [(r'JsonParserError::can_recover$', r'^json_parser::<impl at [^>]*>::can_recover$')]
    for n in ctx.fns:
        m = _re.match(r'^<impl at src/lib.rs:[^>]*>::(\w+)$', n)
        if m and m.group(1) not in ('go', 'new', 'read_file', 'read_input'):
            inl.append((r'Master::<S>::%s(::<.*>)?$' % m.group(1), '^' + _re.escape(n) + '$'))
    ex = ctx.exec(summaries=summ, inline=inl, max_visits=2 * K + 8)
    fn = ex.find(r'^<impl at src/lib.rs:[^>]*>::read_input$')
    st = State()
    def mkref(name, ty):
        o = st.new_obj(name, ty); return slot(st, ObjV(o), name + '*'), o
    selfref, so = mkref('self', 'Master')
    rdref, _ = mkref('reader', 'Reader')
    index0 = z3.BitVec('index0', 64)
    iref = slot(st, BV(index0), 'index*')
    pref, _ = mkref('process', 'dyn Process')
    st.pc.append(z3.ULT(index0, z3.BitVecVal(2**64 - 1 - K, 64)))
    CLI = structs['Cli']; MASTER = structs['Master']
    cli = ex.load(st, so, ('f', None, MASTER.index('cli')), 'Cli')
    oe = ex.load(st, cli.oid, ('f', None, CLI.index('on_error')), 'OnError')
    oed = ex.discr(st, oe); st.pc.append(z3.And(oed.t >= 0, oed.t < len(enums['OnError'])))
    ooa = ex.load(st, cli.oid, ('f', None, CLI.index('only_objects_and_arrays')), 'bool').t
    ex.new_frame(st, fn, [selfref, rdref, iref, pref])
    done = ex.run(st)
    STDOUT = f'self.{MASTER.index("stdout")}'; STDERR = f'self.{MASTER.index("stderr")}'
    IGN, PAN, SERR, SOUT = [enums['OnError'].index(x) for x in ('Ignore', 'Panic', 'Stderr', 'Stdout')]
    JV = enums['JsonValue']; OBJ, ARR = JV.index('Object'), JV.index('Array')
    DESC = {
        'read.one_context_per_value': 'each Ok(Some v) (not skipped by --only-objects-and-arrays) yields exactly one process() call carrying a context built from v, before the next read; nothing else yields one',
        'read.only_objects_and_arrays': 'with --only-objects-and-arrays scalars are skipped before a context exists, objects and arrays are not',
        'read.break_stops_reading': 'after Ok(Break) nothing more is read or processed and Ok is returned',
        'read.process_err_propagates': 'an Err from process() is returned at once',
        'read.io_error_fatal': 'an unrecoverable (I/O) parser error returns Err under every policy, with no error: line and no further read',
        'read.ignore_silent': '--on-error ignore writes nothing and continues',
        'read.panic_fails': '--on-error panic returns Err at the first recoverable error, no further read / process / write',
        'read.stdout_reports': '--on-error stdout: exactly one write of an `error:` line to stdout and none to stderr',
        'read.stderr_reports': '--on-error stderr: exactly one write of an `error:` line to stderr and none to stdout',
        'read.recoverable_continues': 'a malformed value (any parser error but IoError - a truncated last value included) does not end the run under ignore / stdout / stderr: the loop reads on',
        'read.clean_no_report': 'a successfully parsed value or end of input writes nothing under any policy',
        'read.write_err_propagates': 'a failing write of an error: line returns Err',
        'read.counters': 'the j-th context carries index0 + #Continue so far and in-file index #Continue so far',
        'read.locations': 'the context is built with the locations taken immediately before and after the value was parsed',
        'read.nopanic': 'no panic path in read_input',
    }
    fams = {n: run.family(n, DESC[n]) for n in want}
    if 'read.nopanic' in fams: fams['read.nopanic'].need_witness = False
    terms = {'policy': oed.t, 'only_objects_and_arrays': ooa, 'index0': index0}

    def check(d, name, prop, wit=None, role=None, text=''):
        if name not in fams: return
        f = fams[name]; f.obligations += 1
        if wit is None or ex.feasible(d, wit): f.witnesses += 1
        ok_, m = ex.valid(d, prop)
        if ok_:
            f.discharged += 1
        else:
            mv = model_values(m, terms)
            mv['events'] = [e[0] for e in d.events]
            # concretise the parser outcomes of this path
            outs = []
            for e in d.events:
                if e[0] == 'parse':
                    v = e[2]; rd_ = m.eval(d.heap[v.oid]['discr'].t, True).as_long()
                    if rd_ == 0:
                        o = d.heap[v.oid][('f', 'Ok', 0)]
                        if m.eval(d.heap[o.oid]['discr'].t, True).as_long() == 0: outs.append('end')
                        else: outs.append('value:' + JV[m.eval(d.heap[d.heap[o.oid][('f', 'Some', 0)].oid]['discr'].t, True).as_long()])
                    else:
                        outs.append('error:' + JPE[m.eval(d.heap[d.heap[v.oid][('f', 'Err', 0)].oid]['discr'].t, True).as_long()])
                if e[0] == 'process':
                    v = e[2]; rd_ = m.eval(d.heap[v.oid]['discr'].t, True).as_long()
                    outs.append('process->' + ('Err' if rd_ == 1 else ['Continue', 'Break'][m.eval(d.heap[d.heap[v.oid][('f', 'Ok', 0)].oid]['discr'].t, True).as_long()]))
                if e[0] == 'write':
                    outs.append('write->' + ('Err' if m.eval(d.heap[e[3].oid]['discr'].t, True).as_long() == 1 else 'Ok'))
            mv['outcomes'] = outs
            f.candidates.append(Candidate(name, role or name.split('.')[1], f'{DESC[name]} - violated on outcomes {outs} with policy {enums["OnError"][mv["policy"]] if isinstance(mv["policy"], int) and mv["policy"] < 4 else mv["policy"]}', mv,
                                          unmodelled=(d.havoc or [None])[0]))

    for d in done:
        run.paths += 1
        if d.status == 'infeasible': continue
        if d.status == 'panic':
            if 'read.nopanic' in fams:
                fams['read.nopanic'].obligations += 1
                fams['read.nopanic'].candidates.append(Candidate('read.nopanic', 'panic', f'read_input panics: {d.notes}', {}, unmodelled=(d.havoc or [None])[0]))
            continue
        if d.status != 'returned':
            if d.havoc:
                # a loop over calls the scenario has no model for (a helper that scans the input itself) ran to the visit bound:
                # undecided here; the first family asked for carries the candidate, the native replay decides
                name0 = next(iter(fams))
                if not any(c.role == 'unmodelled-loop' for c in fams[name0].candidates):
                    fams[name0].obligations += 1; fams[name0].witnesses += 1
                    fams[name0].candidates.append(Candidate(name0, 'unmodelled-loop', f'read_input runs a loop over {d.havoc[0]} that the scenario cannot follow (path ended as {d.status})',
                                                            {'policy': 0, 'only_objects_and_arrays': True, 'outcomes': ['value:Object', 'end']}, unmodelled=d.havoc[0]))
                continue
            raise Broken(f'read_input path ended as {d.status} {d.notes}')
        retd = ex.discr(d, d.ret).t
        evs = d.events
        pol = oed.t
        procs = [e for e in evs if e[0] == 'process']; ctxs = [e for e in evs if e[0] == 'new_ctx']
        for i, e in enumerate(evs):
            later = evs[i + 1:]
            if e[0] == 'process':
                v = e[2]; rd = d.heap[v.oid]['discr'].t; pd = d.heap[d.heap[v.oid][('f', 'Ok', 0)].oid]['discr'].t
                brk = z3.And(rd == 0, pd == 1)
                more = any(x[0] in ('parse', 'process', 'write') for x in later)
                check(d, 'read.break_stops_reading', z3.Implies(brk, z3.And(z3.BoolVal(not more), retd == 0)), brk)
                check(d, 'read.process_err_propagates', z3.Implies(rd == 1, z3.And(z3.BoolVal(not more), retd == 1)), rd == 1)
            if e[0] == 'parse':
                v = e[2]; rd = d.heap[v.oid]['discr'].t
                ed = d.heap[d.heap[v.oid][('f', 'Err', 0)].oid]['discr'].t
                o = d.heap[v.oid][('f', 'Ok', 0)]; od = d.heap[o.oid]['discr'].t
                jd = d.heap[d.heap[o.oid][('f', 'Some', 0)].oid]['discr'].t
                io = z3.And(rd == 1, ed == IO)
                rec = z3.And(rd == 1, ed != IO)
                upto = []
                for x in later:
                    if x[0] == 'parse': break
                    upto.append(x)
                w = [x for x in upto if x[0] == 'write']
                pr = [x for x in upto if x[0] == 'process']; nc = [x for x in upto if x[0] == 'new_ctx']
                more = any(x[0] in ('parse', 'process') for x in later)
                isval = z3.And(rd == 0, od == 1)
                container = z3.Or(jd == OBJ, jd == ARR)
                should = z3.And(isval, z3.Or(z3.Not(ooa), container))
                one = len(pr) == 1 and len(nc) == 1 and upto.index(nc[0]) < upto.index(pr[0]) and pr[0][3].startswith('newctx') \
                    and origin(d, nc[0][3]) == d.meta[d.heap[o.oid][('f', 'Some', 0)].oid][0]
                check(d, 'read.one_context_per_value', z3.And(z3.Implies(should, z3.BoolVal(one)), z3.Implies(z3.Not(should), z3.BoolVal(not pr and not nc))), should)
                check(d, 'read.only_objects_and_arrays', z3.And(z3.Implies(z3.And(isval, ooa, z3.Not(container)), z3.BoolVal(not pr and not nc)),
                                                                z3.Implies(z3.And(isval, ooa, container), z3.BoolVal(len(pr) == 1))), z3.And(isval, ooa))
                check(d, 'read.io_error_fatal', z3.Implies(io, z3.And(retd == 1, z3.BoolVal(not more and not w))), io)
                check(d, 'read.ignore_silent', z3.Implies(z3.And(rec, pol == IGN), z3.BoolVal(not w)), z3.And(rec, pol == IGN))
                # every error but IoError is recoverable: unless the policy is panic (or the report cannot be written) the loop reads on
                reads_on = any(x[0] == 'parse' for x in later)
                wfail = z3.Or(*[d.heap[x[3].oid]['discr'].t == 1 for x in w]) if w else z3.BoolVal(False)
                check(d, 'read.recoverable_continues', z3.Implies(z3.And(rec, pol != PAN, z3.Not(wfail)), z3.BoolVal(reads_on)), z3.And(rec, pol != PAN))
                check(d, 'read.panic_fails', z3.Implies(z3.And(rec, pol == PAN), z3.And(retd == 1, z3.BoolVal(not more and not w))), z3.And(rec, pol == PAN))
                good_out = len(w) == 1 and STDOUT in w[0][1] and 'error:' in w[0][2]
                good_err = len(w) == 1 and STDERR in w[0][1] and 'error:' in w[0][2]
                check(d, 'read.stdout_reports', z3.Implies(z3.And(rec, pol == SOUT), z3.BoolVal(good_out)), z3.And(rec, pol == SOUT))
                check(d, 'read.stderr_reports', z3.Implies(z3.And(rec, pol == SERR), z3.BoolVal(good_err)), z3.And(rec, pol == SERR))
                check(d, 'read.clean_no_report', z3.Implies(rd == 0, z3.BoolVal(not w)), rd == 0)
                if w:
                    wd = d.heap[w[0][3].oid]['discr'].t
                    more_w = any(x[0] in ('parse', 'process', 'write') for x in later[later.index(w[0]) + 1:])
                    check(d, 'read.write_err_propagates', z3.Implies(wd == 1, z3.And(retd == 1, z3.BoolVal(not more_w))), wd == 1)
                # locations: where_am_i immediately before the parse and (for a value) between parse and new_ctx
                if nc:
                    prev = [x for x in evs[:i] if x[0] == 'where']
                    mid = [x for x in upto[:upto.index(nc[0])] if x[0] == 'where']
                    okl = bool(prev) and evs[i - 1] is prev[-1] and len(mid) == 1 and origin(d, nc[0][4]) == origin(d, prev[-1][2]) and origin(d, nc[0][5]) == origin(d, mid[0][2])
                    check(d, 'read.locations', z3.BoolVal(okl))
        cont = z3.BitVecVal(0, 64)
        for j, c in enumerate(ctxs):
            check(d, 'read.counters', z3.And(c[2].t == index0 + cont, c[1].t == cont))
            if j < len(procs):
                v = procs[j][2]; rd = d.heap[v.oid]['discr'].t; pd = d.heap[d.heap[v.oid][('f', 'Ok', 0)].oid]['discr'].t
                cont = cont + z3.If(z3.And(rd == 0, pd == 0), z3.BitVecVal(1, 64), z3.BitVecVal(0, 64))
        # final value of *index
        if 'read.counters' in fams:
            check(d, 'read.counters', deref(d, iref).t == index0 + cont)
    if 'read.nopanic' in fams and not fams['read.nopanic'].candidates:
        fams['read.nopanic'].obligations += 1; fams['read.nopanic'].discharged += 1
    for f in fams.values():
        f.paths = len(done)
        if f.discharged and not f.samples:
            f.add_sample({'bodies': 'Master::read_input', 'paths': len(done), 'assertion': f.desc, 'verdict': 'unsat(negation) on every path'})
    run.absorb(ex)
    # one candidate per role is reported; up to 12 distinct outcome sequences per role are tried natively (the ones
    # with a Break / more events first) and the first that reproduces is kept
    for f in fams.values():
        groups = {}
        for c in f.candidates:
            groups.setdefault(c.role, []).append(c)
        keep = []
        for role, lst in groups.items():
            uniq = {}
            for c in sorted(lst, key=lambda c: -(len(c.model.get('outcomes', [])) + 3 * ('process->Break' in c.model.get('outcomes', [])))):
                uniq.setdefault(json.dumps([c.model.get('outcomes'), c.model.get('policy'), c.model.get('only_objects_and_arrays')], default=str), c)
            tries = list(uniq.values())[:12]
            replay_readinput(ctx, tries)
            hit = next((c for c in tries if c.status == 'reproduced'), None) or tries[0]
            keep.append(hit)
        f.candidates = keep


SPELL = {'value:Null': 'null', 'value:Boolean': 'true', 'value:String': '"s"', 'value:Number': '7', 'value:Object': '{"a":1}', 'value:Array': '[1]'}


def replay_readinput(ctx, cands):
    """concretise the path's outcome sequence as a stream: values by type, recoverable errors as the garbage byte `x`,
    successor Break via --take, I/O errors via an injected read failure, write failures via an injected write failure"""
    from .cli import run_driver, show
    POL = ctx.enums['OnError']
    for c in cands:
        mv = c.model; outs = mv.get('outcomes', [])
        toks = []; n_rows_before_break = None; fail_read = None; rows = 0
        env = {}
        pol = POL[mv['policy']].lower() if isinstance(mv.get('policy'), int) and mv['policy'] < len(POL) else 'ignore'
        argv = ['--on-error', pol, '--style', 'consise']
        if mv.get('only_objects_and_arrays') is True: argv.append('--only-objects-and-arrays')
        for o in outs:
            if o.startswith('value:'): toks.append(SPELL[o])
            elif o.startswith('error:IoError'): fail_read = len(' '.join(toks)) + (1 if toks else 0)
            elif o.startswith('error:'): toks.append('x')
            elif o == 'process->Break': argv += ['--take', str(sum(1 for t in outs[:outs.index(o)] if t.startswith('process->')) + 1)]
            elif o == 'process->Err' or o == 'write->Err': env['FAIL_WRITE_AT'] = '0'
        stdin = (' '.join(toks) + (' ' if toks else '')).encode()
        if fail_read is not None: env['FAIL_READ_AT'] = str(fail_read)
        extra = b' 1 2 3' if 'process->Break' in outs else b''
        r = run_driver(ctx, argv, stdin + extra, env=env)
        # reference expectation
        exp_rows = []; exp_err_lines = 0; exp_result = 'ok'; stop = False
        ooa = mv.get('only_objects_and_arrays') is True
        take = int(argv[argv.index('--take') + 1]) if '--take' in argv else None
        pos = 0
        for t in toks + ([] if take is None else ['1', '2', '3']):
            if fail_read is not None and pos >= fail_read: break
            pos += len(t) + 1
            if t == 'x':
                if pol == 'panic': exp_result = 'err'; stop = True; break
                if pol in ('stdout', 'stderr'): exp_err_lines += 1
                continue
            if ooa and t[0] not in '{[': continue
            if take is not None and len(exp_rows) >= take: break
            exp_rows.append(t)
            if 'FAIL_WRITE_AT' in env: exp_result = 'err'; stop = True; break
        if fail_read is not None and not stop: exp_result = 'err'
        if 'FAIL_WRITE_AT' in env and pol == 'stdout' and 'x' in toks and not stop: exp_result = 'err'
        out_lines = show(r['stdout']).splitlines(); err_lines = show(r['stderr']).splitlines()
        got_rows = [l for l in out_lines if not l.startswith('error:')]
        got_err_lines = sum(1 for l in (out_lines if pol == 'stdout' else err_lines) if l.startswith('error:'))
        wrong_stream = sum(1 for l in (err_lines if pol == 'stdout' else out_lines) if l.startswith('error:'))
        got_result = (r['result'] or '').split(' ')[0]
        bad = got_result != exp_result or wrong_stream > 0
        if 'FAIL_WRITE_AT' not in env:
            bad = bad or got_rows != exp_rows or (exp_err_lines > 0) != (got_err_lines > 0) or (exp_err_lines == 0 and got_err_lines > 0)
        if take is not None and r['pulled'] is not None and r['pulled'] > len(stdin) + 2: bad = True
        c.replay = {'argv': argv, 'stdin': show(stdin + extra), 'env': env, 'expected': {'result': exp_result, 'rows': exp_rows, 'error_lines>0': exp_err_lines > 0},
                    'actual': {'result': r['result'], 'rows': got_rows, 'error_lines': got_err_lines, 'error_lines_on_wrong_stream': wrong_stream, 'pulled': r['pulled']}}
        c.status = 'reproduced' if bad else 'unit'
        if not bad and c.unmodelled:
            # the path went through calls the scenario has no model for (a fast path that looks at the input itself): the same
            # policy and options on values that are hard to skip - strings ending in an escaped backslash, escaped quotes, nested text
            import json as _json
            TRICKY = ['"a\\\\"', '{"k":1}', '"x\\"y"', '[2]', '"\\\\"', '3', '{"s":"q\\\\","t":"\\""}', '"]"', '[["\\\\"]]', 'true', '"{"', '{"a":"}"}', '"\\u005c"', '[3]', '""', '{"z":[]}']
            argv2 = [a for a in argv if a != '--take' and not a.isdigit()]
            r2 = run_driver(ctx, argv2, ' '.join(TRICKY).encode())
            want = [_json.loads(t) for t in TRICKY if not ooa or t[0] in '{[']
            got2 = []
            for ln in show(r2['stdout']).splitlines():
                if ln.startswith('error:'): continue
                try: got2.append(_json.loads(ln))
                except Exception: got2.append('unparsable:' + ln)
            if got2 != want or r2['result'] != 'ok' or r2['stderr']:
                c.replay = {'argv': argv2, 'stdin': ' '.join(TRICKY), 'expected_rows': want, 'actual_rows': got2, 'result': r2['result'], 'stderr': show(r2['stderr'])[:200]}; c.status = 'reproduced'
