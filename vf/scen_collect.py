"""GrouperProcess / Merger / Uniquness (src/grouper.rs, merger.rs, duplication_remover.rs): k rows with keys free under
an abstract equivalence; exactly one complete collection at end of input; first occurrences only."""
import json
import re
import z3
from .lib import *
from .report import Candidate, Broken


def cls_of(name):
    return z3.Int('class:' + name)


def mk_summaries(ctx, K):
    JV = ctx.enums['JsonValue']

    def dyn_get(ex, st, func, args, ty):
        """group key: absent | a string (identity free under an abstract equivalence) | a non-string"""
        c = origin(st, args[1]); out = []
        for shape in ('none', 'string', 'number'):
            s2 = st.clone(); s2.events.append(('key', c, shape))
            if shape == 'none': out.append((s2, none(s2))); continue
            if shape == 'string':
                v = mk_enum(s2, 'JsonValue', JV.index('String'), 'String', (named(s2, 'keystr:' + c, 'String'),))
            else:
                v = mk_enum(s2, 'JsonValue', JV.index('Number'), 'Number', (named(s2, 'keynum:' + c, 'NumberValue'),))
            out.append((s2, some(s2, v)))
        return out

    def s_build(ex, st, func, args, ty):
        c = origin(st, args[0]); return [(st, named(st, 'built:' + c, 'JsonValue'))]

    def s_entry(ex, st, func, args, ty):
        """IndexMap::entry(key): occupied(i) if the key is equivalent to entry i, else vacant (appended on or_default)"""
        mp = obj(st, args[0]); key = obj(st, args[1]); kn = origin(st, key)
        ents = list(st.heap[mp.oid].get('model', ()))
        out = []; diff = []
        for i, (k, v) in enumerate(ents):
            same = cls_of(origin(st, k)) == cls_of(kn)
            diff.append(z3.Not(same))
            if ex.feasible(st, same):
                s2 = st.clone(); s2.pc.append(same)
                e = named(s2, s2.fresh_name('entry'), 'Entry'); s2.heap[e.oid]['model'] = ('occupied', mp.oid, i); out.append((s2, e))
        c = z3.And(*diff) if diff else z3.BoolVal(True)
        if ex.feasible(st, c):
            st.pc.append(c)
            e = named(st, st.fresh_name('entry'), 'Entry'); st.heap[e.oid]['model'] = ('vacant', mp.oid, key); out.append((st, e))
        return out

    def s_or_default(ex, st, func, args, ty):
        e = obj(st, args[0]); m = st.heap[e.oid]['model']; mp = m[1]
        ents = list(st.heap[mp].get('model', ()))
        if m[0] == 'vacant':
            v = seqobj(st, 'Vec', ()); ents.append((m[2], v)); st.heap[mp]['model'] = tuple(ents)
        else:
            v = ents[m[2]][1]
        return [(st, slot(st, v))]

    def s_map_iter(ex, st, func, args, ty):
        items = []
        for k, v in st.heap[obj(st, args[0]).oid].get('model', ()):
            t = named(st, st.fresh_name('kv'), 'tuple'); st.heap[t.oid][('f', None, 0)] = slot(st, k); st.heap[t.oid][('f', None, 1)] = slot(st, v); items.append(t)
        return [(st, seqobj(st, 'Iter', items))]

    def s_map_insert(ex, st, func, args, ty):
        mp = obj(st, args[0]); k = obj(st, args[1]); v = args[2]
        ents = list(st.heap[mp.oid].get('model', ()))
        out = []; diff = []
        for i, (kk, vv) in enumerate(ents):
            same = cls_of(origin(st, kk)) == cls_of(origin(st, k)); diff.append(z3.Not(same))
            if ex.feasible(st, same):
                s2 = st.clone(); s2.pc.append(same); e2 = list(s2.heap[mp.oid]['model']); e2[i] = (e2[i][0], v); s2.heap[mp.oid]['model'] = tuple(e2); out.append((s2, some(s2, vv)))
        c = z3.And(*diff) if diff else z3.BoolVal(True)
        if ex.feasible(st, c):
            st.pc.append(c); st.heap[mp.oid]['model'] = tuple(ents + [(k, v)]); out.append((st, none(st)))
        return out

    def s_into_json(ex, st, func, args, ty):
        src = obj(st, args[0]); kind = 'Object' if st.meta[src.oid][1] in ('IndexMap', 'Seq') and any(isinstance(x, tuple) for x in st.heap[src.oid].get('model', ())) else None
        if 'IndexMap' in func: kind = 'Object'
        elif 'Vec' in func: kind = 'Array'
        return [(st, mk_enum(st, 'JsonValue', JV.index(kind), kind, (src,)))]

    def s_new_ctx(ex, st, func, args, ty):
        c = named(st, st.fresh_name('outctx'), 'Context'); st.heap[c.oid]['value'] = args[0]; return [(st, c)]

    def s_next(ex, st, func, args, ty):
        meth = func.split('::')[-1]; n = sum(1 for e in st.events if e[0] == 'next')
        v = ex.fresh_value(st, ty, f'next{n}.{meth}')
        d = ex.discr(st, v); st.pc.append(z3.Or(d.t == 0, d.t == 1))
        if meth == 'process':
            pd = ex.load(st, v.oid, ('f', 'Ok', 0), 'ProcessDesision'); st.pc.append(z3.Or(ex.discr(st, pd).t == 0, ex.discr(st, pd).t == 1))
        st.events.append(('next', meth, origin(st, args[0]), args[1] if len(args) > 1 else None, v))
        return [(st, v)]

    def s_hs_insert(ex, st, func, args, ty):
        """HashSet::insert over the abstract equivalence on keys"""
        hs = obj(st, args[0]); k = obj(st, args[1]); kn = origin(st, k)
        ents = list(st.heap[hs.oid].get('model', ()))
        out = []; diff = []
        for e in ents:
            same = cls_of(origin(st, e)) == cls_of(kn); diff.append(z3.Not(same))
        dup = z3.Or(*[z3.Not(x) for x in diff]) if diff else z3.BoolVal(False)
        if ex.feasible(st, dup):
            s2 = st.clone(); s2.pc.append(dup); out.append((s2, BoolV(z3.BoolVal(False))))
        new = z3.And(*diff) if diff else z3.BoolVal(True)
        if ex.feasible(st, new):
            st.pc.append(new); st.heap[hs.oid]['model'] = tuple(ents + [k]); out.append((st, BoolV(z3.BoolVal(True))))
        return out

    def s_key(ex, st, func, args, ty):
        return [(st, named(st, 'key:' + origin(st, args[0]), 'ContextKey'))]

    return [(r'<dyn Get as Get>::get$', dyn_get), (r'Context::build$', s_build), (r'Context::key$', s_key),
            (r'IndexMap::<.*>::entry$', s_entry), (r'Entry::<.*>::or_default$|Entry::<.*>::or_insert_with', s_or_default),
            (r'Vec::<.*>::is_empty$|IndexMap::<.*>::is_empty$', s_seq_is_empty), (r'Vec::<.*>::len$|IndexMap::<.*>::len$', s_seq_len), (r'Vec::<.*>::with_capacity$|IndexMap::<.*>::with_capacity$', s_seq_new),
            (r'IndexMap::<.*>::drain::<|Vec::<.*>::drain::<', s_drain), (r'<IndexMap<.*> as IntoIterator>::into_iter$', s_map_into_iter_val), (r'<Vec<.*> as IntoIterator>::into_iter$', s_iter_val),
            (r'Vec::<.*>::push$', s_seq_push), (r'Vec::<.*>::new$|IndexMap::<.*>::new$', s_seq_new), (r'Vec::<.*>::clear$|IndexMap::<.*>::clear$|HashSet::<.*>::clear$', s_seq_clear),
            (r'<&IndexMap<.*> as IntoIterator>::into_iter$|IndexMap::<.*>::iter$', s_map_iter), (r'<&Vec<.*> as IntoIterator>::into_iter$|impl \[.*\]>::iter$', s_iter_ref),
            (r'as Iterator>::next$', s_iter_next), (r'IndexMap::<.*>::insert$', s_map_insert),
            (r'as Clone>::clone$', s_clone_shared), (r'as Into<JsonValue>>::into$|<JsonValue as From<.*>>::from$', s_into_json),
            (r'Context::new_with_no_context$', s_new_ctx), (r'<Titles as Default>::default$|<processor::Titles as Default>::default$', lambda ex, st, f, a, t: [(st, named(st, 'EMPTY_TITLES', 'Titles'))]),
            (r'HashSet::<.*>::insert$', s_hs_insert), (r'std::mem::take::<', _mem_take),
            (r'<dyn Process as Process>::(process|complete|start)$', s_next)]


def s_drain(ex, st, func, args, ty):
    """drain(..) over the full range: the elements by value (pairs for a map), the container left empty"""
    c = obj(st, args[0]); items = list(model(st, c)); set_model(st, c, ())
    out = []
    for it in items:
        if isinstance(it, tuple):
            t = named(st, st.fresh_name('kv'), 'tuple'); st.heap[t.oid][('f', None, 0)] = it[0]; st.heap[t.oid][('f', None, 1)] = it[1]; out.append(t)
        else: out.append(it)
    return [(st, seqobj(st, 'Drain', out))]


def s_map_into_iter_val(ex, st, func, args, ty):
    out = []
    for k_, v_ in model(st, args[0]):
        t = named(st, st.fresh_name('kv'), 'tuple'); st.heap[t.oid][('f', None, 0)] = k_; st.heap[t.oid][('f', None, 1)] = v_; out.append(t)
    return [(st, seqobj(st, 'IntoIter', out))]


def _mem_take(ex, st, func, args, ty):
    from .scen_kernels import s_mem_take
    return s_mem_take(ex, st, func, args, ty)


def _run_rows(ex, F_PROC, selfref, st, k, prefix='row'):
    st.status = 'returned'; states = [st]
    for i in range(k):
        nxt = []
        for s in states:
            if s.status != 'returned': nxt.append(s); continue
            c = named(s, f'{prefix}{i}', 'Context')
            s.status = 'running'; ex.new_frame(s, F_PROC, [selfref, c])
            nxt += [d for d in ex.run(s) if d.status != 'infeasible']
        states = nxt
    return states


def collectors(ctx):
    run = ctx.run
    K = 3 if ctx.quick else 4
    run.bounds['collectors'] = f'k <= {K} rows; group key of each row absent / string (free identity under an abstract equivalence: repeats and distinct keys) / non-string; successor answers free'
    run.assume('IndexMap modelled as an insertion-ordered association list over an abstract key equivalence (one Int class per key); Vec as a sequence')
    # every inherent method of the two collector structs found in the MIR is executed (a helper added by an edit is code of the stage)
    helpers = []
    for mod, sname in (('grouper', 'GrouperProcess'), ('merger', 'Merger')):
        for n in ctx.fns:
            m = re.match(r'^%s::<impl at [^>]*>::(\w+)$' % mod, n)
            if m and m.group(1) not in ('process', 'complete', 'start', 'create_process', 'from_str', 'fmt', 'clone') and ctx.fns[n].params and re.search(r'\b%s\b' % sname, ctx.fns[n].params[0][1]):
                helpers.append((r'%s::%s$' % (sname, m.group(1)), '^' + re.escape(n) + '$'))
    ex = ctx.exec(summaries=mk_summaries(ctx, K), inline=helpers or [(r'GrouperProcess::name$', r'^grouper::<impl at [^>]*>::name$')], max_visits=6 * K + 12)
    fg = run.family('grouper.collect', 'process answers Continue and forwards nothing; complete forwards exactly one context: the object of the distinct string keys in first-seen order, each with that key\'s rows in arrival order; unkeyed rows nowhere; also for k = 0')
    fm = run.family('merger.collect', 'process answers Continue and forwards nothing; complete forwards exactly one context holding every row in arrival order; also for k = 0')
    fs = run.family('collector.start', 'Grouper/Merger start() forwards start once with empty titles')
    cands = []
    try:
        _collectors_body(ctx, ex, K, fg, fm, fs)
    finally:
        for f in (fg, fm, fs):
            seen = set(); keep = []
            for c in f.candidates:
                if c.role in seen: continue
                seen.add(c.role); keep.append(c)
            f.candidates = keep
        run.absorb(ex)
        replay_collect(ctx, fg.candidates + fm.candidates + fs.candidates)          # whatever was found is replayed even when the analysis of a later path gives up


def _judge(ctx, ex, e, stage, k, keys, nx, procs):
    why = None
    if len(procs) != 1: return f'complete forwards {len(procs)} contexts'
    if any(x[1] not in ('process', 'complete') for x in nx): why = 'unexpected successor call'
    else:
        outc = obj(e, procs[0][3]); val = obj(e, e.heap[outc.oid].get('value'))
        payload_kind = 'Object' if stage == 'Grouper' else 'Array'
        pl = e.heap[val.oid].get(('f', payload_kind, 0))
        if pl is None: why = 'the forwarded value is not an ' + payload_kind
        else:
            rows = [f'row{i}' for i in range(k)]
            if stage == 'Merger':
                got = [origin(e, x) for x in model(e, pl)]
                if got != [f'built:{r}' for r in rows]: why = f'merged rows {got}'
            else:
                ents = model(e, pl)
                def arr(v):
                    v = obj(e, v)
                    return model(e, v) if 'model' in e.heap[v.oid] else model(e, e.heap[v.oid][('f', 'Array', 0)])
                got = [(origin(e, kk), [origin(e, x) for x in arr(vv)]) for kk, vv in ents]
                strs = [r for r, sh in keys if sh == 'string']
                # reference under the model-free equivalence: decided per path by the class constraints
                # group rows by first-seen class representative
                reps = []; groups = {}
                conj = []
                for r in strs:
                    placed = False
                    for rep in reps:
                        same = cls_of('keystr:' + r) == cls_of('keystr:' + rep)
                        if ex.valid(e, same)[0]:
                            groups[rep].append(r); placed = True; break
                        if not ex.valid(e, z3.Not(same))[0]:
                            placed = None; break
                    if placed is None: why = 'key equivalence undecided on this path'; break
                    if not placed: reps.append(r); groups[r] = [r]
                if why is None:
                    exp = [('keystr:' + rep, [f'built:{x}' for x in groups[rep]]) for rep in reps]
                    if got != exp: why = f'groups {got}, expected {exp}'
        rd = ex.discr(e, obj(e, e.ret)).t; nrd = ex.discr(e, obj(e, procs[0][4])).t
        if why is None and not ex.valid(e, z3.Implies(nrd == 1, rd == 1))[0]: why = 'a failing write of the collection is swallowed'
        if why is None and not ex.valid(e, z3.Implies(nrd == 0, rd == 0) if not [x for x in nx if x[1] == 'complete'] else z3.BoolVal(True))[0]: why = 'complete fails although the successor succeeded'
    return why


def _collectors_body(ctx, ex, K, fg, fm, fs):
    run = ctx.run
    from .mirsym import Unmodelled
    for stage, prefix, sname, fam in (('Grouper', r'^grouper::<impl at [^>]*>::', 'GrouperProcess', fg), ('Merger', r'^merger::<impl at [^>]*>::', 'Merger', fm)):
        F_PROC = ex.find(prefix + 'process$'); F_COMP = ex.find(prefix + 'complete$'); F_START = ex.find(prefix + 'start$')
        flds = ctx.structs[sname]
        for k in range(0, K + 1):
            st = State(); so = st.new_obj('self', sname); selfref = slot(st, ObjV(so), 'self*')
            st.heap[so][('f', None, flds.index('data'))] = seqobj(st, 'IndexMap' if stage == 'Grouper' else 'Vec', (), origin='self.data')
            st.heap[so][('f', None, flds.index('next'))] = named(st, 'self.next', 'Box<dyn Process>')
            for d in _run_rows(ex, F_PROC, selfref, st, k):
                hav = (d.havoc or [None])[0]
                if d.status != 'returned':
                    fam.obligations += 1; c = Candidate(fam.name, f'process-{d.status}', f'{sname}::process ends as {d.status} {d.notes}', {'stage': stage, 'k': k}, unmodelled=hav); fam.candidates.append(c); continue
                d.status = 'running'; ex.new_frame(d, F_COMP, [selfref])
                for e in ex.run(d):
                    run.paths += 1
                    if e.status == 'infeasible': continue
                    fam.obligations += 1; fam.paths += 1; fam.witnesses += 1
                    hav = (e.havoc or [None])[0]
                    keys = [(x[1], x[2]) for x in e.events if x[0] == 'key']
                    nx = next_events(e)
                    if e.status != 'returned':
                        c = Candidate(fam.name, f'complete-{e.status}', f'{sname}::complete ends as {e.status} {e.notes}', {'stage': stage, 'k': k}, unmodelled=hav); fam.candidates.append(c); continue
                    procs = [x for x in nx if x[1] == 'process']
                    why = None
                    try:
                        why = _judge(ctx, ex, e, stage, k, keys, nx, procs)
                    except (Unmodelled, KeyError, AttributeError, TypeError) as exc:
                        why = f'the forwarded collection cannot be read back ({type(exc).__name__}: {str(exc)[:80]})'; hav = hav or 'unmodelled container operation'
                    if False: pass
                    if why is None:
                        fam.discharged += 1
                        if k >= 2: fam.add_sample({'stage': stage, 'k': k, 'keys': keys, 'verdict': 'one collection, as specified'})
                    else:
                        shape = [sh for _, sh in keys]
                        c = Candidate(fam.name, 'collect:' + ('empty' if k == 0 else 'rows'), f'{sname} with k={k} rows (keys {shape}): {why}', {'stage': stage, 'k': k, 'keys': shape}, unmodelled=hav)
                        fam.candidates.append(c)
        # start
        st = State(); so = st.new_obj('self', sname); selfref = slot(st, ObjV(so), 'self*')
        ex.new_frame(st, F_START, [selfref, named(st, 'TITLES', 'Titles')])
        for d in ex.run(st):
            if d.status == 'infeasible': continue
            fs.obligations += 1; fs.witnesses += 1
            nx = next_events(d)
            good = d.status == 'returned' and len(nx) == 1 and nx[0][1] == 'start' and origin(d, nx[0][3]) == 'EMPTY_TITLES' and \
                ex.valid(d, ex.discr(d, obj(d, d.ret)).t == ex.discr(d, obj(d, nx[0][4])).t)[0]
            if good: fs.discharged += 1
            else: fs.candidates.append(Candidate(fs.name, f'{stage}-start', f'{sname}::start: {[(x[1], origin(d, x[3]) if x[3] is not None else None) for x in nx]} ({d.status})', {'stage': stage}, unmodelled=(d.havoc or [None])[0]))


def replay_collect(ctx, cands):
    from .cli import run_jawk, show
    from . import refpipe
    ROWS = [{'k': 'x', 'i': 0}, {'k': 'y', 'i': 1}, {'i': 2}, {'k': 'x', 'i': 3}, {'k': 5, 'i': 4}, {'k': '', 'i': 5}, {'k': 'y', 'i': 6}]
    for c in cands:
        stage = c.model.get('stage')
        found = None
        for rows in (ROWS, [], [[1, 2], [], 3, {'k': 'x', 'v': [4]}]):
            argv = (['--group-by', '.k'] if stage == 'Grouper' else ['--merge']) + ['--style', 'consise']
            exp = refpipe.pipeline(rows, group='.k' if stage == 'Grouper' else None, merge=stage == 'Merger')
            r = run_jawk(ctx, argv, ' '.join(json.dumps(x) for x in rows).encode())
            try: got = [json.loads(l) for l in show(r['stdout']).splitlines() if l.strip()]
            except Exception: got = show(r['stdout'])
            ok_ = got == exp and r['rc'] == 0 and (not isinstance(got, list) or not got or not isinstance(got[0], dict) or list(got[0].keys()) == list(exp[0].keys()))
            if not ok_: found = {'argv': argv, 'stdin': rows, 'expected': exp, 'actual': got, 'rc': r['rc']}; break
        if not found:
            # the collected rows are the rows the ungrouped pipeline prints: selections missing in a row stay missing
            for rows in ([{'a': 1, 'k': 'x'}, {'b': 2, 'k': 'x'}, {'k': 'y'}],):
                sel = ['--select', '.a=a', '--select', '.b=b']
                argv = (['--group-by', '.k'] if stage == 'Grouper' else ['--merge']) + sel + ['--style', 'consise']
                built = [{k: v for k, v in r_.items() if k in ('a', 'b')} for r_ in rows]
                exp = [{'x': built[:2], 'y': built[2:]}] if stage == 'Grouper' else [built]
                r = run_jawk(ctx, argv, ' '.join(json.dumps(x) for x in rows).encode())
                try: got = [json.loads(l) for l in show(r['stdout']).splitlines() if l.strip()]
                except Exception: got = show(r['stdout'])
                if got != exp or r['rc'] != 0: found = {'argv': argv, 'stdin': rows, 'expected': exp, 'actual': got, 'rc': r['rc']}
        c.replay = found
        c.status = 'reproduced' if found else 'unit'


def unique(ctx):
    run = ctx.run
    K = 3 if ctx.quick else 4
    run.bounds['unique'] = f'k <= {K} rows with keys free under an abstract equivalence (every pattern of repeats); successor answers free'
    run.assume('HashSet modelled as a set over an abstract key equivalence; that Hash agrees with Eq on keys is the Kani obligation hash_eq (C10.b)')
    ex = ctx.exec(summaries=mk_summaries(ctx, K), max_visits=6 * K + 12)
    fam = run.family('unique.step', 'a row is forwarded iff no earlier row had an equivalent key; nothing else is removed; order kept; the successor\'s decision is returned')
    prefix = r'^duplication_remover::<impl at [^>]*>::'
    F_PROC = ex.find(prefix + 'process$')
    flds = ctx.structs['Uniquness']
    for k in range(1, K + 1):
        st = State(); so = st.new_obj('self', 'Uniquness'); selfref = slot(st, ObjV(so), 'self*')
        st.heap[so][('f', None, flds.index('knwon_lines'))] = seqobj(st, 'HashSet', (), origin='self.known')
        st.heap[so][('f', None, flds.index('next'))] = named(st, 'self.next', 'Box<dyn Process>')
        # successor always continues in the prefix so that all k rows are offered (Break/Err handling is C14/C16)
        for d in _run_rows(ex, F_PROC, selfref, st, k):
            run.paths += 1
            fam.obligations += 1; fam.paths += 1; fam.witnesses += 1
            hav = (d.havoc or [None])[0]
            if d.status != 'returned':
                fam.candidates.append(Candidate(fam.name, f'process-{d.status}', f'Uniquness::process ends as {d.status} {d.notes}', {'k': k}, unmodelled=hav)); continue
            fwd = [origin(d, x[3]) for x in next_events(d, 'process')]
            rows = [f'row{i}' for i in range(k)]
            why = None; exp = fwd
            conj = []
            for i, r in enumerate(rows):
                fresh = z3.And(*[cls_of('key:' + r) != cls_of('key:' + q) for q in rows[:i]]) if i else z3.BoolVal(True)
                conj.append(fresh == z3.BoolVal(r in fwd))
            conj.append(z3.BoolVal(fwd == [r for r in rows if r in fwd]))
            ok_, m = ex.valid(d, z3.And(*conj))
            if not ok_:
                classes = {r: m.eval(cls_of('key:' + r), True).as_long() for r in rows}
                why = f'key classes {classes}: forwarded {fwd}'
            if why is None:
                fam.discharged += 1
                if k >= 3 and len(exp) < k: fam.add_sample({'k': k, 'forwarded': fwd, 'verdict': 'first occurrences only'})
            else:
                fam.candidates.append(Candidate(fam.name, 'unique-wrong', f'Uniquness over {k} rows: {why}', {'k': k}, unmodelled=hav))
    seen = set(); fam.candidates = [c for c in fam.candidates if not (c.role in seen or seen.add(c.role))]
    run.absorb(ex)
    # Context::key
    key_fn(ctx)
    from .cli import run_jawk, show
    from . import refpipe
    for c in fam.candidates:
        rows = [1, 2, 1, {'a': 1}, 2, {'a': 1}, [1], [1], 'x', 'x', None, None, 3, {'a': {'b': 1}}, {'a': {}, 'b': 1}, {'a': [1, 2]}, {'a': [1], 'b': 2}, [[1], 2], [[1, 2]], 1.5, '1.5']
        r = run_jawk(ctx, ['--unique', '--style', 'consise'], ' '.join(json.dumps(x) for x in rows).encode())
        exp = refpipe.pipeline(rows, unique=True)
        try: got = [json.loads(l) for l in show(r['stdout']).splitlines() if l.strip()]
        except Exception: got = show(r['stdout'])
        c.replay = {'argv': ['--unique'], 'stdin': rows, 'expected': exp, 'actual': got}
        c.status = 'reproduced' if got != exp else 'unit'


def key_fn(ctx):
    """Context::key: Value(input) when nothing is selected, Results(list of selected values incl. absent) otherwise"""
    run = ctx.run
    from .scen_ctx import SUMM as CSUMM
    fam = run.family('unique.key', 'Context::key is Value(input) when nothing is selected and Results(selected values, absent included) otherwise')
    CT = ctx.structs['Context']; CK = ctx.enums['ContextKey']
    def s_to_list(ex, st, func, args, ty):
        c = obj(st, args[0]); return [(st, named(st, 'to_list(' + origin(st, c) + ')', 'Vec'))]
    PR = r'^processor::<impl at [^>]*>::'
    ex = ctx.exec(summaries=[(r'Context::to_list$', s_to_list), (r'<JsonValue as Clone>::clone$', s_clone_shared)] + CSUMM, inline=[(r'Context::input$', PR + 'input$')], max_visits=10)
    F = ex.find(PR + 'key$')
    for n_res in (0, 1, 2):
        st = State(); c = st.new_obj('ctx', 'Context')
        st.heap[c][('f', None, CT.index('input'))] = named(st, 'INPUT', 'Rc<JsonValue>')
        st.heap[c][('f', None, CT.index('results'))] = seqobj(st, 'Vec', [named(st, f'R{i}') for i in range(n_res)])
        ex.new_frame(st, F, [slot(st, ObjV(c), 'ctx*')])
        for d in ex.run(st):
            if d.status == 'infeasible': continue
            fam.obligations += 1; fam.witnesses += 1
            good = d.status == 'returned'
            if good:
                r = obj(d, d.ret); dv = cval(ex.discr(d, r).t)
                if n_res == 0: good = dv == CK.index('Value') and origin(d, d.heap[r.oid][('f', 'Value', 0)]) == 'INPUT'
                else: good = dv == CK.index('Results') and origin(d, d.heap[r.oid][('f', 'Results', 0)]) == 'to_list(ctx)'
            if good: fam.discharged += 1
            else:
                c_ = Candidate(fam.name, f'key-{n_res}', f'Context::key with {n_res} selections is wrong ({d.status})', {'n_res': n_res}, unmodelled=(d.havoc or [None])[0])
                if not any(x.role == c_.role for x in fam.candidates): fam.candidates.append(c_)
    run.absorb(ex)
    from .cli import run_jawk, show
    DEMOS = [(['--unique', '--select', '.a=a'], '{"a":null} {} {"a":null} {}', 2), (['--unique', '--select', '.a=a'], '{"a":1,"b":2} {"a":1,"b":3} {"a":2}', 2),
             (['--unique'], '1 1 2 [1] [1] {"a":null} {}', 5), (['--unique', '--select', '.a=a'], '{"x":1} {"x":2} {"x":3}', 1),
             (['--unique', '--select', '.a=a', '--select', '.b=b'], '{"x":1} {"y":2}', 1), (['--unique', '--select', '.a=a', '--select', '.b=b'], '{"a":1} {"b":1} {"a":1} {"a":null} {"a":null,"b":null} {}', 5)]
    for c_ in fam.candidates:
        c_.status = 'unit'
        for argv, stdin, nrows in DEMOS:
            r = run_jawk(ctx, argv + ['--style', 'consise'], stdin.encode())
            got = len([l for l in show(r['stdout']).splitlines() if l.strip()])
            c_.replay = {'argv': argv, 'stdin': stdin, 'expected_rows': nrows, 'actual_rows': got, 'stdout': show(r['stdout'])}
            if got != nrows: c_.status = 'reproduced'; break
