"""The JSON tokenizer (src/json_parser.rs + src/reader.rs), executed from MIR on symbolic input bytes, against a
reference RFC 8259 recogniser-and-denoter that runs symbolically on the same byte terms under each path's condition."""
import re, itertools, json, time, os
import z3
from .lib import *
from .report import Candidate, Broken
from .par import pmap

WS = (0x20, 0x0a, 0x09, 0x0d)
VALUE_START = set(b'ntf"-[{0123456789')


# ---------------------------------------------------------------- symbolic helpers
def isdig(b): return z3.And(z3.UGE(b, ord('0')), z3.ULE(b, ord('9')))
def isws(b): return z3.Or(*[b == w for w in WS])
def inset(b, s): return z3.Or(*[b == x for x in s]) if s else z3.BoolVal(False)


def utf8_valid(bs):
    """z3 formula: the byte terms bs (fixed length) are well-formed UTF-8"""
    n = len(bs)
    memo = {}
    def cont(b, lo=0x80, hi=0xBF): return z3.And(z3.UGE(b, lo), z3.ULE(b, hi))
    def v(i):
        if i == n: return z3.BoolVal(True)
        if i in memo: return memo[i]
        b = bs[i]; alts = [z3.And(z3.ULT(b, 0x80), v(i + 1))]
        if i + 1 < n:
            alts.append(z3.And(z3.UGE(b, 0xC2), z3.ULE(b, 0xDF), cont(bs[i + 1]), v(i + 2)))
        if i + 2 < n:
            c1, c2 = bs[i + 1], bs[i + 2]
            alts.append(z3.And(b == 0xE0, cont(c1, 0xA0, 0xBF), cont(c2), v(i + 3)))
            alts.append(z3.And(z3.Or(z3.And(z3.UGE(b, 0xE1), z3.ULE(b, 0xEC)), b == 0xEE, b == 0xEF), cont(c1), cont(c2), v(i + 3)))
            alts.append(z3.And(b == 0xED, cont(c1, 0x80, 0x9F), cont(c2), v(i + 3)))
        if i + 3 < n:
            c1, c2, c3 = bs[i + 1], bs[i + 2], bs[i + 3]
            alts.append(z3.And(b == 0xF0, cont(c1, 0x90, 0xBF), cont(c2), cont(c3), v(i + 4)))
            alts.append(z3.And(z3.UGE(b, 0xF1), z3.ULE(b, 0xF3), cont(c1), cont(c2), cont(c3), v(i + 4)))
            alts.append(z3.And(b == 0xF4, cont(c1, 0x80, 0x8F), cont(c2), cont(c3), v(i + 4)))
        memo[i] = z3.Or(*alts)
        return memo[i]
    return v(0)


def utf8_cases(c):
    """c: BV32 scalar value -> [(cond, [byte terms])]"""
    e = lambda hi, lo: z3.Extract(hi, lo, c)
    return [(z3.ULT(c, 0x80), [z3.Extract(7, 0, c)]),
            (z3.And(z3.UGE(c, 0x80), z3.ULT(c, 0x800)), [z3.Concat(z3.BitVecVal(6, 3), e(10, 6)), z3.Concat(z3.BitVecVal(2, 2), e(5, 0))]),
            (z3.And(z3.UGE(c, 0x800), z3.ULT(c, 0x10000)), [z3.Concat(z3.BitVecVal(14, 4), e(15, 12)), z3.Concat(z3.BitVecVal(2, 2), e(11, 6)), z3.Concat(z3.BitVecVal(2, 2), e(5, 0))]),
            (z3.UGE(c, 0x10000), [z3.Concat(z3.BitVecVal(30, 5), e(20, 18)), z3.Concat(z3.BitVecVal(2, 2), e(17, 12)), z3.Concat(z3.BitVecVal(2, 2), e(11, 6)), z3.Concat(z3.BitVecVal(2, 2), e(5, 0))])]


def _u8(st, v):
    v = obj(st, v)
    return v.t


# ---------------------------------------------------------------- summaries for the tokenizer bodies
class ParserScenario:
    def __init__(self, ctx, n, fail_at=None, extra_summaries=(), extra_inline=(), max_visits=None):
        self.ctx = ctx; self.n = n; self.fail_at = fail_at
        self.extra_summaries = list(extra_summaries); self.extra_inline = list(extra_inline); self.max_visits = max_visits
        self.INPUT = [z3.BitVec(f'b{i}', 8) for i in range(n)]
        enums = ctx.enums
        self.JPE = enums['JsonParserError']; self.JV = enums['JsonValue']; self.NV = enums['NumberValue']
        self.int_of = {}
        self.ex = self.make_exec()

    # -- bytes
    def s_bytes_next(self, ex, st, func, args, ty):
        b = obj(st, args[0]); pos = st.heap[b.oid].get('pos', 0)
        if self.fail_at is not None and pos == self.fail_at and not st.heap[b.oid].get('failed'):
            st.heap[b.oid]['failed'] = True
            st.events.append(('read_fail', pos))
            return [(st, some(st, err(st, named(st, 'IOERR', 'std::io::Error'))))]
        if pos >= self.n:
            st.events.append(('read_end',))
            return [(st, none(st))]
        st.heap[b.oid]['pos'] = pos + 1
        st.events.append(('read', pos))
        return [(st, some(st, ok(st, BV(self.INPUT[pos]))))]

    def s_opt_u8_eq(self, ex, st, func, args, ty):
        a, b = obj(st, args[0]), obj(st, args[1])
        da, db = ex.discr(st, a).t, ex.discr(st, b).t
        pa = ex.load(st, a.oid, ('f', 'Some', 0), 'u8').t; pb = ex.load(st, b.oid, ('f', 'Some', 0), 'u8').t
        e = z3.And(da == db, z3.Implies(da == 1, pa == pb))
        return [(st, BoolV(z3.Not(e) if func.endswith('::ne') else e))]

    def s_from_utf8(self, ex, st, func, args, ty):
        m = model(st, args[0]); bs = [b.t for b in m]
        valid = utf8_valid(bs)
        out = []
        if ex.feasible(st, valid):
            s2 = st.clone(); s2.pc.append(valid); out.append((s2, ok(s2, seqobj(s2, 'String', m))))
        if ex.feasible(st, z3.Not(valid)):
            s2 = st.clone(); s2.pc.append(z3.Not(valid)); out.append((s2, err(s2, named(s2, s2.fresh_name('utf8err'), 'FromUtf8Error'))))
        return out

    def s_parse_int(self, ex, st, func, args, ty):
        m = model(st, args[0]); signed = func.endswith('<i64>')
        st.events.append(('parse_int', signed, tuple(m)))
        body = [b.t for b in m]
        def num(ds):
            v = z3.IntVal(0)
            for d in ds: v = v * 10 + z3.BV2Int(d - ord('0'))
            return v
        alld = lambda ds: z3.And(*[isdig(d) for d in ds]) if ds else z3.BoolVal(True)
        cases = []
        lo, hi = (-(2**63), 2**63 - 1) if signed else (0, 2**64 - 1)
        if not body:
            cases.append((z3.BoolVal(True), 'Empty', None))
        else:
            pos_v = num(body)
            cases.append((z3.And(alld(body), pos_v <= hi), None, pos_v))
            cases.append((z3.And(alld(body), pos_v > hi), 'PosOverflow', None))
            sign = z3.Or(body[0] == ord('-'), body[0] == ord('+')) if signed else body[0] == ord('+')
            minus = body[0] == ord('-')
            if len(body) == 1:
                cases.append((z3.Not(alld(body)), 'InvalidDigit', None))
            else:
                rest = body[1:]
                if signed:
                    neg_v = -num(rest)
                    cases.append((z3.And(minus, alld(rest), neg_v >= lo), None, neg_v))
                    cases.append((z3.And(minus, alld(rest), neg_v < lo), 'NegOverflow', None))
                    plus = body[0] == ord('+')
                    cases.append((z3.And(plus, alld(rest), num(rest) <= hi), None, num(rest)))
                    cases.append((z3.And(plus, alld(rest), num(rest) > hi), 'PosOverflow', None))
                    cases.append((z3.And(z3.Not(alld(body)), z3.Not(z3.And(sign, alld(rest)))), 'InvalidDigit', None))
                else:
                    plus = body[0] == ord('+')
                    cases.append((z3.And(plus, alld(rest), num(rest) <= hi), None, num(rest)))
                    cases.append((z3.And(plus, alld(rest), num(rest) > hi), 'PosOverflow', None))
                    cases.append((z3.And(z3.Not(alld(body)), z3.Not(z3.And(plus, alld(rest)))), 'InvalidDigit', None))
        out = []
        for c, kind, v in cases:
            if ex.feasible(st, c):
                s2 = st.clone(); s2.pc.append(c)
                if kind is None:
                    r = BV(z3.Int2BV(v, 64), signed); self.int_of[r.t.get_id()] = v
                    out.append((s2, ok(s2, r)))
                else:
                    e = named(s2, s2.fresh_name('pie'), 'ParseIntError'); s2.heap[e.oid]['kind'] = kind
                    out.append((s2, err(s2, e)))
        return out

    def s_pie_kind(self, ex, st, func, args, ty):
        e = obj(st, args[0]); k = st.heap[e.oid]['kind']
        return [(st, slot(st, mk_enum(st, 'IntErrorKind', ex.enums['IntErrorKind'].index(k))))]

    def s_kind_eq(self, ex, st, func, args, ty):
        a = obj(st, args[0]); b = obj(st, args[1])
        return [(st, BoolV(ex.discr(st, a).t == ex.discr(st, b).t))]

    def s_parse_f64(self, ex, st, func, args, ty):
        """str::parse::<f64>: uninterpreted in the digit string; outcome Ok(finite) | Ok(non-finite) | Err.
        A string of the RFC 8259 number shape (after jawk's e->E, '+' dropped) always parses (std contract, trusted)."""
        m = model(st, args[0]); out = []
        for kind in ('finite', 'infinite', 'err'):
            s2 = st.clone(); s2.events.append(('parse_f64', tuple(m), kind))
            if kind == 'err':
                out.append((s2, err(s2, named(s2, s2.fresh_name('pfe'), 'ParseFloatError'))))
            else:
                f = named(s2, s2.fresh_name('f64'), 'f64'); s2.heap[f.oid]['f64'] = (tuple(m), kind)
                out.append((s2, ok(s2, f)))
        return out

    def s_is_finite(self, ex, st, func, args, ty):
        f = obj(st, args[0]); return [(st, BoolV(z3.BoolVal(st.heap[f.oid]['f64'][1] == 'finite')))]

    def s_from_f64(self, ex, st, func, args, ty):
        """<JsonValue as From<f64>>::from - normalisation of integral doubles is C01.d (Kani); here: Number(tag)"""
        f = obj(st, args[0])
        nv = mk_enum(st, 'NumberValue', self.NV.index('Float'), 'Float', (f,))
        return [(st, mk_enum(st, 'JsonValue', self.JV.index('Number'), 'Number', (nv,)))]

    def s_unexpected(self, ex, st, func, args, ty):
        st.events.append(('unexpected_char', args[1]))
        return [(st, mk_enum(st, 'JsonParserError', self.JPE.index('UnexpectedCharacter'), 'UnexpectedCharacter', (), name=st.fresh_name('unexp')))]

    def s_char_from_u32(self, ex, st, func, args, ty):
        c = args[0].t; valid = z3.Or(z3.ULT(c, 0xD800), z3.And(z3.UGE(c, 0xE000), z3.ULE(c, 0x10FFFF))); out = []
        if ex.feasible(st, valid):
            s2 = st.clone(); s2.pc.append(valid); out.append((s2, some(s2, BV(c))))
        if ex.feasible(st, z3.Not(valid)):
            s2 = st.clone(); s2.pc.append(z3.Not(valid)); out.append((s2, none(s2)))
        return out

    def s_encode_utf8(self, ex, st, func, args, ty):
        c = args[0].t; out = []
        for cnd, bs in utf8_cases(c):
            if ex.feasible(st, cnd):
                s2 = st.clone(); s2.pc.append(cnd); out.append((s2, slot(s2, seqobj(s2, 'str', [BV(b) for b in bs]))))
        return out

    def s_into_iter(self, ex, st, func, args, ty):
        src = args[0]
        if isinstance(src, Const):      # const b"rue"
            m = re.match(r'b"(.*)"$', src.text); items = [BV(bv8(ord(ch))) for ch in m.group(1)]
        else:
            items = model(st, src)
        return [(st, seqobj(st, 'Iter', [slot(st, x) for x in items]))]

    def s_range_next(self, ex, st, func, args, ty):
        r = obj(st, args[0]); a = st.heap[r.oid][('f', None, 0)]; b = st.heap[r.oid][('f', None, 1)]
        av = cval(a.t); bv = cval(b.t)
        if av >= bv: return [(st, none(st))]
        st.heap[r.oid][('f', None, 0)] = BV(z3.BitVecVal(av + 1, a.t.size()), a.signed)
        return [(st, some(st, a))]

    def s_unwrap_u8(self, ex, st, func, args, ty):
        o = obj(st, args[0])
        d = ex.discr(st, o).t
        out = []
        if ex.feasible(st, d == 0):
            s2 = st.clone(); s2.pc.append(d == 0); s2.status = 'panic'; s2.notes.append('unwrap on None'); self.extra.append(s2)
        st.pc.append(d == 1)
        return [(st, ex.load(st, o.oid, ('f', 'Some', 0), 'u8'))]

    def s_is_none(self, ex, st, func, args, ty): return [(st, BoolV(ex.discr(st, obj(st, args[0])).t == 0))]
    def s_opaque(self, ex, st, func, args, ty): return [(st, ex.fresh_value(st, ty or '()', st.fresh_name('opq')))]

    def s_fromres(self, ex, st, func, args, ty):
        res = args[0]; e = ex.load(st, res.oid, ('f', 'Err', 0), 'opaque')
        if 'JsonParserError' in (ty or '') and 'std::io::Error' in func:
            e = mk_enum(st, 'JsonParserError', self.JPE.index('IoError'), 'IoError', (e,))
        return [(st, err(st, e))]

    def s_map_new(self, ex, st, func, args, ty): return [(st, seqobj(st, 'IndexMap', ()))]

    def s_map_insert(self, ex, st, func, args, ty):
        """IndexMap::insert: replace the value in place when the key is already present, else append"""
        mp = obj(st, args[0]); k = obj(st, args[1]); v = args[2]
        items = list(model(st, mp)); kb = [b.t for b in model(st, k)]
        out = []
        distinct = []
        for i, (kk, vv) in enumerate(items):
            ob = [b.t for b in model(st, kk)]
            if len(ob) != len(kb): continue
            same = z3.And(*[x == y for x, y in zip(ob, kb)]) if kb else z3.BoolVal(True)
            distinct.append(z3.Not(same))
            if ex.feasible(st, same):
                s2 = st.clone(); s2.pc.append(same); it2 = list(model(s2, obj(s2, args[0]))); it2[i] = (it2[i][0], v); set_model(s2, obj(s2, args[0]), it2)
                s2.events.append(('dup_key', i)); out.append((s2, some(s2, vv)))
        c = z3.And(*distinct) if distinct else z3.BoolVal(True)
        if ex.feasible(st, c):
            st.pc.append(c); set_model(st, mp, items + [(k, v)]); out.append((st, none(st)))
        return out

    def s_result_map(self, ex, st, func, args, ty):
        """Result::map(f) / map_err(f) with f an enum-variant constructor or a closure: the payload of the mapped side goes through f"""
        from .scen_kernels2 import closure_body, run_closure
        r = obj(st, args[0]); d = ex.discr(st, r).t; which = 'map_err' if '::map_err::<' in func else 'map'
        side, dv = ('Err', 1) if which == 'map_err' else ('Ok', 0)
        out = []
        if ex.feasible(st, d != dv):
            s2 = st.clone(); s2.pc.append(d != dv); out.append((s2, obj(s2, args[0])))
        if ex.feasible(st, d == dv):
            st.pc.append(d == dv); payload = ex.load(st, r.oid, ('f', side, 0), 'opaque')
            m = re.search(r'\{(\w+(?:::\w+)*)\}>?$', func)
            if '{closure@' in func:
                for s2, v in run_closure(ex, st, closure_body(ex, func), args[1], [payload]):
                    out.append((s2, ok(s2, v) if side == 'Ok' else err(s2, v)))
            elif m:
                from .mirsym import split_path, enum_variant
                tyname, var = enum_variant(ex.enums, split_path(m.group(1)))
                if tyname is None: return None
                v = mk_enum(st, tyname, ex.enums[tyname].index(var), var, (payload,))
                out.append((st, ok(st, v) if side == 'Ok' else err(st, v)))
            else: return None
        return out

    def s_extend_from_slice(self, ex, st, func, args, ty):
        v = obj(st, args[0]); set_model(st, v, tuple(model(st, v)) + tuple(model(st, args[1]))); return [(st, UNIT)]

    def fields_written_by_parser(self):
        """indices of Reader fields assigned by a body of json_parser.rs, or by a Reader method that such a body (transitively) calls"""
        ctx = self.ctx
        bodies = {n: f for n, f in ctx.fns.items() if re.match(r'^(json_parser|reader)::<impl at [^>]*>::\w+$', n)}
        by_method = {}
        for n in bodies: by_method.setdefault(n.rsplit('::', 1)[1], []).append(n)
        blocks = lambda f: (f.blocks.values() if isinstance(f.blocks, dict) else f.blocks)
        reach = set(n for n in bodies if n.startswith('json_parser::')); work = list(reach)
        while work:
            f = bodies[work.pop()]
            for bb in blocks(f):
                if bb.term.kind != 'call': continue
                callee = (bb.term.data.get('func') or '').rsplit('::', 1)[-1]
                callee = re.sub(r'<.*$', '', callee)
                for n in by_method.get(callee, []):
                    if n not in reach and n.startswith('reader::'): reach.add(n); work.append(n)
        written = set()
        for n in reach:
            f = bodies[n]
            for bb in blocks(f):
                for s_ in bb.stmts:
                    if s_.lhs is None: continue
                    base_ty = f.locals.get(s_.lhs.local, '') or ''
                    pr = s_.lhs.proj
                    if 'Reader' in base_ty and len(pr) >= 2 and pr[0][0] == 'deref' and pr[1][0] == 'field': written.add(pr[1][1])
                    elif 'Reader' in base_ty and len(pr) >= 1 and pr[0][0] == 'field': written.add(pr[0][1])
        return written

    def make_exec(self):
        ctx = self.ctx
        summ = [
            (r'Result::<.*>::map::<|Result::<.*>::map_err::<', self.s_result_map), (r'Vec::<u8>::extend_from_slice$', self.s_extend_from_slice),
            (r' as FromResidual<.*>>::from_residual$', self.s_fromres),
            (r'<std::io::Bytes<R> as Iterator>::next$', self.s_bytes_next),
            (r'<reader::Location as Clone>::clone$|<Location as Clone>::clone$', s_clone),
            (r'<Option<u8> as PartialEq>::(eq|ne)$', self.s_opt_u8_eq),
            (r'Vec::<.*>::new$', s_seq_new), (r'Vec::<.*>::push$', s_seq_push), (r'String::len$|Vec::<.*>::len$|impl str>::len$', s_seq_len),
            (r'String::from_utf8$', self.s_from_utf8), (r'<std::string::String as Deref>::deref$', s_identity),
            (r'parse::<u64>$|parse::<i64>$', self.s_parse_int), (r'ParseIntError::kind$', self.s_pie_kind), (r'<&IntErrorKind as PartialEq>::eq$|<IntErrorKind as PartialEq>::eq$', self.s_kind_eq),
            (r'parse::<f64>$', self.s_parse_f64), (r'f64::is_finite$|impl f64>::is_finite$', self.s_is_finite), (r'<f64 as Into<JsonValue>>::into$|<JsonValue as From<f64>>::from$', self.s_from_f64),
            (r'^create_unexpected_character|json_parser::create_unexpected_character', self.s_unexpected),
            (r'<u32 as From<u8>>::from$', lambda ex, st, f, a, t: [(st, BV(z3.ZeroExt(24, a[0].t)))]),
            (r'<usize as From<u8>>::from$|<u64 as From<u8>>::from$', lambda ex, st, f, a, t: [(st, BV(z3.ZeroExt(56, a[0].t)))]),
            (r'char::from_u32$|impl char>::from_u32$', self.s_char_from_u32),
            (r'impl char>::encode_utf8$', self.s_encode_utf8), (r'impl str>::as_bytes$', s_identity),
            (r'<std::ops::Range<.*> as Iterator>::next$', self.s_range_next), (r'<std::ops::Range<.*> as IntoIterator>::into_iter$', s_identity),
            (r'as IntoIterator>::into_iter$', self.s_into_iter), (r'<std::slice::Iter<.*> as Iterator>::next$', s_iter_next),
            (r'impl u8>::is_ascii_whitespace$', lambda ex, st, f, a, t: [(st, BoolV(z3.Or(*[_u8(st, a[0]) == x for x in (0x20, 9, 10, 12, 13)])))]),
            (r'impl u8>::is_ascii_digit$', lambda ex, st, f, a, t: [(st, BoolV(isdig(_u8(st, a[0]))))]),
            (r'impl u8>::is_ascii_hexdigit$', lambda ex, st, f, a, t: [(st, BoolV(z3.Or(isdig(_u8(st, a[0])), z3.And(z3.UGE(_u8(st, a[0]) | 0x20, ord('a')), z3.ULE(_u8(st, a[0]) | 0x20, ord('f'))))))]),
            (r'impl u8>::is_ascii$', lambda ex, st, f, a, t: [(st, BoolV(z3.ULT(_u8(st, a[0]), 0x80)))]),
            (r'Option::<u8>::unwrap$', self.s_unwrap_u8), (r'Option::<u8>::is_none$', self.s_is_none),
            (r'IndexMap::<.*>::new$', self.s_map_new), (r'IndexMap::<.*>::insert$', self.s_map_insert),
            (r'ToString>::to_string$|type_name$|RangeInclusive|collect::<|Extend<|box_assume_init|into_vec|exchange_malloc|box_new|new_uninit|assume_init|slice::<impl \[.*\]>::into_vec', self.s_opaque),
        ]
        # every method of the parser / reader impls found in the MIR is executed for real (robust against helper refactorings)
        inl = []
        for name in ctx.fns:
            m = re.match(r'^json_parser::<impl at [^>]*>::(\w+)$', name)
            if m and m.group(1) != 'can_recover':
                inl.append((r'JsonParserUtils>::%s(::<\d+>)?$|JsonParser>::%s$' % (m.group(1), m.group(1)), '^' + re.escape(name) + '$'))
            m = re.match(r'^reader::<impl at [^>]*>::(\w+)$', name)
            if m and not re.match(r'^(new|from_\w+|fmt|clone|drop|default|eq|hash)$', m.group(1)) and ctx.fns[name].params and 'Reader' in ctx.fns[name].params[0][1]:
                inl.append((r'Reader::<.*>::%s$' % m.group(1), '^' + re.escape(name) + '$'))
        self.extra = []
        return ctx.exec(summaries=self.extra_summaries + summ, inline=self.extra_inline + inl, max_visits=self.max_visits or 4 * self.n + 12)

    # -- initial reader state
    def initial(self, arbitrary=True):
        ctx = self.ctx; ex = self.ex
        RDR = ctx.structs['Reader']; LOC = ctx.structs['Location']
        st = State()
        ro = st.new_obj('reader', 'Reader'); rref = slot(st, ObjV(ro), 'reader*')
        by = st.new_obj('bytes', 'Bytes'); st.heap[by]['pos'] = 0
        st.heap[ro][('f', None, RDR.index('bytes'))] = ObjV(by)
        info = {}
        if arbitrary:
            cb = named(st, 'cur', 'Option<u8>')
            st.heap[ro][('f', None, RDR.index('current_byte'))] = cb
            d0 = ex.discr(st, cb).t; st.pc.append(z3.Or(d0 == 0, d0 == 1))
            c0 = ex.load(st, cb.oid, ('f', 'Some', 0), 'u8').t
            eof0 = z3.Bool('eof0'); st.heap[ro][('f', None, RDR.index('eof'))] = BoolV(eof0)
            st.pc.append(z3.Implies(eof0, d0 == 0))
            info.update(cb_some=d0 == 1, cb=c0, eof0=eof0)
            line0 = z3.BitVec('line0', 64); col0 = z3.BitVec('col0', 64)
            st.pc.append(z3.ULT(line0, 2**64 - 1 - self.n)); st.pc.append(z3.ULT(col0, 2**64 - 1 - self.n))
        else:
            st.heap[ro][('f', None, RDR.index('current_byte'))] = none(st)
            st.heap[ro][('f', None, RDR.index('eof'))] = BoolV(z3.BoolVal(False))
            info.update(cb_some=z3.BoolVal(False), cb=z3.BitVecVal(0, 8), eof0=z3.BoolVal(False))
            line0 = z3.BitVecVal(1, 64); col0 = z3.BitVecVal(1, 64)
        loc = st.new_obj('loc', 'Location')
        st.heap[loc][('f', None, LOC.index('line_number'))] = BV(line0); st.heap[loc][('f', None, LOC.index('char_number'))] = BV(col0)
        st.heap[loc][('f', None, LOC.index('input'))] = named(st, 'locname', 'Option<String>')
        st.heap[ro][('f', None, RDR.index('location'))] = ObjV(loc)
        info.update(line0=line0, col0=col0, ro=ro, loc=loc, rref=rref, by=by)
        # Fields the scenario does not know (added by an edit to Reader) get the value Reader::new gives them - in the
        # arbitrary pre-state as well: the representation invariant of the scenario speaks about the four known fields
        # only, and an unknown field left free would let the executor start from states no history reaches. That such a
        # field is the same again after every complete value (no hidden state that carries over from value to value) is
        # the obligation family tok.hidden_state.
        known = {RDR.index(x) for x in ('bytes', 'current_byte', 'location', 'eof')}
        info['unknown_fields'] = {}
        if len(RDR) > len(known):
            written = self.fields_written_by_parser()
            try:
                F = ex.find(r'^reader::<impl at [^>]*>::new$')
                s0 = State(); ex.new_frame(s0, F, [named(s0, 'R', 'R'), named(s0, 'NAME', 'Option<String>')])
                done = [d for d in ex.run(s0) if d.status == 'returned']
                if len(done) == 1:
                    r = obj(done[0], done[0].ret)
                    for i in range(len(RDR)):
                        v = done[0].heap[r.oid].get(('f', None, i))
                        if i in known or not isinstance(v, (BV, BoolV)) or cval(v.t) is None: continue
                        if i in written or not arbitrary:
                            # a field the tokenizer itself writes is *state*: it starts as in a fresh reader and must be restored
                            st.heap[ro][('f', None, i)] = v; info['unknown_fields'][i] = (RDR[i], v)
                        else:
                            # a field nothing under next_json_value writes is *configuration* set from outside (a mode switched on
                            # by the read loop): any value
                            st.heap[ro][('f', None, i)] = BoolV(z3.Bool('cfg:' + RDR[i])) if isinstance(v, BoolV) else BV(z3.BitVec('cfg:' + RDR[i], v.t.size()), v.signed)
            except Exception:
                pass
        return st, info

    # -- denotation of the implementation's value
    def denote(self, d, v):
        ex = self.ex; v = obj(d, v)
        dv = cval(ex.discr(d, v).t)
        if dv is None: return ('?symbolic-variant',)
        name = self.JV[dv]
        if name == 'Null': return ('null',)
        if name == 'Boolean':
            b = d.heap[v.oid][('f', 'Boolean', 0)]; return ('bool', cval(b.t))
        if name == 'String':
            return ('string', [b.t for b in model(d, d.heap[v.oid][('f', 'String', 0)])])
        if name == 'Number':
            nv = obj(d, d.heap[v.oid][('f', 'Number', 0)]); nd = self.NV[cval(ex.discr(d, nv).t)]
            if nd == 'Float':
                f = obj(d, d.heap[nv.oid][('f', 'Float', 0)]); return ('float', [b.t for b in d.heap[f.oid]['f64'][0]])
            p = d.heap[nv.oid][('f', nd, 0)]
            return ('int', nd, p.t, self.int_of.get(p.t.get_id()))
        if name == 'Array':
            return ('array', [self.denote(d, x) for x in model(d, d.heap[v.oid][('f', 'Array', 0)])])
        if name == 'Object':
            return ('object', [([b.t for b in model(d, k)], self.denote(d, x)) for k, x in model(d, d.heap[v.oid][('f', 'Object', 0)])])
        return ('?',)


# ---------------------------------------------------------------- the reference (symbolic, runs under a path condition)
class PC(list):
    """a path condition that remembers one of its models (so that forks the condition already decides cost one query)"""
    model = None
    def __add__(self, other):
        r = PC(list.__add__(self, other)); return r


class Ref:
    """RFC 8259 recogniser/denoter over a list of byte terms E. Forks only where the path condition does not decide."""
    def __init__(self, ex, pc):
        self.ex = ex; self.base = list(pc); self.queries = 0

    def model_of(self, pc):
        if getattr(pc, 'model', None) is not None: return pc.model
        ex = self.ex; ex.queries += 1
        ex.solver.push()
        for x in pc: ex.solver.add(x)
        r = ex.solver.check(); m = ex.solver.model() if r == z3.sat else None
        ex.solver.pop()
        if isinstance(pc, PC): pc.model = m
        return m

    def sat(self, pc, c):
        ex = self.ex
        e = z3.simplify(c)
        if z3.is_true(e): return True
        if z3.is_false(e): return False
        ex.queries += 1
        ex.solver.push()
        for x in pc: ex.solver.add(x)
        ex.solver.add(c)
        r = ex.solver.check(); ex.solver.pop()
        return r == z3.sat

    def fork(self, pc, alts):
        """alts: [(cond, tag)] mutually exclusive; yields (pc', tag) for each feasible alternative, and (pc', None) for 'none of them'"""
        if not isinstance(pc, PC): pc = PC(pc)
        m = self.model_of(pc)
        if m is not None:
            # which alternative does the known model take? if the path condition implies it, that is the only branch
            hit = None
            for c, tag in alts:
                if z3.is_true(m.eval(c, True)): hit = (c, tag); break
            guess = hit[0] if hit else z3.And(*[z3.Not(c) for c, _ in alts]) if alts else z3.BoolVal(True)
            if not self.sat(pc, z3.Not(guess)):
                child = pc + [guess]; child.model = m
                yield child, (hit[1] if hit else None); return
        rest = []
        for c, tag in alts:
            if self.sat(pc, c): yield pc + [c], tag
            rest.append(z3.Not(c))
        r = z3.And(*rest) if rest else z3.BoolVal(True)
        if self.sat(pc, r): yield pc + [r], None

    def skip_ws(self, pc, E, i):
        if i >= len(E):
            yield pc, i; return
        for p, t in self.fork(pc, [(isws(E[i]), 'ws')]):
            if t: yield from self.skip_ws(p, E, i + 1)
            else: yield p, i

    def value(self, pc, E, i, depth=0):
        """token starting at or after i (leading whitespace skipped). Yields (pc, kind, j, den):
        kind 'value' (token = E[i..j)), 'end' (only whitespace), 'garbage' (a byte that cannot start a value; j = index after it),
        'free' (not a conforming value: no requirement)"""
        for p, k in self.skip_ws(pc, E, i):
            if k >= len(E):
                yield p, 'end', k, None; continue
            b = E[k]
            alts = [(b == ord('t'), 't'), (b == ord('f'), 'f'), (b == ord('n'), 'n'), (b == ord('"'), 's'),
                    (z3.Or(b == ord('-'), isdig(b)), 'num'), (b == ord('['), 'arr'), (b == ord('{'), 'obj')]
            for p2, t in self.fork(p, alts):
                if t is None: yield p2, 'garbage', k + 1, None
                elif t in 'tfn':
                    word, den = {'t': (b'true', ('bool', 1)), 'f': (b'false', ('bool', 0)), 'n': (b'null', ('null',))}[t]
                    yield from self.word(p2, E, k, word, den)
                elif t == 's': yield from self.string(p2, E, k + 1, [])
                elif t == 'num': yield from self.number(p2, E, k)
                elif t == 'arr': yield from self.array(p2, E, k + 1, [], depth)
                elif t == 'obj': yield from self.object(p2, E, k + 1, [], depth)

    def word(self, pc, E, k, word, den):
        if k + len(word) > len(E):
            yield pc, 'free', len(E), None; return
        c = z3.And(*[E[k + j] == word[j] for j in range(1, len(word))])
        for p, t in self.fork(pc, [(c, 'ok')]):
            yield (p, 'value', k + len(word), den) if t else (p, 'free', k + 1, None)

    def string(self, pc, E, i, acc):
        """after the opening quote; acc = decoded content as byte terms"""
        if i >= len(E):
            yield pc, 'free', i, None; return
        b = E[i]
        for p, t in self.fork(pc, [(b == ord('"'), 'q'), (b == ord('\\'), 'e'), (z3.ULT(b, 0x20), 'ctl')]):
            if t == 'q':
                for p2, t2 in self.fork(p, [(utf8_valid(acc), 'ok')]):
                    yield (p2, 'value', i + 1, ('string', acc)) if t2 else (p2, 'free', i + 1, None)
            elif t == 'ctl': yield p, 'free', i + 1, None
            elif t is None: yield from self.string(p, E, i + 1, acc + [b])
            else:
                if i + 1 >= len(E):
                    yield p, 'free', i + 1, None; continue
                e = E[i + 1]
                ESC = {ord('"'): 0x22, ord('\\'): 0x5c, ord('/'): 0x2f, ord('b'): 8, ord('f'): 12, ord('n'): 10, ord('r'): 13, ord('t'): 9}
                for p2, t2 in self.fork(p, [(e == k_, v_) for k_, v_ in ESC.items()] + [(e == ord('u'), 'u')]):
                    if t2 is None: yield p2, 'free', i + 2, None
                    elif t2 == 'u': yield from self.hex4(p2, E, i + 2, 0, z3.BitVecVal(0, 32), acc)
                    else: yield from self.string(p2, E, i + 2, acc + [z3.BitVecVal(t2, 8)])

    def hex4(self, pc, E, i, j, accv, acc):
        if j == 4:
            # surrogates are excluded by the property: no requirement
            sur = z3.And(z3.UGE(accv, 0xD800), z3.ULE(accv, 0xDFFF))
            for p, t in self.fork(pc, [(sur, 'sur')]):
                if t: yield p, 'free', i, None
                else:
                    for p2, t2 in self.fork(p, [(c, bs) for c, bs in utf8_cases(accv)]):
                        if t2 is not None: yield from self.string(p2, E, i, acc + t2)
            return
        if i >= len(E):
            yield pc, 'free', i, None; return
        b = E[i]; z = z3.ZeroExt(24, b)
        alts = [(isdig(b), z - ord('0')), (z3.And(z3.UGE(b, ord('a')), z3.ULE(b, ord('f'))), z - ord('a') + 10), (z3.And(z3.UGE(b, ord('A')), z3.ULE(b, ord('F'))), z - ord('A') + 10)]
        for p, t in self.fork(pc, alts):
            if t is None: yield p, 'free', i + 1, None
            else: yield from self.hex4(p, E, i + 1, j + 1, (accv << 4) | t, acc)

    def number(self, pc, E, k):
        """-? (0 | [1-9][0-9]*) (. [0-9]+)? ([eE] [+-]? [0-9]+)? ; maximal munch.
        den = ('num', shape) with shape = [(class, byte term)], class in - d . e + m(minus of the exponent)"""
        n = len(E)
        def digits(pc, i, sh):
            if i >= n:
                yield pc, i, sh; return
            for p, t in self.fork(pc, [(isdig(E[i]), 'd')]):
                if t: yield from digits(p, i + 1, sh + [('d', E[i])])
                else: yield p, i, sh
        def after_int(pc, i, sh):
            if i < n:
                for p, t in self.fork(pc, [(E[i] == ord('.'), '.')]):
                    if t:
                        if i + 1 >= n: yield p, 'free', i + 1, None; continue
                        for p2, t2 in self.fork(p, [(isdig(E[i + 1]), 'd')]):
                            if not t2: yield p2, 'free', i + 1, None; continue
                            for p3, j, sh3 in digits(p2, i + 2, sh + [('.', E[i]), ('d', E[i + 1])]): yield from exp(p3, j, sh3)
                    else: yield from exp(p, i, sh)
            else: yield from exp(pc, i, sh)
        def exp(pc, i, sh):
            if i < n:
                for p, t in self.fork(pc, [(z3.Or(E[i] == ord('e'), E[i] == ord('E')), 'e')]):
                    if not t: yield p, 'value', i, ('num', sh); continue
                    if i + 1 >= n: yield p, 'free', i + 1, None; continue
                    for p2, t2 in self.fork(p, [(E[i + 1] == ord('+'), '+'), (E[i + 1] == ord('-'), 'm')]):
                        d0 = i + 2 if t2 else i + 1
                        sh2 = sh + [('e', E[i])] + ([(t2, E[i + 1])] if t2 else [])
                        if d0 >= n: yield p2, 'free', d0, None; continue
                        for p3, t3 in self.fork(p2, [(isdig(E[d0]), 'd')]):
                            if not t3: yield p3, 'free', d0, None; continue
                            for p4, j, sh4 in digits(p3, d0 + 1, sh2 + [('d', E[d0])]): yield p4, 'value', j, ('num', sh4)
            else: yield pc, 'value', i, ('num', sh)
        for p, t in self.fork(pc, [(E[k] == ord('-'), '-')]):
            i = k + 1 if t else k
            sh = [('-', E[k])] if t else []
            if i >= n: yield p, 'free', i, None; continue
            for p2, t2 in self.fork(p, [(E[i] == ord('0'), '0'), (z3.And(z3.UGE(E[i], ord('1')), z3.ULE(E[i], ord('9'))), 'nz')]):
                if t2 is None: yield p2, 'free', i, None
                elif t2 == '0':
                    if i + 1 < n:
                        for p3, t3 in self.fork(p2, [(isdig(E[i + 1]), 'd')]):
                            if t3: yield p3, 'free', i + 1, None          # leading zero followed by a digit: not conforming
                            else: yield from after_int(p3, i + 1, sh + [('d', E[i])])
                    else: yield from after_int(p2, i + 1, sh + [('d', E[i])])
                else:
                    for p3, j, sh3 in digits(p2, i + 1, sh + [('d', E[i])]): yield from after_int(p3, j, sh3)

    def array(self, pc, E, i, acc, depth):
        for p, k in self.skip_ws(pc, E, i):
            if k >= len(E): yield p, 'free', k, None; continue
            if not acc:
                for p2, t in self.fork(p, [(E[k] == ord(']'), 'close')]):
                    if t: yield p2, 'value', k + 1, ('array', [])
                    else: yield from self.array_elem(p2, E, k, acc, depth)
            else:
                yield from self.array_elem(p, E, k, acc, depth)

    def array_elem(self, pc, E, k, acc, depth):
        for p, kind, j, den in self.value(pc, E, k, depth + 1):
            if kind != 'value': yield p, 'free', j, None; continue
            for p2, m in self.skip_ws(p, E, j):
                if m >= len(E): yield p2, 'free', m, None; continue
                for p3, t in self.fork(p2, [(E[m] == ord(']'), 'close'), (E[m] == ord(','), 'comma')]):
                    if t == 'close': yield p3, 'value', m + 1, ('array', acc + [den])
                    elif t == 'comma':
                        for p4, m2 in self.skip_ws(p3, E, m + 1):
                            if m2 >= len(E): yield p4, 'free', m2, None
                            else: yield from self.array_elem(p4, E, m2, acc + [den], depth)
                    else: yield p3, 'free', m, None

    def object(self, pc, E, i, acc, depth):
        for p, k in self.skip_ws(pc, E, i):
            if k >= len(E): yield p, 'free', k, None; continue
            if not acc:
                for p2, t in self.fork(p, [(E[k] == ord('}'), 'close')]):
                    if t: yield p2, 'value', k + 1, ('object', [])
                    else: yield from self.member(p2, E, k, acc, depth)
            else:
                yield from self.member(p, E, k, acc, depth)

    def member(self, pc, E, k, acc, depth):
        for p0, t0 in self.fork(pc, [(E[k] == ord('"'), 'q')]):
            if not t0: yield p0, 'free', k, None; continue
            for p, kind, j, den in self.string(p0, E, k + 1, []):
                if kind != 'value': yield p, 'free', j, None; continue
                for p2, m in self.skip_ws(p, E, j):
                    if m >= len(E): yield p2, 'free', m, None; continue
                    for p3, t in self.fork(p2, [(E[m] == ord(':'), 'colon')]):
                        if not t: yield p3, 'free', m, None; continue
                        for p4, kind2, j2, den2 in self.value(p3, E, m + 1, depth + 1):
                            if kind2 != 'value': yield p4, 'free', j2, None; continue
                            for p5, m2 in self.skip_ws(p4, E, j2):
                                if m2 >= len(E): yield p5, 'free', m2, None; continue
                                for p6, t6 in self.fork(p5, [(E[m2] == ord('}'), 'close'), (E[m2] == ord(','), 'comma')]):
                                    if t6 == 'close': yield p6, 'value', m2 + 1, ('object', acc + [(den[1], den2)])
                                    elif t6 == 'comma':
                                        for p7, m3 in self.skip_ws(p6, E, m2 + 1):
                                            if m3 >= len(E): yield p7, 'free', m3, None
                                            else: yield from self.member(p7, E, m3, acc + [(den[1], den2)], depth)
                                    else: yield p6, 'free', m2, None


def den_equal(ref, impl):
    """-> z3 formula (or python bool) that the implementation's denotation equals the reference's"""
    if ref[0] == 'null': return impl[0] == 'null'
    if ref[0] == 'bool': return impl[0] == 'bool' and impl[1] == ref[1]
    if ref[0] == 'string':
        if impl[0] != 'string' or len(impl[1]) != len(ref[1]): return False
        return z3.And(*[a == b for a, b in zip(impl[1], ref[1])]) if ref[1] else True
    if ref[0] == 'array':
        if impl[0] != 'array' or len(impl[1]) != len(ref[1]): return False
        parts = [den_equal(r, i) for r, i in zip(ref[1], impl[1])]
        return False if any(p is False for p in parts) else z3.And(*[p for p in parts if p is not True]) if any(p is not True for p in parts) else True
    if ref[0] == 'object':
        if impl[0] != 'object' or len(impl[1]) != len(ref[1]): return False
        parts = []
        for (rk, rv), (ik, iv) in zip(ref[1], impl[1]):
            parts.append(den_equal(('string', rk), ('string', ik))); parts.append(den_equal(rv, iv))
        return False if any(p is False for p in parts) else z3.And(*[p for p in parts if p is not True]) if any(p is not True for p in parts) else True
    if ref[0] == 'num':
        return num_equal(ref[1], impl)
    return False


def num_equal(shape, impl):
    """Integer tokens in [-2^63, 2^64) must be exact Positive/Negative integers; every other number must reach
    parse::<f64> as the token with e->E and '+' dropped (value preserving for Rust's f64 parser - trusted)."""
    classes = [c for c, _ in shape]
    isint = not any(c in '.e' for c in classes)
    norm = []
    for c, t in shape:
        if c == '+': continue
        norm.append(z3.BitVecVal(0x45, 8) if c == 'e' else t)
    def float_ok():
        if impl[0] != 'float' or len(impl[1]) != len(norm): return False
        return z3.And(*[a == b for a, b in zip(impl[1], norm)])
    if not isint:
        return float_ok()
    neg = classes[0] == '-'
    v = z3.IntVal(0)
    for c, t in shape:
        if c == 'd': v = v * 10 + z3.BV2Int(t - ord('0'))
    if neg: v = -v
    inrange = z3.And(v >= -(2**63), v < 2**64)
    if impl[0] == 'int':
        if impl[3] is not None:          # the exact integer std's parse produced (tracked through the summary)
            iv = impl[3]
        elif impl[1] == 'Positive':
            iv = z3.BV2Int(impl[2])
        else:
            iv = z3.If(impl[2] < 0, z3.BV2Int(impl[2]) - 2**64, z3.BV2Int(impl[2]))
        return z3.And(inrange, z3.BoolVal(neg == (impl[1] != 'Positive')), iv == v)
    fo = float_ok()
    if fo is False: return False
    return z3.And(z3.Not(inrange), fo)


# ---------------------------------------------------------------- driver
FIRST_CLASSES = [
    ('sp', lambda b: b == 0x20), ('lf', lambda b: b == 0x0a), ('tab', lambda b: b == 0x09), ('cr', lambda b: b == 0x0d), ('t', lambda b: b == ord('t')), ('f', lambda b: b == ord('f')), ('n', lambda b: b == ord('n')),
    ('quote', lambda b: b == ord('"')), ('minus', lambda b: b == ord('-')), ('zero', lambda b: b == ord('0')),
    ('nonzero', lambda b: z3.And(z3.UGE(b, ord('1')), z3.ULE(b, ord('9')))), ('lbracket', lambda b: b == ord('[')), ('lbrace', lambda b: b == ord('{')),
    ('other', lambda b: z3.And(z3.Not(isws(b)), z3.Not(inset(b, [ord(c) for c in 'tfn"-[{0123456789'])))),
]

DESC = {
    'tok.value': 'a conforming value at the head of the remaining input is returned with its exact denotation (structure, member order, string bytes, exact integers on [-2^63,2^64), digit string handed to parse::<f64> otherwise)',
    'tok.consumed': 'the call consumes exactly the value text (or the garbage byte, or the trailing whitespace) plus one byte of look-ahead, which is left in current_byte',
    'tok.end': 'whitespace-only remaining input gives Ok(None)',
    'tok.garbage': 'a byte that cannot start a value gives a recoverable error having consumed exactly that byte (so the next call sees what follows)',
    'tok.progress': 'every call that returns an error has consumed at least one byte (the read loop cannot spin); no path exceeds the input',
    'tok.nopanic': 'no panic path (overflow, unwrap, slicing) is reachable in the tokenizer',
    'tok.no_io_error': 'without a read failure the tokenizer never reports IoError',
    'tok.io_error': 'a read failure at any position is returned as the unrecoverable IoError - never end of input, never a recoverable error - and the reader does not mark end of input',
    'tok.hidden_state': 'a Reader field beyond the four the scenario knows (added by an edit) has, after every complete value, the value it had before the call: no state carries over from value to value (candidates are confirmed by feeding the value 300 / 3000 times)',
    'tok.location': 'line/column after the call = fold of (LF -> line+1, column 1; other -> column+1) over exactly the bytes pulled from the reader',
}


def _task(args):
    ctx, n, variant, part, classes, want, fail_at = args
    t_task = time.time()
    sc = ParserScenario(ctx, n, fail_at=fail_at)
    ex = sc.ex
    F = ex.find(r'^json_parser::<impl at [^>]*>::next_json_value$')
    st, info = sc.initial(arbitrary=variant != 'fresh')
    cb_some = variant == 'cb'
    if variant == 'cb': st.pc += [info['cb_some'], z3.Not(info['eof0'])]
    elif variant == 'nocb': st.pc += [z3.Not(info['cb_some']), z3.Not(info['eof0'])]
    elif variant == 'eof': st.pc += [z3.Not(info['cb_some']), info['eof0']]
    E = ([info['cb']] if cb_some else []) + ([] if variant == 'eof' else sc.INPUT)
    for i, cls in enumerate(classes or []):
        if cls is not None and i < len(E):
            st.pc.append(inset(E[i], cls))
    for i, pname in enumerate(part):
        if i < len(E):
            st.pc.append(dict(FIRST_CLASSES)[pname](E[i]))
    res = {'paths': 0, 'fam': {}, 'cands': [], 'samples': []}
    if not ex.feasible(st):
        res.update(queries=ex.queries, solver_s=ex.solver_s, unhandled={}, summaries=[], bodies=[]); return res
    def fam(name): return res['fam'].setdefault(name, {'obl': 0, 'ok': 0, 'wit': 0})
    def cand(family, role, text, m, d, extra=None):
        bs = bytes(m.eval(b, True).as_long() for b in E) if m is not None else b''
        res['cands'].append({'family': family, 'role': role, 'text': text + f' on input {bs!r}', 'model': dict({'input_hex': bs.hex(), 'variant': variant, 'fail_at': fail_at}, **(extra or {})),
                             'unmodelled': (d.havoc or [None])[0]})
    ex.new_frame(st, F, [info['rref']])
    done = ex.run(st) + sc.extra
    RDR = ctx.structs['Reader']; LOC = ctx.structs['Location']
    IO = sc.JPE.index('IoError')
    for d in done:
        if d.status == 'infeasible': continue
        res['paths'] += 1
        reads = sum(1 for e in d.events if e[0] == 'read')
        failed_read = any(e[0] == 'read_fail' for e in d.events)
        if d.status == 'panic':
            if 'tok.nopanic' in want:
                f = fam('tok.nopanic'); f['obl'] += 1
                ok_, m = ex.valid(d, z3.BoolVal(False))
                cand('tok.nopanic', 'panic:' + report_slug(d.notes[-1] if d.notes else ''), f'tokenizer panics ({d.notes[-1] if d.notes else ""})', m, d)
            continue
        if d.status == 'bound':
            f = fam('tok.progress'); f['obl'] += 1
            ok_, m = ex.valid(d, z3.BoolVal(False))
            cand('tok.progress', 'loop-bound', 'a loop in the tokenizer runs longer than the input allows', m, d); continue
        if d.status != 'returned':
            cand('tok.progress', 'path-' + d.status, f'path ends as {d.status}', None, d); continue
        r = obj(d, d.ret); rd = cval(ex.discr(d, r).t)
        if rd is None:
            cand('tok.value', 'symbolic-result', 'result discriminant is symbolic', None, d); continue
        kind = None; implden = None; ed = None
        if rd == 0:
            o = obj(d, d.heap[r.oid][('f', 'Ok', 0)]); od = cval(ex.discr(d, o).t)
            kind = 'end' if od == 0 else 'value'
            if kind == 'value':
                try:
                    implden = sc.denote(d, d.heap[o.oid][('f', 'Some', 0)])
                except (KeyError, AttributeError, TypeError, IndexError) as exc_:
                    # the value was built through code the scenario cannot read back (a helper that assembles the number elsewhere): undecided
                    # here, settled by the native replay (the model's bytes and the number battery)
                    ok_, m_ = ex.valid(d, z3.BoolVal(False))
                    if not d.havoc: d.havoc.append('value construction the scenario cannot read back')
                    cand('tok.value', 'value-unreadable', f'the value returned cannot be read back by the scenario ({type(exc_).__name__})', m_, d); continue
        else:
            e_ = obj(d, d.heap[r.oid][('f', 'Err', 0)]); ed = cval(ex.discr(d, e_).t); kind = 'error'
        ro = info['ro']
        cur = obj(d, d.heap[ro][('f', None, RDR.index('current_byte'))]); curd = ex.discr(d, cur).t
        eof_post = d.heap[ro][('f', None, RDR.index('eof'))].t
        curb = ex.load(d, cur.oid, ('f', 'Some', 0), 'u8').t
        nE = len(E); cbn = 1 if cb_some else 0
        # ---- read failure scenario (C16)
        if fail_at is not None:
            if failed_read:
                f = fam('tok.io_error'); f['obl'] += 1; f['wit'] += 1
                good = kind == 'error' and ed == IO and ex.valid(d, z3.Not(eof_post))[0]
                if good: f['ok'] += 1
                else:
                    ok_, m = ex.valid(d, z3.BoolVal(False))
                    cand('tok.io_error', 'io-error-mistaken', f'a read failure at offset {fail_at} gives {kind}' + (f' ({sc.JPE[ed]})' if ed is not None else ''), m, d)
            continue
        # ---- no IoError without failure
        if 'tok.no_io_error' in want:
            f = fam('tok.no_io_error'); f['obl'] += 1; f['wit'] += 1
            if kind == 'error' and ed == IO:
                ok_, m = ex.valid(d, z3.BoolVal(False)); cand('tok.no_io_error', 'spurious-io-error', 'IoError without a read failure', m, d)
            else: f['ok'] += 1
        # ---- location
        if 'tok.location' in want and variant != 'eof':
            f = fam('tok.location'); f['obl'] += 1; f['wit'] += 1
            line, col = info['line0'], info['col0']
            for i in range(reads):
                b = sc.INPUT[i]
                line, col = z3.If(b == 10, line + 1, line), z3.If(b == 10, z3.BitVecVal(1, 64), col + 1)
            locp = obj(d, d.heap[ro][('f', None, RDR.index('location'))])
            l2 = d.heap[locp.oid][('f', None, LOC.index('line_number'))].t; c2 = d.heap[locp.oid][('f', None, LOC.index('char_number'))].t
            ok_, m = ex.valid(d, z3.And(l2 == line, c2 == col))
            if ok_: f['ok'] += 1
            else: cand('tok.location', 'location-wrong', f'location after the call is {m.eval(l2, True)}:{m.eval(c2, True)}, expected {m.eval(line, True)}:{m.eval(col, True)} from {m.eval(info["line0"], True)}:{m.eval(info["col0"], True)}', m, d)
        # ---- progress
        if 'tok.progress' in want:
            f = fam('tok.progress'); f['obl'] += 1; f['wit'] += 1
            pos = cbn + reads      # bytes of E taken from the stream, incl. the look-ahead
            if kind == 'error':
                consumed = z3.If(curd == 1, z3.BitVecVal(pos - 1, 64), z3.BitVecVal(pos, 64))
                ok_, m = ex.valid(d, z3.UGE(consumed, 1))
                if ok_: f['ok'] += 1
                else: cand('tok.progress', 'error-without-progress', 'an error is returned without consuming a byte', m, d)
            else: f['ok'] += 1
        # ---- no hidden state: a Reader field the scenario does not know is, after a complete value, what it was before
        if info.get('unknown_fields') and (kind == 'value' or (kind == 'error' and ed != IO)) and ('tok.value' in want or 'tok.consumed' in want or 'tok.garbage' in want):
            f = fam('tok.hidden_state'); f['obl'] += 1; f['wit'] += 1
            diff = []
            for i_, (fname, v0) in info['unknown_fields'].items():
                v1 = d.heap[ro].get(('f', None, i_))
                if v1 is None or not hasattr(v1, 't'): continue
                ok_, m = ex.valid(d, v1.t == v0.t)
                if not ok_: diff.append((fname, m))
            if not diff: f['ok'] += 1
            else: cand('tok.hidden_state', 'hidden-state:' + diff[0][0] + (':after-error' if kind == 'error' else ''), f'after a {"complete value" if kind == "value" else "recoverable error"} the reader field `{diff[0][0]}` differs from its value before the call (state that carries over to the following values)', diff[0][1], d, {'consumed': cbn + reads, 'after': kind})
        # ---- reference
        ref = Ref(ex, d.pc)
        for p, rkind, j, rden in ref.value(PC(d.pc), E, 0):
            exp_reads = min(j + 1, nE) - cbn if rkind != 'end' else nE - cbn
            post_ok = z3.And(curd == 1, curb == E[j]) if j < nE else z3.And(curd == 0)
            def model_of(extra=None):
                ex.solver.push(); [ex.solver.add(x) for x in p]
                if extra is not None: ex.solver.add(extra)
                r_ = ex.solver.check(); m_ = ex.solver.model() if r_ == z3.sat else None; ex.solver.pop(); ex.queries += 1
                return m_
            def holds(prop):
                ex.solver.push(); [ex.solver.add(x) for x in p]; ex.solver.add(z3.Not(prop))
                r_ = ex.solver.check(); m_ = ex.solver.model() if r_ == z3.sat else None; ex.solver.pop(); ex.queries += 1
                return r_ == z3.unsat, m_
            if rkind == 'value':
                f = fam('tok.value'); f['obl'] += 1; f['wit'] += 1
                if kind != 'value':
                    # a conforming number whose f64 parse is summarised as failing/non-finite: outside the claim when the digit string is right
                    pf = [e for e in d.events if e[0] == 'parse_f64']
                    if kind == 'error' and pf and pf[-1][2] in ('err', 'infinite') and rden[0] == 'num':
                        eq = num_equal(rden[1], ('float', [b.t for b in pf[-1][1]]))
                        if eq is not False and holds(eq)[0]:
                            f['ok'] += 1; continue
                    if kind == 'error' and pf and pf[-1][2] in ('err', 'infinite') and rden[0] in ('array', 'object') and ed is not None and sc.JPE[ed] in ('NumberParseFloatError', 'NumberParseInfiniteNumber'):
                        f['ok'] += 1; continue       # a number inside a container whose f64 parse is summarised as failing: same exclusion as at top level
                    cand('tok.value', f'value-rejected:{rden[0]}', f'a conforming {rden[0]} token is answered with {kind}' + (f' ({sc.JPE[ed]})' if ed is not None else ''), model_of(), d)
                    continue
                eq = den_equal(rden, implden)
                if eq is True: okv, m = True, None
                elif eq is False: okv, m = False, model_of()
                else: okv, m = holds(eq)
                if okv:
                    f['ok'] += 1
                    if len(res['samples']) < 2 and rden[0] in ('array', 'string', 'num'):
                        m_ = model_of()
                        res['samples'].append({'input': repr(bytes(m_.eval(b, True).as_long() for b in E)), 'reference': rden[0], 'token_end': j, 'verdict': 'denotations equal for every input on this path'})
                else:
                    cand('tok.value', f'value-differs:{rden[0]}', f'the value returned for a conforming {rden[0]} token differs from its denotation', m, d)
                    continue
                if 'tok.consumed' in want:
                    f = fam('tok.consumed'); f['obl'] += 1; f['wit'] += 1
                    okc, m = holds(post_ok) if reads == exp_reads else (False, model_of())
                    if okc: f['ok'] += 1
                    else: cand('tok.consumed', 'lookahead-wrong:' + rden[0], f'after a {rden[0]} token of {j} bytes the reader has pulled {reads} bytes (expected {exp_reads}) / wrong look-ahead', m, d)
            elif rkind == 'end':
                f = fam('tok.end'); f['obl'] += 1; f['wit'] += 1
                if kind == 'end' and reads == exp_reads: f['ok'] += 1
                else: cand('tok.end', 'end-wrong', f'whitespace-only input gives {kind} after {reads} reads', model_of(), d)
            elif rkind == 'garbage':
                f = fam('tok.garbage'); f['obl'] += 1; f['wit'] += 1
                good = kind == 'error' and ed != IO and reads == exp_reads
                if good:
                    okc, m = holds(post_ok)
                    if okc: f['ok'] += 1
                    else: cand('tok.garbage', 'garbage-lookahead', 'after a garbage byte the look-ahead is wrong', m, d)
                else:
                    cand('tok.garbage', 'garbage-not-one-byte', f'a byte that cannot start a value gives {kind} having pulled {reads} bytes (expected {exp_reads})', model_of(), d)
    res.update(queries=ex.queries, solver_s=ex.solver_s, unhandled=dict(ex.unhandled), summaries=list(ex.used_summaries), bodies=list(ex.used_bodies))
    res['task'] = (variant, part, round(time.time() - t_task, 1), res['paths'])
    return res


def report_slug(s):
    return re.sub(r'[^a-z0-9]+', '-', s.lower())[:40].strip('-')


def tokenizer(ctx, n, want, label, classes=None, variants=('cb', 'nocb', 'eof'), partition=2, fail_positions=None, multi=None):
    """one next_json_value call on n free bytes (optionally class-restricted per position of the effective input)"""
    run = ctx.run
    if not hasattr(ctx, '_reader_known'): ctx._reader_known = reader_delivery(ctx)
    if not ctx._reader_known:
        run.notes.append(f'tokenizer scenario `{label}` not run: the Reader is outside its model (see tok.delivery)'); return
    tasks = []
    names = [c[0] for c in FIRST_CLASSES]
    configs = multi if multi is not None else [(n, classes)]
    for n, classes in configs:
      for v in variants:
        if v == 'eof':
            tasks.append((ctx, n, v, (), classes, want, None)); continue
        depth = min(partition, n + (1 if v == 'cb' else 0))
        for part in itertools.product(names, repeat=depth):
            tasks.append((ctx, n, v, part, classes, want, None))
    for fp in (fail_positions or []):
        for v in ('cb', 'nocb'):
            for part in itertools.product(names, repeat=1):
                tasks.append((ctx, n, v, part, classes, ['tok.io_error'], fp))
    ctx.rng.shuffle(tasks)
    heavy = {'sp': 3, 'lf': 3, 'tab': 3, 'cr': 3, 'lbracket': 2, 'lbrace': 2, 'minus': 1, 'zero': 1, 'nonzero': 1}
    tasks.sort(key=lambda t: -sum(heavy.get(x, 0) for x in t[3]) - (1 if t[2] == 'cb' else 0))
    results = pmap(_task, tasks)
    cands = []
    if os.environ.get('VERIF_DEBUG'):
        for t in sorted((r.get('task') for r in results if r.get('task')), key=lambda t: -t[2])[:12]: print('task', t)
    for r in results:
        run.paths += r['paths']; run.queries += r['queries']; run.solver_s += r['solver_s']
        for k, v in r['unhandled'].items(): run.unmodelled[k] += v
        for s in r['summaries']: run.summaries[s] = True
        for b in r['bodies']: run.functions[b] = True
        for name, c in r['fam'].items():
            if name not in want and name not in ('tok.io_error', 'tok.hidden_state'): continue
            f = run.family(name, DESC[name]); f.obligations += c['obl']; f.discharged += c['ok']; f.witnesses += c['wit']; f.paths += c['obl']
            f.bounds = (f.bounds + '; ' if f.bounds else '') + label if label not in f.bounds else f.bounds
        for s in r['samples']:
            if 'tok.value' in want: run.family('tok.value', DESC['tok.value']).add_sample(s)
        for c in r['cands']:
            if c['family'] in want or c['family'] in ('tok.io_error', 'tok.hidden_state'):
                cands.append(Candidate(c['family'], c['role'], c['text'], c['model'], unmodelled=c['unmodelled']))
    for name in ('tok.nopanic',):
        if name in want:
            f = run.family(name, DESC[name]); f.need_witness = False
            if not any(c.family == name for c in cands): f.obligations += 1; f.discharged += 1
    seen = {}
    for c in cands:
        f = run.family(c.family, DESC[c.family])
        if (c.family, c.role) in seen: continue
        if any(x.role == c.role for x in f.candidates): continue
        seen[(c.family, c.role)] = c; f.candidates.append(c)
    replay_tokenizer(ctx, list(seen.values()))


# ---------------------------------------------------------------- replay: the model's bytes through the real binary
def concrete_reference(data):
    """run the same reference on concrete bytes -> list of expected values (python), stopping at the first non-conforming token"""
    ex = Exec({}); E = [z3.BitVecVal(b, 8) for b in data]
    ref = Ref(ex, [])
    out = []; i = 0; complete = True
    for _ in range(len(data) + 2):
        rs = list(ref.value([], E, i))
        if len(rs) != 1: complete = False; break
        p, kind, j, den = rs[0]
        if kind == 'end': break
        if kind == 'garbage': out.append(('garbage', None)); i = j; continue
        if kind == 'free': complete = False; break
        out.append(('value', den_to_py(den))); i = j
    return out, complete


def den_to_py(den):
    if den[0] == 'null': return None
    if den[0] == 'bool': return bool(den[1])
    if den[0] == 'string': return bytes(cval(b) for b in den[1]).decode('utf-8')
    if den[0] == 'array': return [den_to_py(x) for x in den[1]]
    if den[0] == 'object': return {bytes(cval(b) for b in k).decode('utf-8'): den_to_py(v) for k, v in den[1]}
    if den[0] == 'num':
        txt = bytes(cval(t) for _, t in den[1]).decode()
        if not any(c in txt for c in '.eE'):
            v = int(txt)
            if -(2**63) <= v < 2**64: return v
        return float(txt)
    raise ValueError(den)


def replay_hidden_state(ctx, c):
    """a field that changes over a complete value is only a defect when the change accumulates into different behaviour:
    the model's value text repeated many times must give that many equal rows"""
    from .cli import run_driver, show
    data = bytes.fromhex(c.model.get('input_hex', ''))
    if c.model.get('after') == 'error':
        # out(T^n . B) = out(T)^n . out(B): the malformed text repeated, then healthy values
        tail = b' {"a":[1,{"b":2}]} [3] "s"'
        for unit in (data.strip() or b'[1', b'{"id":7,"tags":["cut"', b'[1 2]'):
            r1 = run_driver(ctx, ['--style', 'consise'], unit + b'\n'); rt = run_driver(ctx, ['--style', 'consise'], tail)
            for reps in (200, 2000):
                r = run_driver(ctx, ['--style', 'consise'], (unit + b'\n') * reps + tail, timeout=60)
                exp_out = r1['stdout'] * reps + rt['stdout']
                if r['stdout'] != exp_out or r['result'] != 'ok':
                    c.status = 'reproduced'; c.unmodelled = None
                    c.replay = {'stdin': f'{unit!r} on a line of its own, {reps} times, then {tail!r}', 'expected_rows': len(show(exp_out).splitlines()), 'actual_rows': len(show(r['stdout']).splitlines()), 'last_rows': show(r['stdout']).splitlines()[-3:], 'result': r['result']}
                    return
        c.status = 'inconclusive'; c.unmodelled = 'a reader field changes over a malformed value, but 2000 repetitions leave the following values intact (reset elsewhere, or a statistic)'
        return
    exp, complete = concrete_reference(data)
    vals = [v for k, v in exp if k == 'value']
    if not vals: c.status = 'inconclusive'; c.unmodelled = 'no conforming value in the model input'; return
    # the text of the first value: cut the input where the reference ends it
    ex = Exec({}); ref = Ref(ex, []); E = [z3.BitVecVal(b, 8) for b in data]
    rs = list(ref.value([], E, 0)); j = rs[0][2] if len(rs) == 1 else len(data)
    tok = data[:j].strip() or data.strip()
    c.status = 'inconclusive'; c.unmodelled = 'a reader field changes over a value, but 3000 repetitions of the value behave like one (a statistic, not state)'
    for reps in (300, 3000):
        for sep in (b' ', b'\n', b''):
            if sep == b'' and not tok.startswith((b'{', b'[', b'"')): continue
            stream = sep.join([tok] * reps)
            r = run_driver(ctx, ['--style', 'consise', '--on-error', 'stderr'], stream, timeout=60)
            rows = show(r['stdout']).splitlines()
            first = rows[0] if rows else None
            if len(rows) != reps or any(x != first for x in rows) or r['stderr'] or str(r['result']).startswith(('err', 'panic', 'crash', 'timeout')):
                c.status = 'reproduced'; c.unmodelled = None
                c.replay = {'stdin': f'{tok!r} repeated {reps} times separated by {sep!r}', 'expected_rows': reps, 'actual_rows': len(rows), 'first_differing_row': next((i for i, x in enumerate(rows) if x != first), None),
                            'result': r['result'], 'stderr': show(r['stderr'])[:200]}
                return


def replay_tokenizer(ctx, cands):
    from .cli import run_driver, show
    for c in cands:
        if c.family == 'tok.hidden_state':
            replay_hidden_state(ctx, c); continue
        data = bytes.fromhex(c.model.get('input_hex', ''))
        env = {}
        if c.model.get('fail_at') is not None:
            env['FAIL_READ_AT'] = str(c.model['fail_at'] + (1 if c.model.get('variant') == 'cb' else 0))
        exp, complete = concrete_reference(data)
        r = run_driver(ctx, ['--style', 'consise', '--on-error', 'stderr'], data, env=env)
        rows = show(r['stdout']).splitlines()
        got = []
        for ln in rows:
            try: got.append(json.loads(ln))
            except Exception: got.append('unparsable:' + ln)
        expv = [v for k, v in exp if k == 'value']
        bad = False
        if r['result'] in ('panic', 'timeout') or str(r['result']).startswith('crash'): bad = True
        if env:
            bad = bad or not str(r['result']).startswith('err')
            bad = bad or got[:len(expv)] != expv[:len(got)]
        else:
            bad = bad or got[:len(expv)] != expv or (complete and got != expv) or str(r['result']).startswith('err')
            n_garbage = sum(1 for k, _ in exp if k == 'garbage')
            if complete and n_garbage and not show(r['stderr']).startswith('error:'): bad = True
            if complete and not n_garbage and r['stderr']: bad = True
        c.replay = {'stdin_bytes': repr(data), 'env': env, 'expected_values': expv, 'expected_complete': complete, 'actual_rows': got, 'result': r['result'], 'stderr': show(r['stderr'])[:200]}
        if not bad and not env and c.family in ('tok.garbage', 'tok.consumed', 'tok.end', 'tok.value'):
            # a wrong look-ahead / byte count shows in what follows: let clean values follow the model's bytes
            for suffix in (b' 7 8', b'7 8', b' "x" [1]', b'\n7'):
                ext = data + suffix
                exp2, comp2 = concrete_reference(ext)
                if not comp2: continue
                r2 = run_driver(ctx, ['--style', 'consise', '--on-error', 'stderr'], ext)
                got2 = []
                for ln in show(r2['stdout']).splitlines():
                    try: got2.append(json.loads(ln))
                    except Exception: got2.append('unparsable:' + ln)
                expv2 = [v for k, v in exp2 if k == 'value']
                if got2 != expv2 or str(r2['result']).startswith(('err', 'panic')):
                    bad = True; c.replay = {'stdin_bytes': repr(ext), 'expected_values': expv2, 'actual_rows': got2, 'result': r2['result']}; break
        if not bad and c.unmodelled and not env:
            # the path went through arithmetic the executor does not interpret (a hand-written digit loop, float code): number spellings
            # whose correctly rounded double is known, against the real binary
            NUMS = ['10000000000000000000000000', '602214076000000000000000', '1' + '0' * 30, '1' + '0' * 40, '9' * 25, '123456789012345678901234567890', '18446744073709551616', '-9223372036854775809',
                    '-18446744073709551615', '-18446744073709551616', '1e25', '6.02214076e23', '1E400', '0.1', '-0', '-', '- 5', '1.', '.5', '01', '1e', '2.5e-300', '4.9e-324', '1.7976931348623157e308']
            for t in NUMS:
                r3 = run_driver(ctx, ['--style', 'consise', '--on-error', 'stderr'], t.encode() + b' 7')
                rows3 = show(r3['stdout']).splitlines()
                exp3, comp3 = concrete_reference(t.encode() + b' 7')
                want = [v for k, v in exp3 if k == 'value']
                try: got3 = [json.loads(x) for x in rows3]
                except Exception: got3 = rows3
                def close(a, b): return a == b or (isinstance(a, (int, float)) and isinstance(b, (int, float)) and not isinstance(a, bool) and not isinstance(b, bool) and float(a) == float(b))
                if comp3 and (len(got3) != len(want) or not all(close(a, b) for a, b in zip(got3, want))) and not any(isinstance(w, float) and w in (float('inf'), float('-inf')) for w in want):
                    bad = True; c.replay = {'stdin_bytes': repr(t + ' 7'), 'expected_values': want, 'actual_rows': got3, 'result': r3['result']}; c.unmodelled = None; break
        if not bad and c.unmodelled and not env:
            # a sign without digits is not a number: one error, and what follows is read as it stands
            for t, want in (('- 7', [7]), ('- 5 7', [5, 7]), ('-\t5', [5]), ('[1, -, 3] 7', [3, 7])):
                r4 = run_driver(ctx, ['--style', 'consise', '--on-error', 'stderr'], t.encode())
                try: got4 = [json.loads(x) for x in show(r4['stdout']).splitlines()]
                except Exception: got4 = show(r4['stdout'])
                if got4 != want or 'error:' not in show(r4['stderr']):
                    bad = True; c.replay = {'stdin_bytes': repr(t), 'expected_values': want, 'actual_rows': got4, 'stderr': show(r4['stderr'])[:120]}; c.unmodelled = None; break
        c.status = 'reproduced' if bad else ('unit' if c.family in ('tok.consumed', 'tok.location', 'tok.progress', 'tok.garbage', 'tok.end', 'tok.io_error') else 'not-reproduced')


# ---------------------------------------------------------------- translator self-check (DESIGN 2.4)
def rust_unescape(s):
    out = bytearray(); i = 0
    while i < len(s):
        c = s[i]
        if c == '\\':
            n = s[i + 1]
            if n == 'n': out.append(10); i += 2
            elif n == 't': out.append(9); i += 2
            elif n == 'r': out.append(13); i += 2
            elif n == '0': out.append(0); i += 2
            elif n == 'x': out.append(int(s[i + 2:i + 4], 16)); i += 4
            elif n == 'u':
                j = s.index('}', i); out += chr(int(s[i + 3:j], 16)).encode('utf-8'); i = j + 1
            else: out += n.encode('utf-8'); i += 2
        else:
            out += c.encode('utf-8'); i += 1
    return bytes(out)


def test_literals(ctx):
    """the input literals of the repository's own json_parser unit tests"""
    src = open(os.path.join(ctx.tree.src, 'src', 'json_parser.rs')).read()
    k = src.find('mod tests')
    lits = []
    for m in re.finditer(r'let (?:str|text|source) = "((?:[^"\\]|\\.)*)"\s*\.\s*(?:to_string|into)\(\)', src[k:] if k > 0 else src):
        b = rust_unescape(m.group(1))
        if b not in lits and len(b) <= 48: lits.append(b)
    extra = [b'1 2 3', b'[1, {"a": [true, null]}, "x"] -12 1.5e3', b'{"k":"v","n":[1,2]} x } 7', b'"\\u00e9\\n\\\\" 18446744073709551615 -9223372036854775808 18446744073709551616',
             b'tru 1', b'[1,,2] 3', b'"abc', b'1E2 0e0 -0', b'\xff 1 "\xc3\xa9"']
    return lits + extra


def _selfcheck_one(args):
    ctx, data = args
    import math
    sc = ParserScenario(ctx, len(data)); ex = sc.ex
    sc.INPUT = [z3.BitVecVal(b, 8) for b in data]
    F = ex.find(r'^json_parser::<impl at [^>]*>::next_json_value$')
    st, info = sc.initial(arbitrary=False)
    seq = []
    for _ in range(len(data) + 2):
        st.status = 'running'; ex.new_frame(st, F, [info['rref']])
        outs = [d for d in ex.run(st) + sc.extra if d.status != 'infeasible']; sc.extra.clear()
        pick = None
        for d in outs:
            pf = [e for e in d.events if e[0] == 'parse_f64']
            okp = True
            for e in pf[len([x for x in st.events if x[0] == 'parse_f64']):] if False else pf:
                txt = bytes(cval(b.t) for b in e[1]).decode('latin-1')
                try:
                    f = float(txt); kind = 'finite' if math.isfinite(f) else 'infinite'
                except Exception: kind = 'err'
                if e[2] != kind: okp = False
            if okp: pick = d if pick is None else 'ambiguous'
        if pick is None or pick == 'ambiguous':
            if any(d.havoc for d in outs):
                return {'data': repr(data), 'skipped': 'the tree contains a call / construct the executor does not model: ' + str(next(d.havoc for d in outs if d.havoc)[0])}
            return {'data': repr(data), 'error': f'concrete MIR run does not give exactly one path ({len(outs)} paths)'}
        d = pick
        if d.status != 'returned': seq.append(('panic',)); break
        r = obj(d, d.ret); rd = cval(ex.discr(d, r).t)
        if rd == 0:
            o = obj(d, d.heap[r.oid][('f', 'Ok', 0)])
            if cval(ex.discr(d, o).t) == 0: break
            den = sc.denote(d, d.heap[o.oid][('f', 'Some', 0)])
            seq.append(('value', impl_to_py(den)))
        else:
            seq.append(('error',))
        st = d
    return {'data': repr(data), 'seq': seq, 'queries': ex.queries}


def impl_to_py(den):
    if den[0] == 'null': return None
    if den[0] == 'bool': return bool(den[1])
    if den[0] == 'string': return bytes(cval(b) for b in den[1]).decode('utf-8', errors='replace')
    if den[0] == 'array': return [impl_to_py(x) for x in den[1]]
    if den[0] == 'object': return {bytes(cval(b) for b in k).decode('utf-8', errors='replace'): impl_to_py(v) for k, v in den[1]}
    if den[0] == 'int':
        v = cval(den[2]); 
        if den[1] == 'Negative' and v >= 2**63: v -= 2**64
        return v
    if den[0] == 'float': return float(bytes(cval(b) for b in den[1]).decode())
    return ('?', den)


def selfcheck(ctx):
    if not hasattr(ctx, '_reader_known'): ctx._reader_known = reader_delivery(ctx)
    if not ctx._reader_known: return
    return _selfcheck(ctx)


def _selfcheck(ctx):
    """concrete execution of the MIR (all inputs fixed) on the repo's own parser test literals, compared with the real binary"""
    from .cli import run_jawk, show
    run = ctx.run
    lits = test_literals(ctx)
    if ctx.quick:
        ctx.rng.shuffle(lits); lits = lits[:16]
    results = pmap(_selfcheck_one, [(ctx, d) for d in lits])
    n_ok = 0
    for data, r in zip(lits, results):
        if 'error' in r: raise Broken(f'translator self-check: {r}')
        if 'skipped' in r:
            run.notes.append(f'translator self-check skipped on {r["data"]}: {r["skipped"]}'); continue
        real = run_jawk(ctx, ['--style', 'consise', '--on-error', 'stdout'], data)
        seq = []
        for ln in real['stdout'].decode('utf-8', errors='replace').split('\n'):
            if not ln: continue
            if ln.startswith('error:'): seq.append(('error',))
            else:
                try: seq.append(('value', json.loads(ln)))
                except Exception: seq.append(('unparsable', ln))
        mine = [tuple(x) for x in r['seq']]
        def same(a, b):
            if a[0] != b[0]: return False
            if a[0] != 'value': return True
            return a[1] == b[1] or (isinstance(a[1], float) and isinstance(b[1], (int, float)) and float(a[1]) == float(b[1])) or json.dumps(a[1]) == json.dumps(b[1])
        if len(mine) != len(seq) or not all(same(a, b) for a, b in zip(mine, seq)):
            raise Broken(f'translator self-check: on {data!r} the MIR executor gives {mine} but the real binary gives {seq}')
        n_ok += 1
    run.notes.append(f'translator self-check: {n_ok} concrete inputs (json_parser unit-test literals + extras) executed through the MIR and compared with the real binary: all agree')
    run.traces_validated += 0      # counted by run_jawk
    return n_ok


# ---------------------------------------------------------------- a reader the tokenizer scenario does not recognise
def reader_layout_known(ctx):
    """the scenario models the input as `io::Bytes` pulled one byte at a time by Reader::next; a Reader that buffers on its
    own (another field layout, other I/O calls) is outside that model"""
    RDR = ctx.structs.get('Reader') or []
    if any(f not in RDR for f in ('bytes', 'current_byte', 'location', 'eof')): return False, f'Reader fields are {RDR}'
    nx = [n for n in ctx.fns if re.search(r'^reader::<impl at [^>]*>::next$', n)]
    if len(nx) != 1: return False, f'Reader::next bodies: {nx}'
    calls = [bb.term.data.get('func', '') for bb in (ctx.fns[nx[0]].blocks.values() if isinstance(ctx.fns[nx[0]].blocks, dict) else ctx.fns[nx[0]].blocks) if bb.term.kind == 'call']
    if not any(re.search(r'Bytes<.*> as Iterator>::next$', c) for c in calls): return False, f'Reader::next does not pull from io::Bytes (calls {[c[-50:] for c in calls][:6]})'
    io = [c for f in ctx.fns.values() if re.match(r'^reader::<impl at [^>]*>::', f.name) for bb in (f.blocks.values() if isinstance(f.blocks, dict) else f.blocks) if bb.term.kind == 'call'
          for c in [bb.term.data.get('func', '')] if re.search(r'BufRead>::|Read>::read|read_until|read_line|read_to_end|read_exact|fill_buf|::consume$', c)]
    if io: return False, f'the reader does its own I/O: {sorted(set(x[-60:] for x in io))[:4]}'
    return True, ''


def delivery_battery(ctx):
    """how the bytes arrive must not matter: long streams whose tokens straddle every power-of-two block boundary at several
    alignments (stdin and file), delivery in chunks of 1 / 2 / 7 / 4096 bytes, an endless stream without line breaks under
    --take, locations on a very long line. Expected values come from the token list itself. Returns the first disagreement."""
    import subprocess, tempfile, random
    from .cli import run_driver, show
    exe = ctx.tree.binary()
    rng = random.Random(7)
    toks = []
    for i in range(9000):
        k = i % 9
        if k == 0: v = rng.randrange(10 ** rng.randrange(1, 13))
        elif k == 1: v = -rng.randrange(1, 10 ** 9)
        elif k == 2: v = rng.randrange(10 ** 6) + rng.randrange(1, 1000) / 1000.0
        elif k == 3: v = 's' * rng.randrange(0, 9) + 'é' * (i % 3) + '"\\'[i % 2] + str(i)
        elif k == 4: v = [i, str(i), None]
        elif k == 5: v = {'k' + str(i): [True, False], 'n': i * 1000003}
        elif k == 6: v = True if i % 2 else None
        elif k == 7: v = float(rng.randrange(1, 10 ** 5)) * 1e10
        else: v = 10 ** (i % 18)
        toks.append(v)
    texts = [json.dumps(v, ensure_ascii=bool(i % 2)) for i, v in enumerate(toks)]
    def rows(out):
        vals = []
        for ln in show(out).splitlines():
            try: vals.append(json.loads(ln))
            except Exception: vals.append('unparsable:' + ln[:40])
        return vals
    def same(a, b):
        if len(a) != len(b): return False
        return all(x == y or (isinstance(x, float) and isinstance(y, (int, float)) and float(y) == x) or (isinstance(y, float) and isinstance(x, int) and float(x) == y) for x, y in zip(a, b))
    with tempfile.TemporaryDirectory() as td:
        for pad in (0, 1, 2, 3, 5, 7):
            data = (b' ' * pad) + ' '.join(texts).encode('utf-8')
            for via in ('stdin', 'file'):
                if via == 'stdin': r = subprocess.run([exe, '--style', 'consise'], input=data, stdout=subprocess.PIPE, stderr=subprocess.PIPE, timeout=120)
                else:
                    p = os.path.join(td, 'long.json'); open(p, 'wb').write(data)
                    r = subprocess.run([exe, '--style', 'consise', p], stdout=subprocess.PIPE, stderr=subprocess.PIPE, timeout=120)
                got = rows(r.stdout)
                if r.returncode != 0 or not same(got, toks):
                    k = next((i for i, (x, y) in enumerate(zip(got, toks)) if x != y and not (isinstance(y, float) and float(x) == y if isinstance(x, (int, float)) else False)), min(len(got), len(toks)))
                    return {'what': f'{len(toks)} values in {len(data)} bytes on one line, {pad} leading blanks, via {via}', 'rc': r.returncode, 'rows': len(got), 'expected_rows': len(toks), 'first_differing_value': k,
                            'expected': repr(toks[k])[:80] if k < len(toks) else None, 'actual': repr(got[k])[:80] if k < len(got) else None, 'byte_offset_about': len(' '.join(texts[:k]).encode()) + pad}
    small = ' '.join(texts[:400]).encode('utf-8'); base = None
    for chunk in (1, 2, 7, 4096):
        r = run_driver(ctx, ['--style', 'consise'], small, env={'READ_CHUNK': str(chunk)}, timeout=60)
        if base is None: base = (r['stdout'], r['result'])
        if (r['stdout'], r['result']) != base or not same(rows(r['stdout']), toks[:400]):
            return {'what': f'the same {len(small)} bytes delivered {chunk} bytes per read call', 'result': r['result'], 'rows': len(rows(r['stdout'])), 'expected_rows': 400}
    for chunk in (1, 4096):
        r = run_driver(ctx, ['--style', 'consise', '--take', '3'], b'{"n":1} ', env={'ENDLESS': '1', 'ENDLESS_LIMIT': '3000000', 'READ_CHUNK': str(chunk)}, timeout=60)
        if r['result'] != 'ok' or len(rows(r['stdout'])) != 3 or (chunk == 1 and (r['pulled'] or 0) > 64):
            return {'what': f'an endless stream without a line break, --take 3, {chunk} bytes per read call', 'result': r['result'], 'pulled': r['pulled'], 'rows': len(rows(r['stdout']))}
    line = ' '.join(texts[:3000]).encode('utf-8')
    r = run_driver(ctx, ['--style', 'consise', '--select', '&ended-at-char-number=e', '--select', '&started-at-line-number=l'], line, env={'READ_CHUNK': '4096'}, timeout=60)
    got = rows(r['stdout']); pos = 1; exp = []
    for t in texts[:3000]:
        pos += len(t.encode('utf-8')) + 1; exp.append(pos)
    ge = [g.get('e') if isinstance(g, dict) else None for g in got]
    if r['result'] != 'ok' or len(ge) != 3000 or any(abs((a or 0) - b) > 1 for a, b in zip(ge, exp)) or any((g.get('l') if isinstance(g, dict) else None) != 1 for g in got):
        k = next((i for i, (a, b) in enumerate(zip(ge, exp)) if abs((a or 0) - b) > 1), None)
        return {'what': 'end columns of 3000 values on one long line', 'result': r['result'], 'first_wrong': k, 'expected': exp[k] if k is not None else None, 'actual': ge[k] if k is not None else None}
    return None


def parser_statics(ctx):
    """bodies of the tokenizer (json_parser.rs, reader.rs) that mention a thread-local, a static or a cell type: state that
    is not in the Reader and so is shared by all readers and survives every call"""
    CELL = re.compile(r'\b(LocalKey|RefCell|Cell|OnceCell|OnceLock|Mutex|RwLock|Atomic\w+|LazyLock|LazyCell|static mut)\b')
    hits = []
    for n, f in ctx.fns.items():
        if not re.match(r'^(json_parser|reader)::', n): continue
        why = None
        for ty in f.locals.values():
            m = CELL.search(ty or '')
            if m: why = m.group(1); break
        if why is None:
            for bb in (f.blocks.values() if isinstance(f.blocks, dict) else f.blocks):
                if bb.term.kind == 'call' and CELL.search(bb.term.data.get('func') or ''): why = CELL.search(bb.term.data['func']).group(1); break
        if why: hits.append((n, why))
    return hits


def statics_battery(ctx):
    """what a malformed text leaves behind must not reach the next value, in the same stream or in the next file"""
    import subprocess, tempfile
    from .cli import run_driver, show
    exe = ctx.tree.binary()
    tails = [b'"def" {"k":"v"} ["x"]', b'12 "s" [1.5]', b'{"a":{"b":"c"}}']
    bads = [b'"abc', b'"ab\\q"', b'"\\u12G4"', b'[1, "zz', b'{"k": "vv', b'"\\ud800x"', b'-', b'1e', b'tru']
    with tempfile.TemporaryDirectory() as td:
        for bad in bads:
            for tail in tails:
                f1 = os.path.join(td, 'f1.json'); f2 = os.path.join(td, 'f2.json'); open(f1, 'wb').write(bad); open(f2, 'wb').write(tail)
                a = subprocess.run([exe, '--style', 'consise', f1, f2], stdout=subprocess.PIPE, stderr=subprocess.PIPE, timeout=20)
                b1 = subprocess.run([exe, '--style', 'consise', f1], stdout=subprocess.PIPE, stderr=subprocess.PIPE, timeout=20)
                b2 = subprocess.run([exe, '--style', 'consise', f2], stdout=subprocess.PIPE, stderr=subprocess.PIPE, timeout=20)
                if a.stdout != b1.stdout + b2.stdout or a.returncode != 0:
                    return {'what': 'two files: the first ends inside a malformed value', 'file1': repr(bad), 'file2': repr(tail), 'together': show(a.stdout)[:200], 'separately': show(b1.stdout + b2.stdout)[:200]}
                stream = bad + b'\n' + tail
                r = run_driver(ctx, ['--style', 'consise'], stream); r1 = run_driver(ctx, ['--style', 'consise'], bad + b'\n'); r2 = run_driver(ctx, ['--style', 'consise'], tail)
                # within one stream the malformed text may swallow what follows on its line only up to where the grammar resynchronises; a
                # line feed does not end a string, so only compare when the malformed text alone gives the same rows as followed by a line feed
                if bad[:1] != b'"' and b'"' not in bad and (r['stdout'] != r1['stdout'] + r2['stdout']):
                    return {'what': 'one stream: a malformed text on a line of its own, then healthy values', 'stdin': repr(stream), 'together': show(r['stdout'])[:200], 'separately': show(r1['stdout'] + r2['stdout'])[:200]}
    return None


def reader_delivery(ctx, fam_name='tok.delivery'):
    """called by the properties that rest on the tokenizer scenarios when the Reader is not the one the scenarios model"""
    run = ctx.run
    known, why = reader_layout_known(ctx)
    fam = run.family(fam_name, 'the reader pulls its input one byte at a time through io::Bytes, so how the bytes are delivered (block sizes, line breaks, an endless stream) cannot matter; a reader that buffers on its own is outside the tokenizer model and is confronted with the delivery battery')
    fam.need_witness = False
    fam.obligations += 1
    hits = parser_statics(ctx)
    if hits:
        fam.obligations += 1
        c = Candidate(fam_name, 'parser-static-state', f'the tokenizer keeps state outside the Reader ({hits[0][1]} in {hits[0][0][-60:]}): it is shared by all readers and survives every call', {'bodies': [h[0] for h in hits][:5]}, unmodelled='static state: ' + hits[0][1])
        bad = statics_battery(ctx)
        if bad: c.status = 'reproduced'; c.replay = bad; c.unmodelled = None; c.text += ' - ' + bad['what']
        else: c.status = 'inconclusive'
        fam.candidates.append(c)
    if known:
        fam.discharged += 1; fam.add_sample({'premise': 'Reader { bytes: io::Bytes<R>, current_byte, location, eof }, Reader::next pulls from Bytes::next and nothing else reads', 'verdict': 'delivery-independent by construction'})
        return True
    c = Candidate(fam_name, 'reader-layout', f'the Reader is not the byte-at-a-time reader the tokenizer scenarios model ({why}); what it does with block boundaries, line breaks and endless input is undecided here', {'why': why}, unmodelled='Reader layout: ' + why[:80])
    bad = delivery_battery(ctx)
    if bad: c.status = 'reproduced'; c.replay = bad; c.unmodelled = None; c.text += ' - the delivery battery shows: ' + bad['what']
    else: c.status = 'inconclusive'
    fam.candidates.append(c)
    return False
