"""Reference semantics of the documented pipeline on JSON values, for simple extractor expressions only.
Used to compute the *expected* output of a concretised counterexample (never to decide a property)."""
import json

ABSENT = object()

def get(v, path):
    """path like '.a' / '.' ; returns ABSENT when missing"""
    if path == '.':
        return v
    cur = v
    for k in path.strip('.').split('.'):
        if isinstance(cur, dict) and k in cur:
            cur = cur[k]
        else:
            return ABSENT
    return cur

def type_rank(v):
    if v is None: return 0
    if v is False: return 1
    if v is True: return 2
    if isinstance(v, str): return 3
    if isinstance(v, (int, float)): return 4
    if isinstance(v, dict): return 5
    return 6

def sort_key(v):
    r = type_rank(v)
    if r in (0, 1, 2): return (r,)
    if r == 3: return (r, v)
    if r == 4: return (r, v)
    raise ValueError('reference order only for scalars')

def pipeline(rows, split=None, filt=None, selects=(), unique=False, sorts=(), skip=0, take=None, group=None, merge=False, only_oa=False):
    """rows: list of python JSON values. selects: [(path,name)], sorts: [(path, desc)]. returns list of output values"""
    if only_oa:
        rows = [r for r in rows if isinstance(r, (dict, list))]
    ctxs = [{'input': r, 'results': None} for r in rows]
    if split is not None:
        out = []
        for c in ctxs:
            v = get(c['input'], split)
            if isinstance(v, list):
                out += [{'input': e, 'results': None} for e in v]
        ctxs = out
    if filt is not None:
        ctxs = [c for c in ctxs if get(c['input'], filt) is True]
    for path, name in selects:
        for c in ctxs:
            if c['results'] is None: c['results'] = []
            c['results'].append((name, get(c['input'], path)))
    def build(c):
        if not c['results']:
            return c['input']
        return {n: v for n, v in c['results'] if v is not ABSENT}
    def key(c):
        if not c['results']: return json.dumps(c['input'], sort_keys=False)
        return json.dumps([None if v is ABSENT else [v] for _, v in c['results']])
    if unique:
        seen = set(); out = []
        for c in ctxs:
            k = key(c)
            if k not in seen:
                seen.add(k); out.append(c)
        ctxs = out
    def sget(c, path):
        if path.startswith('/'):
            name = path.strip('/')
            for n, v in (c['results'] or []):
                if n == name: return v
            return ABSENT
        return get(c['input'], path)
    for path, desc in reversed(list(sorts)):          # first given most significant: apply stable sorts from the last to the first
        keyed = [c for c in ctxs if sget(c, path) is not ABSENT]
        keyed.sort(key=lambda c: sort_key(sget(c, path)), reverse=False)
        if desc:
            # descending by key, ties keep arrival order
            groups = {}
            for c in keyed: groups.setdefault(json.dumps(sget(c, path)), []).append(c)
            order = sorted(groups.values(), key=lambda g: sort_key(sget(g[0], path)), reverse=True)
            keyed = [c for g in order for c in g]
        ctxs = keyed
    ctxs = ctxs[skip:]
    if take is not None:
        ctxs = ctxs[:take]
    if group is not None:
        out = {}
        for c in ctxs:
            k = get(c['input'], group)
            if isinstance(k, str):
                out.setdefault(k, []).append(build(c))
        return [out]
    if merge:
        return [[build(c) for c in ctxs]]
    return [build(c) for c in ctxs]
