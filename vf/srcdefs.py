"""extract enum variant order and struct field order from rust sources (prototype, regex based)"""
import re, glob, os

def strip_comments(s):
    s = re.sub(r'//[^\n]*', '', s)
    s = re.sub(r'/\*.*?\*/', '', s, flags=re.S)
    return s

def body_at(s, i):
    depth = 0; j = i
    while True:
        c = s[j]
        if c == '{': depth += 1
        elif c == '}':
            depth -= 1
            if depth == 0: return s[i + 1:j]
        j += 1

def strip_attrs(s):
    out = []; i = 0
    while i < len(s):
        if s.startswith('#[', i):
            d = 0; j = i + 1
            while True:
                if s[j] == '[': d += 1
                elif s[j] == ']':
                    d -= 1
                    if d == 0: break
                elif s[j] == '"':
                    j += 1
                    while s[j] != '"':
                        if s[j] == '\\': j += 1
                        j += 1
                j += 1
            i = j + 1
        else:
            out.append(s[i]); i += 1
    return ''.join(out)

def top_items(body):
    body = strip_attrs(body)
    out, depth, cur = [], 0, []
    prev = ''
    for c in body:
        if c in '({[<': depth += 1
        elif c in ')}]' or (c == '>' and prev != '-'): depth -= 1
        prev = c
        if c == ',' and depth == 0:
            out.append(''.join(cur).strip()); cur = []
        else: cur.append(c)
    last = ''.join(cur).strip()
    if last: out.append(last)
    return out

FIELDLESS = set()

def load(root):
    enums, structs = {}, {}
    for p in glob.glob(os.path.join(root, 'src', '**', '*.rs'), recursive=True):
        s = strip_comments(open(p).read())
        for m in re.finditer(r'\benum\s+(\w+)\s*(?:<[^>{]*>)?\s*\{', s):
            items = top_items(body_at(s, m.end() - 1))
            names = []
            plain = True
            for it in items:
                it = re.sub(r'#\[[^\]]*\]', '', it).strip()
                mm = re.match(r'(\w+)', it)
                if mm: names.append(mm.group(1))
                if not re.match(r'^\w+(\s*=\s*-?\d+)?$', it): plain = False
            enums.setdefault(m.group(1), names)
            stem = os.path.splitext(os.path.basename(p))[0]
            if stem == 'mod': stem = os.path.basename(os.path.dirname(p))
            enums[stem + '::' + m.group(1)] = names          # module-qualified (two enums may share a short name)
            if plain: FIELDLESS.add(m.group(1))
        for m in re.finditer(r'\bstruct\s+(\w+)\s*(?:<[^>{]*>)?\s*(?:where[^{]*)?\{', s):
            items = top_items(body_at(s, m.end() - 1))
            names = []
            for it in items:
                it = re.sub(r'#\[[^\]]*\]', '', it).strip()
                it = re.sub(r'^pub(\([^)]*\))?\s+', '', it)
                mm = re.match(r'(\w+)\s*:', it)
                if mm: names.append(mm.group(1))
            structs.setdefault(m.group(1), names)
    return enums, structs

if __name__ == '__main__':
    e, s = load('/repo')
    for k in ('JsonValue', 'NumberValue', 'ProcessDesision', 'OnError', 'JsonParserError', 'Direction', 'ContextKey', 'MainError'):
        print(k, e.get(k))
    for k in ('Master', 'Cli', 'Limiter', 'SortProcess', 'Context', 'Location', 'Reader', 'InputContext', 'GrouperProcess', 'Merger', 'Uniquness'):
        print(k, s.get(k))
