"""Reader::new / read_file (src/reader.rs, src/lib.rs): one fresh reader per file, created with that file's name;
a fresh reader has no look-ahead byte, so no value can span two files."""
import re
import z3
from .lib import *
from .report import Candidate, Broken


def files(ctx):
    run = ctx.run
    fam = run.family('files.fresh_reader', 'Reader::new starts at line 1, column 1 with no look-ahead byte and end-of-input unset, under the given name; read_file opens exactly that file and hands its reader, the shared index and the process to read_input once')
    run.assume('Path::exists / is_dir / File::open are the OS; directories (read_dir recursion) are outside this obligation')
    RDR = ctx.structs['Reader']; LOC = ctx.structs['Location']
    def s_bytes(ex, st, func, args, ty): return [(st, named(st, 'BYTES(' + origin(st, args[0]) + ')', 'Bytes'))]
    ex = ctx.exec(summaries=[(r'Read>::bytes$|as std::io::Read>::bytes$', s_bytes)], max_visits=6)
    cs = [n for n in ctx.fns if re.search(r'^reader::<impl at [^>]*>::new$', n)]
    if len(cs) != 1: raise Broken(f'Reader::new: {cs}')
    st = State()
    ex.new_frame(st, ctx.fns[cs[0]], [named(st, 'SOURCE', 'R'), named(st, 'NAME', 'Option<String>')])
    for d in ex.run(st):
        if d.status == 'infeasible': continue
        fam.obligations += 1; fam.witnesses += 1
        why = None
        if d.status != 'returned': why = f'{d.status} {d.notes}'
        else:
            r = obj(d, d.ret); h = d.heap[r.oid]
            try:
                cb = obj(d, h[('f', None, RDR.index('current_byte'))]); eof = h[('f', None, RDR.index('eof'))]
                loc = obj(d, h[('f', None, RDR.index('location'))]); by = origin(d, h[('f', None, RDR.index('bytes'))])
                okk = cval(ex.discr(d, cb).t) == 0 and cval(eof.t) == 0 and cval(d.heap[loc.oid][('f', None, LOC.index('line_number'))].t) == 1 and \
                    cval(d.heap[loc.oid][('f', None, LOC.index('char_number'))].t) == 1 and origin(d, d.heap[loc.oid][('f', None, LOC.index('input'))]) == 'NAME' and by == 'BYTES(SOURCE)'
                if not okk: why = 'initial state is not (no look-ahead, not at end, 1:1, the given name, the given source)'
            except (KeyError, ValueError) as e:
                why = f'Reader layout not recognised ({e})'
        if why is None: fam.discharged += 1; fam.add_sample({'body': 'Reader::new', 'verdict': 'current_byte None, eof false, location NAME:1:1'})
        else:
            c = Candidate(fam.name, 'reader-new', 'Reader::new: ' + why, {}, unmodelled=(d.havoc or [None])[0]); c.status = 'unit'; fam.candidates.append(c)
    run.absorb(ex)
    # read_file on a regular file
    def s_bool(name):
        def path_q(ex, st, func, args, ty):
            out = []
            for v in (True, False):
                s2 = st.clone(); s2.events.append((name, v)); out.append((s2, BoolV(z3.BoolVal(v))))
            return out
        return path_q
    def s_from_file(ex, st, func, args, ty):
        out = []
        for good in (True, False):
            s2 = st.clone(); s2.events.append(('from_file', origin(s2, args[0]), good))
            out.append((s2, ok(s2, named(s2, 'READER(' + origin(s2, args[0]) + ')', 'Reader')) if good else err(s2, named(s2, 'ioerr', 'io::Error'))))
        return out
    def s_read_input(ex, st, func, args, ty):
        v = ex.fresh_value(st, ty, st.fresh_name('read_input')); d = ex.discr(st, v); st.pc.append(z3.Or(d.t == 0, d.t == 1))
        st.events.append(('read_input', origin(st, args[1]), ('ref', args[2].oid) if isinstance(args[2], RefV) else origin(st, args[2]), origin(st, args[3]), v)); return [(st, v)]
    def s_read_dir(ex, st, func, args, ty):
        st.events.append(('read_dir',)); return [(st, err(st, named(st, 'ioerr', 'io::Error')))]
    summ = [(r'Path::exists$', s_bool('exists')), (r'Path::is_dir$', s_bool('is_dir')), (r'^from_file$|reader::from_file$', s_from_file), (r'Master::<S>::read_input', s_read_input),
            (r'read_dir::<', s_read_dir), (r'<PathBuf as Deref>::deref$|as Deref>::deref$', s_identity), (r'as From<.*>>::from$', lambda ex, st, f, a, t: [(st, named(st, st.fresh_name('converted'), t or 'err'))])]
    ex = ctx.exec(summaries=summ, max_visits=8)
    F = ex.find(r'^<impl at src/lib.rs:[^>]*>::read_file$')
    st = State()
    iref = slot(st, BV(z3.BitVec('index', 64)), 'INDEX')
    ex.new_frame(st, F, [slot(st, named(st, 'SELF', 'Master'), 'self*'), slot(st, named(st, 'FILE', 'PathBuf'), 'file*'), iref, slot(st, named(st, 'PROCESS', 'dyn Process'), 'process*')])
    for d in ex.run(st):
        if d.status == 'infeasible': continue
        evs = d.events
        if any(e == ('exists', False) for e in evs) or any(e == ('is_dir', True) for e in evs): continue      # missing file: the documented assert; directory: outside
        fam.obligations += 1; fam.witnesses += 1
        why = None
        if d.status != 'returned': why = f'{d.status} {d.notes[-1:]}'
        else:
            ff = [e for e in evs if e[0] == 'from_file']; ri = [e for e in evs if e[0] == 'read_input']
            rd = ex.discr(d, obj(d, d.ret)).t
            if len(ff) != 1 or ff[0][1] != 'FILE': why = 'does not open exactly the given file'
            elif not ff[0][2]:
                if ri or not ex.valid(d, rd == 1)[0]: why = 'a file that cannot be opened is not an error'
            elif len(ri) != 1 or ri[0][1] != 'READER(FILE)' or ri[0][2] != ('ref', iref.oid) or ri[0][3] != 'PROCESS': why = f'read_input is not called once with this file\'s reader, the shared index and the process: {[e[:4] for e in ri]}'
            elif not ex.valid(d, rd == ex.discr(d, ri[0][4]).t)[0]: why = 'the result of read_input is not returned'
        if why is None: fam.discharged += 1
        elif not any(c.role == 'read-file' for c in fam.candidates):
            c = Candidate(fam.name, 'read-file', 'read_file: ' + why, {}, unmodelled=(d.havoc or [None])[0]); fam.candidates.append(c)
    run.absorb(ex)
    import tempfile, os
    from .cli import run_jawk, show
    for c in fam.candidates:
        with tempfile.TemporaryDirectory() as td:
            a, b = os.path.join(td, 'a.json'), os.path.join(td, 'b.json')
            open(a, 'w').write('1 [2'); open(b, 'w').write(',3] 4 ')
            r = run_jawk(ctx, ['--select', '&index=i', '--select', '&index-in-file=j', '--select', '.=v', '--style', 'consise', a, b], b'')
            exp = '{"i":0,"j":0,"v":1}\n{"i":1,"j":0,"v":3}\n{"i":2,"j":1,"v":4}\n'
            c.replay = {'files': ['1 [2', ',3] 4 '], 'expected': exp, 'actual': show(r['stdout'])}
            c.status = 'reproduced' if show(r['stdout']) != exp else 'unit'
