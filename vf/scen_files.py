"""Reader::new / read_file (src/reader.rs, src/lib.rs): one fresh reader per file, created with that file's name;
a fresh reader has no look-ahead byte, so no value can span two files."""
import re
import z3
from .lib import *
from .report import Candidate, Broken


def files(ctx):
    run = ctx.run
    fam = run.family('files.fresh_reader', 'Reader::new starts at line 1, column 1 with no look-ahead byte and end-of-input unset, under the given name; read_file opens exactly that file and hands its reader, the shared index and the process to read_input once')
    run.assume('Path::exists / is_dir / File::open are the OS; directories (read_dir recursion) are outside this obligation')
    RDR = ctx.structs['Reader']; LOC = ctx.structs['Location']
    def s_bytes(ex, st, func, args, ty): return [(st, named(st, 'BYTES(' + origin(st, args[0]) + ')', 'Bytes'))]
    ex = ctx.exec(summaries=[(r'Read>::bytes$|as std::io::Read>::bytes$', s_bytes)], max_visits=6)
    cs = [n for n in ctx.fns if re.search(r'^reader::<impl at [^>]*>::new$', n)]
    if len(cs) != 1: raise Broken(f'Reader::new: {cs}')
    st = State()
    ex.new_frame(st, ctx.fns[cs[0]], [named(st, 'SOURCE', 'R'), named(st, 'NAME', 'Option<String>')])
    for d in ex.run(st):
        if d.status == 'infeasible': continue
        fam.obligations += 1; fam.witnesses += 1
        why = None
        if d.status != 'returned': why = f'{d.status} {d.notes}'
        else:
            r = obj(d, d.ret); h = d.heap[r.oid]
            try:
                cb = obj(d, h[('f', None, RDR.index('current_byte'))]); eof = h[('f', None, RDR.index('eof'))]
                loc = obj(d, h[('f', None, RDR.index('location'))]); by = origin(d, h[('f', None, RDR.index('bytes'))])
                okk = cval(ex.discr(d, cb).t) == 0 and cval(eof.t) == 0 and cval(d.heap[loc.oid][('f', None, LOC.index('line_number'))].t) == 1 and \
                    cval(d.heap[loc.oid][('f', None, LOC.index('char_number'))].t) == 1 and origin(d, d.heap[loc.oid][('f', None, LOC.index('input'))]) == 'NAME' and by == 'BYTES(SOURCE)'
                if not okk: why = 'initial state is not (no look-ahead, not at end, 1:1, the given name, the given source)'
            except (KeyError, ValueError) as e:
                why = f'Reader layout not recognised ({e})'
        if why is None: fam.discharged += 1; fam.add_sample({'body': 'Reader::new', 'verdict': 'current_byte None, eof false, location NAME:1:1'})
        else:
            c = Candidate(fam.name, 'reader-new', 'Reader::new: ' + why, {}, unmodelled=(d.havoc or [None])[0]); c.status = 'unit'; fam.candidates.append(c)
    run.absorb(ex)
    # read_file on a regular file
    def s_bool(name):
        def path_q(ex, st, func, args, ty):
            out = []
            for v in (True, False):
                s2 = st.clone(); s2.events.append((name, v)); out.append((s2, BoolV(z3.BoolVal(v))))
            return out
        return path_q
    def s_from_file(ex, st, func, args, ty):
        out = []
        for good in (True, False):
            s2 = st.clone(); s2.events.append(('from_file', origin(s2, args[0]), good))
            out.append((s2, ok(s2, named(s2, 'READER(' + origin(s2, args[0]) + ')', 'Reader')) if good else err(s2, named(s2, 'ioerr', 'io::Error'))))
        return out
    def s_read_input(ex, st, func, args, ty):
        v = ex.fresh_value(st, ty, st.fresh_name('read_input')); d = ex.discr(st, v); st.pc.append(z3.Or(d.t == 0, d.t == 1))
        st.events.append(('read_input', origin(st, args[1]), ('ref', args[2].oid) if isinstance(args[2], RefV) else origin(st, args[2]), origin(st, args[3]), v)); return [(st, v)]
    def s_read_dir(ex, st, func, args, ty):
        st.events.append(('read_dir',)); return [(st, err(st, named(st, 'ioerr', 'io::Error')))]
    summ = [(r'Path::exists$', s_bool('exists')), (r'Path::is_dir$', s_bool('is_dir')), (r'^from_file$|reader::from_file$', s_from_file), (r'Master::<S>::read_input', s_read_input),
            (r'read_dir::<', s_read_dir), (r'<PathBuf as Deref>::deref$|as Deref>::deref$', s_identity), (r'as From<.*>>::from$', lambda ex, st, f, a, t: [(st, named(st, st.fresh_name('converted'), t or 'err'))])]
    ex = ctx.exec(summaries=summ, max_visits=8)
    try:
        F = ex.find(r'^<impl at src/lib.rs:[^>]*>::read_file$')
    except Broken:
        fam.obligations += 1; fam.witnesses += 1
        fam.candidates.append(Candidate(fam.name, 'read-file', 'Master::read_file is not there any more: how a file becomes a reader is outside this scenario', {}, unmodelled='read_file restructured'))
        F = None
    st = State()
    iref = slot(st, BV(z3.BitVec('index', 64)), 'INDEX')
    if F is not None: ex.new_frame(st, F, [slot(st, named(st, 'SELF', 'Master'), 'self*'), slot(st, named(st, 'FILE', 'PathBuf'), 'file*'), iref, slot(st, named(st, 'PROCESS', 'dyn Process'), 'process*')])
    for d in (ex.run(st) if F is not None else []):
        if d.status == 'infeasible': continue
        evs = d.events
        if any(e == ('exists', False) for e in evs) or any(e == ('is_dir', True) for e in evs): continue      # missing file: the documented assert; directory: outside
        fam.obligations += 1; fam.witnesses += 1
        why = None
        if d.status != 'returned': why = f'{d.status} {d.notes[-1:]}'
        else:
            ff = [e for e in evs if e[0] == 'from_file']; ri = [e for e in evs if e[0] == 'read_input']
            rd = ex.discr(d, obj(d, d.ret)).t
            if len(ff) != 1 or ff[0][1] != 'FILE': why = 'does not open exactly the given file'
            elif not ff[0][2]:
                if ri or not ex.valid(d, rd == 1)[0]: why = 'a file that cannot be opened is not an error'
            elif len(ri) != 1 or ri[0][1] != 'READER(FILE)' or ri[0][2] != ('ref', iref.oid) or ri[0][3] != 'PROCESS': why = f'read_input is not called once with this file\'s reader, the shared index and the process: {[e[:4] for e in ri]}'
            elif not ex.valid(d, rd == ex.discr(d, ri[0][4]).t)[0]: why = 'the result of read_input is not returned'
        if why is None: fam.discharged += 1
        elif not any(c.role == 'read-file' for c in fam.candidates):
            c = Candidate(fam.name, 'read-file', 'read_file: ' + why, {}, unmodelled=(d.havoc or [None])[0]); fam.candidates.append(c)
    run.absorb(ex)
    import tempfile, os
    from .cli import run_jawk, show
    for c in fam.candidates:
        with tempfile.TemporaryDirectory() as td:
            a, b = os.path.join(td, 'a.json'), os.path.join(td, 'b.json')
            open(a, 'w').write('1 [2'); open(b, 'w').write(',3] 4 ')
            r = run_jawk(ctx, ['--select', '&index=i', '--select', '&index-in-file=j', '--select', '.=v', '--style', 'consise', a, b], b'')
            exp = '{"i":0,"j":0,"v":1}\n{"i":1,"j":0,"v":3}\n{"i":2,"j":1,"v":4}\n'
            c.replay = {'files': ['1 [2', ',3] 4 '], 'expected': exp, 'actual': show(r['stdout'])}
            c.status = 'reproduced' if show(r['stdout']) != exp else 'unit'
            if c.status != 'reproduced':
                # every file argument is read each time it is given (the same file twice, also through a link): out(A.A) = out(A).out(A)
                one = os.path.join(td, 'one.json'); open(one, 'w').write('{"v":1} 2'); ln = os.path.join(td, 'link.json'); os.symlink(one, ln)
                r1 = run_jawk(ctx, ['--style', 'consise', one], b''); r2 = run_jawk(ctx, ['--style', 'consise', one, one, ln], b'')
                if r2['stdout'] != r1['stdout'] * 3 or r2['rc'] != 0:
                    c.status = 'reproduced'; c.unmodelled = None; c.replay = {'what': 'the same file given twice and once more through a link', 'once': show(r1['stdout']), 'three_times': show(r2['stdout'])}
            if c.status != 'reproduced':
                # a file argument that is a pipe fed for ever: the reader must stream it (--take ends the run), not slurp it
                import subprocess, time as _t
                fifo = os.path.join(td, 'pipe'); os.mkfifo(fifo)
                feeder = subprocess.Popen(['bash', '-c', f'exec 3>{fifo}; i=0; while [ $i -lt 4000 ]; do printf \'{{"n":%d}}\\n\' $i >&3 2>/dev/null || exit 0; i=$((i+1)); [ $((i % 50)) -eq 0 ] && sleep 0.05; done; sleep 8'], stdout=subprocess.DEVNULL, stderr=subprocess.DEVNULL)
                try:
                    t0 = _t.time()
                    p = subprocess.run([ctx.tree.binary(), '--take', '2', '--style', 'consise', fifo], stdout=subprocess.PIPE, stderr=subprocess.PIPE, timeout=6)
                    if p.returncode != 0 or p.stdout != b'{"n":0}\n{"n":1}\n':
                        c.status = 'reproduced'; c.replay = {'what': 'a named pipe as file argument, fed for ever, --take 2', 'rc': p.returncode, 'stdout': show(p.stdout)[:100]}
                except subprocess.TimeoutExpired:
                    c.status = 'reproduced'; c.replay = {'what': 'a named pipe as file argument, fed slowly for ever, --take 2', 'result': 'no output and no exit within 6 s'}
                finally:
                    feeder.kill(); feeder.wait()


def file_sources(ctx):
    """from_file and the directory loop of read_file.

    files.untouched   from_file hands Reader::new the buffered, *unread* file under the file's name: between File::open and
                      Reader::new nothing is called on the file or its buffer (a byte consumed there - a BOM skip, a peek - is
                      a byte the tokenizer never sees, and only for file input); a file that cannot be opened is an error.
    files.directory   every entry of a directory is read, in the order read_dir gives them, through the same index and
                      process; the first failing entry (an unreadable entry or a failing read) ends the run with an error."""
    run = ctx.run
    fu = run.family('files.untouched', 'from_file gives the tokenizer the whole file: Reader::new gets BufReader(File::open(path)) and the path as name, and nothing else is called on the file or its buffer before; an open failure is returned')
    fd = run.family('files.directory', 'read_file on a directory reads every entry in order with the same index and process and returns the first error (an unreadable entry, a failing read of an entry)')
    run.bounds['file sources'] = 'from_file: open succeeds / fails; directory of 0..2 entries, each readable or not, each read succeeding or failing'
    # ---- from_file
    def s_open(ex, st, func, a, ty):
        out = []
        for good in (True, False):
            s2 = st.clone(); s2.events.append(('open', origin(s2, a[0]), good))
            out.append((s2, ok(s2, named(s2, 'FILE', 'File')) if good else err(s2, named(s2, 'ioerr', 'io::Error'))))
        return out
    def s_buf(ex, st, func, a, ty): return [(st, named(st, 'BUF(' + origin(st, a[0]) + ')', 'BufReader'))]
    def s_reader_new(ex, st, func, a, ty):
        nm = obj(st, a[1]); st.events.append(('reader_new', origin(st, a[0]), st.heap[nm.oid].get('from', origin(st, nm))))
        return [(st, named(st, 'READER', 'Reader'))]
    def s_to_str(ex, st, func, a, ty): return [(st, some(st, slot(st, named(st, 'STR(' + origin(st, a[0]) + ')', 'str'))))]
    def s_opt_map_to_string(ex, st, func, a, ty):
        o = obj(st, a[0]); n = named(st, st.fresh_name('name'), 'Option<String>'); st.heap[n.oid]['from'] = origin(st, st.heap[o.oid].get(('f', 'Some', 0), o)); return [(st, n)]
    summ = [(r'File::open::<', s_open), (r'BufReader::<.*>::new$|BufReader::<.*>::with_capacity$', s_buf), (r'Reader::<.*>::new$', s_reader_new), (r'Path::to_str$', s_to_str),
            (r'Option::<&str>::map::<', s_opt_map_to_string), (r'as Deref>::deref$', s_identity)]
    ex = ctx.exec(summaries=summ, max_visits=10)
    F = ex.find(r'^from_file$|^reader::from_file$')
    st = State(); ex.new_frame(st, F, [slot(st, named(st, 'PATH', 'PathBuf'), 'path*')])
    for d in ex.run(st):
        if d.status == 'infeasible': continue
        run.paths += 1; fu.obligations += 1; fu.witnesses += 1
        why = None; touched = None
        for e in d.events:
            if e[0] == 'call':                       # an unmodelled call: does it get the file or its buffer?
                for a_ in e[2]:
                    try: o_ = origin(d, a_)
                    except Exception: o_ = ''
                    if 'FILE' in str(o_) or 'BUF(' in str(o_): touched = e[1]
        opens = [e for e in d.events if e[0] == 'open']; news = [e for e in d.events if e[0] == 'reader_new']
        rd = ex.discr(d, obj(d, d.ret)).t if d.status == 'returned' else None
        if d.status != 'returned': why = f'{d.status} {d.notes[-1:]}'
        elif touched: why = f'`{touched[-60:]}` is called on the file / its buffer before the tokenizer gets it'
        elif len(opens) != 1 or opens[0][1] != 'PATH': why = 'does not open exactly the given path'
        elif not opens[0][2]:
            if news or not ex.valid(d, rd == 1)[0]: why = 'a file that cannot be opened is not an error'
        elif len(news) != 1 or news[0][1] != 'BUF(FILE)' or 'PATH' not in str(news[0][2]): why = f'Reader::new does not get the buffered file under its name: {news}'
        elif not ex.valid(d, rd == 0)[0]: why = 'an opened file is not returned as a reader'
        if why is None: fu.discharged += 1
        elif not any(c.role == 'from-file' for c in fu.candidates):
            fu.candidates.append(Candidate(fu.name, 'from-file', 'from_file: ' + why, {}, unmodelled=(d.havoc or [None])[0] if not touched else touched))
    if fu.discharged: fu.add_sample({'body': 'from_file', 'events': 'open(PATH) -> BufReader::new(FILE) -> Reader::new(BUF(FILE), name of PATH)', 'verdict': 'nothing else touches the file'})
    run.absorb(ex)
    # ---- the directory loop
    def s_bool(name, val):
        return lambda ex, st, func, a, ty: [(st, BoolV(z3.BoolVal(val)))]
    for entries in ([], ['ok'], ['ok', 'ok'], ['bad'], ['ok', 'bad'], ['bad', 'ok']):
        for dir_ok in (True, False):
            if not dir_ok and entries: continue
            def s_read_dir(ex, st, func, a, ty, entries=entries, dir_ok=dir_ok):
                if not dir_ok: return [(st, err(st, named(st, 'ioerr:read_dir', 'io::Error')))]
                items = [ok(st, named(st, f'ENTRY{i}', 'DirEntry')) if e == 'ok' else err(st, named(st, f'ioerr:entry{i}', 'io::Error')) for i, e in enumerate(entries)]
                return [(st, ok(st, seqobj(st, 'ReadDir', items)))]
            def s_path(ex, st, func, a, ty): return [(st, named(st, 'PATH(' + origin(st, a[0]) + ')', 'PathBuf'))]
            def s_rec(ex, st, func, a, ty):
                v = ex.fresh_value(st, ty, st.fresh_name('read_file')); dd = ex.discr(st, v); st.pc.append(z3.Or(dd.t == 0, dd.t == 1))
                st.events.append(('read_file', origin(st, a[1]), ('ref', a[2].oid) if isinstance(a[2], RefV) else origin(st, a[2]), origin(st, a[3]), v)); return [(st, v)]
            summ = [(r'Path::exists$', s_bool('exists', True)), (r'Path::is_dir$', s_bool('is_dir', True)), (r'read_dir::<', s_read_dir), (r'DirEntry::path$', s_path), (r'Master::<S>::read_file$', s_rec),
                    (r'<ReadDir as IntoIterator>::into_iter$|as IntoIterator>::into_iter$', s_identity), (r'as Iterator>::next$', s_iter_next), (r'as Deref>::deref$', s_identity),
                    (r'as From<.*>>::from$', lambda ex, st, f, a, t: [(st, named(st, st.fresh_name('converted'), t or 'err'))])]
            ex = ctx.exec(summaries=summ, max_visits=12)
            try:
                F = ex.find(r'^<impl at src/lib.rs:[^>]*>::read_file$')
            except Broken:
                # the file loop was restructured: undecided here, the native battery (file against stdin, failing entry) is the witness
                if not any(c.role == 'directory' for c in fd.candidates):
                    fd.obligations += 1; fd.witnesses += 1
                    fd.candidates.append(Candidate(fd.name, 'directory', 'Master::read_file is not there any more: how files and directories are read is outside this scenario', {}, unmodelled='read_file restructured'))
                break
            st = State(); iref = slot(st, BV(z3.BitVec('index', 64)), 'INDEX')
            ex.new_frame(st, F, [slot(st, named(st, 'SELF', 'Master'), 'self*'), slot(st, named(st, 'DIR', 'PathBuf'), 'dir*'), iref, slot(st, named(st, 'PROCESS', 'dyn Process'), 'process*')])
            for d in ex.run(st):
                if d.status == 'infeasible': continue
                run.paths += 1; fd.obligations += 1; fd.witnesses += 1
                why = None
                if d.status != 'returned': why = f'{d.status} {d.notes[-1:]}'
                else:
                    rf = [e for e in d.events if e[0] == 'read_file']; rd = ex.discr(d, obj(d, d.ret)).t
                    # expected: entries in order until the first bad entry or the first failing read
                    exp_paths = []
                    for i, e in enumerate(entries):
                        if e == 'bad': break
                        exp_paths.append(f'PATH(ENTRY{i})')
                    got_paths = [e[1] for e in rf]
                    if got_paths != exp_paths[:len(got_paths)]: why = f'entries are read as {got_paths}, the directory lists {exp_paths}'
                    elif any(e[2] != ('ref', iref.oid) or e[3] != 'PROCESS' for e in rf): why = 'an entry is not read with the shared index and the process'
                    else:
                        fails = [ex.discr(d, e[4]).t == 1 for e in rf]
                        anyfail = z3.Or(*fails) if fails else z3.BoolVal(False)
                        # all listed entries read successfully and no bad entry / directory: Ok; otherwise Err
                        complete = len(got_paths) == len(exp_paths)
                        must_fail = (not dir_ok) or ('bad' in entries and complete)
                        if not ex.valid(d, z3.Implies(anyfail, rd == 1))[0]: why = 'a failing read of an entry is not returned as an error (the run goes on)'
                        elif fails and not ex.valid(d, z3.Implies(rd == 0, z3.Not(anyfail)))[0]: why = 'Ok although an entry failed'
                        elif must_fail and not ex.valid(d, z3.Implies(z3.Not(anyfail), rd == 1))[0]: why = 'an unreadable directory / entry is not an error'
                        elif not complete and not ex.valid(d, anyfail)[0]: why = f'only {got_paths} of {exp_paths} are read although nothing failed'
                        elif len(fails) > 1 and not ex.valid(d, z3.Not(z3.Or(*fails[:-1])))[0]: why = 'entries are still read after one failed'
                if why is None: fd.discharged += 1
                elif not any(c.role == 'directory' for c in fd.candidates):
                    fd.candidates.append(Candidate(fd.name, 'directory', f'read_file on a directory with entries {entries}: ' + why, {'entries': entries}, unmodelled=(d.havoc or [None])[0]))
            run.absorb(ex)
    if fd.discharged: fd.add_sample({'body': 'read_file (directory)', 'entries': "['ok', 'bad']", 'verdict': 'ENTRY0 is read, the unreadable ENTRY1 ends the run with an error'})
    replay_sources(ctx, fu.candidates + fd.candidates)


def replay_sources(ctx, cands):
    """file input against stdin on the same bytes (a byte order mark and ordinary starts, under the reporting policies), and a
    directory with an entry whose read fails"""
    if not cands: return
    import tempfile, os, subprocess
    from .cli import run_jawk, show
    exe = ctx.tree.binary()
    found = None
    with tempfile.TemporaryDirectory() as td:
        for data in (b'\xef\xbb\xbf{"a":1} [2]\n3', b'\xef\xbb\xbf', b'\xff\xfe1 2', b'  {"a":1} 2', b'x 1'):
            p = os.path.join(td, 'in.json'); open(p, 'wb').write(data)
            for pol in ('stdout', 'panic', 'ignore'):
                argv = ['--on-error', pol, '--style', 'consise', '--select', '.=v', '--select', '&started-at-char-number=c']
                a = subprocess.run([exe] + argv + [p], stdout=subprocess.PIPE, stderr=subprocess.PIPE, timeout=20)
                b = subprocess.run([exe] + argv, input=data, stdout=subprocess.PIPE, stderr=subprocess.PIPE, timeout=20)
                strip = lambda o: [ln for ln in show(o).splitlines() if not ln.startswith('error:')]
                nerr = lambda o: sum(1 for ln in show(o).splitlines() if ln.startswith('error:'))
                if strip(a.stdout) != strip(b.stdout) or (a.returncode == 0) != (b.returncode == 0) or nerr(a.stdout) != nerr(b.stdout):
                    found = {'what': 'the same bytes as a file and on stdin', 'bytes': repr(data), 'argv': argv, 'file': {'rc': a.returncode, 'stdout': show(a.stdout)[:300]}, 'stdin': {'rc': b.returncode, 'stdout': show(b.stdout)[:300]}}; break
            if found: break
        if not found:
            one = os.path.join(td, 'one.json'); open(one, 'w').write('{"v":1} 2'); ln = os.path.join(td, 'link.json'); os.symlink(one, ln)
            r1 = subprocess.run([exe, '--style', 'consise', one], stdout=subprocess.PIPE, stderr=subprocess.PIPE, timeout=20)
            r2 = subprocess.run([exe, '--style', 'consise', one, one, ln], stdout=subprocess.PIPE, stderr=subprocess.PIPE, timeout=20)
            if r2.stdout != r1.stdout * 3 or r2.returncode != 0: found = {'what': 'the same file given twice and once more through a link', 'once': show(r1.stdout), 'three_times': show(r2.stdout)}
        if not found:
            d = os.path.join(td, 'dir'); os.mkdir(d)
            open(os.path.join(d, 'a.json'), 'w').write('1'); open(os.path.join(d, 'c.json'), 'w').write('3')
            try:
                os.symlink('/proc/self/mem', os.path.join(d, 'b.json'))
                r = subprocess.run([exe, '--style', 'consise', d], stdout=subprocess.PIPE, stderr=subprocess.PIPE, timeout=20)
                if r.returncode == 0: found = {'what': 'a directory with an entry whose first read fails (a link to /proc/self/mem)', 'rc': r.returncode, 'stdout': show(r.stdout)[:200], 'stderr': show(r.stderr)[:200]}
            except OSError:
                pass
    for c in cands:
        if found: c.status = 'reproduced'; c.replay = found; c.unmodelled = None
        elif c.unmodelled: c.status = 'inconclusive'
        else: c.status = 'unit'
