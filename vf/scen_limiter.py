"""Limiter (src/limits.rs): one step from an arbitrary invariant-satisfying pre-state; start / complete forwarding."""
import z3
from .lib import *
from .report import Candidate, Broken

RUST_MOCK_NEXT = r'''
    use std::cell::RefCell as VRefCell;
    use std::rc::Rc as VRc;
    pub struct VNext { pub log: VRc<VRefCell<Vec<String>>>, pub script: Vec<char>, pub at: usize }
    impl VNext {
        fn answer(&mut self) -> char { let c = self.script.get(self.at).copied().unwrap_or('C'); self.at += 1; c }
    }
    impl crate::processor::Process for VNext {
        fn start(&mut self, _t: crate::processor::Titles) -> crate::processor::Result<()> {
            self.log.borrow_mut().push("start".into());
            if self.answer() == 'E' { Err(crate::processor::ProcessError::InvalidInputError("injected")) } else { Ok(()) }
        }
        fn complete(&mut self) -> crate::processor::Result<()> {
            self.log.borrow_mut().push("complete".into());
            if self.answer() == 'E' { Err(crate::processor::ProcessError::InvalidInputError("injected")) } else { Ok(()) }
        }
        fn process(&mut self, c: crate::processor::Context) -> crate::processor::Result<crate::processor::ProcessDesision> {
            self.log.borrow_mut().push(format!("process:{:?}", c.build()));
            match self.answer() {
                'E' => Err(crate::processor::ProcessError::InvalidInputError("injected")),
                'B' => Ok(crate::processor::ProcessDesision::Break),
                _ => Ok(crate::processor::ProcessDesision::Continue),
            }
        }
    }
    pub fn vdec(r: &crate::processor::Result<crate::processor::ProcessDesision>) -> &'static str {
        match r { Ok(crate::processor::ProcessDesision::Continue) => "Continue", Ok(crate::processor::ProcessDesision::Break) => "Break", Err(_) => "Err" }
    }
'''

INV_TEXT = 'Limiter invariant: skipped <= skip; skipped < skip => passed = 0; limit = Some(L) => passed <= L'


def _mk(ctx, ex, st):
    S = ctx.structs['Limiter']
    so = st.new_obj('self', 'Limiter'); selfref = slot(st, ObjV(so), 'self*')
    skip = z3.BitVec('skip', 64); skipped = z3.BitVec('skipped', 64); passed = z3.BitVec('passed', 64); lim = z3.BitVec('limit', 64)
    setfld(st, so, ctx.structs, 'Limiter', 'skip', BV(skip)); setfld(st, so, ctx.structs, 'Limiter', 'skipped', BV(skipped))
    setfld(st, so, ctx.structs, 'Limiter', 'passed', BV(passed))
    lo = st.new_obj('self.limit', 'Option<u64>'); st.heap[lo][('f', 'Some', 0)] = BV(lim)
    setfld(st, so, ctx.structs, 'Limiter', 'limit', ObjV(lo))
    ld = ex.discr(st, ObjV(lo)).t
    st.pc.append(z3.Or(ld == 0, ld == 1))
    has = ld == 1
    inv = lambda sk, skd, pa: z3.And(z3.ULE(skd, sk), z3.Implies(z3.ULT(skd, sk), pa == 0), z3.Implies(has, z3.ULE(pa, lim)))
    st.pc.append(inv(skip, skipped, passed))
    setfld(st, so, ctx.structs, 'Limiter', 'next', named(st, 'self.next', 'Box<dyn Process>'))
    return so, selfref, dict(skip=skip, skipped=skipped, passed=passed, limit=lim, has_limit=has, inv=inv, ld=ld)


def limiter(ctx, fams):
    """fams: which families the calling property wants ('step', 'break', 'lifecycle', 'err', 'nopanic')"""
    run = ctx.run
    run.bounds['limiter'] = 'one process() step from ANY (skip, limit, skipped, passed) in u64^4 x {None,Some} satisfying the invariant; successor answers anything'
    run.assume(INV_TEXT + ' (established by create_process: 0,0; preserved by every step - checked as limiter.step.invariant)')
    ex = ctx.exec(summaries=[(r'<dyn Process as Process>::(process|complete|start)$', proto_next())])
    F = ctx.find(r'^limits::<impl at [^>]*>::process$')
    st = State()
    so, selfref, v = _mk(ctx, ex, st)
    c = named(st, 'ctx', 'Context')
    ex.new_frame(st, F, [selfref, c])
    done = ex.run(st)
    skip, skipped, passed, lim, has = v['skip'], v['skipped'], v['passed'], v['limit'], v['has_limit']
    from .report import Family
    mk = lambda on, n, dsc: run.family(n, dsc) if on else Family(n, dsc)
    f_step = mk('step' in fams, 'limiter.step', 'row forwarded iff skipped=skip and passed<limit; counters move by one; decision Break iff quota exhausted')
    f_inv = mk('step' in fams, 'limiter.step.invariant', 'the limiter invariant is preserved by process()')
    f_err = mk('err' in fams, 'limiter.err', 'an Err from the successor is returned and nothing else happens')
    f_pan = mk('nopanic' in fams, 'limiter.nopanic', 'no overflow / panic path is reachable from an invariant-satisfying state'); f_pan.need_witness = False
    terms = dict(skip=skip, skipped=skipped, passed=passed, limit=lim, has_limit=v['ld'])
    for d in done:
        run.paths += 1
        if d.status == 'infeasible':
            continue
        if d.status == 'panic':
            if 'nopanic' in fams:
                f_pan.obligations += 1
                ok_, m = ex.valid(d, z3.BoolVal(False))
                mv = model_values(m, terms)
                f_pan.candidates.append(Candidate(f_pan.name, 'panic', f'Limiter::process panics ({d.notes[-1]}) from {mv}', mv, unmodelled=(d.havoc or [None])[0]))
            continue
        if d.status != 'returned':
            raise Broken(f'limiter path ended as {d.status} {d.notes}')
        nx = next_events(d, 'process')
        rd, pd = result_parts(ex, d, d.ret)
        S = ctx.structs['Limiter']
        skipped2 = fld(d, so, ctx.structs, 'Limiter', 'skipped').t; passed2 = fld(d, so, ctx.structs, 'Limiter', 'passed').t
        skip2 = fld(d, so, ctx.structs, 'Limiter', 'skip').t
        should_fwd = z3.And(skipped == skip, z3.Or(z3.Not(has), z3.ULT(passed, lim)))
        fwd = z3.BoolVal(len(nx) == 1 and nx[0][3] is not None and origin(d, nx[0][3]) == 'ctx')
        others = [e for e in next_events(d) if e[1] != 'process']
        conj = [z3.BoolVal(len(nx) <= 1), should_fwd == fwd, z3.BoolVal(not others)]      # process() never starts or completes the successor
        if nx:
            nrd, npd = result_parts(ex, d, nx[0][4])
            okn = nrd == 0
            # successor failed -> we fail
            if 'err' in fams:
                f_err.obligations += 1
                if ex.feasible(d, nrd == 1): f_err.witnesses += 1
                ok_, m = ex.valid(d, z3.Implies(nrd == 1, rd == 1))
                if ok_: f_err.discharged += 1
                else: f_err.candidates.append(Candidate(f_err.name, 'err-swallowed', 'Limiter::process swallows an Err of its successor', model_values(m, terms)))
        else:
            okn = z3.BoolVal(True)
        # counters
        conj.append(z3.Implies(z3.ULT(skipped, skip), z3.And(skipped2 == skipped + 1, passed2 == passed, rd == 0, pd == 0)))
        conj.append(z3.Implies(z3.And(skipped == skip, has, z3.UGE(passed, lim)), z3.And(skipped2 == skipped, passed2 == passed, rd == 0, pd == 1)))
        conj.append(z3.Implies(z3.And(should_fwd, has, okn), z3.And(skipped2 == skipped, passed2 == passed + 1, rd == 0,
                                                                   pd == z3.If(z3.UGE(passed + 1, lim), z3.BitVecVal(1, 64), z3.BitVecVal(0, 64)))))
        if nx:
            conj.append(z3.Implies(z3.And(should_fwd, z3.Not(has), okn), z3.And(skipped2 == skipped, passed2 == passed, rd == 0, pd == npd)))
        conj.append(skip2 == skip)
        if 'step' in fams:
            f_step.obligations += 1; f_step.paths += 1
            if ex.feasible(d): f_step.witnesses += 1
            ok_, m = ex.valid(d, z3.And(*conj))
            if ok_:
                f_step.discharged += 1
                f_step.add_sample({'path': [str(z3.simplify(z3.And(*d.pc[-3:])))], 'events': [(e[1], e[2]) for e in nx], 'verdict': 'unsat(negation)'})
            else:
                mv = model_values(m, dict(terms, ret_is_err=rd, ret_decision=pd))
                role = 'step-wrong'
                f_step.candidates.append(Candidate(f_step.name, role, f'Limiter::process deviates from the reference step at {mv} (forwarded={len(nx)})', mv,
                                                   unmodelled=(d.havoc or [None])[0]))
            f_inv.obligations += 1
            if ex.feasible(d): f_inv.witnesses += 1
            ok_, m = ex.valid(d, z3.Implies(rd == 0, v['inv'](skip2, skipped2, passed2)))
            if ok_: f_inv.discharged += 1
            else: f_inv.candidates.append(Candidate(f_inv.name, 'invariant-broken', 'Limiter invariant not preserved', model_values(m, terms)))
    if 'nopanic' in fams and not f_pan.candidates:
        f_pan.obligations += 1; f_pan.discharged += 1; f_pan.witnesses += 1
    run.absorb(ex)
    if 'lifecycle' in fams:
        lifecycle(ctx, 'Limiter', r'^limits::<impl at [^>]*>::', lambda ex, st: _mk(ctx, ex, st)[1])
    replay_limiter(ctx, [c for f in (f_step, f_err, f_pan, f_inv) for c in f.candidates])


def lifecycle(ctx, stage, body_prefix, mkself=None, extra_summaries=(), inline=()):
    """start() and complete() of a stage are forwarded exactly once each, with the successor's result returned
    (complete: after whatever the stage flushes). Used for the stages that hold no rows."""
    run = ctx.run
    fam = run.family(f'{stage}.lifecycle', f'{stage}: complete() reaches the successor exactly once and its result is returned; same for start()')
    ex = ctx.exec(summaries=list(extra_summaries) + [(r'<dyn Process as Process>::(process|complete|start)$', proto_next())], inline=inline)
    for meth in ('complete', 'start'):
        F = ctx.find(body_prefix + meth + '$')
        st = State()
        if mkself is None:
            selfref = slot(st, named(st, 'self', stage), 'self*')
        else:
            selfref = mkself(ex, st)
        args = [selfref] + ([named(st, 'titles', 'Titles')] if meth == 'start' else [])
        ex.new_frame(st, F, args)
        for d in ex.run(st):
            run.paths += 1
            if d.status == 'infeasible':
                continue
            fam.obligations += 1; fam.paths += 1
            if d.status != 'returned':
                fam.candidates.append(Candidate(fam.name, f'{meth}-{d.status}', f'{stage}::{meth} ends with {d.status} {d.notes}', unmodelled=(d.havoc or [None])[0]))
                continue
            nx = next_events(d, meth)
            others = [e for e in next_events(d) if e[1] != meth and not (meth == 'complete' and e[1] == 'process')]
            if len(nx) > 1 or others:
                fam.candidates.append(Candidate(fam.name, f'{meth}-forwarded-{len(nx)}x', f'{stage}::{meth} calls the successor {len(nx)} times / other calls {len(others)}'))
                continue
            rd = ex.discr(d, obj(d, d.ret)).t
            if not nx:
                # legal only if an earlier successor call failed and that failure is what we return
                earlier = next_events(d)
                if earlier:
                    erd = ex.discr(d, obj(d, earlier[-1][4])).t
                    ok_, m = ex.valid(d, z3.And(erd == 1, rd == 1))
                else:
                    ok_, m = ex.valid(d, rd == 1)      # failing before forwarding is fine (e.g. csv without columns)
                if ok_:
                    fam.discharged += 1
                else:
                    fam.candidates.append(Candidate(fam.name, f'{meth}-not-forwarded', f'{stage}::{meth} returns Ok without calling the successor\'s {meth}'))
                continue
            fam.witnesses += 1
            nrd = ex.discr(d, obj(d, nx[0][4])).t
            ok_, m = ex.valid(d, rd == nrd)
            if ok_:
                fam.discharged += 1
                fam.add_sample({'method': meth, 'events': [(e[1], e[2]) for e in next_events(d)], 'assertion': 'result == successor result', 'verdict': 'unsat(negation)'})
            else:
                fam.candidates.append(Candidate(fam.name, f'{meth}-result-changed', f'{stage}::{meth} does not return its successor\'s result'))
    run.absorb(ex)
    replay_lifecycle(ctx, stage, fam.candidates)
    return fam


STAGE_ARGV = {'Limiter': ['--take', '5'], 'Filter': ['--filter', 'true'], 'Splitter': ['--split-by', '(range 1)'], 'Selection': ['--select', '.a=a'],
              'Uniquness': ['--unique'], 'SortProcess': ['--sort-by', '.a'], 'PreSet': ['--set', 'v=1']}


def replay_lifecycle(ctx, stage, cands):
    """complete(): put the stage in front of --merge, whose only output happens in complete(); start(): csv header"""
    from .cli import run_jawk, show
    for c in cands:
        if stage not in STAGE_ARGV:
            c.status = 'unit'; continue
        if c.role.startswith('complete'):
            good = True
            variants = [STAGE_ARGV[stage]] + ([['--skip', '3'], ['--skip', '1', '--take', '1'], ['--take', '0']] if stage == 'Limiter' else [])
            for sa in variants:
                argv = sa + ['--merge']
                r = run_jawk(ctx, argv, b'{"a":1}')
                good = r['rc'] == 0 and r['stdout'].strip().startswith(b'[')
                c.replay = {'argv': argv, 'stdin': '{"a":1}', 'expected': 'one array row (emitted by the merger in complete())', 'actual_stdout': show(r['stdout']), 'rc': r['rc']}
                if not good: break
        else:
            argv = STAGE_ARGV[stage] + (['--select', '.a=a'] if stage != 'Selection' else []) + ['-o', 'csv', '--headers']
            r = run_jawk(ctx, argv, b'{"a":1}')
            good = r['rc'] == 0 and r['stdout'].startswith(b'"a"')
            c.replay = {'argv': argv, 'stdin': '{"a":1}', 'expected': 'header row "a" first', 'actual_stdout': show(r['stdout']), 'rc': r['rc']}
        c.status = 'unit' if good else 'reproduced'


def replay_limiter(ctx, cands):
    """native replay: build the concrete Limiter and run the real process() against a scripted successor"""
    for c in cands:
        mv = c.model
        if not mv or 'skip' not in mv:
            c.status = 'unit'; continue
        lim = f'Some({mv["limit"]}u64)' if mv.get('has_limit') == 1 else 'None'
        # reference outcome
        skipping = mv['skipped'] < mv['skip']
        if skipping: exp = ('Continue', 0, mv['skipped'] + 1, mv['passed'])
        elif mv.get('has_limit') == 1 and mv['passed'] >= mv['limit']: exp = ('Break', 0, mv['skipped'], mv['passed'])
        elif mv.get('has_limit') == 1: exp = ('Break' if mv['passed'] + 1 >= mv['limit'] else 'Continue', 1, mv['skipped'], mv['passed'] + 1)
        else: exp = ('Continue', 1, mv['skipped'], mv['passed'])
        script = 'E' if c.role == 'err-swallowed' else 'C'
        if script == 'E' and exp[1] == 1: exp = ('Err', 1, mv['skipped'], mv['passed'])
        code = '#[cfg(test)]\nmod verif_replay {\n    use super::*;\n' + RUST_MOCK_NEXT + f'''
    #[test]
    fn verif_replay_limiter() {{
        let log = VRc::new(VRefCell::new(Vec::new()));
        let mut l = Limiter {{ skip: {mv["skip"]}u64, limit: {lim}, skipped: {mv["skipped"]}u64, passed: {mv["passed"]}u64,
                              next: Box::new(VNext {{ log: log.clone(), script: vec!['{script}'], at: 0 }}) }};
        let r = std::panic::catch_unwind(std::panic::AssertUnwindSafe(|| l.process(crate::processor::Context::new_empty())));
        match r {{
            Ok(r) => println!("REPLAY ret={{}} forwarded={{}} skipped={{}} passed={{}}", vdec(&r), log.borrow().len(), l.skipped, l.passed),
            Err(_) => println!("REPLAY ret=panic forwarded={{}} skipped={{}} passed={{}}", log.borrow().len(), l.skipped, l.passed),
        }}
    }}
}}
'''
        passed_, out = ctx.tree.unit_test('limits.rs', code, 'verif_replay_limiter')
        import re as _re
        m = _re.search(r'REPLAY ret=(\w+) forwarded=(\d+) skipped=(\d+) passed=(\d+)', out)
        ctx.run.traces_validated += 1
        if not m:
            c.status = 'not-reproduced'; c.replay = {'unit_test_output': out[-1500:]}
            continue
        got = (m.group(1), int(m.group(2)), int(m.group(3)), int(m.group(4)))
        c.replay = {'kind': 'unit test appended to src/limits.rs', 'pre_state': mv, 'expected(ret,forwarded,skipped,passed)': exp, 'actual': got}
        if script == 'E':
            c.status = 'reproduced' if got[0] != 'Err' else 'not-reproduced'
        else:
            c.status = 'reproduced' if got != exp else 'not-reproduced'

