"""Regenerate everything a check needs from /repo's *current working tree*.

Layout (all outside /repo and /verif; nothing here is needed by a later run - it is a cache that is rebuilt when missing):

  $VERIF_CACHE (default /var/tmp/jawk-verif-cache)
      lock                     flock serialising sync + dump + build
      src/                     scratch copy of /repo (rsync -a --delete, mtimes preserved => cargo fingerprints stay valid)
      target-nightly/          cargo target dir of the MIR dump (dependencies compiled once, ~20 s; re-dump 1.3 s)
      target-stable/           cargo target dir of the debug/release jawk binary and of the replay driver
      by-hash/<sha>/           jawk.mir, jawk (debug binary), jawk-release, replay (driver), keyed by the content hash
                               of the scratch copy - so an edit to /repo always produces a new encoding
      kani-src/, target-kani/  scratch copy with harness modules appended, and Kani's target dir
"""
import fcntl, hashlib, os, shutil, subprocess, sys, time, glob

REPO = os.environ.get('VERIF_REPO', '/repo')
CACHE = os.environ.get('VERIF_CACHE', '/var/tmp/jawk-verif-cache')
VERIF = os.path.dirname(os.path.dirname(os.path.abspath(__file__)))
ENV = dict(os.environ, CARGO_NET_OFFLINE='true', CARGO_TERM_COLOR='never')
ENV.pop('RUSTFLAGS', None)
TIMES = {}


class BuildError(Exception):
    pass


class Lock:
    def __init__(self, name='lock'):
        os.makedirs(CACHE, exist_ok=True)
        self.path = os.path.join(CACHE, name)

    def __enter__(self):
        self.f = open(self.path, 'w')
        fcntl.flock(self.f, fcntl.LOCK_EX)
        return self

    def __exit__(self, *a):
        fcntl.flock(self.f, fcntl.LOCK_UN)
        self.f.close()


def _run(cmd, cwd, what, timeout=1800, env=None):
    t0 = time.time()
    p = subprocess.run(cmd, cwd=cwd, env=env or ENV, stdout=subprocess.PIPE, stderr=subprocess.PIPE, timeout=timeout)
    TIMES[what] = round(TIMES.get(what, 0) + time.time() - t0, 2)
    if p.returncode != 0:
        raise BuildError(f'{what} failed (exit {p.returncode}):\n' + p.stderr.decode(errors='replace')[-4000:])
    return p


def _sync(dst):
    os.makedirs(dst, exist_ok=True)
    _run(['rsync', '-a', '--delete', '--exclude', '/target', '--exclude', '/.git', '--exclude', '/book', '--exclude', '/docker',
          REPO + '/', dst + '/'], '/', 'rsync')


def tree_hash(root):
    h = hashlib.sha256()
    files = sorted(glob.glob(os.path.join(root, 'src', '**', '*.rs'), recursive=True)) + \
        [os.path.join(root, 'Cargo.toml'), os.path.join(root, 'Cargo.lock')]
    for p in files:
        if not os.path.exists(p): continue          # Cargo.lock is git-ignored in jawk: a fresh worktree has none
        h.update(os.path.relpath(p, root).encode()); h.update(b'\0')
        with open(p, 'rb') as f:
            h.update(f.read())
        h.update(b'\0')
    return h.hexdigest()[:20]


def _prune(keep):
    d = os.path.join(CACHE, 'by-hash')
    ents = sorted((os.path.getmtime(os.path.join(d, e)), e) for e in os.listdir(d))
    for _, e in ents[:-6]:
        if e != keep:
            shutil.rmtree(os.path.join(d, e), ignore_errors=True)


class Tree:
    """one snapshot of /repo's working tree: hash + lazily built artefacts"""

    def __init__(self):
        with Lock():
            self.src = os.path.join(CACHE, 'src')
            _sync(self.src)
            self.hash = tree_hash(self.src)
            self.dir = os.path.join(CACHE, 'by-hash', self.hash)
            os.makedirs(self.dir, exist_ok=True)
            os.utime(self.dir)
            _prune(self.hash)

    def _resync(self):
        _sync(self.src)
        if tree_hash(self.src) != self.hash:
            raise BuildError('/repo changed while the check was running')

    def mir(self):
        p = os.path.join(self.dir, 'jawk.mir')
        if not os.path.exists(p):
            with Lock():
                if not os.path.exists(p):
                    self._resync()
                    os.utime(os.path.join(self.src, 'src', 'lib.rs'))      # -Zunpretty prints nothing on a fresh re-run
                    r = _run(['cargo', '+nightly', 'rustc', '--offline', '--lib', '--target-dir', os.path.join(CACHE, 'target-nightly'),
                              '--', '-Zunpretty=mir', '-C', 'debug-assertions=off', '-C', 'overflow-checks=on'], self.src, 'mir_dump')
                    if len(r.stdout) < 100000:
                        raise BuildError('MIR dump is unexpectedly small')
                    with open(p + '.tmp', 'wb') as f:
                        f.write(r.stdout)
                    os.rename(p + '.tmp', p)
        return open(p).read()

    def binary(self, release=False):
        name = 'jawk-release' if release else 'jawk'
        p = os.path.join(self.dir, name)
        if not os.path.exists(p):
            with Lock():
                if not os.path.exists(p):
                    self._resync()
                    td = os.path.join(CACHE, 'target-stable')
                    _run(['cargo', 'build', '--offline', '--bin', 'jawk', '--target-dir', td] + (['--release'] if release else []),
                         self.src, 'build_release' if release else 'build_debug')
                    shutil.copy2(os.path.join(td, 'release' if release else 'debug', 'jawk'), p + '.tmp')
                    os.rename(p + '.tmp', p)
        return p

    def replay_driver(self):
        """in-process driver over the public API (jawk::go + Cli::parse_from); see /verif/replay"""
        src = open(os.path.join(VERIF, 'replay', 'main.rs'), 'rb').read() + open(os.path.join(VERIF, 'replay', 'Cargo.toml.in'), 'rb').read()
        p = os.path.join(self.dir, 'replay-' + hashlib.sha256(src).hexdigest()[:12])        # keyed by the driver's own source too
        if not os.path.exists(p):
            with Lock():
                if not os.path.exists(p):
                    self._resync()
                    drv = os.path.join(CACHE, 'replay-src')
                    os.makedirs(os.path.join(drv, 'src'), exist_ok=True)
                    shutil.copy2(os.path.join(VERIF, 'replay', 'main.rs'), os.path.join(drv, 'src', 'main.rs'))
                    cargo = open(os.path.join(VERIF, 'replay', 'Cargo.toml.in')).read().replace('@JAWK@', self.src)
                    with open(os.path.join(drv, 'Cargo.toml'), 'w') as f:
                        f.write(cargo)
                    shutil.copy2(os.path.join(self.src, 'Cargo.lock'), os.path.join(drv, 'Cargo.lock'))
                    td = os.path.join(CACHE, 'target-stable')
                    _run(['cargo', 'build', '--offline', '--target-dir', td], drv, 'build_replay')
                    shutil.copy2(os.path.join(td, 'debug', 'replay'), p + '.tmp')
                    os.rename(p + '.tmp', p)
        return p

    def unit_test(self, module_file, code, test_name, timeout=600):
        """append a #[cfg(test)] module to a scratch copy of src/<module_file> and run one test natively (replay of a
        function-level counterexample against the real code). Returns (passed, output)."""
        with Lock('unit-lock'):
            d = os.path.join(CACHE, 'unit-src')
            _sync(d)
            with open(os.path.join(d, 'src', module_file), 'a') as f:
                f.write('\n' + code + '\n')
            t0 = time.time()
            p = subprocess.run(['cargo', 'test', '--offline', '--lib', '--target-dir', os.path.join(CACHE, 'target-unit'), test_name, '--',
                                '--nocapture', '--test-threads', '1'], cwd=d, env=ENV, stdout=subprocess.PIPE, stderr=subprocess.STDOUT, timeout=timeout)
            TIMES['unit_replay'] = round(TIMES.get('unit_replay', 0) + time.time() - t0, 2)
            out = p.stdout.decode(errors='replace')
            shutil.rmtree(d, ignore_errors=True)
            return p.returncode == 0, out


def warm():
    """setup_cmd: compile dependencies once so that per-check rebuilds take seconds"""
    t = Tree()
    t.mir(); t.binary(); t.replay_driver()
    return t
