"""Master::go (src/lib.rs): the chain of stages built for every option subset; validation-before-I/O ordering;
which sorter gets a capacity. All create_process bodies are inlined, from_str / get_processor are 'Ok(opaque) or Err'."""
import itertools, json, re
import z3
from .lib import *
from .mirsym import Unmodelled
from .report import Candidate, Broken
from .par import pmap


def mkbox(st, inner):
    b = named(st, st.fresh_name('Box'), 'Box'); st.heap[b.oid]['boxed'] = inner
    u = named(st, st.fresh_name('Unique'), 'Unique'); st.heap[b.oid][('f', None, 0)] = u
    st.heap[u.oid][('f', None, 0)] = slot(st, inner, 'boxslot')
    return b


def s_validate(kind):
    def validate(ex, st, func, args, ty):
        out = []
        src = origin(st, args[0]) if args else '?'
        for good in (True, False):
            s2 = st.clone(); cfg = named(s2, s2.fresh_name('cfg:' + kind), kind)
            s2.events.append(('validate', kind, good, src, cfg.oid))
            out.append((s2, ok(s2, cfg) if good else err(s2, named(s2, 'err:' + kind))))
        return out
    return validate


def s_get_processor(ex, st, func, args, ty):
    out = []
    for good in (True, False):
        s2 = st.clone(); s2.events.append(('validate', 'output', good, 'output_options', None))
        if good:
            out.append((s2, ok(s2, mkbox(s2, named(s2, 'OUTPUT', 'Output')))))
        else:
            out.append((s2, err(s2, named(s2, 'err:output'))))
    return out


def s_box_new(ex, st, func, args, ty):
    a = args[0]
    if isinstance(a, Const):            # Box::new(UnitStruct): a stage without fields (and so without a successor)
        nm = re.sub(r'^const\s+', '', a.text or 'unit').split('::')[-1].strip()
        a = named(st, nm, nm)
    return [(st, mkbox(st, a))]


def s_preset(ex, st, func, args, ty):
    v = obj(st, args[0]); n = len(st.heap[v.oid]['model']); out = []
    if n == 0:
        return [(st, ok(st, args[1]))]          # `if self.is_empty() { return Ok(next) }` - the body itself is C03.b / C18.b
    for good in (True, False):
        s2 = st.clone(); s2.events.append(('validate', 'set', good, 'cli.set', None))
        if good:
            o = named(s2, s2.fresh_name('PreSet'), 'PreSet'); s2.heap[o.oid]['next'] = args[1]
            out.append((s2, ok(s2, mkbox(s2, o))))
        else:
            out.append((s2, err(s2, named(s2, 'err:set'))))
    return out


def s_iter_any(ex, st, func, args, ty):
    v = obj(st, args[0])
    if st.meta[v.oid][1] == 'Iter' or 'lazy' in st.heap[v.oid]: return [(st, v)]          # into_iter() of an iterator is the iterator
    return [(st, seqobj(st, 'Iter', [slot(st, x) for x in st.heap[v.oid]['model']]))]


def s_default(ex, st, func, args, ty):
    return [(st, args[0] if args else ObjV(st.new_obj(st.fresh_name('default'), ty or 'opaque')))]


def s_vec_is_empty(ex, st, func, args, ty):
    return [(st, BoolV(z3.BoolVal(len(model(st, args[0])) == 0)))]


def s_is_none(ex, st, func, args, ty):
    return [(st, BoolV(ex.discr(st, obj(st, args[0])).t == 0))]


def s_is_some(ex, st, func, args, ty):
    return [(st, BoolV(ex.discr(st, obj(st, args[0])).t == 1))]


def s_opt_take(ex, st, func, args, ty):
    """Option::take(&mut self) -> old value, leaves None"""
    r = args[0]; old = deref(st, r)
    st.heap[r.oid][r.key] = none(st)
    return [(st, old)]


def make_map_closure(ctx, finished):
    def s_map_closure(ex, st, func, args, ty):
        """Option::<u64>::map(closure): run the closure body on the Some payload"""
        o = args[0]; d = ex.discr(st, o).t; out = []
        if ex.feasible(st, d == 0):
            s2 = st.clone(); s2.pc.append(d == 0); out.append((s2, none(s2)))
        if ex.feasible(st, d == 1):
            s2 = st.clone(); s2.pc.append(d == 1)
            payload = ex.load(s2, o.oid, ('f', 'Some', 0), 'u64')
            try:
                from .scen_kernels2 import closure_body
                clo = closure_body(ex, func)              # the body whose closure type the call names (robust against renumbering)
            except Exception:
                clo = ex.find(r'::go::\{closure#0\}$')
            saved = s2.frames; s2.frames = []
            s2.status = 'running'; ex.new_frame(s2, clo, [args[1], payload])
            for r in ex.run(s2):
                if r.status == 'returned':
                    r.frames = [dict(f) for f in saved]; r.status = 'running'; out.append((r, some(r, r.ret)))
                elif r.status != 'infeasible':
                    r.frames = [dict(f) for f in saved]; r.events.append(('closure_' + r.status, list(r.notes))); r.status = 'panic'; finished.append(r)
        return out
    return s_map_closure


def s_event(name, ret=None):
    def event(ex, st, func, args, ty):
        st.events.append((name,) + tuple(origin(st, a) if isinstance(obj(st, a), ObjV) or isinstance(a, RefV) else str(a) for a in args[1:3]))
        if ret == 'result':
            out = []
            unit = ty is None or re.search(r'Result<\(\)', ty or '') is not None
            for good in (True, False):
                s2 = st.clone()
                if good and not unit:
                    # an edit made the read functions answer something (a decision, a count): any value of that type
                    v = ex.fresh_value(s2, ty, s2.fresh_name(name)); s2.pc.append(ex.discr(s2, v).t == 0)
                    p_ = re.search(r'Result<([^,]+),', ty)
                    if p_ and p_.group(1).strip() in ex.enums:
                        pl = ex.load(s2, v.oid, ('f', 'Ok', 0), p_.group(1).strip()); dd = ex.discr(s2, pl).t
                        s2.pc.append(z3.And(dd >= 0, dd < len(ex.enums[p_.group(1).strip()])))
                    out.append((s2, v))
                else:
                    out.append((s2, ok(s2, UNIT) if good else err(s2, named(s2, 'err:' + name))))
            return out
        return [(st, ex.fresh_value(st, ty or '()', st.fresh_name(name)))]
    event.__name__ = 'event_' + name
    return event


def s_as_mut(ex, st, func, args, ty):
    b = obj(st, args[0]); return [(st, slot(st, b))]


def s_dyn(ex, st, func, args, ty):
    meth = func.split('::')[-1]
    tgt = obj(st, args[0])
    st.events.append((meth, tgt))
    out = []
    for good in (True, False):
        s2 = st.clone(); out.append((s2, ok(s2, UNIT) if good else err(s2, named(s2, 'err:' + meth))))
    return out


def chain(ctx, st, box):
    """walk Box<dyn Process> -> stage struct -> next ..."""
    structs = ctx.structs
    out = []
    first = True
    for _ in range(40):
        o = st.heap[box.oid].get('boxed')
        if o is None and first and st.meta[box.oid][1] != 'Box':
            o = box
        first = False
        if o is None:
            out.append(('?nobox:' + str(st.meta[box.oid]),)); return out
        ty = st.meta[o.oid][1]
        name = st.meta[o.oid][0]
        if name == 'OUTPUT':
            out.append(('Output',)); return out
        ty = ty.split('::')[-1]
        sname = ty if ty in structs or ty in ('PreSet',) else name.split('!')[0]
        if 'next' in st.heap[o.oid]:
            out.append((sname, {})); box = st.heap[o.oid]['next']; continue
        flds = structs.get(sname)
        if flds is None or 'next' not in flds:
            out.append(('?' + sname,)); return out
        info = {}
        for i, fn_ in enumerate(flds):
            v = st.heap[o.oid].get(('f', None, i))
            if fn_ != 'next': info[fn_] = v
        out.append((sname, info)); box = st.heap[o.oid][('f', None, flds.index('next'))]
    out.append(('?too-long',)); return out


def s_collect_result(ex, st, func, args, ty):
    """iter.map(f).collect::<Result<Vec<_>, _>>(): Ok(all payloads in order) unless an element is Err - then that first Err,
    and no further element is asked for (the adaptor short-circuits)"""
    from .scen_kernels2 import force, run_closure
    it = obj(st, args[0]); h = st.heap[it.oid]
    if 'lazy' in h and h['lazy'][0] == 'map':
        kind, src, clo, body = h['lazy']
        out = []
        for s0, items in force(ex, st, src):
            states = [(s0, [])]
            for x in items:
                nxt = []
                for s_, acc in states:
                    for s2, r in run_closure(ex, s_, body, clo, [x]):
                        r = obj(s2, r); d = cval(ex.discr(s2, r).t)
                        if d is None: raise Unmodelled('collect into Result: an element whose variant the path does not decide')
                        if d == 1: out.append((s2, r))
                        else: nxt.append((s2, acc + [s2.heap[r.oid][('f', 'Ok', 0)]]))
                states = nxt
            out += [(s_, ok(s_, seqobj(s_, 'Vec', acc))) for s_, acc in states]
        return out
    out = []
    for s_, items in force(ex, st, args[0]):
        vals = []; bad = None
        for x in items:
            x = obj(s_, x); d = cval(ex.discr(s_, x).t)
            if d is None: raise Unmodelled('collect into Result: an element whose variant the path does not decide')
            if d == 1: bad = x; break
            vals.append(s_.heap[x.oid][('f', 'Ok', 0)])
        out.append((s_, bad if bad is not None else ok(s_, seqobj(s_, 'Vec', vals))))
    return out


def s_split_first(ex, st, func, args, ty):
    m = list(model(st, args[0]))
    if not m: return [(st, none(st))]
    t = named(st, st.fresh_name('split'), 'tuple'); st.heap[t.oid][('f', None, 0)] = slot(st, m[0]); st.heap[t.oid][('f', None, 1)] = slot(st, seqobj(st, 'slice', m[1:]))
    return [(st, some(st, t))]


def s_split_last(ex, st, func, args, ty):
    m = list(model(st, args[0]))
    if not m: return [(st, none(st))]
    t = named(st, st.fresh_name('split'), 'tuple'); st.heap[t.oid][('f', None, 0)] = slot(st, m[-1]); st.heap[t.oid][('f', None, 1)] = slot(st, seqobj(st, 'slice', m[:-1]))
    return [(st, some(st, t))]


STAGE_OF = {'set': 'PreSet', 'split': 'SplitterProcess', 'filter': 'ActiveFilter', 'select': 'SelectionProcess', 'unique': 'Uniquness',
            'sort': 'SortProcess', 'limit': 'Limiter', 'group': 'GrouperProcess', 'merge': 'Merger'}


def _combo(args):
    ctx, combo = args
    n_sel, n_sort, n_set, n_files = combo
    finished = []
    summ = [
        (r'BTreeMap::<.*>::new$|IndexMap::<.*>::new$|HashSet::<.*>::new$|Vec::<JsonValue>::new$|HashMap::<.*>::new$', lambda ex, st, f, a, t: [(st, seqobj(st, 'Container', ()))]),
        (r'<Rc<dyn Get> as Clone>::clone$|<Rc<std::string::String> as Clone>::clone$|<Direction as Clone>::clone$|<sorters::Direction as Clone>::clone$', s_clone),
        (r'OutputOptions::get_processor$', s_get_processor),
        (r'<Grouper as FromStr>::from_str$', s_validate('group')), (r'<Sorter as FromStr>::from_str$', s_validate('sort')),
        (r'<Selection as FromStr>::from_str$', s_validate('select')), (r'<filter::Filter as FromStr>::from_str$|<Filter as FromStr>::from_str$', s_validate('filter')),
        (r'<Splitter as FromStr>::from_str$', s_validate('split')),
        (r'PreSetCollection>::create_process$', s_preset),
        (r'Box::<.*>::new$', s_box_new),
        (r'<std::string::String as Deref>::deref$|<Vec<.*> as Deref>::deref$|<Rc<.*> as Clone>::clone$|<Vec<PathBuf> as Clone>::clone$|<Titles as Default>::default$|<processor::Titles as Default>::default$|String::as_str$|<PathBuf as Deref>::deref$', s_default),
        (r'as Iterator>::map::<std::result::Result<|as Iterator>::map::<Result<', __import__('vf.scen_kernels2', fromlist=['s_lazy']).s_lazy('map')), (r'as Iterator>::collect::<(std::result::)?Result<Vec<', s_collect_result),
        (r'impl \[.*\]>::split_first$', s_split_first), (r'impl \[.*\]>::split_last$', s_split_last),
        (r'impl \[.*\]>::iter$|as IntoIterator>::into_iter$|Vec::<.*>::iter$', s_iter_any), (r'as Iterator>::rev$|DoubleEndedIterator>::rev$', s_iter_rev),
        (r'as Iterator>::next$', s_iter_next), (r'Vec::<.*>::is_empty$', s_vec_is_empty), (r'Option::<.*>::is_none$', s_is_none), (r'Option::<.*>::is_some$', s_is_some),
        (r'Option::<.*>::take$', s_opt_take),
        (r'Option::<u64>::map::<usize', make_map_closure(ctx, finished)),
        (r'as Fn<\(\)>>::call$', s_event('stdin()')), (r'^from_std_in|reader::from_std_in', s_event('from_std_in')),
        (r'Master::<S>::read_input', s_event('read_input', 'result')), (r'Master::<S>::read_file$', s_event('read_file', 'result')),
        (r'display_additional_help$', s_event('help')),
        (r'as AsMut<dyn Process>>::as_mut$', s_as_mut),
        (r'<dyn Process as Process>::(start|complete)$', s_dyn),
    ]
    inl = [(r'Limiter::create_process$', r'^limits::<impl[^>]*>::create_process$'),
           (r'Sorter::create_processor$', r'^sorters::<impl[^>]*>::create_processor$'),
           (r'Uniquness::create_process$', r'^duplication_remover::<impl[^>]*>::create_process$'),
           (r'Merger::create_process$', r'^merger::<impl[^>]*>::create_process$'),
           (r'Grouper::create_process$', r'^grouper::<impl[^>]*>::create_process$'),
           (r'Filter::create_process$', r'^filter::<impl[^>]*>::create_process$'),
           (r'Splitter::create_process$', r'^splitter::<impl[^>]*>::create_process$'),
           (r'Selection::create_process$', r'^selection::<impl[^>]*>::create_process$')]
    ex = ctx.exec(summaries=summ, inline=inl, max_visits=12)
    GO = ex.find(r'^<impl at src/lib.rs:[^>]*>::go$')
    CLI = ctx.structs['Cli']; MASTER = ctx.structs['Master']
    st = State()
    mo = st.new_obj('self', 'Master'); mref = slot(st, ObjV(mo), 'self*')
    cli = st.new_obj('self.cli', 'Cli'); st.heap[mo][('f', None, MASTER.index('cli'))] = ObjV(cli)
    def vec(name, n): return seqobj(st, 'Vec', [named(st, f'{name}{i}', 'String') for i in range(n)], origin='cli.' + name)
    st.heap[cli][('f', None, CLI.index('choose'))] = vec('choose', n_sel)
    st.heap[cli][('f', None, CLI.index('sort_by'))] = vec('sort_by', n_sort)
    st.heap[cli][('f', None, CLI.index('set'))] = vec('set', n_set)
    st.heap[cli][('f', None, CLI.index('files'))] = vec('files', n_files)
    optd = {}
    for f, ty in (('additional_help', 'Option<String>'), ('group_by', 'Option<Option<String>>'), ('filter', 'Option<String>'), ('break_by', 'Option<String>'), ('take', 'Option<u64>')):
        o = ex.load(st, cli, ('f', None, CLI.index(f)), ty); d = ex.discr(st, o); st.pc.append(z3.Or(d.t == 0, d.t == 1)); optd[f] = d.t
        if f == 'group_by':
            inner = ex.load(st, o.oid, ('f', 'Some', 0), 'Option<String>'); di = ex.discr(st, inner); st.pc.append(z3.Or(di.t == 0, di.t == 1)); optd['group_inner'] = di.t
        if f == 'additional_help': st.pc.append(d.t == 0)
        if f == 'take': take_v = ex.load(st, o.oid, ('f', 'Some', 0), 'u64').t
    skip_v = ex.load(st, cli, ('f', None, CLI.index('skip')), 'u64').t
    uniq_v = ex.load(st, cli, ('f', None, CLI.index('unique')), 'bool').t
    ex.new_frame(st, GO, [mref])
    done = ex.run(st) + finished
    res = {'paths': 0, 'fam': {}, 'cands': [], 'samples': [], 'chains': {}}
    def fam(name): return res['fam'].setdefault(name, {'obl': 0, 'ok': 0, 'wit': 0})
    def cand(family, role, text, model_, unmodelled=None):
        res['cands'].append({'family': family, 'role': role, 'text': text, 'model': model_, 'unmodelled': unmodelled})
    for d in done:
        if d.status == 'infeasible':
            continue
        res['paths'] += 1
        evs = d.events
        hav = (d.havoc or [None])[0]
        # ---- C18.a ordering
        first_io = next((i for i, e in enumerate(evs) if e[0] in ('start', 'stdin()', 'from_std_in', 'read_input', 'read_file', 'complete')), len(evs))
        late_validate = [e for e in evs[first_io:] if e[0] == 'validate']
        failed = [e for e in evs if e[0] == 'validate' and not e[2]]
        f18 = fam('go.validate_before_io'); f18['obl'] += 1
        if failed: f18['wit'] += 1
        retd = None
        if d.status == 'returned':
            retd = ex.discr(d, obj(d, d.ret)).t
        bad18 = bool(late_validate) or (failed and first_io < len(evs)) or (failed and (retd is None or not ex.valid(d, retd == 1)[0]))
        if bad18:
            cand('go.validate_before_io', 'late-or-ignored-validation:' + (failed or late_validate)[0][1],
                 f'configuration error of `{(failed or late_validate)[0][1]}` is detected after I/O started or is ignored; events {[e[:3] for e in evs]}',
                 {'combo': combo, 'events': [list(map(str, e[:4])) for e in evs]}, hav)
        else:
            f18['ok'] += 1
        if d.status == 'panic':
            fo = fam('go.nopanic_observation'); fo['obl'] += 1; fo['ok'] += 1; fo['wit'] += 1      # skip+take overflow: outside S,T<=6; observation only
            continue
        if d.status != 'returned':
            cand('go.chain', 'path-' + d.status, f'Master::go path ends as {d.status} {d.notes}', {'combo': combo}, hav); continue
        started = [e for e in evs if e[0] == 'start']
        if not started:
            continue
        ch = chain(ctx, d, started[0][1])
        names = [c[0] for c in ch]
        fc = fam('go.chain'); fc['obl'] += 1; fc['wit'] += 1
        # expected chain, from the option terms decided on this path
        def decided(term, val):
            return ex.valid(d, term == val)[0]
        def presence(term_true):
            if ex.valid(d, term_true)[0]: return True
            if ex.valid(d, z3.Not(term_true))[0]: return False
            return None
        p_split = presence(optd['break_by'] == 1); p_filter = presence(optd['filter'] == 1)
        p_uniq = presence(uniq_v)
        p_lim = presence(z3.Not(z3.And(skip_v == 0, optd['take'] == 0)))
        p_group = presence(z3.And(optd['group_by'] == 1, optd['group_inner'] == 1))
        p_merge = presence(z3.And(optd['group_by'] == 1, optd['group_inner'] == 0))
        und = [n for n, p in (('split', p_split), ('filter', p_filter), ('unique', p_uniq), ('limit', p_lim), ('group', p_group), ('merge', p_merge)) if p is None]
        exp = []
        if n_set > 0: exp.append('PreSet')
        if p_split: exp.append('SplitterProcess')
        if p_filter: exp.append('ActiveFilter')
        exp += ['SelectionProcess'] * n_sel
        if p_uniq: exp.append('Uniquness')
        exp += ['SortProcess'] * n_sort
        if p_lim: exp.append('Limiter')
        if p_group: exp.append('GrouperProcess')
        if p_merge: exp.append('Merger')
        exp.append('Output')
        key = ' > '.join(names)
        res['chains'][key] = res['chains'].get(key, 0) + 1
        okc = not und and names == exp
        desc_opts = {'n_select': n_sel, 'n_sort': n_sort, 'n_set': n_set, 'split': p_split, 'filter': p_filter, 'unique': p_uniq, 'limiter': p_lim,
                     'group': p_group, 'merge': p_merge}
        if okc:
            # parameters: selections outside-in = choose0.. ; sorters outside-in = sort_by[n-1]..sort_by[0]
            cfg_src = {e[4]: e[3] for e in evs if e[0] == 'validate' and e[2] and e[4] is not None}
            sels = [c for c in ch if c[0] == 'SelectionProcess']; sorts = [c for c in ch if c[0] == 'SortProcess']
            def src_of(info):
                for fv in info.values():
                    if isinstance(fv, ObjV):
                        o_ = d.meta[fv.oid][0]
                        for oid_, s_ in cfg_src.items():
                            if o_.startswith(d.meta[oid_][0] + '.') or o_ == d.meta[oid_][0]:
                                return s_
                return None
            sel_src = [src_of(c[1]) for c in sels]; sort_src = [src_of(c[1]) for c in sorts]
            if sel_src != [f'choose{i}' for i in range(n_sel)]:
                okc = False; desc_opts['selection_order'] = sel_src
            if sort_src != [f'sort_by{i}' for i in reversed(range(n_sort))]:
                okc = False; desc_opts['sort_order'] = sort_src
            lim = [c for c in ch if c[0] == 'Limiter']
            if lim:
                info = lim[0][1]
                good = ex.valid(d, z3.And(info['skip'].t == skip_v, info['skipped'].t == 0, info['passed'].t == 0))[0]
                ld = ex.discr(d, info['limit']).t
                good = good and ex.valid(d, ld == optd['take'])[0] and ex.valid(d, z3.Implies(ld == 1, ex.load(d, info['limit'].oid, ('f', 'Some', 0), 'u64').t == take_v))[0]
                if not good:
                    okc = False; desc_opts['limiter_params'] = 'differ from --skip/--take'
        if okc:
            fc['ok'] += 1
            if len(res['samples']) < 2 and len(names) > 4:
                res['samples'].append({'options': {k: str(v) for k, v in desc_opts.items()}, 'chain_outside_in': names, 'verdict': 'equals the documented order'})
        else:
            cand('go.chain', 'chain-differs', f'options {desc_opts}: chain built is {names}, documented order is {exp}' + (f' (undecided options: {und})' if und else ''),
                 {'options': {k: (v if isinstance(v, (int, bool, type(None))) else str(v)) for k, v in desc_opts.items()}, 'chain': names, 'expected': exp}, hav)
        # ---- C17: inputs in argv order, one index for the whole run
        rf = [e for e in evs if e[0] == 'read_file']; ri = [e for e in evs if e[0] == 'read_input']; si = [e for e in evs if e[0] == 'stdin()']
        if not (rf or ri or si):
            good_in = None        # the run ended before any input (failed validation or start)
        elif n_files == 0:
            good_in = not rf and len(si) == 1 and len(ri) == 1
        else:
            # a failing file ends the run: the files read are a prefix of argv order
            good_in = not si and not ri and [e[1] for e in rf] == [f'files{i}' for i in range(len(rf))] and len(set(e[2] for e in rf)) <= 1 and 1 <= len(rf) <= n_files
        if good_in is not None:
            fi = fam('go.inputs'); fi['obl'] += 1; fi['wit'] += 1
        if good_in: fi['ok'] += 1
        elif good_in is False: cand('go.inputs', 'inputs-order', f'inputs are not read in argv order with one index: {[e[:3] for e in evs if e[0] in ("read_file", "read_input", "stdin()")]}', {'n_files': n_files}, hav)
        # ---- end of input reaches the chain: complete() exactly once after the last successful read
        comps = [e for e in evs if e[0] == 'complete']
        reads = [i for i, e in enumerate(evs) if e[0] in ('read_file', 'read_input')]
        if reads and d.status == 'returned':
            fcm = fam('go.complete'); fcm['obl'] += 1; fcm['wit'] += 1
            ok_ret = ex.valid(d, retd == 0)[0]
            # the summaries answer Err or Ok for every read / start / complete; a run that returns Ok must have completed
            # the chain head once, after the last read
            if ok_ret:
                goodc = len(comps) == 1 and started and comps[0][1].oid == started[0][1].oid and evs.index(comps[0]) > reads[-1]
            else:
                goodc = len(comps) <= 1
            if goodc: fcm['ok'] += 1
            else: cand('go.complete', 'complete-not-called', f'a run that read its input successfully returns Ok without calling complete() once on the chain: {[e[0] for e in evs if e[0] in ("start", "read_input", "read_file", "complete")]}', {'combo': combo}, hav)
        # ---- C08.c capacity placement
        for i, c in enumerate(ch):
            if c[0] == 'SortProcess' and len(c) > 1:
                f8 = fam('go.capacity'); f8['obl'] += 1
                sl = c[1]['space_left']; dsc = ex.discr(d, sl).t
                has_cap = not ex.valid(d, dsc == 0)[0]
                nxt = ch[i + 1][0] if i + 1 < len(ch) else None
                if has_cap: f8['wit'] += 1
                if has_cap and nxt != 'Limiter':
                    cand('go.capacity', 'capacity-on-outer-sorter', f'a sorter that is not directly in front of the limiter gets a row capacity: chain {names}',
                         {'chain': names, 'n_sort': n_sort}, hav)
                elif has_cap:
                    payload = ex.load(d, sl.oid, ('f', 'Some', 0), 'usize')
                    if not hasattr(payload, 't'):
                        cand('go.capacity', 'capacity-unknown', 'the sorter capacity is not an integer the path determines', {'chain': names}, hav or 'opaque capacity'); continue
                    payload = payload.t
                    okv, m = ex.valid(d, z3.Implies(dsc == 1, payload == skip_v + take_v))
                    if okv: f8['ok'] += 1
                    else: cand('go.capacity', 'capacity-not-skip-plus-take', 'the sorter capacity is not skip + take',
                               {'skip': m.eval(skip_v, True).as_long(), 'take': m.eval(take_v, True).as_long(), 'capacity': m.eval(payload, True).as_long()}, hav)
                else:
                    f8['ok'] += 1
    res['queries'] = ex.queries; res['solver_s'] = ex.solver_s
    res['unhandled'] = dict(ex.unhandled); res['summaries'] = list(ex.used_summaries); res['bodies'] = list(ex.used_bodies)
    return res


def go_chain(ctx, want=('go.chain', 'go.capacity', 'go.validate_before_io'), files_only=False):
    run = ctx.run
    mx = 2
    combos = list(itertools.product(range(mx + 1), range(mx + 1), (0, 1), (0, 1)))
    if files_only: combos = [(0, 0, 0, 0), (0, 0, 0, 1), (0, 0, 0, 2), (1, 1, 0, 2), (0, 0, 0, 3)]
    if ctx.quick and not files_only:
        combos = [c for c in combos if c[3] == 0 or (c[0] <= 1 and c[1] <= 1)]
    if not files_only:
        combos += [(0, 3, 0, 0), (3, 0, 0, 0)] + ([] if ctx.quick else [(1, 3, 0, 0), (3, 1, 0, 0), (3, 3, 1, 0)])       # three repeated --sort-by / --select: where a middle element can go astray
    run.bounds['go'] = f'Cli fully symbolic: every Option discriminant, unique, skip, take free; --select x{{0..{mx}}} and 3, --sort-by x{{0..{mx}}} and 3, --set x{{0,1}}, files x{{0,1}}; every from_str / get_processor outcome (Ok/Err); {len(combos)} vector-length combinations'
    run.assume('from_str / get_processor / PreSetCollection::create_process are summarised as "Ok(opaque configuration) or Err" here (their own behaviour is C18.b / C13)')
    results = pmap(_combo, [(ctx, c) for c in combos])
    descs = {'go.chain': 'the chain built by go(), read outside-in, is PreSet? Splitter? Filter? Selection1..n Uniquness? Sort_m..Sort_1 Limiter? Grouper|Merger? Output with each stage present iff its option is, and with the option\'s own parameters',
             'go.capacity': 'a sorter gets a capacity only when it feeds the limiter directly, and then exactly skip+take',
             'go.validate_before_io': 'every configuration validation precedes start(), the stdin factory and any read; a failed validation returns Err with nothing started',
             'go.complete': 'when every read succeeded, complete() is called exactly once on the head of the chain after the last read (so buffered stages - sort, group, merge - flush), whatever was read',
             'go.inputs': 'without files stdin is opened once and read once; with files they are read in argv order, a prefix of them if one fails, all through the same index cell',
             'go.nopanic_observation': 'observation: skip+take overflow assert (outside S,T <= 6)'}
    cands = []
    chains = {}
    for r in results:
        run.paths += r['paths']; run.queries += r['queries']; run.solver_s += r['solver_s']
        for k, v in r['unhandled'].items(): run.unmodelled[k] += v
        for s in r['summaries']: run.summaries[s] = True
        for b in r['bodies']: run.functions[b] = True
        for k, v in r['chains'].items(): chains[k] = chains.get(k, 0) + v
        for name, c in r['fam'].items():
            if name not in want and name != 'go.nopanic_observation': continue
            f = run.family(name, descs[name]); f.obligations += c['obl']; f.discharged += c['ok']; f.witnesses += c['wit']; f.paths += c['obl']
            if name == 'go.nopanic_observation': f.need_witness = False
        for s in r['samples']:
            if 'go.chain' in want: run.family('go.chain', descs['go.chain']).add_sample(s)
        for c in r['cands']:
            if c['family'] in want:
                cands.append(Candidate(c['family'], c['role'], c['text'], c['model'], unmodelled=c['unmodelled']))
    run.notes.append(f'distinct chains extracted: {len(chains)}')
    # one candidate per role is reported; for a differing chain up to 16 distinct option sets are tried natively (the ones
    # with a limiter / sorter / unique first: those make a changed order observable) and the first that reproduces is kept
    groups = {}
    for c in cands:
        groups.setdefault((c.family, c.role), []).append(c)
    chosen = []
    for (famname, role), lst in groups.items():
        f = run.family(famname, descs[famname])
        if role == 'chain-differs':
            def weight(c):
                o = c.model.get('options', {})
                return -(3 * (o.get('limiter') is True) + 2 * bool(o.get('n_sort')) + 2 * (o.get('unique') is True) + (o.get('n_select') or 0) + (o.get('group') is True) + (o.get('merge') is True) + (o.get('split') is True) + (o.get('filter') is True))
            uniq = {}
            for c in sorted(lst, key=weight):
                uniq.setdefault(json.dumps(c.model.get('options'), sort_keys=True, default=str), c)
            tries = list(uniq.values())[:16]
            replay_go(ctx, tries)
            hit = next((c for c in tries if c.status == 'reproduced'), None) or next((c for c in tries if c.status == 'inconclusive'), None) or tries[0]
            if hit.status == 'not-reproduced': hit.status = 'unit'
            f.candidates.append(hit)
        else:
            replay_go(ctx, lst[:1]); f.candidates.append(lst[0])


def replay_go(ctx, cands):
    from .cli import run_jawk, show
    from . import refpipe
    for c in cands:
        if c.role == 'capacity-on-outer-sorter':
            rows = [{'a': 1, 'b': 2, 'i': 0}, {'a': 1, 'b': 1, 'i': 1}, {'a': 0, 'b': 3, 'i': 2}, {'a': 0, 'b': 0, 'i': 3}]
            found = None
            for argv_s, sorts, take in ((['--sort-by', '.a', '--sort-by', '.b', '--take', '1'], [('.a', False), ('.b', False)], 1),
                                        (['--sort-by', '.a=DESC', '--sort-by', '.b', '--take', '2'], [('.a', True), ('.b', False)], 2),
                                        (['--sort-by', '.b', '--sort-by', '.a=DESC', '--take', '1'], [('.b', False), ('.a', True)], 1)):
                exp = refpipe.pipeline(rows, sorts=sorts, take=take)
                r = run_jawk(ctx, argv_s + ['--style', 'consise'], ' '.join(json.dumps(x) for x in rows).encode())
                got = [json.loads(l) for l in show(r['stdout']).splitlines() if l.strip()]
                if got != exp:
                    found = {'argv': argv_s, 'stdin': rows, 'expected': exp, 'actual': got}; break
            c.replay = found or {'note': 'three multi-key demonstrations all matched the reference'}
            c.status = 'reproduced' if found else 'unit'
        elif c.role == 'chain-differs':
            c.status, c.replay = replay_chain(ctx, c)
        elif c.role == 'complete-not-called':
            found = None
            for argv, stdin in ((['--merge'], b''), (['--merge', '--take', '1'], b'1 2'), (['--group-by', '.k'], b''), (['--sort-by', '.'], b'2 1'), (['--merge', '--take', '0'], b'1'), (['--merge', '--only-objects-and-arrays'], b'1 2')):
                r = run_jawk(ctx, argv + ['--style', 'consise'], stdin)
                if not show(r['stdout']).strip():
                    found = {'argv': argv, 'stdin': show(stdin), 'expected': 'one collection / the sorted rows', 'actual': show(r['stdout'])}; break
            c.replay = found; c.status = 'reproduced' if found else 'unit'
        elif c.role.startswith('late-or-ignored-validation'):
            c.status = 'unit'
        else:
            c.status = 'unit'


ROWS3 = [{'a': 1, 'p': 1, 'q': 2, 'k': 'x', 'f': True, 'l': []}, {'a': 1, 'p': 2, 'q': 1, 'k': 'y', 'f': True, 'l': []}, {'a': 0, 'p': 9, 'q': 9, 'k': 'x', 'f': True, 'l': []}, {'a': 1, 'p': 1, 'q': 1, 'k': 'z', 'f': False, 'l': []},
         {'a': 1, 'p': 2, 'q': 0, 'k': 'y', 'f': True, 'l': []}, {'a': 2, 'p': 0, 'q': 0, 'k': 'x', 'f': True, 'l': []}]
ROWS = [{'a': 3, 'k': 'z', 'f': True, 'l': [{'a': 9, 'k': 'z', 'f': True}]},
        {'a': 2, 'k': 'x', 'f': True, 'l': [{'a': 5, 'k': 'y', 'f': True}, {'a': 4, 'k': 'x', 'f': False}]},
        {'a': 1, 'k': 'y', 'f': True, 'l': [{'a': 3, 'k': 'x', 'f': True}]},
        {'a': 2, 'k': 'x', 'f': False, 'l': []},
        {'a': 1, 'k': 'y', 'f': True, 'l': [{'a': 3, 'k': 'x', 'f': True}]},
        {'a': 0, 'k': 'z', 'f': True, 'l': 7}, 5]


def replay_chain(ctx, c):
    """run option subsets shaped like the model's on a fixed 6-row input and compare with the reference pipeline"""
    from .cli import run_jawk, show
    from . import refpipe
    o = c.model.get('options', {})
    tries = []
    n_sel = o.get('n_select', 0) or 0; n_sort = o.get('n_sort', 0) or 0
    ROWS = ROWS3 if n_sort >= 3 or n_sel >= 3 else globals()['ROWS']
    for skip, take in ((1, 2), (0, 1), (0, 2), (2, None), (0, 0), (1, 0)):
        argv = []; kw = {}
        if o.get('n_set'): argv += ['--set', 'v=1']
        if o.get('split') in (True, 'True'): argv += ['--split-by', '.l']; kw['split'] = '.l'
        if o.get('filter') in (True, 'True'): argv += ['--filter', '.f']; kw['filt'] = '.f'
        sel = [('.a', 'a'), ('.k', 'k'), ('.q', 'q')][:n_sel]
        for p, n in sel: argv += ['--select', f'{p}={n}']
        kw['selects'] = sel
        if o.get('unique') in (True, 'True'): argv += ['--unique']; kw['unique'] = True
        srt = ([('.a', False), ('.p', False), ('.q', False)] if n_sort >= 3 else [('.a', False), ('.k', True)])[:n_sort]
        for p, dsc in srt: argv += ['--sort-by', p + ('=DESC' if dsc else '')]
        kw['sorts'] = srt
        if o.get('limiter') in (True, 'True'):
            argv += ['--skip', str(skip)] + (['--take', str(take)] if take is not None else []); kw['skip'] = skip; kw['take'] = take
        if o.get('group') in (True, 'True'): argv += ['--group-by', '.k']; kw['group'] = '.k'
        if o.get('merge') in (True, 'True'): argv += ['--merge']; kw['merge'] = True
        exp = refpipe.pipeline(ROWS, **kw)
        r = run_jawk(ctx, argv + ['--style', 'consise'], ' '.join(json.dumps(x) for x in ROWS).encode())
        try:
            got = [json.loads(l) for l in show(r['stdout']).splitlines() if l.strip()]
        except Exception:
            got = show(r['stdout'])
        tries.append({'argv': argv, 'expected': exp, 'actual': got, 'rc': r['rc']})
        if got != exp or r['rc'] != 0:
            return 'reproduced', tries[-1]
        if not o.get('limiter') in (True, 'True'):
            break
    return 'not-reproduced', {'tries': tries}
