"""SortProcess (src/sorters.rs): k rows with free keys under an abstract total order; stability; top-N shortcut."""
import json, re
import z3
from .lib import *
from .report import Candidate, Broken


def rank_of(st, key):            # abstract total order on keys: one Int per key origin
    return z3.Int('rank:' + st.meta[key.oid][0])


def s_get(ex, st, func, args, ty):
    ctx = obj(st, args[1]); name = st.meta[ctx.oid][0]
    out = []
    for present in (True, False):
        s2 = st.clone()
        if present:
            key = ObjV(s2.new_obj('key:' + name, 'JsonValue'))
            s2.events.append(('key', name, 'some')); out.append((s2, some(s2, key)))
        else:
            s2.events.append(('key', name, 'none')); out.append((s2, none(s2)))
    return out


def s_entry(ex, st, func, args, ty):
    m = obj(st, args[0]); key = args[1]; r = rank_of(st, key)
    ents = st.heap[m.oid].get('model', ())
    out = []
    for i in range(len(ents) + 1):            # vacant at position i
        lo = ents[i - 1][0] < r if i > 0 else z3.BoolVal(True)
        hi = r < ents[i][0] if i < len(ents) else z3.BoolVal(True)
        c = z3.And(lo, hi)
        if ex.feasible(st, c):
            s2 = st.clone(); s2.pc.append(c)
            e = s2.new_obj(s2.fresh_name('entry'), 'Entry'); s2.heap[e]['model'] = ('vacant', m.oid, i, r, key); out.append((s2, ObjV(e)))
    for i in range(len(ents)):
        c = r == ents[i][0]
        if ex.feasible(st, c):
            s2 = st.clone(); s2.pc.append(c)
            e = s2.new_obj(s2.fresh_name('entry'), 'Entry'); s2.heap[e]['model'] = ('occupied', m.oid, i); out.append((s2, ObjV(e)))
    return out


def s_or_default(ex, st, func, args, ty):
    e = st.heap[args[0].oid]['model']
    mo = e[1]; ents = list(st.heap[mo].get('model', ()))
    if e[0] == 'vacant':
        dq = st.new_obj(st.fresh_name('deque'), 'VecDeque'); st.heap[dq]['model'] = ()
        ents.insert(e[2], (e[3], e[4], dq)); st.heap[mo]['model'] = tuple(ents)
    else:
        dq = ents[e[2]][2]
    return [(st, slot(st, ObjV(dq)))]


def dq_of(st, ref): return obj(st, ref).oid
def s_push_front(ex, st, func, args, ty):
    d = dq_of(st, args[0]); st.heap[d]['model'] = (args[1],) + st.heap[d]['model']; return [(st, UNIT)]
def s_push_back(ex, st, func, args, ty):
    d = dq_of(st, args[0]); st.heap[d]['model'] = st.heap[d]['model'] + (args[1],); return [(st, UNIT)]
def s_pop_back(ex, st, func, args, ty):
    d = dq_of(st, args[0]); m = st.heap[d]['model']
    if not m: return [(st, none(st))]
    st.heap[d]['model'] = m[:-1]; return [(st, some(st, m[-1]))]
def s_pop_front(ex, st, func, args, ty):
    d = dq_of(st, args[0]); m = st.heap[d]['model']
    if not m: return [(st, none(st))]
    st.heap[d]['model'] = m[1:]; return [(st, some(st, m[0]))]
def s_dq_is_empty(ex, st, func, args, ty):
    d = dq_of(st, args[0]); return [(st, BoolV(z3.BoolVal(len(st.heap[d]['model']) == 0)))]
def s_dq_len(ex, st, func, args, ty):
    d = dq_of(st, args[0]); return [(st, BV(bv64(len(st.heap[d]['model']))))]
def s_last_entry(ex, st, func, args, ty, first=False):
    m = obj(st, args[0]); ents = st.heap[m.oid].get('model', ())
    if not ents: return [(st, none(st))]
    e = st.new_obj(st.fresh_name('occ'), 'OccupiedEntry'); st.heap[e]['model'] = ('occupied', m.oid, 0 if first else len(ents) - 1)
    return [(st, some(st, ObjV(e)))]
def s_first_entry(ex, st, func, args, ty): return s_last_entry(ex, st, func, args, ty, True)
def s_occ_get_mut(ex, st, func, args, ty):
    e = obj(st, args[0])
    _, mo, i = st.heap[e.oid]['model']
    return [(st, slot(st, ObjV(st.heap[mo]['model'][i][2])))]
def s_occ_remove(ex, st, func, args, ty):
    e = obj(st, args[0]); _, mo, i = st.heap[e.oid]['model']
    ents = list(st.heap[mo]['model']); dq = ents.pop(i)[2]; st.heap[mo]['model'] = tuple(ents)
    return [(st, ObjV(dq))]
def s_pop_last(ex, st, func, args, ty, first=False):
    m = obj(st, args[0]); ents = list(st.heap[m.oid].get('model', ()))
    if not ents: return [(st, none(st))]
    e = ents.pop(0 if first else -1); st.heap[m.oid]['model'] = tuple(ents)
    t = named(st, st.fresh_name('kv'), 'tuple'); st.heap[t.oid][('f', None, 0)] = e[1]; st.heap[t.oid][('f', None, 1)] = ObjV(e[2])
    return [(st, some(st, t))]
def s_pop_first(ex, st, func, args, ty): return s_pop_last(ex, st, func, args, ty, True)
def s_values_mut(ex, st, func, args, ty):
    m = obj(st, args[0]); ents = st.heap[m.oid].get('model', ())
    it = st.new_obj(st.fresh_name('iter'), 'Iter'); st.heap[it]['model'] = tuple(slot(st, ObjV(e[2])) for e in ents)
    return [(st, ObjV(it))]
def s_map_clear(ex, st, func, args, ty):
    m = obj(st, args[0]); st.heap[m.oid]['model'] = (); return [(st, UNIT)]
def s_map_is_empty(ex, st, func, args, ty):
    m = obj(st, args[0]); return [(st, BoolV(z3.BoolVal(len(st.heap[m.oid].get('model', ())) == 0)))]


def s_map_take(ex, st, func, args, ty):
    """std::mem::take(&mut map) / mem::replace(&mut map, BTreeMap::new()): the old map out, an empty one in"""
    r = args[0]; old = deref(st, r)
    if not isinstance(old, ObjV) or 'model' not in st.heap[old.oid]:
        if isinstance(old, ObjV) and 'BTreeMap' in str(st.meta[old.oid][1]): st.heap[old.oid].setdefault('model', ())
        else: return None
    n = st.new_obj(st.fresh_name('emptymap'), st.meta[old.oid][1]); st.heap[n]['model'] = ()
    st.heap[r.oid][r.key] = ObjV(n)
    return [(st, old)]
def s_into_values(ex, st, func, args, ty):
    m = obj(st, args[0]); ents = st.heap[m.oid].get('model', ())
    it = st.new_obj(st.fresh_name('iter'), 'Iter'); st.heap[it]['model'] = tuple(ObjV(e[2]) for e in ents)
    return [(st, ObjV(it))]
def s_values(ex, st, func, args, ty):
    m = obj(st, args[0]); ents = st.heap[m.oid].get('model', ())
    it = st.new_obj(st.fresh_name('iter'), 'Iter'); st.heap[it]['model'] = tuple(slot(st, ObjV(e[2])) for e in ents)
    return [(st, ObjV(it))]


def s_keys(ex, st, func, args, ty):
    m = obj(st, args[0]); ents = st.heap[m.oid].get('model', ())
    it = st.new_obj(st.fresh_name('iter'), 'Iter'); st.heap[it]['model'] = tuple(slot(st, e[1]) for e in ents)
    return [(st, ObjV(it))]
def s_iter_next_back(ex, st, func, args, ty):
    it = obj(st, args[0]); m = st.heap[it.oid]['model']
    if not m: return [(st, none(st))]
    st.heap[it.oid]['model'] = m[:-1]; return [(st, some(st, m[-1]))]
def s_first_kv(ex, st, func, args, ty, last=False):
    m = obj(st, args[0]); ents = st.heap[m.oid].get('model', ())
    if not ents: return [(st, none(st))]
    e = ents[-1 if last else 0]
    t = named(st, st.fresh_name('kv'), 'tuple'); st.heap[t.oid][('f', None, 0)] = slot(st, e[1]); st.heap[t.oid][('f', None, 1)] = slot(st, ObjV(e[2]))
    return [(st, some(st, t))]
def s_last_kv(ex, st, func, args, ty): return s_first_kv(ex, st, func, args, ty, True)
def s_key_cmp(ex, st, func, args, ty):
    """<JsonValue as PartialOrd>::lt/le/gt/ge and Ord::cmp on sort keys: the abstract total order (ranks)"""
    a, b = obj(st, args[0]), obj(st, args[1]); ra, rb = rank_of(st, a), rank_of(st, b); op = func.rsplit('::', 1)[1]
    if op == 'cmp':
        o = st.new_obj(st.fresh_name('ord'), 'Ordering'); st.heap[o]['discr'] = BV(z3.If(ra < rb, z3.BitVecVal(-1, 64), z3.If(ra == rb, z3.BitVecVal(0, 64), z3.BitVecVal(1, 64))), True); return [(st, ObjV(o))]
    return [(st, BoolV({'lt': ra < rb, 'le': ra <= rb, 'gt': ra > rb, 'ge': ra >= rb, 'eq': ra == rb, 'ne': ra != rb}[op]))]
def s_opt_closure_sorter(ex, st, func, args, ty):
    """Option::map / and_then / is_some_and / map_or with the real closure"""
    from .scen_kernels2 import closure_body, run_closure
    o = obj(st, args[0]); d = ex.discr(st, o).t; out = []
    kind = 'map_or' if '::map_or::<' in func else 'is_some_and' if '::is_some_and::<' in func else 'and_then' if '::and_then::<' in func else 'map'
    clo = args[2] if kind == 'map_or' else args[1]
    if ex.feasible(st, d == 0):
        s2 = st.clone(); s2.pc.append(d == 0)
        out.append((s2, args[1] if kind == 'map_or' else BoolV(z3.BoolVal(False)) if kind == 'is_some_and' else none(s2)))
    if ex.feasible(st, d == 1):
        st.pc.append(d == 1)
        for s2, r in run_closure(ex, st, closure_body(ex, func), clo, [ex.load(st, o.oid, ('f', 'Some', 0), 'opaque')]):
            out.append((s2, some(s2, r) if kind == 'map' else r))
    return out
def s_map_len(ex, st, func, args, ty):
    m = obj(st, args[0]); return [(st, BV(bv64(len(st.heap[m.oid].get('model', ())))))]


def s_next(ex, st, func, args, ty):
    meth = func.split('::')[-1]
    v = ex.fresh_value(st, ty, st.fresh_name('next.' + meth))
    d = ex.discr(st, v); st.pc.append(d.t == 0)            # downstream succeeds here; error propagation is the sorter.err family
    if meth == 'process':
        pd = ex.load(st, v.oid, ('f', 'Ok', 0), 'ProcessDesision'); dd = ex.discr(st, pd); st.pc.append(z3.Or(dd.t == 0, dd.t == 1))
        st.events.append(('emit', st.meta[obj(st, args[1]).oid][0]))
    else:
        st.events.append(('next.' + meth,))
    return [(st, v)]


SUMM = [
    (r'<dyn Get as Get>::get$', s_get),
    (r'BTreeMap::<.*>::entry$', s_entry), (r'Entry::<.*>::or_default$|Entry::<.*>::or_insert_with', s_or_default),
    (r'VecDeque::<.*>::push_front$', s_push_front), (r'VecDeque::<.*>::push_back$', s_push_back),
    (r'VecDeque::<.*>::pop_back$', s_pop_back), (r'VecDeque::<.*>::pop_front$', s_pop_front),
    (r'VecDeque::<.*>::is_empty$', s_dq_is_empty), (r'VecDeque::<.*>::len$', s_dq_len),
    (r'BTreeMap::<.*>::last_entry$', s_last_entry), (r'BTreeMap::<.*>::first_entry$', s_first_entry),
    (r'BTreeMap::<.*>::pop_last$', s_pop_last), (r'BTreeMap::<.*>::pop_first$', s_pop_first),
    (r'OccupiedEntry::<.*>::get_mut$|OccupiedEntry::<.*>::into_mut$', s_occ_get_mut), (r'OccupiedEntry::<.*>::remove$', s_occ_remove),
    (r'BTreeMap::<.*>::keys$', s_keys), (r'as DoubleEndedIterator>::next_back$', s_iter_next_back), (r'BTreeMap::<.*>::first_key_value$', s_first_kv), (r'BTreeMap::<.*>::last_key_value$', s_last_kv),
    (r'^<&?JsonValue as PartialOrd(<&?JsonValue>)?>::(lt|le|gt|ge)$|^<&?JsonValue as Ord>::cmp$|^<&?JsonValue as PartialEq(<&?JsonValue>)?>::(eq|ne)$', s_key_cmp),
    (r'Option::<.*>::map::<|Option::<.*>::and_then::<|Option::<.*>::is_some_and::<|Option::<.*>::map_or::<', s_opt_closure_sorter), (r'BTreeMap::<.*>::len$', s_map_len),
    (r'std::mem::take::<BTreeMap<', s_map_take), (r'BTreeMap::<.*>::into_values$', s_into_values), (r'BTreeMap::<.*>::values$', s_values),
    (r'^Box::<.*(IntoValues|Rev|Iter|ValuesMut|Values|IntoIter).*>::new$', s_identity),
    (r'BTreeMap::<.*>::values_mut$', s_values_mut), (r'as Iterator>::rev$|as DoubleEndedIterator>::rev$', s_iter_rev),
    (r'as IntoIterator>::into_iter$', s_identity),
    (r'as Iterator>::next$', s_iter_next), (r'BTreeMap::<.*>::clear$', s_map_clear), (r'BTreeMap::<.*>::is_empty$', s_map_is_empty),
    (r'<dyn Process as Process>::(process|complete|start)$', s_next),
]


def sorter(ctx, want_order=True, want_topn=True):
    run = ctx.run
    K = 3 if ctx.quick else 4
    caps = [None] if not want_topn else ([None, 0, 1, 2] if ctx.quick else [None, 0, 1, 2, 3])
    if not want_order:
        caps = [c for c in caps if c is not None]
    run.bounds['sorter'] = f'k <= {K} rows, key of each row absent or present with a free rank under an abstract total order (ties included), ASC and DESC, capacity in {caps}'
    run.assume('BTreeMap/VecDeque modelled as ordered sequences (both ends of every operation); the key order is an abstract total order (one Int rank per key) - its being a total order is C07.a')
    # every inherent method of SortProcess found in the MIR is executed (a helper added by an edit is code of the stage)
    rl = [n for n in ctx.fns if re.search(r'^sorters::<impl at [^>]*>::remove_last_item$', n)]
    helpers = []
    if len(rl) == 1:
        span = re.match(r'^(sorters::<impl at [^>]*>)::', rl[0]).group(1)
        helpers = [(r'SortProcess::%s$' % re.escape(n[len(span) + 2:]), '^' + re.escape(n) + '$') for n in ctx.fns if n.startswith(span + '::') and '{' not in n[len(span):]]
    ex = ctx.exec(summaries=SUMM, inline=helpers or [(r'SortProcess::remove_last_item$', r'^sorters::<impl at [^>]*>::remove_last_item$')], max_visits=40)
    F_PROC = ctx.find(r'^sorters::<impl at [^>]*>::process$')
    F_COMP = ctx.find(r'^sorters::<impl at [^>]*>::complete$')
    SP = ctx.structs['SortProcess']
    DIRS = ctx.enums['Direction']
    f_ord = run.family('sorter.order', 'complete() forwards exactly the rows whose key was present, each once, ordered by (key, arrival) / (key desc, arrival); then complete once') if want_order else None
    f_top = run.family('sorter.topn', 'with capacity c the first min(c, m) forwarded rows are the first rows of the uncapped result, in order') if want_topn else None

    def scenario(k, direction, cap):
        st = State()
        so = st.new_obj('self', 'SortProcess'); selfref = slot(st, ObjV(so), 'self*')
        mp = st.new_obj('self.data', 'BTreeMap'); st.heap[mp]['model'] = ()
        st.heap[so][('f', None, SP.index('data'))] = ObjV(mp)
        st.heap[so][('f', None, SP.index('direction'))] = mk_enum(st, 'Direction', direction, name='dir')
        sl = none(st, 'Option<usize>') if cap is None else some(st, BV(bv64(cap)), 'Option<usize>')
        st.heap[so][('f', None, SP.index('space_left'))] = sl
        st.heap[so][('f', None, SP.index('next'))] = named(st, 'self.next', 'Box<dyn Process>')
        st.heap[so][('f', None, SP.index('sort_by'))] = named(st, 'self.sort_by', 'Rc<dyn Get>')
        st.status = 'returned'
        states = [st]
        for i in range(k):
            nxt = []
            for s in states:
                if s.status != 'returned': nxt.append(s); continue          # a path that panicked / went astray stays as it is
                c = ObjV(s.new_obj(f'row{i}', 'Context'))
                s.status = 'running'; ex.new_frame(s, F_PROC, [selfref, c])
                for d in ex.run(s):
                    if d.status == 'returned':
                        rd, pd = result_parts(ex, d, d.ret)
                        if not ex.valid(d, z3.And(rd == 0, pd == 0))[0]:
                            d.status = 'bad-decision'; nxt.append(d)
                        else:
                            nxt.append(d)
                    elif d.status != 'infeasible':
                        nxt.append(d)
            states = nxt
        fin = []
        for s in states:
            if s.status != 'returned':
                fin.append(s); continue
            s.status = 'running'; ex.new_frame(s, F_COMP, [selfref]); fin += ex.run(s)
        return fin

    cands = []
    for k in range(0, K + 1):
        for direction in range(len(DIRS)):
            asc = DIRS[direction] == 'Asc'
            for cap in caps:
                fam = f_ord if cap is None else f_top
                for d in scenario(k, direction, cap):
                    run.paths += 1
                    if d.status == 'infeasible':
                        continue
                    fam.obligations += 1; fam.paths += 1
                    if d.status != 'returned':
                        keyed_ = [e[1] for e in d.events if e[0] == 'key' and e[2] == 'some']
                        ok_, m_ = ex.valid(d, z3.BoolVal(False))
                        ranks_ = {n: (m_.eval(z3.Int('rank:key:' + n), True).as_long() if m_ is not None else 0) for n in keyed_}
                        c = Candidate(fam.name, d.status, f'SortProcess path ends as {d.status} {d.notes} (k={k}, {DIRS[direction]}, capacity={cap})',
                                      {'k': k, 'direction': DIRS[direction], 'capacity': cap, 'ranks': ranks_, 'rows': [f'row{i}' for i in range(k)]}, unmodelled=(d.havoc or [None])[0])
                        if not any(x.role == c.role for x in fam.candidates): fam.candidates.append(c); cands.append(c)
                        continue
                    keyed = [e[1] for e in d.events if e[0] == 'key' and e[2] == 'some']
                    emitted = [e[1] for e in d.events if e[0] == 'emit']
                    completes = sum(1 for e in d.events if e == ('next.complete',))
                    last_is_complete = bool(d.events) and d.events[-1] == ('next.complete',)
                    arr = {f'row{i}': i for i in range(k)}
                    rk = lambda n: z3.Int('rank:key:' + n)
                    if not set(emitted) <= set(keyed):
                        extra = [x for x in emitted if x not in keyed]
                        c = Candidate(fam.name, 'keyless-row-emitted', f'SortProcess k={k} {DIRS[direction]} capacity={cap}: rows without a sort key are forwarded: {extra}', {'k': k, 'direction': DIRS[direction], 'capacity': cap, 'ranks': {n: 1 for n in keyed}, 'rows': [f'row{i}' for i in range(k)], 'emitted_by_model': emitted}, unmodelled=(d.havoc or [None])[0])
                        fam.candidates.append(c); cands.append(c); continue
                    def before(a, b):
                        if asc: return z3.Or(rk(a) < rk(b), z3.And(rk(a) == rk(b), z3.BoolVal(arr[a] < arr[b])))
                        return z3.Or(rk(a) > rk(b), z3.And(rk(a) == rk(b), z3.BoolVal(arr[a] < arr[b])))
                    want_n = len(keyed) if cap is None else min(cap, len(keyed))
                    # with a capacity only the first c forwarded rows are observable (the limiter behind the sorter drops the rest)
                    head = emitted if cap is None else emitted[:want_n]
                    conj = [z3.BoolVal(len(emitted) == want_n if cap is None else len(emitted) >= want_n), z3.BoolVal(len(set(emitted)) == len(emitted)),
                            z3.BoolVal(set(emitted) <= set(keyed)), z3.BoolVal(completes == 1 and last_is_complete)]
                    for a, b in zip(head, head[1:]): conj.append(before(a, b))
                    for x in keyed:
                        if x not in head:
                            for y in head: conj.append(before(y, x))
                    if keyed: fam.witnesses += 1
                    elif k == 0: fam.witnesses += 1
                    ok_, m = ex.valid(d, z3.And(*conj))
                    if ok_:
                        fam.discharged += 1
                        if len(keyed) >= 2:
                            fam.add_sample({'k': k, 'direction': DIRS[direction], 'capacity': cap, 'keyed_rows': keyed, 'emitted': emitted,
                                            'path_condition': str(z3.simplify(z3.And(*d.pc)))[:300], 'verdict': 'unsat(negation)'})
                    else:
                        ranks = {n: (m.eval(rk(n), True).as_long()) for n in keyed}
                        all_rows = [f'row{i}' for i in range(k)]
                        ties = len(set(ranks.values())) < len(ranks)
                        role = ('tie-' if ties else '') + ('topn-wrong-rows' if cap is not None else 'order-wrong')
                        if completes != 1: role = 'complete-count'
                        c = Candidate(fam.name, role, f'SortProcess k={k} {DIRS[direction]} capacity={cap}: ranks {ranks} -> emitted {emitted}',
                                      {'k': k, 'direction': DIRS[direction], 'capacity': cap, 'ranks': ranks, 'rows': all_rows, 'emitted_by_model': emitted},
                                      unmodelled=(d.havoc or [None])[0])
                        fam.candidates.append(c); cands.append(c)
    run.absorb(ex)
    replay_sorter(ctx, cands)


def replay_sorter(ctx, cands):
    from .cli import run_jawk, show
    seen = set()
    for c in cands:
        mv = c.model
        sig = json.dumps(mv, sort_keys=True)
        rows = []
        for i, n in enumerate(mv['rows']):
            r = {'i': i}
            if n in mv['ranks']: r['a'] = mv['ranks'][n]
            rows.append(r)
        keyed = [r for r in rows if 'a' in r]
        exp = sorted(keyed, key=lambda r: (r['a'] if mv['direction'] == 'Asc' else -r['a'], r['i']))
        argv = ['--sort-by', '.a' + ('=DESC' if mv['direction'] == 'Desc' else ''), '-o', 'json', '--style', 'consise']
        if mv['capacity'] is not None:
            argv += ['--take', str(mv['capacity'])]; exp = exp[:mv['capacity']]
        stdin = ' '.join(json.dumps(r, separators=(',', ':')) for r in rows).encode()
        r = run_jawk(ctx, argv, stdin)
        want = ''.join(json.dumps({k: v for k, v in sorted(x.items(), reverse=True)}, separators=(',', ':')) + '\n' for x in exp)
        got = show(r['stdout'])
        def norm(s):
            out = []
            for ln in s.splitlines():
                try: out.append(json.loads(ln))
                except Exception: out.append(ln)
            return out
        c.replay = {'argv': argv, 'stdin': show(stdin), 'expected': norm(want), 'actual': norm(got), 'rc': r['rc']}
        c.status = 'reproduced' if (r['rc'] != 0 or norm(want) != norm(got)) else 'not-reproduced'
        if c.status == 'not-reproduced' and (c.role.startswith('complete') or mv['k'] == 0):
            c.status = 'unit'
