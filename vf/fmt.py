"""core::fmt summaries (DESIGN 2.4 'formatting'): a write_fmt is an event carrying the rendered pieces.

Templates with placeholders are rustc's compact byte code (`b"\\x02\\\\u\\xc3 \\x00\\x00i\\x04\\x00\\x00"`). Their meaning is not
assumed: a calibration crate with the format strings jawk uses is compiled with the same nightly, its MIR dumped, and
the byte strings found there are mapped to the source-level format string. Anything else is 'not calibrated' and makes
the obligation that reaches it broken (exit 2), never a pass."""
import json, os, re, subprocess, hashlib
import z3
from .lib import *
from .report import Broken
from . import build

CALIB_FORMATS = {
    'plain1': ('"{}"', 1), 'plain2': ('"{}{}"', 2), 'hex4': ('"\\\\u{:04x}"', 1), 'error_line': ('"error:{}\\n"', 1),
    'colon2': ('"{}:{}"', 2), 'lit_arg_lit': ('"a{}bc"', 1), 'newline': ('"\\n"', 0),
}


def unescape_bytes(text):
    """Rust byte-string / string literal body as printed in MIR -> bytes"""
    m = re.match(r'^b?"(.*)"$', text, re.S)
    if not m:
        raise Broken('not a string constant: ' + text[:60])
    s = m.group(1); out = bytearray(); i = 0
    while i < len(s):
        c = s[i]
        if c == '\\':
            n = s[i + 1]
            if n == 'x': out.append(int(s[i + 2:i + 4], 16)); i += 4
            elif n == 'n': out.append(10); i += 2
            elif n == 't': out.append(9); i += 2
            elif n == 'r': out.append(13); i += 2
            elif n == '0': out.append(0); i += 2
            elif n == 'u':
                j = s.index('}', i); out += chr(int(s[i + 3:j], 16)).encode('utf-8'); i = j + 1
            else: out.append(ord(n)); i += 2
        else:
            out += c.encode('utf-8'); i += 1
    return bytes(out)


def calibrate():
    """-> {spec_bytes_hex: format_spec_text} learned from a compiled sample; also validates the structural decoder"""
    ver = subprocess.run(['rustc', '+nightly', '--version'], stdout=subprocess.PIPE).stdout.decode().strip()
    key = hashlib.sha256((ver + json.dumps(CALIB_FORMATS, sort_keys=True)).encode()).hexdigest()[:16]
    path = os.path.join(build.CACHE, f'fmt-calib-{key}.json')
    if os.path.exists(path):
        return json.load(open(path))
    with build.Lock('calib-lock'):
        d = os.path.join(build.CACHE, 'calib'); os.makedirs(os.path.join(d, 'src'), exist_ok=True)
        fns = []
        for name, (fmt, n) in CALIB_FORMATS.items():
            args = ', '.join(f'a{i}' for i in range(n))
            params = ', '.join(f'a{i}: u64' for i in range(n))
            fns.append(f'pub fn {name}(f: &mut String{", " + params if params else ""}) -> std::fmt::Result {{ use std::fmt::Write; write!(f, {fmt}{", " + args if args else ""}) }}')
        open(os.path.join(d, 'src', 'lib.rs'), 'w').write('\n'.join(fns) + '\n')
        open(os.path.join(d, 'Cargo.toml'), 'w').write('[package]\nname = "calib"\nversion = "0.0.0"\nedition = "2021"\n[workspace]\n')
        p = subprocess.run(['cargo', '+nightly', 'rustc', '--offline', '--lib', '--target-dir', os.path.join(build.CACHE, 'target-calib'), '--', '-Zunpretty=mir'],
                           cwd=d, env=build.ENV, stdout=subprocess.PIPE, stderr=subprocess.PIPE)
        if p.returncode != 0:
            raise Broken('format calibration crate does not compile: ' + p.stderr.decode()[-500:])
        mir = p.stdout.decode()
        found = {}
        for name in CALIB_FORMATS:
            m = re.search(r'\nfn ' + name + r'\(.*?\n}\n', '\n' + mir, re.S)
            if not m: raise Broken('calibration body missing: ' + name)
            body = m.group(0)
            t = re.search(r'= const (b"(?:[^"\\]|\\.)*");', body)
            s_ = re.search(r'Arguments::<\'_>::from_str\(const ("(?:[^"\\]|\\.)*")\)', body)
            found[name] = ('template', t.group(1)) if t else ('literal', s_.group(1)) if s_ else None
            if found[name] is None: raise Broken('calibration: no template found in ' + name)
        # learn the hex4 spec bytes and validate the structural decoder on the others
        hx = unescape_bytes(found['hex4'][1])
        if hx[:4] != b'\x02\\u\xc3'[:4] and hx[0] != 2:
            raise Broken('calibration: unexpected shape of the {:04x} template')
        # literal "\u" (len 2) then a spec placeholder up to the terminating 0
        spec = hx[3:-1]
        calib = {'version': ver, 'specs': {spec.hex(): 'lower_hex_04'}}
        for name, want in (('plain1', [('arg',)]), ('plain2', [('arg',), ('arg',)]), ('error_line', [('lit', b'error:'), ('arg',), ('lit', b'\n')]),
                           ('colon2', [('arg',), ('lit', b':'), ('arg',)]), ('lit_arg_lit', [('lit', b'a'), ('arg',), ('lit', b'bc')])):
            kind, txt = found[name]
            got = decode_template(unescape_bytes(txt), calib['specs'])
            norm = [(g[0],) if g[0] == 'arg' else g for g in got]
            if norm != want:
                raise Broken(f'calibration: decoder disagrees on {name}: {got} vs {want}')
        json.dump(calib, open(path, 'w'))
        return calib


def decode_template(bs, specs):
    """-> [('lit', bytes) | ('arg', spec-name or None)]"""
    out = []; i = 0
    while i < len(bs):
        b = bs[i]
        if b == 0:
            if i != len(bs) - 1: raise Broken('format template: data after terminator')
            break
        if b < 0x80:
            out.append(('lit', bytes(bs[i + 1:i + 1 + b]))); i += 1 + b
        elif b == 0xC0:
            out.append(('arg', None)); i += 1
        else:
            hit = None
            for hx, name in specs.items():
                sb = bytes.fromhex(hx)
                if bs[i:i + len(sb)] == sb: hit = (name, len(sb)); break
            if hit is None:
                from .mirsym import Unmodelled
                raise Unmodelled('format template placeholder not in the calibrated whitelist: ' + bs[i:].hex())
            out.append(('arg', hit[0])); i += hit[1]
    return out


# ---------------------------------------------------------------- rendering
def hexdig(n4):
    n = z3.ZeroExt(4, n4)
    return z3.If(z3.ULT(n, 10), n + ord('0'), n - 10 + ord('a'))


def lower_hex_min4(v):
    """v: BV64 -> [(cond, [byte terms])]: minimal hex digits, zero padded to width 4"""
    out = []
    for nd in range(4, 17):
        lo = z3.BoolVal(True) if nd == 4 else z3.UGE(v, 1 << (4 * (nd - 1)))
        hi = z3.ULT(v, 1 << (4 * nd)) if nd < 16 else z3.BoolVal(True)
        out.append((z3.And(lo, hi), [hexdig(z3.Extract(4 * i + 3, 4 * i, v)) for i in reversed(range(nd))]))
    return out


class Tok:
    """an opaque rendered token (e.g. the decimal text of a number): Display of `value` as type `ty`"""
    def __init__(self, ty, value): self.ty = ty; self.value = value
    def __repr__(self): return f'<{self.ty}:{self.value}>'


def fmt_summaries(calib, utf8_cases):
    specs = calib['specs']

    def s_from_str(ex, st, func, args, ty):
        lit = unescape_bytes(args[0].text)
        o = named(st, st.fresh_name('fmtargs'), 'Arguments'); st.heap[o.oid]['items'] = [bv8(x) for x in lit]
        return [(st, o)]

    def s_arg(kind):
        def arg(ex, st, func, args, ty):
            m = re.search(r'::<([^<>]*(?:<[^<>]*>)?[^<>]*)>$', func)
            v = obj(st, args[0])
            o = named(st, st.fresh_name('fmtarg'), 'Argument'); st.heap[o.oid]['arg'] = (kind, m.group(1).strip() if m else '?', v)
            return [(st, o)]
        arg.__name__ = 'fmt_arg_' + kind
        return arg

    def render(ex, st, spec, a):
        """-> [(cond, [items])]"""
        kind, aty, v = a
        if spec == 'lower_hex_04':
            if kind != 'lower_hex' or not isinstance(v, BV): raise Broken(f'{{:04x}} on {kind} {aty}')
            t = v.t if v.t.size() == 64 else z3.ZeroExt(64 - v.t.size(), v.t)
            return lower_hex_min4(t)
        if spec is not None: raise Broken('uncalibrated spec ' + str(spec))
        if kind != 'display': raise Broken(f'default placeholder with {kind}')
        aty_ = aty.lstrip('&').strip()
        if aty_ == 'char':
            return utf8_cases(v.t)
        if isinstance(v, ObjV) and 'model' in st.heap[v.oid]:       # str / String with a byte model
            return [(z3.BoolVal(True), [b.t if isinstance(b, BV) else b for b in st.heap[v.oid]['model']])]
        return [(z3.BoolVal(True), [Tok(aty_, v.t if isinstance(v, (BV, BoolV)) else origin(st, v))])]

    def s_args_new(ex, st, func, args, ty):
        tmpl = args[0]
        if not isinstance(tmpl, Const): raise Broken('format template is not a constant')
        pieces = decode_template(unescape_bytes(tmpl.text), specs)
        arr = obj(st, args[1])
        fa = [st.heap[obj(st, st.heap[arr.oid][('f', None, i)]).oid]['arg'] for i in range(sum(1 for p in pieces if p[0] == 'arg'))]
        states = [(st, [])]
        ai = 0
        for p in pieces:
            nxt = []
            if p[0] == 'lit':
                for s_, items in states: nxt.append((s_, items + [bv8(x) for x in p[1]]))
            else:
                a = fa[ai]; ai += 1
                for s_, items in states:
                    for c, its in render(ex, s_, p[1], a):
                        if z3.is_true(z3.simplify(c)): nxt.append((s_, items + its)); continue
                        if ex.feasible(s_, c):
                            s2 = s_.clone(); s2.pc.append(c); nxt.append((s2, items + its))
            states = nxt
        out = []
        for s_, items in states:
            o = named(s_, s_.fresh_name('fmtargs'), 'Arguments'); s_.heap[o.oid]['items'] = items
            out.append((s_, o))
        return out

    def make_write_fmt(outcome='ok'):
        def s_write_fmt(ex, st, func, args, ty):
            a = obj(st, args[1])
            n = sum(1 for e in st.events if e[0] == 'out')
            if outcome == 'ok':
                st.events.append(('out', origin(st, args[0]), st.heap[a.oid]['items'], None))
                return [(st, ok(st, UNIT))]
            v = ex.fresh_value(st, ty, f'write{n}')
            d = ex.discr(st, v); st.pc.append(z3.Or(d.t == 0, d.t == 1))
            st.events.append(('out', origin(st, args[0]), st.heap[a.oid]['items'], v))
            return [(st, v)]
        return s_write_fmt

    return {
        'from_str': (r'fmt::Arguments::<.*>::from_str$', s_from_str),
        'display': (r'fmt::rt::Argument::<.*>::new_display::<', s_arg('display')),
        'lower_hex': (r'fmt::rt::Argument::<.*>::new_lower_hex::<', s_arg('lower_hex')),
        'debug': (r'fmt::rt::Argument::<.*>::new_debug::<', s_arg('debug')),
        'new': (r'fmt::Arguments::<.*>::new::<', s_args_new),
        'write_ok': (r'fmt::Write>::write_fmt$|io::Write>::write_fmt$', make_write_fmt('ok')),
        'write_any': (r'fmt::Write>::write_fmt$|io::Write>::write_fmt$', make_write_fmt('any')),
    }
