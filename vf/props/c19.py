"""C19 - 64-bit integers survive untouched; number-as-string functions against exact rational arithmetic (the crate itself trusted)"""
from ..scen_parser import tokenizer, selfcheck

DIG = [ord(c) for c in '0123456789']
NZ = [ord(c) for c in '123456789']
TERM = [0x20, 0x0a, ord(','), ord(']'), ord('}')]


def run(ctx):
    selfcheck(ctx)
    lens = [1, 2, 10, 18, 19, 20] if ctx.quick else list(range(1, 22))
    multi = []
    for L in lens:
        for neg in (False, True):
            classes = ([[ord('-')]] if neg else []) + [NZ if L > 1 else DIG] + [DIG] * (L - 1) + [TERM]
            multi.append((len(classes), classes))
    tokenizer(ctx, None, ['tok.value', 'tok.consumed'], f'integer spellings -?[0-9]{{L}} for L in {lens} followed by a terminator byte; every digit value free',
              variants=('nocb',), partition=0, multi=multi)
    from ..kani import kani_family
    kani_family(ctx, 'value.usize', 'From<usize> / TryFrom<NumberValue> for usize are exact (no detour through floating point)',
                [('k_usize_roundtrip', 'usize-roundtrip', 'usize <-> NumberValue'), ('k_integer_eq_exact', 'int-eq-exact', 'equality and hashing of integers is exact over all u64 / i64 (no detour through f64)')], ['json_value.rs'], timeout_s=600)
    from ..scen_print import print_numbers
    print_numbers(ctx)        # printing hands the integer to Display unchanged, in json, text and csv output
    from ..scen_misc import sort_functions
    sort_functions(ctx)       # sort / sort_unique keep every integer (duplicates are removed with ==, not through an ordered set keyed by f64)
    from ..scen_kernels2 import kernels2, kernels_fn
    kernels2(ctx); kernels_fn(ctx)      # functions that hand a value on (casts, if, list / object helpers, map / filter ...) hand on the same value: no detour through floating point
    from ..scen_nas import nas_wiring
    nas_wiring(ctx)           # number-as-string functions: bigdecimal as exact rationals (z3 Real); the wiring is jawk's and is decided, the crate is trusted
