"""C01 - stream fidelity"""
from ..scen_parser import tokenizer, selfcheck
from ..scen_readinput import read_input

ALL = ['tok.value', 'tok.consumed', 'tok.end', 'tok.garbage']


def run(ctx):
    selfcheck(ctx)
    n = 3 if ctx.quick else 4
    tokenizer(ctx, n, ALL, f'full alphabet n={n}')
    # strings by class (DESIGN 6, C01.a): every escape kind with free bytes in the escape, and free content bytes
    Q, BS, ANY = [0x22], [0x5c], None
    TERM = [0x20, 0x0a, ord(','), ord(']'), ord('}')]
    multi = [(5, [Q, ANY, ANY, Q, TERM]), (5, [Q, BS, ANY, Q, TERM]), (9, [Q, BS, [ord('u')], ANY, ANY, ANY, ANY, Q, TERM]),
             (7, [Q, ANY, BS, ANY, ANY, Q, TERM])]
    if not ctx.quick:
        multi += [(6, [Q, ANY, ANY, ANY, Q, TERM]), (10, [Q, ANY, BS, [ord('u')], ANY, ANY, ANY, ANY, Q, TERM]), (10, [Q, BS, [ord('u')], ANY, ANY, ANY, ANY, ANY, Q, TERM])]
    tokenizer(ctx, None, ALL, 'string tokens by class: "cc", "\\c", "\\uHHHH" with every byte of c / H free, "c\\cc"', variants=('nocb',), partition=0, multi=multi)
    # numbers by class: every position free over the number alphabet and a blank (this is where `1E2`, `-0`, `1.`, `01` live)
    NUMA = [ord(c) for c in '0123456789-+.eE '] + [0x0a]
    ln = 5 if ctx.quick else 7
    tokenizer(ctx, None, ALL, f'number tokens: {ln} bytes, each free over 0-9 - + . e E, blank and LF', variants=('nocb',), partition=1, multi=[(ln, [NUMA] * ln)])
    # reserved words followed by free bytes (tokens may touch: `true"a"`, `null[1]`), and integer spellings at the 64-bit boundaries
    W = lambda w: [[b] for b in w]
    multi = [(len(w) + 2, W(w) + [ANY, ANY]) for w in (b'true', b'false', b'null')]
    DIG = [ord(c) for c in '0123456789']; NZ = [ord(c) for c in '123456789']
    for L in ((19, 20) if ctx.quick else (18, 19, 20, 21)):
        for neg in (False, True):
            multi.append((L + (1 if neg else 0) + 1, ([[ord('-')]] if neg else []) + [NZ] + [DIG] * (L - 1) + [TERM]))
    tokenizer(ctx, None, ALL, 'reserved words followed by 2 free bytes; integer spellings of 19..20 digits with every digit free', variants=('nocb',), partition=0, multi=multi)
    read_input(ctx, ['read.one_context_per_value'])
    from ..kani import kani_family
    ctx.run.bounds['from_f64'] = 'every finite f64 bit pattern'
    kani_family(ctx, 'value.from_f64', 'From<f64> for JsonValue: an integral double in [0, 2^64) becomes Positive with that value, in (-2^63, 0) Negative, anything else stays the same Float',
                [('k_from_f64_normalises', 'from-f64', 'From<f64> normalisation')], ['json_value.rs'], timeout_s=600)
    from ..scen_print import json_framing
    json_framing(ctx)          # one row per value, written when it is processed, from that value alone
    from ..conform import conformance
    conformance(ctx, ['roundtrip'])      # strict-JSON read-back and byte-for-byte fixpoint on seeded values (validates the references; never decides)
