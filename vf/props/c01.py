"""C01 - stream fidelity"""
from ..scen_parser import tokenizer, selfcheck
from ..scen_readinput import read_input

ALL = ['tok.value', 'tok.consumed', 'tok.end', 'tok.garbage']


def run(ctx):
    selfcheck(ctx)
    n = 3 if ctx.quick else 4
    tokenizer(ctx, n, ALL, f'full alphabet n={n}')
    read_input(ctx, ['read.one_context_per_value'])
    from ..kani import kani_family
    ctx.run.bounds['from_f64'] = 'every finite f64 bit pattern'
    kani_family(ctx, 'value.from_f64', 'From<f64> for JsonValue: an integral double in [0, 2^64) becomes Positive with that value, in (-2^63, 0) Negative, anything else stays the same Float',
                [('k_from_f64_normalises', 'from-f64', 'From<f64> normalisation')], ['json_value.rs'], timeout_s=600)
