"""C01 - stream fidelity"""
from ..scen_parser import tokenizer
from ..scen_readinput import read_input

ALL = ['tok.value', 'tok.consumed', 'tok.end', 'tok.garbage']


def run(ctx):
    n = 3 if ctx.quick else 4
    tokenizer(ctx, n, ALL, f'full alphabet n={n}')
    read_input(ctx, ['read.one_context_per_value'])
