"""C04 - expressions evaluate to what the function documentation prescribes"""
from ..scen_kernels import kernels


from ._arith import arithmetic


def run(ctx):
    kernels(ctx)
    arithmetic(ctx, which=None if not ctx.quick else ['add', 'divide', 'abs'])
