"""C04 - expressions evaluate to what the function documentation prescribes"""
from ..scen_kernels import kernels


def run(ctx):
    kernels(ctx)
