"""C04 - expressions evaluate to what the function documentation prescribes"""
from ..scen_kernels import kernels, kernel_examples


from ._arith import arithmetic


def run(ctx):
    kernel_examples(ctx)
    kernels(ctx)
    from ..scen_ctx import contexts
    from ..scen_misc import pipe, variable_get, function_names
    contexts(ctx); pipe(ctx); variable_get(ctx); function_names(ctx)
    arithmetic(ctx, which=None if not ctx.quick else ['add', 'divide', 'abs'])
    from ..scen_misc import functional, fold
    functional(ctx); fold(ctx)
    from ..scen_kernels2 import kernels2, kernels_fn
    from ..scen_kernels2 import regex_kernels, parse_kernel
    regex_kernels(ctx); parse_kernel(ctx)
    kernels2(ctx); kernels_fn(ctx)       # table-driven kernels: logic, type tests, casts, list / object / string helpers, functions with a function argument
    from ..scen_nas import nas_wiring
    nas_wiring(ctx)
    from ..kani import kani_family
    kani_family(ctx, 'order.zero', 'the comparison functions rest on Ord for NumberValue: the literals 0 and -0 are one number (equal, unordered, same relation to every other number)',
                [('k_zero_spellings', 'zero-spellings', 'Ord / Eq for NumberValue on Positive(0) / Negative(0)'), ('k_from_f64_normalises', 'from-f64', 'numeric results with zero fractional part are integers: From<f64> gives Positive for every integral double in [0, 2^64) (-0.0 included), Negative below zero')], ['json_value.rs'], timeout_s=600)
    from ..scen_kernels2 import binding_forms
    binding_forms(ctx)       # (set n v e) / (define n m e): e in exactly the context derived by binding n (to the value / to the getter itself)
    from ..scen_purity import getter_purity
    getter_purity(ctx)       # a getter that keeps state (cell, thread-local, static) must still be a function of its arguments
