"""C07 - sorting: one total order, permutation, stable, multi-key, direction-aware"""
from ..scen_sorter import sorter
from ..scen_go import go_chain
from ..kani import kani_family
from ..scen_misc import sort_functions, value_order_arms, sort_comparators


def run(ctx):
    sorter(ctx, want_order=True, want_topn=True)      # the top-N shortcut must not disturb the order of what it keeps
    go_chain(ctx, want=('go.chain', 'go.capacity'))
    sort_functions(ctx)
    sort_comparators(ctx)
    from ..scen_kernels2 import kernels2
    kernels2(ctx, names=['<', '<=', '>', '>='])      # the comparison functions apply the value order to (first, second) in this order
    value_order_arms(ctx)         # first --sort-by innermost => runs last => most significant under stable sorting
    specs = [('k_number_order_axioms', 'number-order-axioms', 'Ord for NumberValue: antisymmetric, reflexive, cmp==Equal <=> ==, agrees with the real order (parser normal form, |n| < 2^53 or non-integral)'),
             ('k_zero_spellings', 'zero-spellings', 'the integer literals 0 and -0 are one number: equal, unordered, and in the same relation to every other number'),
             ('k_number_cmp_total_preorder_full', 'number-order-preorder', 'Ord for NumberValue is antisymmetric and transitive over all u64 / i64 / finite f64 (no range restriction)'),
             ('k_scalar_rank_and_eq_hash', 'scalar-rank', 'null < false < true < strings < numbers; cmp==Equal <=> ==; Eq => equal hash transcript')]
    # k_array_order_lexicographic (arrays under Kani) does not finish in 15 min (Vec<JsonValue> element code, see DESIGN 4): arrays are order.arms (Engine M)
    if not ctx.quick:
        specs.append(('k_number_order_transitive', 'number-order-transitive', 'Ord / Eq for NumberValue transitive over all 27 variant triples'))
    ctx.run.bounds['order'] = 'numbers: all three variants, every payload with |n| < 2^53 (integers) or non-integral finite doubles; strings of one ASCII byte; concrete-variant loops'
    ctx.run.assume('Kani: std::mem::forget on heap values at the end of each harness (drop glue not explored); numbers outside the interoperable range excluded by the property')
    fam, cands, res = kani_family(ctx, 'order.axioms', 'the value order is one total order consistent with == (scalars; arrays compare lexicographically through Vec::cmp - std)', specs, ['json_value.rs'],
                                  timeout_s=900 if ctx.quick else 2400)
    from ..conform import conformance
    conformance(ctx, ['pipeline'])      # the references the obligations are stated against, compared with jawk::go on concrete runs (validates the oracles; never decides)
