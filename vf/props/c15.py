"""C15 - csv/text rows have one field per selection and csv is machine-readable"""
from ..scen_text import text_layout, csv_quoting, text_presets
from ..scen_print import print_numbers


def run(ctx):
    text_layout(ctx)
    csv_quoting(ctx)
    text_presets(ctx)
    from ..scen_text import text_nested
    text_nested(ctx)
    print_numbers(ctx)
    from ..scen_print import print_string
    print_string(ctx, utf8=True)          # nested values in a field are printed by the JSON string printer (utf8 on): control characters stay escaped
    from ..scen_misc import titles
    titles(ctx)
    from ..scen_expr import selection_name
    selection_name(ctx)       # the column name given after `=` is kept byte for byte
    from ..conform import conformance
    conformance(ctx, ['csv'])      # the references the obligations are stated against, compared with jawk::go on concrete runs (validates the oracles; never decides)
