"""C17 - delivery-independent input; files stay separate; input-context is exact"""
from ..scen_parser import tokenizer, selfcheck
from ..scen_readinput import read_input
from ..scen_files import files
from ..scen_go import go_chain


def run(ctx):
    selfcheck(ctx)
    n = 3 if ctx.quick else 4
    tokenizer(ctx, n, ['tok.location', 'tok.consumed', 'tok.value', 'tok.garbage', 'tok.end'], f'full alphabet n={n}')
    read_input(ctx, ['read.counters', 'read.locations', 'read.only_objects_and_arrays'])
    files(ctx)
    from ..scen_files import file_sources
    file_sources(ctx)         # from_file hands over the unread file; the directory loop reads every entry and returns the first error
    go_chain(ctx, want=('go.inputs',), files_only=True)
    from ..scen_stages import stage_steps
    from ..scen_ctx import contexts
    stage_steps(ctx, want=('contract',)); contexts(ctx)      # every stage hands on a context derived from the one it received (the input context travels with it)
    from ..conform import conformance
    conformance(ctx, ['input-context'])      # the references the obligations are stated against, compared with jawk::go on concrete runs (validates the oracles; never decides)
