"""C18 - invalid configurations are rejected before any input is read or output written"""
from ..scen_go import go_chain
from ..scen_expr import option_tails, unbalanced, arity


def run(ctx):
    go_chain(ctx, want=('go.validate_before_io', 'go.chain'))      # every stage the options ask for is in the chain, so start() reaches the output process where csv is validated
    option_tails(ctx)
    unbalanced(ctx)
    arity(ctx)
    from ..scen_misc import preset_collection
    preset_collection(ctx)
    from ..scen_expr import index_overflow
    index_overflow(ctx)       # an `#index` that does not fit 64 bits is an unparsable expression
    from ..scen_text import output_options
    output_options(ctx)       # output options that do not belong to the chosen output style are rejected
    from ..scen_files import file_sources
    file_sources(ctx)         # opening an input consumes nothing of it (a byte consumed while opening is input read before the configuration is known to be valid)
    from ..conform import conformance
    conformance(ctx, ['invalid-config'])      # the references the obligations are stated against, compared with jawk::go on concrete runs (validates the oracles; never decides)
