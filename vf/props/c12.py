"""C12 - bindings are lexical and transparent; pipes and later selects keep their inputs"""
from ..scen_ctx import contexts


def run(ctx):
    contexts(ctx)
