"""C12 - bindings are lexical and transparent; pipes and later selects keep their inputs"""
from ..scen_ctx import contexts
from ..scen_misc import pipe, variable_get


def run(ctx):
    contexts(ctx)
    pipe(ctx)
    variable_get(ctx)
    from ..scen_misc import functional
    functional(ctx)
    from ..scen_kernels2 import binding_forms
    binding_forms(ctx)       # (set n v e) / (define n m e): e in exactly the context derived by binding n (to the value / to the getter itself)
    from ..scen_purity import getter_purity
    getter_purity(ctx)       # a getter that keeps state (cell, thread-local, static) must still be a function of its arguments
    from ..conform import conformance
    conformance(ctx, ['binding'])      # the references the obligations are stated against, compared with jawk::go on concrete runs (validates the oracles; never decides)
