"""C03 - the pipeline is the documented stage composition in the documented order"""
from ..scen_go import go_chain
from ..scen_stages import stage_steps, STAGES, summaries
from ..scen_limiter import limiter, lifecycle
from ..scen_sorter import sorter
from ..scen_readinput import read_input
from ..scen_collect import collectors, unique
from ..scen_ctx import contexts


def run(ctx):
    go_chain(ctx, want=('go.chain', 'go.capacity', 'go.complete', 'go.inputs'))
    stage_steps(ctx, want=('contract', 'break', 'err'))
    for name, (prefix, sname) in STAGES.items():
        lifecycle(ctx, name, prefix, extra_summaries=summaries(1))
    limiter(ctx, {'step', 'lifecycle', 'err'})
    sorter(ctx, want_order=True, want_topn=True)
    collectors(ctx)
    unique(ctx)
    contexts(ctx)          # every later stage sees the same input and parents as the first one
    read_input(ctx, ['read.only_objects_and_arrays', 'read.one_context_per_value', 'read.break_stops_reading'])
    from ..scen_misc import titles, preset_collection
    titles(ctx); preset_collection(ctx)
    from ..conform import conformance
    conformance(ctx, ['pipeline'])      # the references the obligations are stated against, compared with jawk::go on concrete runs (validates the oracles; never decides)
