"""C03 - the pipeline is the documented stage composition in the documented order"""
from ..scen_go import go_chain
from ..scen_stages import stage_steps, STAGES
from ..scen_limiter import limiter, lifecycle
from ..scen_sorter import sorter
from ..scen_readinput import read_input


def run(ctx):
    go_chain(ctx, want=('go.chain', 'go.capacity'))
    stage_steps(ctx, want=('contract',))
    for name, (prefix, sname) in STAGES.items():
        lifecycle(ctx, name, prefix, extra_summaries=_ls())
    limiter(ctx, {'step', 'lifecycle'})
    sorter(ctx, want_order=True, want_topn=True)
    read_input(ctx, ['read.only_objects_and_arrays', 'read.one_context_per_value'])


def _ls():
    from ..scen_stages import summaries
    return summaries(1)
