"""C08 - --skip/--take pick exactly rows S..S+T-1 of the unlimited result"""
from ..scen_limiter import limiter


def run(ctx):
    limiter(ctx, {'step', 'err', 'nopanic', 'lifecycle'})
    from ..scen_sorter import sorter
    sorter(ctx, want_order=False, want_topn=True)
    from ..scen_go import go_chain
    go_chain(ctx, want=('go.capacity',))
    go_chain(ctx, want=('go.complete',))
    from ..scen_misc import value_order_arms
    value_order_arms(ctx)      # the bounded sort places keys with the same order the unbounded one uses: one order, arm by arm
    from ..conform import conformance
    conformance(ctx, ['pipeline'])      # the references the obligations are stated against, compared with jawk::go on concrete runs (validates the oracles; never decides)
