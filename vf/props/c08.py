"""C08 - --skip/--take pick exactly rows S..S+T-1 of the unlimited result"""
from ..scen_limiter import limiter


def run(ctx):
    limiter(ctx, {'step', 'err', 'nopanic', 'lifecycle'})
