"""C16 - read and write failures stop the run with an error, never a panic or silent loss"""
from ..scen_parser import tokenizer
from ..scen_readinput import read_input
from ..scen_stages import stage_steps
from ..scen_limiter import limiter


def run(ctx):
    n = 2 if ctx.quick else 3
    tokenizer(ctx, n, ['tok.no_io_error'], f'full alphabet n={n}, read failure injected at every position 0..{n - 1}', partition=1, fail_positions=list(range(n)))
    # a failure inside a string escape: the bytes `"\\u` / `"\\uH` / ... have been read, the next read fails
    Q, BS, U, HEX = [0x22], [0x5c], [ord('u')], [ord(c) for c in '0123456789abcdefABCDEF']
    for k in range(0, 4):
        tokenizer(ctx, None, ['tok.no_io_error'], f'read failure after `"\\u` and {k} hex digits', variants=('nocb',), partition=0, multi=[(3 + k, [Q, BS, U] + [HEX] * k)], fail_positions=[3 + k])
    read_input(ctx, ['read.io_error_fatal', 'read.process_err_propagates', 'read.write_err_propagates', 'read.nopanic'])
    stage_steps(ctx, want=('err',))
    limiter(ctx, {'err', 'nopanic'})
    from ..scen_print import json_framing
    from ..scen_text import text_layout
    json_framing(ctx); text_layout(ctx)        # a failing write is returned as an error by both output processes
    from ..scen_files import file_sources
    file_sources(ctx)         # file input is the whole file (nothing consumed before the tokenizer); a failing entry of a directory ends the run with an error
    from ..conform import conformance
    conformance(ctx, ['io'])      # the references the obligations are stated against, compared with jawk::go on concrete runs (validates the oracles; never decides)
