"""C11 - stateless pipelines are record-local"""
from ..scen_stages import stage_steps
from ..scen_readinput import read_input
from ..scen_misc import regex_cache


def run(ctx):
    stage_steps(ctx, stages=['Filter', 'Splitter', 'Selection', 'PreSet'], want=('frame', 'contract'))
    read_input(ctx, ['read.one_context_per_value', 'read.locations'])
    regex_cache(ctx)
    from ..scen_parser import tokenizer
    tokenizer(ctx, 2, ['tok.value', 'tok.consumed', 'tok.garbage', 'tok.end'], 'full alphabet n=2: the reader carries nothing from one value (or one malformed text) to the next but its look-ahead byte and location', partition=1)
    from ..scen_misc import record_local_premise
    record_local_premise(ctx)
    from ..scen_purity import getter_purity
    getter_purity(ctx)       # a getter that keeps state (cell, thread-local, static) must still be a function of its arguments
    from ..scen_print import json_framing
    json_framing(ctx)          # a row is a function of its value: the output process keeps nothing from earlier rows
    from ..scen_files import files, file_sources
    files(ctx); file_sources(ctx)      # every file argument is read, each time it is given
    from ..conform import conformance
    conformance(ctx, ['pipeline'])      # the references the obligations are stated against, compared with jawk::go on concrete runs (validates the oracles; never decides)
