"""C02 - every JSON output row is valid JSON for its value, in all styles; fixpoint"""
from ..scen_print import print_string, print_numbers, json_framing, print_structure


from ._arith import arithmetic


def run(ctx):
    print_string(ctx)
    print_numbers(ctx)
    json_framing(ctx)
    print_structure(ctx)
    arithmetic(ctx, which=None if not ctx.quick else ['add', 'times', 'divide', 'round'], ill_typed=False)
    from ..conform import conformance
    conformance(ctx, ['roundtrip'])      # strict-JSON read-back and byte-for-byte fixpoint on seeded values (validates the references; never decides)
