"""C02 - every JSON output row is valid JSON for its value, in all styles; fixpoint"""
from ..scen_print import print_string, print_numbers, json_framing, print_structure


from ._arith import arithmetic


def run(ctx):
    print_string(ctx)
    print_numbers(ctx)
    json_framing(ctx)
    print_structure(ctx)
    arithmetic(ctx, which=None if not ctx.quick else ['add', 'times', 'divide', 'round'], ill_typed=False)
    # the fixpoint: numbers beyond the integer ranges are written as plain digit strings and read back through the tokenizer's overflow path
    from ..scen_parser import tokenizer
    DIG = [ord(c) for c in '0123456789']; NZ = [ord(c) for c in '123456789']; TERM = [0x20, 0x0a]
    tokenizer(ctx, None, ['tok.value', 'tok.consumed'], 'plain digit strings of 20..22 digits (how jawk prints doubles beyond 2^64), every digit free', variants=('nocb',), partition=0,
              multi=[(L + 1, [NZ] + [DIG] * (L - 1) + [TERM]) for L in (20, 21, 22)] + [(L + 2, [[ord('-')], NZ] + [DIG] * (L - 1) + [TERM]) for L in (19, 20)])
    from ..conform import conformance
    conformance(ctx, ['roundtrip'])      # strict-JSON read-back and byte-for-byte fixpoint on seeded values (validates the references; never decides)
