"""C06 - noise between values never changes them; --on-error policies"""
from ..scen_readinput import read_input


def run(ctx):
    read_input(ctx, ['read.ignore_silent', 'read.panic_fails', 'read.stdout_reports', 'read.stderr_reports', 'read.clean_no_report', 'read.one_context_per_value'])
