"""C06 - noise between values never changes them; --on-error policies"""
from ..scen_readinput import read_input
from ..scen_parser import tokenizer


def run(ctx):
    read_input(ctx, ['read.ignore_silent', 'read.recoverable_continues', 'read.panic_fails', 'read.stdout_reports', 'read.stderr_reports', 'read.clean_no_report', 'read.one_context_per_value', 'read.counters'])      # noise must not shift &index either
    n = 3 if ctx.quick else 4
    tokenizer(ctx, n, ['tok.garbage', 'tok.value', 'tok.consumed', 'tok.end'], f'full alphabet n={n}: a garbage byte costs exactly one byte and one recoverable error, whatever follows')
    from ..scen_print import json_framing
    from ..scen_text import text_layout
    json_framing(ctx); text_layout(ctx)      # a row is written when it is processed: under --on-error panic what precedes the malformed byte is already out
    from ..scen_files import file_sources
    file_sources(ctx)         # file input is the whole file (nothing consumed before the tokenizer); a failing entry of a directory ends the run with an error
    from ..conform import conformance
    conformance(ctx, ['policy'])      # the references the obligations are stated against, compared with jawk::go on concrete runs (validates the oracles; never decides)
