"""C09 - --group-by / --merge emit exactly one complete collection at end of input"""
from ..scen_collect import collectors
from ..scen_limiter import limiter


def run(ctx):
    collectors(ctx)
    limiter(ctx, {'lifecycle'})      # the group is emitted behind --skip/--take only if the limiter forwards complete()
