"""C09 - --group-by / --merge emit exactly one complete collection at end of input"""
from ..scen_collect import collectors
from ..scen_limiter import limiter


def run(ctx):
    collectors(ctx)
    limiter(ctx, {'lifecycle', 'step'})
    from ..scen_go import go_chain
    go_chain(ctx, want=('go.complete',))      # end of input reaches the collector whatever was read (empty input, --take 0, scalars only)
    from ..scen_sorter import sorter
    sorter(ctx, want_order=True, want_topn=True)     # a sorter in front of the collector forwards complete() after flushing      # the group is emitted behind --skip/--take only if the limiter forwards complete()
    from ..scen_readinput import read_input
    read_input(ctx, ['read.ignore_silent', 'read.recoverable_continues', 'read.one_context_per_value'])     # a malformed (e.g. truncated) value does not end the run: the collection is still emitted
    from ..scen_stages import STAGES, summaries
    from ..scen_limiter import lifecycle
    for name, (prefix, sname) in STAGES.items():
        lifecycle(ctx, name, prefix, extra_summaries=summaries(1))      # end of input reaches the collector through every stage in front of it
    from ..conform import conformance
    conformance(ctx, ['pipeline'])      # the references the obligations are stated against, compared with jawk::go on concrete runs (validates the oracles; never decides)
