"""C14 - --take stops reading"""
from ..scen_limiter import limiter
from ..scen_stages import stage_steps
from ..scen_readinput import read_input
from ..scen_go import go_chain


def run(ctx):
    limiter(ctx, {'step'})
    from ..scen_parser import reader_delivery
    reader_delivery(ctx)       # bytes are pulled one at a time: a value is seen as soon as its last byte (and one look-ahead byte) has arrived
    stage_steps(ctx, want=('break',))
    read_input(ctx, ['read.break_stops_reading'])
    go_chain(ctx, want=('go.chain',))        # the limiter is in the chain whenever --take is given (T = 0 included)
    from ..scen_files import files, file_sources
    files(ctx); file_sources(ctx)      # a file argument is streamed through the same reader (a pipe given as a file is unbounded input too)
    stage_steps(ctx, want=('frame', 'contract'))      # a stage decides from the row it is given (a remembered verdict can starve the limiter)
    read_input(ctx, ['read.process_err_propagates', 'read.write_err_propagates'])      # a failing output ends the run instead of being skipped like a malformed value
    from ..conform import conformance
    conformance(ctx, ['take'])      # the references the obligations are stated against, compared with jawk::go on concrete runs (validates the oracles; never decides)
