"""C14 - --take stops reading"""
from ..scen_limiter import limiter
from ..scen_stages import stage_steps
from ..scen_readinput import read_input


def run(ctx):
    limiter(ctx, {'step'})
    stage_steps(ctx, want=('break',))
    read_input(ctx, ['read.break_stops_reading'])
