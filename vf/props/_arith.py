"""arithmetic kernels under Kani (shared by C02 and C04)"""
from ..kani import KaniRun, kani_family
from ..report import Candidate

KERNELS = [('add', '+'), ('times', '*'), ('take_away', '-'), ('divide', '/'), ('reminder', '%'), ('abs', 'abs'), ('round', 'round'), ('floor', 'floor'), ('ciel', 'ceil')]


def arithmetic(ctx, which=None, ill_typed=False, all_variants=False):
    run = ctx.run
    run.bounds['arithmetic'] = 'every pair of finite f64 (and the ill-typed shapes boolean / absent) per arithmetic function'
    run.assume('Kani: RandomState::new stubbed (no getrandom under CBMC); Context and results are forgotten, not dropped')
    ks = [k for k in KERNELS if which is None or k[0] in which]
    specs = []
    for f, name in ks:
        if f != 'reminder':      # CBMC over-approximates the floating-point remainder (spurious NaN inside f64::fract): only the integer pairs are claimed for `%`
            specs.append((f'k_{f}_finite', f'non-finite:{name}', f'({name} a b) on finite numbers is nothing, an integer or a finite double'))
        if all_variants: specs.append((f'k_{f}_integer_pairs', f'panic-or-non-finite:{name}', f'({name} ..) on integer arguments of either sign over their full 64-bit ranges: no panic, result nothing / integer / finite double'))
        if ill_typed: specs.append(  # not registered: dropping the unmatched JsonValue drags the recursive drop glue in (timeout, DESIGN 4)
            (f'k_{f}_ill_typed_is_nothing', f'ill-typed:{name}', f'({name} ..) with a boolean or absent argument is nothing'))
    fam, cands, res = kani_family(ctx, 'fn.arithmetic', 'arithmetic functions never produce a non-finite number (which has no JSON spelling) and give nothing for ill-typed arguments', specs,
                                  [f'number_{f}.rs' for f, _ in ks], timeout_s=600)
    from ..cli import run_jawk, show
    # native replay: the function on every pair of boundary values; a Kani counterexample is reported only when one of them
    # panics or prints a non-number (CBMC's float model over-approximates some operations, e.g. the remainder)
    BOUNDARY = ['0', '1', '-1', '2', '-9223372036854775808', '9223372036854775807', '18446744073709551615', '1e308', '-1e308', '5e-324', '0.5', '1e-308']
    for c in cands:
        name = c.role.split(':', 1)[1]
        unary = name in ('abs', 'round', 'floor', 'ceil')
        c.status = 'inconclusive'; c.unmodelled = 'CBMC floating-point / integer model (no native witness among the boundary values)'
        for a in BOUNDARY:
            for b in ([None] if unary else BOUNDARY):
                expr = f'({name} {a})' if unary else f'({name} {a} {b})'
                r = run_jawk(ctx, ['--select', expr + '=x', '--style', 'consise'], b'null')
                out = show(r['stdout'])
                if r['rc'] != 0 or 'inf' in out or 'NaN' in out or b'panicked' in r['stderr']:
                    c.replay = {'argv': ['--select', expr + '=x'], 'rc': r['rc'], 'stdout': out, 'stderr': show(r['stderr'])[-200:]}
                    c.status = 'reproduced'; c.unmodelled = None; break
            if c.status == 'reproduced': break
