"""arithmetic kernels under Kani (shared by C02 and C04)"""
from ..kani import KaniRun, kani_family
from ..report import Candidate

KERNELS = [('add', '+'), ('times', '*'), ('take_away', '-'), ('divide', '/'), ('reminder', '%'), ('abs', 'abs'), ('round', 'round'), ('floor', 'floor'), ('ciel', 'ceil')]


def arithmetic(ctx, which=None, ill_typed=False):
    run = ctx.run
    run.bounds['arithmetic'] = 'every pair of finite f64 (and the ill-typed shapes boolean / absent) per arithmetic function'
    run.assume('Kani: RandomState::new stubbed (no getrandom under CBMC); Context and results are forgotten, not dropped')
    ks = [k for k in KERNELS if which is None or k[0] in which]
    specs = []
    for f, name in ks:
        specs.append((f'k_{f}_finite', f'non-finite:{name}', f'({name} a b) on finite numbers is nothing, an integer or a finite double'))
        if ill_typed: specs.append(  # not registered: dropping the unmatched JsonValue drags the recursive drop glue in (timeout, DESIGN 4)
            (f'k_{f}_ill_typed_is_nothing', f'ill-typed:{name}', f'({name} ..) with a boolean or absent argument is nothing'))
    fam, cands, res = kani_family(ctx, 'fn.arithmetic', 'arithmetic functions never produce a non-finite number (which has no JSON spelling) and give nothing for ill-typed arguments', specs,
                                  [f'number_{f}.rs' for f, _ in ks], timeout_s=600)
    from ..cli import run_jawk, show
    DEMO = {'+': '(+ 1e308 1e308)', '*': '(* 1e200 1e200)', '-': '(- -1e308 1e308)', '/': '(/ 1e308 1e-308)'}
    for c in cands:
        name = c.role.split(':', 1)[1]
        if c.role.startswith('non-finite') and name in DEMO:
            r = run_jawk(ctx, ['--select', DEMO[name] + '=x', '--style', 'consise'], b'null')
            c.replay = {'argv': ['--select', DEMO[name] + '=x'], 'stdout': show(r['stdout'])}
            out = show(r['stdout'])
            c.status = 'reproduced' if ('inf' in out or 'NaN' in out) else 'unit'
