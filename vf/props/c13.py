"""C13 - an expression means the same in every position, alias, spelling and cache size"""
from ..scen_expr import separators, option_tails
from ..scen_ctx import contexts
from ..scen_misc import regex_cache, function_names


def run(ctx):
    separators(ctx)
    option_tails(ctx)
    contexts(ctx)        # 'the current input with its parents': every option position sees the same context derivations
    regex_cache(ctx)
    function_names(ctx)
    from ..scen_kernels2 import binding_forms
    binding_forms(ctx)       # (set n v e) / (define n m e): e in exactly the context derived by binding n (to the value / to the getter itself)
    from ..scen_purity import getter_purity
    getter_purity(ctx)       # a getter that keeps state (cell, thread-local, static) must still be a function of its arguments
    from ..scen_expr import selection_name
    selection_name(ctx)       # the column name given after `=` is kept byte for byte
    from ..conform import conformance
    conformance(ctx, ['binding'])      # the references the obligations are stated against, compared with jawk::go on concrete runs (validates the oracles; never decides)
