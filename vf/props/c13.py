"""C13 - an expression means the same in every position, alias, spelling and cache size"""
from ..scen_expr import separators, option_tails


def run(ctx):
    separators(ctx)
    option_tails(ctx)
