"""C10 - --unique removes exactly the later duplicates, by the same equality as `=`"""
from ..scen_collect import unique
from ..kani import kani_family


def run(ctx):
    unique(ctx)
    from ..scen_misc import eq_function
    eq_function(ctx)
    from ..scen_kernels2 import kernels2
    kernels2(ctx, names=['=', '!='])
    from ..scen_go import go_chain
    go_chain(ctx, want=('go.chain',))       # exactly one Uniquness stage, behind the selections (rows are compared on their selected values)
    ctx.run.bounds['hash_eq'] = 'numbers in parser normal form with |n| < 2^53 (Negative(i) => i < 0: the `-0` exclusion of the property), booleans, null, one-byte ASCII strings'
    specs = [('k_hash_agrees_with_eq_numbers', 'hash-eq-numbers', 'a == b => equal hash transcripts, over all 9 number variant pairs'),
             ('k_scalar_rank_and_eq_hash', 'hash-eq-scalars', 'a == b => equal hash transcripts and cmp==Equal <=> ==, over all scalar type pairs'),
             ('k_from_f64_normalises', 'from-f64', 'numerically equal spellings meet in one representation: From<f64> maps every integral double of the integer ranges to the integer variant'),
             ('k_integer_eq_exact', 'int-eq-exact', 'integers are equal (and hash alike) exactly when they are the same integer, over all u64 / i64')]
    kani_family(ctx, 'unique.hash_eq', 'Hash agrees with Eq on keys (the HashSet abstraction of unique.step is sound)', specs, ['json_value.rs'], timeout_s=900)
    from ..conform import conformance
    conformance(ctx, ['pipeline'])      # the references the obligations are stated against, compared with jawk::go on concrete runs (validates the oracles; never decides)
