"""C05 - no input data and no parsable expression can make jawk panic or hang"""
from ..scen_parser import tokenizer, selfcheck
from ..scen_kernels import kernels
from ..scen_expr import truncation
from ..scen_readinput import read_input


def run(ctx):
    selfcheck(ctx)
    n = 3 if ctx.quick else 4
    tokenizer(ctx, n, ['tok.nopanic', 'tok.progress', 'tok.garbage'], f'full alphabet n={n}')
    read_input(ctx, ['read.nopanic'])
    kernels(ctx)
    truncation(ctx)
