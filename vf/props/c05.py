"""C05 - no input data and no parsable expression can make jawk panic or hang"""
from ..scen_parser import tokenizer, selfcheck
from ..scen_kernels import kernels
from ..scen_expr import truncation, expr_nopanic
from ..scen_readinput import read_input


from ._arith import arithmetic


def run(ctx):
    selfcheck(ctx)
    n = 3 if ctx.quick else 4
    tokenizer(ctx, n, ['tok.nopanic', 'tok.progress', 'tok.garbage'], f'full alphabet n={n}')
    Q, BS, ANY = [0x22], [0x5c], None
    TERM = [0x20, 0x0a, ord(','), ord(']'), ord('}')]
    multi = [(5, [Q, BS, ANY, Q, TERM]), (9, [Q, BS, [ord('u')], ANY, ANY, ANY, ANY, Q, TERM]), (6, [Q, ANY, ANY, ANY, Q, TERM])]
    tokenizer(ctx, None, ['tok.nopanic', 'tok.progress'], 'string tokens by class: "\\c", "\\uHHHH" with every byte of c / H free (all 256 values), "ccc"', variants=('nocb',), partition=0, multi=multi)
    read_input(ctx, ['read.nopanic'])
    kernels(ctx)
    from ..scen_kernels2 import kernels2, kernels_fn
    from ..scen_kernels2 import regex_kernels, parse_kernel
    parse_kernel(ctx); regex_kernels(ctx)                   # extract_regex_group / match_regex against the regex crate's API contract: no panic for any group index
    kernels2(ctx); kernels_fn(ctx)       # the same runs decide panic-freedom of these functions (every MIR assert / unwrap / slice is a path)
    truncation(ctx)
    expr_nopanic(ctx)
    arithmetic(ctx, which=['reminder', 'divide', 'add'] if ctx.quick else None, all_variants=True)
    from ..scen_sorter import sorter
    from ..scen_limiter import limiter
    sorter(ctx, want_order=False, want_topn=True)      # panic paths of the buffering stages (capacity 0 included)
    limiter(ctx, {'nopanic', 'step'})
    from ..kani import kani_family
    kani_family(ctx, 'order.preorder', 'the comparison the std sorts are given is a total preorder over all numbers (an inconsistent comparator makes slice::sort panic)',
                [('k_number_cmp_total_preorder_full', 'number-order-preorder', 'Ord for NumberValue antisymmetric and transitive over all u64 / i64 / finite f64')], ['json_value.rs'], timeout_s=900)
