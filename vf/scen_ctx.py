"""Context::with_* (src/processor.rs): derived contexts keep input and parents, change only their own component."""
import re
import z3
from .lib import *
from .report import Candidate, Broken


def tags(st, v):
    m = model(st, v)
    return [tuple(origin(st, x) for x in e) if isinstance(e, tuple) else origin(st, e) for e in m]


def s_map_iter(ex, st, func, args, ty):       # HashMap iteration yields (&k,&v) pairs
    items = []
    for k, v in model(st, args[0]):
        t = named(st, st.fresh_name('kv'), 'tuple'); st.heap[t.oid][('f', None, 0)] = slot(st, k); st.heap[t.oid][('f', None, 1)] = slot(st, v); items.append(t)
    return [(st, seqobj(st, 'Iter', items))]


def s_map_insert(ex, st, func, args, ty):
    """HashMap::insert with keys identified by their tag (names are concrete tags in this scenario; NEWNAME is
    decided equal / not equal to an existing name by the scenario)"""
    mp = obj(st, args[0]); k = args[1]; v = args[2]
    name = origin(st, k)
    items = [(kk, vv) for kk, vv in model(st, mp) if origin(st, kk) != name] + [(k, v)]
    set_model(st, mp, items); return [(st, none(st))]


def s_map_get(ex, st, func, args, ty):
    mp = obj(st, args[0]); name = origin(st, args[1])
    for kk, vv in model(st, mp):
        if origin(st, kk) == name:
            return [(st, some(st, slot(st, vv)))]
    return [(st, none(st))]


def s_vec_get(ex, st, func, args, ty):
    v = obj(st, args[0]); m = model(st, v); i = args[1].t
    out = []
    for k in range(len(m)):
        if ex.feasible(st, i == k):
            s2 = st.clone(); s2.pc.append(i == k); out.append((s2, some(s2, slot(s2, model(s2, v)[k]))))
    c = z3.UGE(i, len(m))
    if ex.feasible(st, c):
        s2 = st.clone(); s2.pc.append(c); out.append((s2, none(s2)))
    return out


def s_unwrap_or_else(ex, st, func, args, ty):
    """Option<&T>::unwrap_or_else(|| self.input()) - the closure of parent_input returns the context's input"""
    o = args[0]; d = ex.discr(st, o).t; out = []
    if ex.feasible(st, d == 1):
        s2 = st.clone(); s2.pc.append(d == 1); out.append((s2, ex.load(s2, o.oid, ('f', 'Some', 0), 'opaque')))
    if ex.feasible(st, d == 0):
        s2 = st.clone(); s2.pc.append(d == 0)
        clo = args[1]
        cap = ex.load(s2, clo.oid, ('f', None, 0), '&Context')        # captured &self
        c = obj(s2, cap)
        out.append((s2, slot(s2, s2.heap[c.oid][('f', None, ex.structs['Context'].index('input'))])))
    return out


SUMM = [(r'as Clone>::clone$', s_clone), (r'Vec::<.*>::new$|HashMap::<.*>::with_capacity$|Vec::<.*>::with_capacity$|HashMap::<.*>::new$', s_seq_new),
        (r'Vec::<.*>::push$', s_seq_push), (r'Vec::<.*>::len$|HashMap::<.*>::len$', s_seq_len),
        (r'Vec::<.*>::is_empty$', s_seq_is_empty),
        (r'<&Vec<.*> as IntoIterator>::into_iter$|impl \[.*\]>::iter$', s_iter_ref), (r'<std::slice::Iter<.*> as Iterator>::next$', s_iter_next),
        (r'Rc::<.*>::new$', s_identity), (r'<Rc<.*> as Deref>::deref$', s_identity), (r'<Vec<.*> as Deref>::deref$', s_identity),
        (r'<&HashMap<.*> as IntoIterator>::into_iter$|HashMap::<.*>::iter$', s_map_iter), (r'hash_map::Iter<.*> as Iterator>::next$', s_iter_next),
        (r'HashMap::<.*>::insert$', s_map_insert), (r'HashMap::<.*>::get::<', s_map_get),
        (r'impl \[.*\]>::get::<usize>$', s_vec_get), (r'Option::<.*>::unwrap_or_else::<', s_unwrap_or_else)]


def contexts(ctx):
    run = ctx.run
    run.bounds['context'] = 'contexts with 0..2 (thorough: 0..3) parents, results, variables and 0..1 (0..2) definitions; the bound name equal to an existing one or new'
    run.assume('Vec / HashMap / Rc are modelled as sequences / association lists / shared objects; names are compared by identity of their symbolic tag')
    CT = ctx.structs['Context']
    PR = r'^processor::<impl at [^>]*>::'
    TOP = ('with_inupt', 'with_result', 'with_variable', 'with_variables', 'with_definition', 'with_definitions', 'parent_input', 'new_empty', 'new_with_input', 'new_with_no_context', 'build', 'key', 'to_list', 'compile_regex')
    # every method of the `impl Context` block is executed, not summarised (helper extraction is followed)
    impl = re.match(r'(processor::<impl at [^>]*>)::', ctx.find(PR + 'with_inupt$').name).group(1)
    inl = []
    for n in ctx.fns:
        if n.startswith(impl + '::') and n.count('::') == impl.count('::') + 1:
            h = n.rsplit('::', 1)[1]
            if h in ('new_empty', 'new_with_input', 'new_with_no_context', 'build', 'key', 'to_list', 'compile_regex', 'get_variable_value', 'get_definition', 'get_selection'): continue
            inl.append((r'Context::%s$' % h, '^' + re.escape(n) + '$'))
    ex = ctx.exec(summaries=SUMM, inline=inl, max_visits=14)
    fam = run.family('context.derive', 'with_result/variable(s)/definition(s) keep the input and every parent input and change only their own component; with_inupt pushes the old input in front of the parents, clears the results, keeps the bindings')
    fpar = run.family('context.parent_input', 'parent_input(k) is the input for k=0, the k-th enclosing input for 1<=k<=#parents, and the input again beyond')

    def mkctx(st, n_par, n_res, n_var, n_def):
        c = st.new_obj('ctx', 'Context')
        def put(name, v): st.heap[c][('f', None, CT.index(name))] = v
        put('input', named(st, 'INPUT', 'Rc<JsonValue>'))
        put('parent_inputs', seqobj(st, 'Vec', [named(st, f'PARENT{i}') for i in range(n_par)]))
        res = []
        for i in range(n_res):
            t = named(st, st.fresh_name('res'), 'tuple'); st.heap[t.oid][('f', None, 0)] = named(st, f'TITLE{i}'); st.heap[t.oid][('f', None, 1)] = named(st, f'RESULT{i}'); res.append(t)
        put('results', seqobj(st, 'Vec', res))
        put('variables', seqobj(st, 'Map', [(named(st, f'var{i}'), named(st, f'VAL{i}')) for i in range(n_var)]))
        put('definitions', seqobj(st, 'Map', [(named(st, f'def{i}'), named(st, f'GET{i}')) for i in range(n_def)]))
        put('input_context', named(st, 'INPUT_CONTEXT')); put('regex_cache', named(st, 'REGEX_CACHE'))
        return c

    def fldv(st, c, name): return st.heap[c][('f', None, CT.index(name))]
    def restags(st, v):
        out = []
        for t in model(st, v):
            t = obj(st, t); out.append((origin(st, st.heap[t.oid][('f', None, 0)]), origin(st, st.heap[t.oid][('f', None, 1)])))
        return out

    CASES = {
        'with_result': lambda st, cref, nm: [cref, slot(st, named(st, 'NEWTITLE')), named(st, 'NEWRESULT', 'Option<JsonValue>')],
        'with_variable': lambda st, cref, nm: [cref, named(st, nm, 'String'), named(st, 'NEWVAL')],
        'with_variables': lambda st, cref, nm: [cref, slot(st, seqobj(st, 'Map', [(named(st, 'varX'), named(st, 'VALX'))], origin='NEWVARS'))],
        'with_definition': lambda st, cref, nm: [cref, named(st, nm, 'String'), slot(st, named(st, 'NEWGET'))],
        'with_definitions': lambda st, cref, nm: [cref, slot(st, seqobj(st, 'Map', [(named(st, 'defX'), named(st, 'GETX'))], origin='NEWDEFS'))],
        'with_inupt': lambda st, cref, nm: [cref, named(st, 'NEWINPUT', 'JsonValue')],
    }
    for meth, mkargs in CASES.items():
        F = ex.find(PR + meth + '$')
        R = (0, 1, 2) if ctx.quick else (0, 1, 2, 3)
        for n_par in R:
            for n_res in R:
                for n_var in R:
                    for n_def in ((0, 1) if ctx.quick else (0, 1, 2)):
                        names = ['NEWNAME']
                        if meth == 'with_variable': names += [f'var{i}' for i in range(n_var)]
                        if meth == 'with_definition': names += [f'def{i}' for i in range(n_def)]
                        for nm in names:
                            st = State(); c = mkctx(st, n_par, n_res, n_var, n_def); cref = slot(st, ObjV(c), 'ctx*')
                            ex.new_frame(st, F, mkargs(st, cref, nm))
                            for d in ex.run(st):
                                run.paths += 1
                                if d.status == 'infeasible': continue
                                fam.obligations += 1; fam.paths += 1; fam.witnesses += 1
                                hav = (d.havoc or [None])[0]
                                if d.status != 'returned':
                                    fam.candidates.append(Candidate(fam.name, f'{meth}-{d.status}', f'Context::{meth} ends as {d.status} {d.notes}', unmodelled=hav)); continue
                                r = obj(d, d.ret).oid
                                pre = {'par': tags(d, fldv(d, c, 'parent_inputs')), 'res': restags(d, fldv(d, c, 'results')), 'var': dict(tags(d, fldv(d, c, 'variables'))),
                                       'def': dict(tags(d, fldv(d, c, 'definitions')))}
                                try:
                                    post = {'in': origin(d, fldv(d, r, 'input')), 'par': tags(d, fldv(d, r, 'parent_inputs')), 'res': restags(d, fldv(d, r, 'results')),
                                            'var': dict(tags(d, fldv(d, r, 'variables'))), 'def': dict(tags(d, fldv(d, r, 'definitions'))),
                                            'ic': origin(d, fldv(d, r, 'input_context')), 'rc': origin(d, fldv(d, r, 'regex_cache'))}
                                except (KeyError, Exception) as e:
                                    comp = {'with_variable': 'var', 'with_variables': 'var', 'with_definition': 'def', 'with_definitions': 'def', 'with_result': 'res', 'with_inupt': 'par'}[meth]
                                    if not any(c_.role == f'{meth}-changes-{comp}' for c_ in fam.candidates):
                                        fam.candidates.append(Candidate(fam.name, f'{meth}-changes-{comp}', f'Context::{meth}: the derived context is built through a call the scenario has no model for ({type(e).__name__}: {str(e)[:80]})', {'method': meth}, unmodelled=hav or 'container construction'))
                                    continue
                                exp = {'in': 'INPUT', 'par': pre['par'], 'res': pre['res'], 'var': pre['var'], 'def': pre['def'], 'ic': 'INPUT_CONTEXT', 'rc': 'REGEX_CACHE'}
                                if meth == 'with_inupt': exp.update({'in': 'NEWINPUT', 'par': ['INPUT'] + pre['par'], 'res': []})
                                if meth == 'with_result': exp['res'] = pre['res'] + [('NEWTITLE', 'NEWRESULT')]
                                if meth == 'with_variable': exp['var'] = dict(pre['var'], **{nm: 'NEWVAL'})
                                if meth == 'with_variables': exp['var'] = {'varX': 'VALX'}
                                if meth == 'with_definition': exp['def'] = dict(pre['def'], **{nm: 'NEWGET'})
                                if meth == 'with_definitions': exp['def'] = {'defX': 'GETX'}
                                bad = [k for k in exp if exp[k] != post[k]]
                                if not bad:
                                    fam.discharged += 1
                                    if n_par == 2 and n_var == 1: fam.add_sample({'method': meth, 'pre': {k: str(v) for k, v in pre.items()}, 'post': {k: str(v) for k, v in post.items()}, 'verdict': 'equal to the reference'})
                                else:
                                    what = {'par': 'parent inputs', 'in': 'input', 'res': 'results', 'var': 'variables', 'def': 'definitions', 'ic': 'input context', 'rc': 'regex cache'}
                                    fam.candidates.append(Candidate(fam.name, f'{meth}-changes-{bad[0]}', f'Context::{meth} on a context with {n_par} parents/{n_res} results/{n_var} variables changes the {what[bad[0]]}: {pre.get(bad[0])} -> {post[bad[0]]} (expected {exp[bad[0]]})',
                                                                    {'method': meth, 'n_par': n_par, 'n_res': n_res, 'n_var': n_var, 'component': bad[0]}, unmodelled=hav))
    # parent_input(k)
    F = ex.find(PR + 'parent_input$')
    for n_par in (0, 1, 2):
        st = State(); c = mkctx(st, n_par, 0, 0, 0); cref = slot(st, ObjV(c), 'ctx*')
        k = z3.BitVec('k', 64)
        ex.new_frame(st, F, [cref, BV(k)])
        for d in ex.run(st):
            run.paths += 1
            if d.status == 'infeasible': continue
            fpar.obligations += 1; fpar.witnesses += 1
            if d.status != 'returned':
                fpar.candidates.append(Candidate(fpar.name, f'parent_input-{d.status}', f'parent_input ends as {d.status} {d.notes}', unmodelled=(d.havoc or [None])[0])); continue
            got = origin(d, d.ret)
            conj = [z3.Implies(k == 0, z3.BoolVal(got == 'INPUT')), z3.Implies(z3.UGT(k, n_par), z3.BoolVal(got == 'INPUT'))]
            for j in range(1, n_par + 1): conj.append(z3.Implies(k == j, z3.BoolVal(got == f'PARENT{j - 1}')))
            ok_, m = ex.valid(d, z3.And(*conj))
            if ok_: fpar.discharged += 1
            else: fpar.candidates.append(Candidate(fpar.name, 'parent_input-wrong', f'parent_input({m.eval(k, True).as_long()}) with {n_par} parents returns {got}', {'k': m.eval(k, True).as_long(), 'n_par': n_par}))
    for f in (fam, fpar):
        seen = set(); keep = []
        for c_ in f.candidates:
            if c_.role in seen: continue
            seen.add(c_.role); keep.append(c_)
        f.candidates = keep
    run.absorb(ex)
    replay_ctx(ctx, fam.candidates + fpar.candidates)


DEMOS = {
    # role prefix -> (argv, stdin, expected stdout)
    'with_variable-changes-par': (['--select', '(map .l (set "x" 1 ^.name))=r', '--style', 'consise'], b'{"name":"n","l":[1,2]}', b'{"r":["n","n"]}\n'),
    'with_definition-changes-par': (['--select', '(map .l (define "m" 1 ^.name))=r', '--style', 'consise'], b'{"name":"n","l":[1,2]}', b'{"r":["n","n"]}\n'),
    'with_result-changes-par': (['--split-by', '.l', '--select', '^.name=a', '--select', '^.name=b', '--style', 'consise'], b'{"name":"n","l":[1]}', b'{"a":"n","b":"n"}\n'),
    'with_variables-changes-par': (['--split-by', '.l', '--set', 'v=1', '--select', '^.name=a', '--style', 'consise'], b'{"name":"n","l":[1]}', b'{"a":"n"}\n'),
    'with_definitions-changes-par': (['--split-by', '.l', '--set', '@m=1', '--select', '^.name=a', '--style', 'consise'], b'{"name":"n","l":[1]}', b'{"a":"n"}\n'),
    'with_inupt-changes-par': (['--select', '(map .l ^.name)=r', '--style', 'consise'], b'{"name":"n","l":[1,2]}', b'{"r":["n","n"]}\n'),
    'with_inupt-changes-in': (['--select', '(map .l .)=r', '--style', 'consise'], b'{"name":"n","l":[1,2]}', b'{"r":[1,2]}\n'),
    'with_variable-changes-var': [(['--select', '(set "x" 1 (set "y" 2 (+ :x :y)))=r', '--style', 'consise'], b'1', b'{"r":3}\n'), (['--select', '(set "x" 1 (set "x" 2 :x))=r', '--style', 'consise'], b'1', b'{"r":2}\n'),
                                  (['--set', 'n=100', '--select', '(set "n" 5 (+ :n 1))=r', '--select', '(+ :n 0)=o', '--style', 'consise'], b'1', b'{"r":6,"o":100}\n')],
    'with_definition-changes-def': [(['--set', '@f=1', '--select', '(define "f" 5 (+ @f 1))=r', '--select', '(+ @f 0)=o', '--style', 'consise'], b'1', b'{"r":6,"o":1}\n'), (['--select', '(define "f" 1 (define "g" 2 (+ @f @g)))=r', '--style', 'consise'], b'1', b'{"r":3}\n')],
    'with_variables-changes-var': [(['--set', 'a=1', '--set', 'b=2', '--select', '(+ :a :b)=r', '--style', 'consise'], b'1', b'{"r":3}\n')],
    'with_definitions-changes-def': [(['--set', '@a=1', '--set', '@b=(+ @a 1)', '--select', '(+ @b 0)=r', '--style', 'consise'], b'1', b'{"r":2}\n')],
    'with_variable-changes-in': (['--select', '(set "x" 1 .)=r', '--style', 'consise'], b'5', b'{"r":5}\n'),
    'with_result-changes-res': (['--select', '.a=a', '--select', '.b=b', '--style', 'consise'], b'{"a":1,"b":2}', b'{"a":1,"b":2}\n'),
    'with_result-changes-in': (['--select', '.a=a', '--select', '.b=b', '--style', 'consise'], b'{"a":1,"b":2}', b'{"a":1,"b":2}\n'),
}


def replay_ctx(ctx, cands):
    from .cli import run_jawk, show
    for c in cands:
        demo = DEMOS.get(c.role)
        if demo is None:
            c.status = 'unit'; continue
        c.status = 'unit'
        for dm in (demo if isinstance(demo, list) else [demo]):
            r = run_jawk(ctx, dm[0], dm[1])
            c.replay = {'argv': dm[0], 'stdin': show(dm[1]), 'expected': show(dm[2]), 'actual': show(r['stdout']), 'rc': r['rc']}
            if r['stdout'] != dm[2]: c.status = 'reproduced'; break
