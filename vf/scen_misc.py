"""Smaller obligations: the regex cache key (C11 iv / C13 d), the pipe function (C12 b), which std sort routine each sort
function relies on (C07 d)."""
import re, json
import z3
from .lib import *
from .report import Candidate, Broken
from .mirsym import Unmodelled, Const
from .scen_kernels import s_str_index, PANICS as KPANICS


# ---------------------------------------------------------------- regex cache
def regex_cache(ctx):
    run = ctx.run
    L = 50
    run.bounds['regex cache'] = f'pattern = {L} free ASCII bytes (longer than any fixed prefix a key could be cut to); cache present / absent; hit / miss'
    run.assume('cached::SizedCache::cache_get_or_set_with(key, f) returns the value stored under an equal key, else stores and returns f() (crate contract); regex::Regex::new is a function of the pattern text')
    fam = run.family('regex.cache_key', 'RegexCache::compile_regex looks the pattern up under a key that is the pattern text itself and compiles exactly that text on a miss, so a hit can only return what a miss would have computed (the result is independent of the cache size)')
    pat = [z3.BitVec(f'p{i}', 8) for i in range(L)]

    def s_regex_new(ex, st, func, args, ty):
        m = model(st, args[0]); st.events.append(('compile', tuple(b.t for b in m)))
        return [(st, named(st, st.fresh_name('compiled'), 'Result<Regex,Error>'))]

    def s_into_string(ex, st, func, args, ty): return [(st, seqobj(st, 'String', model(st, args[0])))]

    def s_borrow_mut(ex, st, func, args, ty): return [(st, obj(st, args[0]))]

    def s_cache(ex, st, func, args, ty):
        key = obj(st, args[1]); clo = args[2]
        kdesc = tuple(b.t for b in st.heap[key.oid]['model']) if isinstance(key, ObjV) and 'model' in st.heap[key.oid] else ('opaque-key', str(key))
        out = []
        for hit in (True, False):
            s2 = st.clone(); s2.events.append(('lookup', kdesc, hit))
            if hit:
                out.append((s2, slot(s2, named(s2, s2.fresh_name('cached'), 'Rc<Result<Regex,Error>>'))))
            else:
                # run the closure body: || Rc::new(Regex::new(regex))
                cb = [n for n in ex.fns if re.search(r'compile_regex::\{closure#0\}$', n)]
                if len(cb) != 1: raise Broken(f'compile_regex closure: {cb}')
                saved = s2.frames; s2.frames = []
                s2.status = 'running'; ex.new_frame(s2, ex.fns[cb[0]], [clo])
                for r_ in ex.run(s2):
                    if r_.status == 'returned':
                        r_.frames = [dict(f) for f in saved]; r_.status = 'running'; out.append((r_, slot(r_, r_.ret)))
        return out

    summ = [(r'Regex::new$', s_regex_new), (r'Rc::<.*>::new$', s_identity), (r'<&str as Into<std::string::String>>::into$|ToString>::to_string$|ToOwned>::to_owned$|<str as ToOwned>::to_owned$|String::from$', s_into_string),
            (r'RefCell::<.*>::borrow_mut$', s_borrow_mut), (r'as Deref>::deref$|as DerefMut>::deref_mut$', s_identity),
            (r'cache_get_or_set_with::<', s_cache), (r'<Rc<.*> as Clone>::clone$', s_clone_shared),
            (r'<std::string::String as Index<.*>>::index$|<str as Index<.*>>::index$', s_str_index), (r'String::len$|impl str>::len$', s_seq_len),
            (r'std::cmp::min::<usize>$|Ord>::min$', lambda ex, st, f, a, t: [(st, BV(z3.If(z3.ULT(a[0].t, a[1].t), a[0].t, a[1].t)))]),
            (r'impl str>::as_bytes$|String::as_bytes$|impl str>::bytes$', s_identity)]
    ex = ctx.exec(summaries=summ, max_visits=3 * L)
    F = ex.find(r'^regex_cache::<impl at [^>]*>::compile_regex$')
    RC = ctx.structs['RegexCache']
    for has_cache in (False, True):
        st = State(); so = st.new_obj('self', 'RegexCache'); selfref = slot(st, ObjV(so), 'self*')
        for b in pat: st.pc.append(z3.And(z3.UGE(b, 0x20), z3.ULT(b, 0x7f)))
        st.heap[so][('f', None, RC.index('cache'))] = some(st, named(st, 'CACHE', 'Rc<RefCell<SizedCache>>')) if has_cache else none(st)
        rx = slot(st, seqobj(st, 'str', [BV(b) for b in pat], origin='PATTERN'), 'regex*')
        KPANICS.clear()
        ex.new_frame(st, F, [selfref, rx])
        for d in ex.run(st) + list(KPANICS):
            run.paths += 1
            if d.status == 'infeasible': continue
            fam.obligations += 1; fam.paths += 1; fam.witnesses += 1
            hav = (d.havoc or [None])[0]
            why = None
            if d.status != 'returned': why = f'path ends as {d.status} {d.notes[-1:]}'
            else:
                looks = [e for e in d.events if e[0] == 'lookup']; comps = [e for e in d.events if e[0] == 'compile']
                def is_pattern(bs):
                    return len(bs) == L and all(not isinstance(x, str) for x in bs) and ex.valid(d, z3.And(*[x == y for x, y in zip(bs, pat)]))[0]
                if has_cache:
                    if len(looks) != 1: why = f'{len(looks)} cache look-ups'
                    elif not is_pattern(looks[0][1]): why = 'the cache key is not the pattern text'
                    elif looks[0][2] and comps: why = 'compiles on a hit'
                    elif not looks[0][2] and (len(comps) != 1 or not is_pattern(comps[0][1])): why = 'on a miss something other than the pattern is compiled'
                else:
                    if looks: why = 'cache used although the size is 0'
                    elif len(comps) != 1 or not is_pattern(comps[0][1]): why = 'does not compile exactly the pattern'
            if why is None:
                fam.discharged += 1; fam.add_sample({'cache': has_cache, 'events': [(e[0], 'pattern' if e[0] == 'compile' or e[0] == 'lookup' else '') for e in d.events], 'verdict': 'key == pattern text, compiled text == pattern text'})
            else:
                c = Candidate(fam.name, 'cache-key', f'RegexCache::compile_regex (cache {"on" if has_cache else "off"}): {why}', {'cache': has_cache}, unmodelled=hav)
                if not fam.candidates: fam.candidates.append(c)
    run.absorb(ex)
    from .cli import run_jawk, show
    for c in fam.candidates:
        # patterns that collide under a prefix key or a multiplicative hash, in one run, cache on vs off
        long = 'a' * 48
        rows = [{'s': long + 'X', 'p': '^' + long + 'X$'}, {'s': long + 'X', 'p': '^' + long + 'Y$'}, {'s': 'Aa', 'p': 'Aa$'}, {'s': 'Aa', 'p': 'BB$'}, {'s': 'BB', 'p': 'Aa$'},
                {'s': 'abc', 'p': '^\\w{1,64}$'}, {'s': 'abc', 'p': '^[\\p{L}\\p{N}]{1,200}$'}, {'s': 'ABC', 'p': '(?i)^abc$'}, {'s': 'abc', 'p': '^\\w{1,64}$'}]
        stdin = ' '.join(json.dumps(r) for r in rows).encode()
        outs = {}
        for size in ('0', '1', '2', '64'):
            r = run_jawk(ctx, ['--regular-expression-cache-size', size, '--select', '(match .s .p)=m', '--style', 'consise'], stdin)
            outs[size] = show(r['stdout'])
        c.replay = {'argv': ['--regular-expression-cache-size', '<0|1|2|64>', '--select', '(match .s .p)=m'], 'stdin': rows, 'outputs_by_cache_size': outs}
        c.status = 'reproduced' if len(set(outs.values())) != 1 else 'unit'


# ---------------------------------------------------------------- the pipe function
def pipe(ctx):
    run = ctx.run
    run.bounds['pipe'] = '(| a b) and (| a b c): every stage answers a value or nothing'
    fam = run.family('bind.pipe', '(| a b ..) evaluates the first stage with the current input (the previous input as its parent), each later stage with the previous stage\'s value as input, and returns the last value; nothing as soon as a stage yields nothing')

    def dyn_get(ex, st, func, args, ty):
        g = origin(st, args[0]); c = obj(st, args[1]); out = []
        for present in (True, False):
            s2 = st.clone(); s2.events.append(('get', g, s2.heap[c.oid].get('chain', origin(s2, c)), present))
            out.append((s2, some(s2, named(s2, 'VAL_' + g, 'JsonValue')) if present else none(s2)))
        return out

    def s_with_input(ex, st, func, args, ty):
        src = obj(st, args[0]); v = obj(st, args[1])
        o = named(st, st.fresh_name('ctx'), 'Context')
        st.heap[o.oid]['chain'] = ('with_input', st.heap[src.oid].get('chain', origin(st, src)), st.heap[v.oid].get('is_input_of', origin(st, v)))
        st.heap[o.oid]['input_val'] = v
        return [(st, o)]

    def s_input(ex, st, func, args, ty):
        c = obj(st, args[0])
        if 'input_val' in st.heap[c.oid]: return [(st, slot(st, st.heap[c.oid]['input_val']))]
        v = named(st, 'INPUT', 'Rc<JsonValue>'); st.heap[v.oid]['is_input_of'] = 'input(' + origin(st, c) + ')'
        return [(st, slot(st, v))]

    summ = [(r'<dyn Get as Get>::get$', dyn_get), (r'Context::with_inupt$', s_with_input), (r'Context::input$', s_input),
            (r'<JsonValue as Clone>::clone$|<Rc<.*> as Clone>::clone$', s_clone_shared), (r'as Deref>::deref$', s_identity),
            (r'<&Vec<.*> as IntoIterator>::into_iter$|impl \[.*\]>::iter$', s_iter_ref), (r'as Iterator>::next$', s_iter_next)]
    ex = ctx.exec(summaries=summ, max_visits=16)
    F = ex.find(r'pipe::get::\{closure#0\}::<impl at [^>]*>::get$')
    for n in (2, 3):
        st = State(); so = named(st, 'self', 'Impl'); selfref = slot(st, so, 'self*')
        st.heap[so.oid][('f', None, 0)] = seqobj(st, 'Vec', [named(st, f'G{i}', 'Rc<dyn Get>') for i in range(n)])
        c0 = named(st, 'CTX', 'Context')
        ex.new_frame(st, F, [selfref, slot(st, c0, 'ctx*')])
        for d in ex.run(st):
            run.paths += 1
            if d.status == 'infeasible': continue
            fam.obligations += 1; fam.paths += 1; fam.witnesses += 1
            hav = (d.havoc or [None])[0]
            gets = [e for e in d.events if e[0] == 'get']
            why = None
            if d.status != 'returned': why = f'ends as {d.status} {d.notes[-1:]}'
            else:
                exp_chain = ('with_input', 'CTX', 'input(CTX)')
                for i, g in enumerate(gets):
                    if g[1] != f'G{i}': why = f'stage {i} is {g[1]}'; break
                    if g[2] != exp_chain: why = f'stage {i} is evaluated in {g[2]}, expected {exp_chain}'; break
                    if not g[3]: break
                    exp_chain = ('with_input', exp_chain, f'VAL_G{i}')
                r = obj(d, d.ret); rd = cval(ex.discr(d, r).t)
                allp = len(gets) == n and all(g[3] for g in gets)
                if why is None:
                    if allp:
                        if rd != 1 or origin(d, d.heap[r.oid][('f', 'Some', 0)]) != f'VAL_G{n - 1}': why = 'does not return the last stage\'s value'
                    else:
                        if rd != 0 or (gets and gets[-1][3]): why = 'a stage yielding nothing does not end the pipe with nothing'
            if why is None:
                fam.discharged += 1; fam.add_sample({'stages': n, 'evaluations': [(g[1], str(g[2])[:80], g[3]) for g in gets], 'verdict': 'as specified'})
            elif not fam.candidates:
                fam.candidates.append(Candidate(fam.name, 'pipe-contexts', f'(| ...) with {n} stages: {why}', {'n': n}, unmodelled=hav))
    run.absorb(ex)
    from .cli import run_jawk, show
    DEMOS = [('(| (+ . 1) (* . 1) ^)', '5', 6), ('(| .n (abs .) (= . ^))', '{"n":3}', True), ('(| (+ . 1) ^)', '5', 5), ('(| . ^)', '7', 7), ('(| .a (+ . ^.b))', '{"a":1,"b":2}', None)]
    for c in fam.candidates:
        c.status = 'unit'
        for expr, stdin, exp in DEMOS:
            if exp is None: continue
            r = run_jawk(ctx, ['--select', expr + '=r', '--style', 'consise'], stdin.encode())
            try: got = json.loads(show(r['stdout'])).get('r')
            except Exception: got = show(r['stdout'])
            c.replay = {'argv': ['--select', expr + '=r'], 'stdin': stdin, 'expected': exp, 'actual': got}
            if got != exp: c.status = 'reproduced'; break


# ---------------------------------------------------------------- which std routine the sort functions rely on
SORT_FUNCS = {
    # function: (closure body regex, callee that must appear, callees that must not appear)
    'sort': (r'(^|::)sort::get::\{closure#0\}::<impl at [^>]*>::get$', r'impl \[.*\]>::sort$|impl \[.*\]>::sort_by|slice::<impl \[.*\]>::sort', r'sort_unstable'),
    'sort_by': (r'list::functional::sort_by::get::\{closure#0\}::<impl at [^>]*>::get$', r'::sort_by::<|::sort_by_key::<|::sort_by_cached_key::<', r'sort_unstable'),
    'sort_by_values': (r'sort_by_values::get::\{closure#0\}::<impl at [^>]*>::get$', r'IndexMap::<.*>::sort_by::<|::sort_by::<|sort_by_cached_key', r'sort_unstable'),
    'sort_by_values_by': (r'sort_by_values_by::get::\{closure#0\}::<impl at [^>]*>::get$', r'IndexMap::<.*>::sort_by::<|::sort_by::<|sort_by_cached_key', r'sort_unstable'),
    'sort_unique': (r'sort_unique::get::\{closure#0\}::<impl at [^>]*>::get$', r'::dedup$|::dedup_by', r'BTreeSet|HashSet|BTreeMap'),
    'sort_by_keys': (r'sort_by_keys::get::\{closure#0\}::<impl at [^>]*>::get$', r'sort_keys|sort_by::<|sort_unstable_keys', r'^$'),
}


def sort_functions(ctx):
    """C07.d (thin, labelled as such): the sort functions delegate to std / indexmap *stable* sorts with the value order;
    this pins which contract jawk relies on by reading the call targets in the closures' MIR"""
    run = ctx.run
    fam = run.family('sort.functions', 'sort / sort_by / sort_by_values(_by) / sort_by_keys call a stable sort routine (ties keep arrival order) and sort_unique removes duplicates with == (dedup), not through an ordered set; read off the call targets in the MIR - a structural fact, no solver involved')
    fam.need_witness = False
    run.assume('std slice::sort / sort_by and indexmap sort_by / sort_keys are stable sorts returning a sorted permutation (library contract)')
    for name, (rx, must, mustnot) in SORT_FUNCS.items():
        cs = [n for n in ctx.fns if re.search(rx, n)]
        fam.obligations += 1
        if len(cs) != 1:
            c = Candidate(fam.name, f'missing:{name}', f'closure body of {name} not found ({len(cs)} matches)', {'fn': name}); c.status = 'inconclusive'; c.unmodelled = 'body lookup'; fam.candidates.append(c); continue
        fn = ctx.fns[cs[0]]; run.functions[fn.name] = True
        callees = []
        def collect(f, depth=0):
            for b in f.blocks.values():
                if b.term.kind == 'call':
                    callees.append(b.term.data['func'])
                    # closures passed along are separate bodies: include comparator closures of this function
            for n2 in ctx.fns:
                if n2.startswith(f.name + '::{closure') and depth < 2: collect(ctx.fns[n2], depth + 1)
        collect(fn)
        has = any(re.search(must, c) for c in callees)
        bad = [c for c in callees if re.search(mustnot, c)] if mustnot != '^$' else []
        if has and not bad:
            fam.discharged += 1; fam.witnesses += 1
            fam.add_sample({'function': name, 'sort_call': next(c for c in callees if re.search(must, c))[:120], 'verdict': 'stable routine'})
        else:
            c = Candidate(fam.name, f'unstable:{name}', f'({name} ...) does not go through a stable sort: calls {[x[:60] for x in callees if "sort" in x]}', {'fn': name})
            fam.candidates.append(c)
    from .cli import run_jawk, show
    for c in fam.candidates:
        if c.status == 'inconclusive': continue
        # ties in a list longer than std's insertion-sort threshold
        rows = [{'k': i % 3, 'i': i} for i in range(64)]
        exp = sorted(rows, key=lambda r: r['k'])
        r = run_jawk(ctx, ['--select', '(sort_by . .k)=r', '--style', 'consise'], json.dumps(rows).encode())
        try: got = json.loads(show(r['stdout']))['r']
        except Exception: got = show(r['stdout'])[:200]
        c.replay = {'argv': ['--select', '(sort_by . .k)=r'], 'stdin': '64 rows with 3 distinct keys', 'stable_expected': got == exp}
        c.status = 'reproduced' if got != exp else 'unit'


# ---------------------------------------------------------------- Ord for JsonValue, arm by arm
def value_order_arms(ctx):
    """both operands with a free variant: different types compare by the documented rank; same types delegate to the
    element order of their payload (Vec / String / bool / NumberValue compare), unchanged"""
    run = ctx.run
    run.bounds['order arms'] = 'both operands any of the six JSON types (36 pairs); payload comparisons are free (every outcome of the delegated compare)'
    run.assume('<Vec<JsonValue> as Ord>::cmp is the lexicographic order over the element order and <String as Ord>::cmp the byte (= code point) order (std)')
    fam = run.family('order.arms', 'JsonValue::cmp: null < booleans < strings < numbers < objects < arrays across types; within a type the result is exactly the payload comparison (arrays: lexicographic Vec compare, strings: String compare, booleans false < true, numbers: NumberValue::cmp)')
    JV = ctx.enums['JsonValue']
    RANK = {n: i for i, n in enumerate(['Null', 'Boolean', 'String', 'Number', 'Object', 'Array'])}

    def s_payload_cmp(kind):
        def payload_cmp(ex, st, func, args, ty):
            v = ex.fresh_value(st, 'std::cmp::Ordering', st.fresh_name('ord_' + kind))
            d = ex.discr(st, v).t; st.pc.append(z3.Or(d == -1, d == 0, d == 1))
            st.events.append(('payload_cmp', kind, origin(st, args[0]), origin(st, args[1]), v))
            return [(st, v)]
        payload_cmp.__name__ = 'payload_cmp_' + kind
        return payload_cmp

    def s_usize_cmp(ex, st, func, args, ty):
        a, b = obj(st, args[0]).t, obj(st, args[1]).t
        v = named(st, st.fresh_name('ord'), 'std::cmp::Ordering')
        st.heap[v.oid]['discr'] = BV(z3.If(z3.ULT(a, b), z3.BitVecVal(-1, 64), z3.If(a == b, z3.BitVecVal(0, 64), z3.BitVecVal(1, 64))), True)
        return [(st, v)]

    def s_ord_ne(ex, st, func, args, ty):
        a, b = obj(st, args[0]), obj(st, args[1])
        e = ex.discr(st, a).t == ex.discr(st, b).t
        return [(st, BoolV(z3.Not(e) if func.endswith('::ne') else e))]

    def s_bool_cmp(ex, st, func, args, ty):
        a, b = obj(st, args[0]).t, obj(st, args[1]).t
        v = named(st, st.fresh_name('ord'), 'std::cmp::Ordering')
        st.heap[v.oid]['discr'] = BV(z3.If(a == b, z3.BitVecVal(0, 64), z3.If(z3.And(z3.Not(a), b), z3.BitVecVal(-1, 64), z3.BitVecVal(1, 64))), True)
        st.events.append(('bool_cmp',))
        return [(st, v)]

    summ = [(r'<usize as Ord>::cmp$', s_usize_cmp), (r'<bool as Ord>::cmp$', s_bool_cmp), (r'<std::cmp::Ordering as PartialEq>::(eq|ne)$|<Ordering as PartialEq>::(eq|ne)$', s_ord_ne),
            (r'<Vec<JsonValue> as Ord>::cmp$', s_payload_cmp('array')), (r'<std::string::String as Ord>::cmp$', s_payload_cmp('string')),
            (r'<NumberValue as Ord>::cmp$', s_payload_cmp('number')), (r'IndexMap::<.*>::len$|Vec::<.*>::len$', lambda ex, st, f, a, t: [(st, ex.fresh_value(st, 'usize', st.fresh_name('len')))])]
    ex = ctx.exec(summaries=summ, inline=[(r'JsonValue::inner_index$', r'^json_value::<impl at [^>]*>::inner_index$')], max_visits=10)
    cs = [n for n in ctx.fns if re.search(r'^json_value::<impl at [^>]*>::cmp$', n) and 'JsonValue' in ctx.fns[n].params[0][1]]
    if len(cs) != 1: raise Broken(f'Ord for JsonValue::cmp: {cs}')
    F = ctx.fns[cs[0]]
    enums_ord = ex.enums.setdefault('Ordering', ['Less', 'Equal', 'Greater'])
    objfmt = {'seen': False, 'paths': 0}
    for ia, na in enumerate(JV):
        for ib, nb in enumerate(JV):
            st = State()
            a = mk_enum(st, 'JsonValue', ia, name='A'); b = mk_enum(st, 'JsonValue', ib, name='B')
            ex.new_frame(st, F, [slot(st, a, 'a*'), slot(st, b, 'b*')])
            for d in ex.run(st):
                run.paths += 1
                if d.status == 'infeasible': continue
                hav = (d.havoc or [None])[0]
                if na == 'Object' and nb == 'Object':
                    # the object arm (len, sorted keys, printed text) is followed only as far as: objects with the same keys are decided
                    # by comparing the two *printed texts* - a symmetric rule, whatever order the members are stored in
                    if d.status == 'returned' and any(e[0] == 'payload_cmp' and e[1] == 'string' for e in d.events) and any('format' in h for h in (d.havoc or [])): objfmt['seen'] = True
                    objfmt['paths'] += 1
                    if any('Vec<std::string::String>' in h or 'collect' in h or 'format' in h or 'keys' in h for h in (d.havoc or [])): continue
                fam.obligations += 1; fam.paths += 1; fam.witnesses += 1
                why = None
                if d.status != 'returned': why = f'{d.status} {d.notes[-1:]}'
                else:
                    rd = ex.discr(d, obj(d, d.ret)).t          # Ordering: Less = -1, Equal = 0, Greater = 1
                    if na != nb:
                        want = -1 if RANK[na] < RANK[nb] else 1
                        if not ex.valid(d, rd == want)[0]: why = f'{na} vs {nb} does not compare as {"Less" if want < 0 else "Greater"}'
                    else:
                        pc = [e for e in d.events if e[0] == 'payload_cmp']
                        if na == 'Null':
                            if not ex.valid(d, rd == 0)[0]: why = 'null vs null is not Equal'
                        elif na == 'Boolean':
                            ba = ex.load(d, a.oid, ('f', 'Boolean', 0), 'bool').t; bb = ex.load(d, b.oid, ('f', 'Boolean', 0), 'bool').t
                            exp = z3.If(ba == bb, z3.BitVecVal(0, 64), z3.If(z3.And(z3.Not(ba), bb), z3.BitVecVal(-1, 64), z3.BitVecVal(1, 64)))
                            if not ex.valid(d, rd == exp)[0]: why = 'booleans do not compare as false < true'
                        elif na in ('Array', 'String', 'Number'):
                            kind = na.lower()
                            if len(pc) != 1 or pc[0][1] != kind: why = f'{na} arm does not delegate to the payload comparison ({[p[1] for p in pc]})'
                            elif not ex.valid(d, rd == ex.discr(d, pc[0][4]).t)[0]: why = f'{na} arm does not return the payload comparison unchanged (e.g. it looks at the length first)'
                            elif not (pc[0][2].startswith('A') and pc[0][3].startswith('B')): why = f'{na} arm compares {pc[0][2]} with {pc[0][3]}'
                        else:
                            fam.obligations -= 1; fam.paths -= 1; fam.witnesses -= 1
                            continue
                if why is None:
                    fam.discharged += 1
                    if na != nb and len(fam.samples) < 2: fam.add_sample({'pair': f'{na} vs {nb}', 'verdict': 'rank order'})
                elif not any(c.role == f'order:{na}:{nb}' for c in fam.candidates):
                    fam.candidates.append(Candidate(fam.name, f'order:{na}:{nb}', f'JsonValue::cmp({na}, {nb}): {why}', {'a': na, 'b': nb}, unmodelled=hav))
    if objfmt['paths'] and not objfmt['seen']:
        fam.obligations += 1; fam.witnesses += 1
        fam.candidates.append(Candidate(fam.name, 'order:Object:Object', 'JsonValue::cmp(Object, Object): objects with the same keys are not decided by comparing their printed texts (a rule that walks the members of one side depends on the order they are stored in)', {'a': 'Object', 'b': 'Object'}, unmodelled='object arm'))
    elif objfmt['paths']:
        fam.obligations += 1; fam.witnesses += 1; fam.discharged += 1
    run.absorb(ex)
    from .cli import run_jawk, show
    SAMPLE = {'Null': ['null'], 'Boolean': ['false', 'true'], 'String': ['"a"', '"b"', '"ab"', '"\U0001F600"', '"\uff21"', '"\ue000x"', '"\u00e9"', '"Z"', '""'], 'Number': ['1', '2', '-1', '1.5'], 'Object': ['{}', '{"a":1}'], 'Array': ['[2]', '[1,5]', '[1]', '[]', '[1,0,0]']}
    import functools
    def pyrank(v):
        return 0 if v is None else 1 if isinstance(v, bool) else 2 if isinstance(v, str) else 3 if isinstance(v, (int, float)) else 4 if isinstance(v, dict) else 5
    def pycmp(x, y):
        rx, ry = pyrank(x), pyrank(y)
        if rx != ry: return -1 if rx < ry else 1
        if rx == 5:
            for p, q in zip(x, y):
                c_ = pycmp(p, q)
                if c_: return c_
            return (len(x) > len(y)) - (len(x) < len(y))
        if rx == 4: return 0
        return (x > y) - (x < y)
    for c in fam.candidates:
        if c.role == 'order:Object:Object':
            # one total order: antisymmetric on objects with permuted members, and sorting does not depend on the arrival order
            c.status = 'inconclusive'
            PAIRS = [('{"x":1,"y":9}', '{"y":5,"x":0}'), ('{"x":2,"y":0}', '{"y":5,"x":0}'), ('{"a":1,"b":2}', '{"b":1,"a":2}'), ('{"a":[1],"b":null}', '{"b":false,"a":[0]}')]
            for x, y in PAIRS:
                r = run_jawk(ctx, ['--select', f'(< {x} {y})=a', '--select', f'(< {y} {x})=b', '--select', f'(sort [{x},{y}])=s', '--select', f'(sort [{y},{x}])=t', '--style', 'consise'], b'null')
                try: o = json.loads(show(r['stdout']))
                except Exception: o = {}
                if r['rc'] != 0 or (o.get('a') and o.get('b')) or (o.get('a') is False and o.get('b') is False and x != y and o.get('s') != o.get('t')) or json.dumps(o.get('s')) != json.dumps(o.get('t')):
                    c.status = 'reproduced'; c.unmodelled = None; c.replay = {'x': x, 'y': y, 'lt_xy': o.get('a'), 'lt_yx': o.get('b'), 'sort_xy': o.get('s'), 'sort_yx': o.get('t')}; break
            continue
        vals = sorted(set(SAMPLE[c.model['a']] + SAMPLE[c.model['b']]))
        arr = [json.loads(v) for v in vals]
        r = run_jawk(ctx, ['--select', '(sort .)=r', '--style', 'consise', '--utf8-strings'], json.dumps(arr, ensure_ascii=False).encode())
        try: got = json.loads(show(r['stdout']))['r']
        except Exception: got = show(r['stdout'])
        exp = sorted(arr, key=functools.cmp_to_key(pycmp))
        c.replay = {'argv': ['--select', '(sort .)=r'], 'stdin': arr, 'expected': exp, 'actual': got}
        c.status = 'reproduced' if got != exp else 'unit'


# ---------------------------------------------------------------- :var / @macro evaluation
def variable_get(ctx):
    """VariableExtructor::get: `:n` reads the variable n of the current context; `@n` evaluates the stored getter in the
    *current* context itself (so ^ inside a macro body means what it means at the call site)"""
    run = ctx.run
    fam = run.family('bind.variable_get', '`:n` is the value bound to n in the current context; `@n` evaluates the macro body in the current context (same input, same parents, same bindings)')
    VT = ctx.enums['variables_extractor::Type']
    def s_get_def(ex, st, func, args, ty):
        out = []
        for present in (True, False):
            s2 = st.clone(); s2.events.append(('get_definition', origin(s2, args[0]), origin(s2, args[1]), present))
            out.append((s2, some(s2, slot(s2, named(s2, 'MACRO_BODY', 'Rc<dyn Get>'))) if present else none(s2)))
        return out
    def s_get_var(ex, st, func, args, ty):
        out = []
        for present in (True, False):
            s2 = st.clone(); s2.events.append(('get_variable', origin(s2, args[0]), origin(s2, args[1]), present))
            out.append((s2, some(s2, slot(s2, named(s2, 'VARIABLE_VALUE', 'JsonValue'))) if present else none(s2)))
        return out
    def dyn_get(ex, st, func, args, ty):
        st.events.append(('eval', origin(st, args[0]), origin(st, args[1])))
        out = []
        for present in (True, False):
            s2 = st.clone(); out.append((s2, some(s2, named(s2, 'MACRO_RESULT', 'JsonValue')) if present else none(s2)))
        return out
    def s_and_then(ex, st, func, args, ty):
        """Option::and_then(|f| f.get(value)): run the closure body on the payload"""
        o = args[0]; d = ex.discr(st, o).t; out = []
        if ex.feasible(st, d == 0):
            s2 = st.clone(); s2.pc.append(d == 0); out.append((s2, none(s2)))
        if ex.feasible(st, d == 1):
            s2 = st.clone(); s2.pc.append(d == 1)
            cb = [n for n in ex.fns if re.search(r'variables_extractor::<impl at [^>]*>::get::\{closure#0\}$', n)]
            if len(cb) != 1: raise Broken(f'macro closure: {cb}')
            saved = s2.frames; s2.frames = []
            s2.status = 'running'; ex.new_frame(s2, ex.fns[cb[0]], [args[1], ex.load(s2, o.oid, ('f', 'Some', 0), 'opaque')])
            for r_ in ex.run(s2):
                if r_.status == 'returned':
                    r_.frames = [dict(f) for f in saved]; r_.status = 'running'; out.append((r_, r_.ret))
        return out
    summ = [(r'Context::get_definition$', s_get_def), (r'Context::get_variable_value$', s_get_var), (r'<dyn Get as Get>::get$', dyn_get),
            (r'Option::<.*>::and_then::<', s_and_then), (r'Option::<.*>::cloned$', lambda ex, st, f, a, t: [(st, a[0])]), (r'as Deref>::deref$', s_identity)]
    ex = ctx.exec(summaries=summ, max_visits=10)
    F = ex.find(r'^variables_extractor::<impl at [^>]*>::get$')
    VE = ctx.structs['VariableExtructor']
    for vt, vname in enumerate(VT):
        st = State(); so = st.new_obj('self', 'VariableExtructor'); selfref = slot(st, ObjV(so), 'self*')
        st.heap[so][('f', None, VE.index('name'))] = named(st, 'NAME', 'String')
        st.heap[so][('f', None, VE.index('variable_type'))] = mk_enum(st, 'variables_extractor::Type', vt)
        c = named(st, 'CTX', 'Context')
        ex.new_frame(st, F, [selfref, slot(st, c, 'ctx*')])
        for d in ex.run(st):
            run.paths += 1
            if d.status == 'infeasible': continue
            fam.obligations += 1; fam.witnesses += 1; fam.paths += 1
            why = None
            if d.status != 'returned': why = f'{d.status} {d.notes[-1:]}'
            else:
                evs = d.events; r = obj(d, d.ret); rd = cval(ex.discr(d, r).t)
                if vname == 'Variable':
                    g = [e for e in evs if e[0] == 'get_variable']
                    if len(g) != 1 or g[0][1] != 'CTX' or g[0][2] != 'NAME' or any(e[0] in ('eval', 'get_definition') for e in evs): why = f'does not read variable NAME of the current context: {evs}'
                    elif g[0][3] != (rd == 1) or (rd == 1 and origin(d, d.heap[r.oid][('f', 'Some', 0)]) != 'VARIABLE_VALUE'): why = 'does not return the bound value'
                else:
                    g = [e for e in evs if e[0] == 'get_definition']; ev = [e for e in evs if e[0] == 'eval']
                    if len(g) != 1 or g[0][1] != 'CTX' or g[0][2] != 'NAME': why = f'does not look macro NAME up in the current context: {evs}'
                    elif g[0][3] and (len(ev) != 1 or ev[0][1] != 'MACRO_BODY' or ev[0][2] != 'CTX'): why = f'the macro body is not evaluated in the current context: {ev}'
                    elif not g[0][3] and (ev or rd != 0): why = 'an unbound macro does not give nothing'
            if why is None: fam.discharged += 1; fam.add_sample({'kind': vname, 'events': [e[:3] for e in d.events], 'verdict': 'as specified'})
            elif not any(c_.role == f'get-{vname}' for c_ in fam.candidates):
                fam.candidates.append(Candidate(fam.name, f'get-{vname}', f'{":" if vname == "Variable" else "@"}NAME: {why}', {'kind': vname}, unmodelled=(d.havoc or [None])[0]))
    run.absorb(ex)
    from .cli import run_jawk, show
    DEMOS = [(['--set', '@m=^.name', '--select', '(map .l @m)=r'], '{"name":"n","l":[1,2]}', {'r': ['n', 'n']}), (['--select', '(define "m" ^.name (map .l @m))=r'], '{"name":"n","l":[1]}', {'r': ['n']}),
             (['--set', 'v=5', '--select', '(default :v)=r'], '1', {'r': 5}), (['--set', '@m=(+ . 1)', '--select', '(default @m)=r'], '4', {'r': 5}),
             (['--split-by', '.l', '--set', '@m=^.name', '--select', '(default @m)=r'], '{"name":"n","l":[1]}', {'r': 'n'})]
    for c in fam.candidates:
        c.status = 'unit'
        for argv, stdin, exp in DEMOS:
            r = run_jawk(ctx, argv + ['--style', 'consise'], stdin.encode())
            try: got = json.loads(show(r['stdout']))
            except Exception: got = show(r['stdout'])
            c.replay = {'argv': argv, 'stdin': stdin, 'expected': exp, 'actual': got}
            if got != exp: c.status = 'reproduced'; break


def _fname_task(args):
    from .scen_expr import expr_scenario
    ctx, nm, sep = args
    text = b'(' + nm.encode() + sep + b'1)'
    sc = expr_scenario(ctx, [z3.BitVecVal(b, 8) for b in text], [])
    ex = sc.ex; st, info = sc.initial(arbitrary=False)
    F = ex.find(r'^read_getter$')
    ex.new_frame(st, F, [info['rref']])
    outs = [d for d in ex.run(st) if d.status != 'infeasible']
    ff = [e for d in outs for e in d.events if e[0] == 'find_function']
    got = set(bytes(cval(b) for b in e[1]).decode('latin-1') for e in ff)
    exp = nm[1:] if nm.startswith('.') and len(nm) > 1 else nm
    return {'ok': got == {exp}, 'got': sorted(got), 'paths': len(outs), 'queries': ex.queries, 'solver_s': ex.solver_s, 'bodies': list(ex.used_bodies)}


# ---------------------------------------------------------------- every function name and alias is read back whole
def function_names(ctx):
    """read_function_name on `(NAME 1)` for every name and alias declared in src/functions: the name read is NAME itself,
    whatever punctuation it contains ([], {}, ?, |, <=, ...). Concrete execution of the MIR over the finite alias table."""
    import glob, os
    from .scen_expr import expr_scenario
    run = ctx.run
    names = set()
    for p in glob.glob(os.path.join(ctx.tree.src, 'src', 'functions', '**', '*.rs'), recursive=True):
        txt = open(p).read()
        for m in re.finditer(r'FunctionDefinitions::new\(\s*"((?:[^"\\]|\\.)*)"', txt): names.add(m.group(1))
        for m in re.finditer(r'\.add_alias\(\s*"((?:[^"\\]|\\.)*)"\s*\)', txt): names.add(m.group(1))
    names = sorted(n.encode().decode('unicode_escape') for n in names)
    fam = run.family('expr.function_names', f'every declared function name and alias ({len(names)}) is read back whole by the function-name reader, so every alias reaches find_function as written')
    fam.need_witness = False
    run.bounds['function names'] = f'the {len(names)} names and aliases declared under src/functions, each as `(NAME 1)` and `(NAME,1)`'
    from .par import pmap
    tasks = [(ctx, nm, sep) for nm in names for sep in (b' ', b',')]
    results = pmap(_fname_task, tasks)
    bad = []
    for (c_, nm, sep), r in zip(tasks, results):
        fam.obligations += 1; run.paths += r['paths']; run.queries += r['queries']; run.solver_s += r['solver_s']
        for b in r['bodies']: run.functions[b] = True
        if r['ok']: fam.discharged += 1
        else: bad.append((nm, r['got']))
    if bad:
        nm, got = bad[0]
        c = Candidate(fam.name, 'name-cut', f'the function name `{nm}` is read as {got} (and {len(bad) - 1} more)', {'name': nm, 'all': bad[:10]})
        fam.candidates.append(c)
        from .cli import run_jawk, show
        r = run_jawk(ctx, ['--select', f'({nm} [5,6] 1)=r' if nm in ('[]', 'get') else f'({nm} 1 1)=r'], b'null')
        c.replay = {'argv': ['--select', f'({nm} ...)'], 'rc': r['rc'], 'stderr': show(r['stderr'])[-200:]}
        c.status = 'reproduced' if r['rc'] != 0 and b'unknwon' in r['stderr'] else 'unit'
    else:
        fam.add_sample({'names': names[:12], 'verdict': 'each read back whole'})


# ---------------------------------------------------------------- Titles and the --set collection
def titles(ctx):
    """Titles::with_title appends exactly one name (a repeated name included): N selections give N columns"""
    run = ctx.run
    fam = run.family('text.titles', 'Titles::with_title keeps the names given so far and appends the new one, whatever it is (a repeated name is still a column); len() is the number of names')
    from .scen_ctx import SUMM as CSUMM
    PR = r'^processor::<impl at [^>]*>::'
    ex = ctx.exec(summaries=CSUMM + [(r'Vec::<.*>::contains$|impl \[.*\]>::contains$', lambda ex, st, f, a, t: None)], max_visits=10)
    TI = ctx.structs['Titles']
    F = ex.find(PR + 'with_title$'); L = ex.find(PR + 'len$') if False else None
    for n, new in ((0, 'NEW'), (1, 'NEW'), (2, 'NEW'), (1, 'T0'), (2, 'T1')):
        st = State(); so = st.new_obj('self', 'Titles')
        st.heap[so][('f', None, TI.index('titles'))] = seqobj(st, 'Vec', [named(st, f'T{i}', 'Rc<String>') for i in range(n)])
        ex.new_frame(st, F, [slot(st, ObjV(so), 'self*'), slot(st, named(st, new, 'Rc<String>'), 't*')])
        for d in ex.run(st):
            run.paths += 1
            if d.status == 'infeasible': continue
            fam.obligations += 1; fam.witnesses += 1
            why = None
            if d.status != 'returned': why = f'{d.status} {d.notes[-1:]}'
            else:
                try:
                    got = [origin(d, x) for x in model(d, d.heap[obj(d, d.ret).oid][('f', None, TI.index('titles'))])]
                    if got != [f'T{i}' for i in range(n)] + [new]: why = f'titles {[f"T{i}" for i in range(n)]} + {new} gives {got}'
                except Exception as e:
                    why = f'result not readable ({e})'
            if why is None: fam.discharged += 1
            elif not fam.candidates: fam.candidates.append(Candidate(fam.name, 'with-title', f'Titles::with_title: {why}', {}, unmodelled=(d.havoc or [None])[0]))
    run.absorb(ex)
    from .cli import run_jawk, show
    for c in fam.candidates:
        r = run_jawk(ctx, ['-o', 'csv', '--select', '.a=x', '--select', '.b=x', '--select', '.c=y'], b'{"a":1,"b":2,"c":3}')
        exp = '"x", "x", "y"\n1, 2, 3\n'
        c.replay = {'argv': ['-o', 'csv', '--select', '.a=x', '--select', '.b=x', '--select', '.c=y'], 'stdin': '{"a":1,"b":2,"c":3}', 'expected': exp, 'actual': show(r['stdout'])}
        c.status = 'reproduced' if show(r['stdout']) != exp else 'unit'


def preset_collection(ctx):
    """<Vec<String> as PreSetCollection>::create_process: a name defined twice (variable or macro) is an error whatever
    the two values are; nothing is wrapped for an empty list"""
    run = ctx.run
    fam = run.family('set.duplicates', '--set rejects a name that is defined twice - as a variable or as a macro - whatever the values, and accepts distinct names')
    PS = ctx.structs['PreSet']; VAL = ctx.enums['Value']
    def s_from_str(ex, st, func, args, ty):
        src = origin(st, args[0])        # 'set0' / 'set1'
        i = int(src[-1])
        out = []
        for kind in ('Calculated', 'Macro'):
            s2 = st.clone(); s2.events.append(('parsed', i, kind))
            o = named(s2, s2.fresh_name('preset'), 'PreSet')
            s2.heap[o.oid][('f', None, PS.index('key'))] = named(s2, 'KEY_' + KEYS[i], 'String')
            s2.heap[o.oid][('f', None, PS.index('value'))] = mk_enum(s2, 'Value', VAL.index(kind), kind, (named(s2, f'VAL{i}', 'JsonValue' if kind == 'Calculated' else 'Rc<dyn Get>'),))
            out.append((s2, ok(s2, o)))
        return out
    def s_insert(ex, st, func, args, ty):
        mp = obj(st, args[0]); k = origin(st, args[1]); items = list(st.heap[mp.oid].get('model', ()))
        for j, (kk, vv) in enumerate(items):
            if kk == k:
                items[j] = (k, args[2]); st.heap[mp.oid]['model'] = tuple(items); return [(st, some(st, vv))]
        st.heap[mp.oid]['model'] = tuple(items + [(k, args[2])]); return [(st, none(st))]
    def s_val_eq(ex, st, func, args, ty):
        out = []
        for v in (True, False):
            s2 = st.clone(); out.append((s2, BoolV(z3.BoolVal(v))))
        return out
    summ = [(r'<PreSet as FromStr>::from_str$|<pre_sets::PreSet as FromStr>::from_str$', s_from_str), (r'HashMap::<.*>::new$', s_seq_new), (r'HashMap::<.*>::insert$', s_insert),
            (r'<std::string::String as Clone>::clone$|<JsonValue as Clone>::clone$|<Rc<.*> as Clone>::clone$', s_clone_shared), (r'Rc::<.*>::new$|Box::<.*>::new$', s_identity),
            (r'Vec::<.*>::is_empty$', s_seq_is_empty), (r'<&Vec<.*> as IntoIterator>::into_iter$|impl \[.*\]>::iter$', s_iter_ref), (r'as Iterator>::next$', s_iter_next),
            (r'as Deref>::deref$|String::as_str$', s_identity), (r'<JsonValue as PartialEq>::(eq|ne)$|<&JsonValue as PartialEq>::(eq|ne)$|Rc::<.*>::ptr_eq$', s_val_eq)]
    ex = ctx.exec(summaries=summ, max_visits=12)
    F = ex.find(r'^pre_sets::<impl at [^>]*>::create_process$')
    global KEYS
    for KEYS in (['a', 'a'], ['a', 'b'], ['a']):
        st = State()
        lst = seqobj(st, 'Vec', [named(st, f'set{i}', 'String') for i in range(len(KEYS))])
        ex.new_frame(st, F, [slot(st, lst, 'self*'), named(st, 'NEXT', 'Box<dyn Process>')])
        for d in ex.run(st):
            run.paths += 1
            if d.status == 'infeasible': continue
            fam.obligations += 1; fam.witnesses += 1
            kinds = [e[2] for e in d.events if e[0] == 'parsed']
            why = None
            if d.status != 'returned': why = f'{d.status} {d.notes[-1:]}'
            else:
                rd = cval(ex.discr(d, obj(d, d.ret)).t)
                dup = len(KEYS) == 2 and KEYS[0] == KEYS[1] and len(kinds) == 2 and kinds[0] == kinds[1]
                if dup and rd != 1: why = f'the name `a` defined twice as {kinds[0]} is accepted'
                if not dup and len(kinds) == len(KEYS) and rd != 0: why = f'distinct definitions {list(zip(KEYS, kinds))} are rejected'
            if why is None: fam.discharged += 1
            elif not any(c.role == 'dup-' + str(kinds) for c in fam.candidates):
                fam.candidates.append(Candidate(fam.name, 'dup-' + str(kinds), f'--set collection: {why}', {'kinds': kinds}, unmodelled=(d.havoc or [None])[0]))
    run.absorb(ex)
    from .cli import run_jawk, show
    for c in fam.candidates:
        c.status = 'unit'
        for argv in (['--set', 'a=1', '--set', 'a=1'], ['--set', 'a=2', '--set', 'a=(+ 1 1)'], ['--set', '@m=1', '--set', '@m=1'], ['--set', 'a=1', '--set', 'a=2']):
            r = run_jawk(ctx, argv, b'1')
            if r['rc'] == 0:
                c.replay = {'argv': argv, 'rc': 0, 'stdout': show(r['stdout'])}; c.status = 'reproduced'; break


# ---------------------------------------------------------------- map / filter: each element in its own derived context
def functional(ctx):
    """(map L f) / (filter L f): f is evaluated once per element, in order, in the context `current.with_inupt(element)`
    (so `.` is the element and `^` the enclosing input); map keeps the values f yields (nothing is dropped), filter keeps
    the elements for which f is exactly true"""
    run = ctx.run
    K = 3
    run.bounds['map/filter'] = f'lists of 0..{K} opaque elements; the function argument answers a value / true / false / nothing per element'
    fam = run.family('fn.map_filter', 'map and filter evaluate their function once per element, in order, with the element as input and the current input as parent; map collects the values yielded, filter keeps exactly the elements answered with true')
    JV = ctx.enums['JsonValue']

    def run_closure(ex, st, body, cargs):
        saved = st.frames; st.frames = []
        st.status = 'running'; ex.new_frame(st, body, cargs)
        outs = []
        for r_ in ex.run(st):
            if r_.status == 'returned':
                r_.frames = [dict(f) for f in saved]; r_.status = 'running'; outs.append((r_, r_.ret))
            elif r_.status != 'infeasible':
                r_.frames = [dict(f) for f in saved]; outs.append((r_, None))
        return outs

    def closure_of(ex, st):
        parent = st.frames[-1]['fn'].name
        cs = [n for n in ex.fns if n.startswith(parent + '::{closure#')]
        if len(cs) != 1: raise Unmodelled(f'closures of {parent}: {cs}')
        return ex.fns[cs[0]]

    def s_adapt(kind):
        def adapt(ex, st, func, args, ty):
            it = obj(st, args[0]); o = named(st, st.fresh_name(kind), kind)
            st.heap[o.oid]['lazy'] = (kind, list(st.heap[it.oid]['model']), args[1], closure_of(ex, st)); return [(st, o)]
        adapt.__name__ = 'iter_' + kind
        return adapt

    def s_collect(ex, st, func, args, ty):
        o = obj(st, args[0]); kind, items, clo, body = st.heap[o.oid]['lazy']
        states = [(st, [])]
        for it in items:
            nxt = []
            for s_, acc in states:
                arg = it if kind == 'filter_map' else slot(s_, it)
                for s2, r in run_closure(ex, s_, body, [slot(s2_clo(s_, clo), 'clo*') if False else slot(s_, clo, 'clo*'), arg]):
                    if r is None: nxt.append((s2, acc)); continue
                    if kind == 'filter_map':
                        r = obj(s2, r); d = cval(ex.discr(s2, r).t)
                        nxt.append((s2, acc + [s2.heap[r.oid][('f', 'Some', 0)]] if d == 1 else acc))
                    else:
                        c = r.t
                        if ex.feasible(s2, c):
                            s3 = s2.clone(); s3.pc.append(c); nxt.append((s3, acc + [it]))
                        if ex.feasible(s2, z3.Not(c)):
                            s2.pc.append(z3.Not(c)); nxt.append((s2, acc))
            states = nxt
        return [(s_, seqobj(s_, 'Vec', acc)) for s_, acc in states]

    def s2_clo(st, clo): return clo

    def dyn_get_factory(shapes):
        def dyn_get(ex, st, func, args, ty):
            c = obj(st, args[1]); out = []
            n = sum(1 for e in st.events if e[0] == 'eval')
            for sh in shapes:
                s2 = st.clone(); s2.events.append(('eval', origin(s2, args[0]), s2.heap[c.oid].get('chain', origin(s2, c)), sh))
                if sh == 'none': out.append((s2, none(s2)))
                elif sh in ('true', 'false'): out.append((s2, some(s2, mk_enum(s2, 'JsonValue', JV.index('Boolean'), 'Boolean', (BoolV(z3.BoolVal(sh == 'true')),)))))
                else:
                    v = named(s2, f'R{n}', 'JsonValue'); s2.heap[v.oid]['discr'] = BV(z3.BitVecVal(JV.index('Number'), 64), True)      # a value that is not a boolean
                    out.append((s2, some(s2, v)))
            return out
        return dyn_get

    def s_with_input(ex, st, func, args, ty):
        src = obj(st, args[0]); v = obj(st, args[1])
        o = named(st, st.fresh_name('ctx'), 'Context'); st.heap[o.oid]['chain'] = ('with_input', origin(st, src), origin(st, v)); return [(st, o)]

    from .scen_kernels import make_summaries, show as kshow, mk_array
    for name, shapes in (('map', ('value', 'none')), ('filter', ('true', 'false', 'none', 'value'))):
        body_rx = r'list::functional::%s::get::\{closure#0\}::<impl at [^>]*>::get$' % name
        for k in range(K + 1):
            table = {0: lambda st, ex, k=k: mk_array(st, ex, k)}
            summ = [(r'<dyn Get as Get>::get$', dyn_get_factory(shapes)), (r'Context::with_inupt$', s_with_input), (r'as Iterator>::filter_map::<', s_adapt('filter_map')), (r'as Iterator>::filter::<', s_adapt('filter')),
                    (r'as Iterator>::collect::<Vec<JsonValue>>$', s_collect)] + [x for x in make_summaries(table) if 'dyn Get as Get' not in x[0] and 'collect' not in x[0]]
            # the second argument goes through Arguments::apply -> Vec::get -> dyn get: inline apply
            inl = [(r'Arguments>::apply$', r'^functions_definitions::<impl at [^>]*>::apply$')]
            ex = ctx.exec(summaries=[s_ for s_ in summ if 'Arguments>::apply' not in s_[0]], inline=inl, max_visits=4 * K + 12)
            F = ex.find(body_rx)
            st = State(); so = named(st, 'self', 'Impl'); selfref = slot(st, so, 'self*')
            g0 = named(st, 'G0', 'Rc<dyn Get>'); st.heap[g0.oid]['const_arg'] = True
            st.heap[so.oid][('f', None, 0)] = seqobj(st, 'Vec', [g0, named(st, 'G1', 'Rc<dyn Get>')], origin='self.0')
            c0 = named(st, 'CTX', 'Context')
            # G0 yields the list; G1 is the function argument
            def dyn_get2(ex, st, func, args, ty, base=dyn_get_factory(shapes), k=k):
                if origin(st, args[0]) == 'G0': return [(st, some(st, mk_array(st, ex, k)))]
                return base(ex, st, func, args, ty)
            ex.summaries.insert(0, (r'<dyn Get as Get>::get$', dyn_get2))
            ex.summaries.insert(0, (r'impl \[.*\]>::get::<usize>$|Vec::<.*>::get::<usize>$', __import__('vf.scen_kernels', fromlist=['s_vec_get']).s_vec_get))
            ex.new_frame(st, F, [selfref, slot(st, c0, 'ctx*')])
            for d in ex.run(st):
                run.paths += 1
                if d.status == 'infeasible': continue
                fam.obligations += 1; fam.paths += 1; fam.witnesses += 1
                why = None
                if d.status != 'returned': why = f'{d.status} {d.notes[-1:]}'
                else:
                    evs = [e for e in d.events if e[0] == 'eval' and e[1] == 'G1']
                    if len(evs) != k: why = f'the function is evaluated {len(evs)} times for {k} elements'
                    elif [e[2] for e in evs] != [('with_input', 'CTX', f'E{i}') for i in range(k)]: why = f'evaluation contexts are {[e[2] for e in evs]}'
                    else:
                        got = kshow(d, ex, d.heap[obj(d, d.ret).oid][('f', 'Some', 0)]) if cval(ex.discr(d, obj(d, d.ret)).t) == 1 else None
                        if name == 'map':
                            exp = [f'R{i}' for i, e in enumerate(evs) if e[3] == 'value']
                            # result names are R<n> with n the running count of evaluations
                            exp = [f'R{j}' for j, e in enumerate(evs) if e[3] == 'value']
                        else:
                            exp = [f'E{i}' for i, e in enumerate(evs) if e[3] == 'true']
                        if got is None or got[0] != 'array' or got[1] != exp: why = f'answers {[e[3] for e in evs]} give {got}, expected {exp}'
                if why is None: fam.discharged += 1
                elif not any(c.role == name for c in fam.candidates):
                    fam.candidates.append(Candidate(fam.name, name, f'({name} <list of {k}> f): {why}', {'fn': name, 'k': k}, unmodelled=(d.havoc or [None])[0]))
            run.absorb(ex)
    if fam.discharged: fam.add_sample({'call': '(map [E0,E1,E2] f)', 'contexts': "CTX.with_inupt(E0), CTX.with_inupt(E1), CTX.with_inupt(E2)", 'verdict': 'one evaluation per element, in order'})
    from .cli import run_jawk, show
    DEMOS = [('(map .l (+ . ^.b))', '{"l":[1,2,3],"b":10}', [11, 12, 13]), ('(map .l (get . "x"))', '{"l":[{"x":1},{},{"x":3}]}', [1, 3]), ('(filter .l (> . ^.b))', '{"l":[1,5,2,7],"b":2}', [5, 7]),
             ('(filter .l .)', '{"l":[true,1,"true",false,true]}', [True, True]), ('(map [] .)', 'null', []), ('(filter [1,2] (= . 2))', 'null', [2])]
    for c in fam.candidates:
        c.status = 'unit'
        for expr, stdin, exp in DEMOS:
            r = run_jawk(ctx, ['--select', expr + '=r', '--style', 'consise'], stdin.encode())
            try: got = json.loads(show(r['stdout'])).get('r')
            except Exception: got = show(r['stdout'])
            c.replay = {'argv': ['--select', expr + '=r'], 'stdin': stdin, 'expected': exp, 'actual': got}
            if got != exp: c.status = 'reproduced'; break


# ---------------------------------------------------------------- C10: `=` is the equality --unique uses
EQ_PAIRS = [('0.3', '0.30000000000000004'), ('1e-17', '2e-17'), ('1', '1.0000000000000002'), ('9007199254740992', '9007199254740993'), ('1', '1.0'), ('1e0', '10e-1'), ('-1', '-1.0'),
            ('"a"', '"\\u0061"'), ('"a"', '"A"'), ('[1,2]', '[1,2.0]'), ('[1,2]', '[2,1]'), ('{"a":1}', '{"a":1.0}'), ('null', 'false'), ('0', 'false'), ('""', 'null'), ('[]', '{}'),
            ('18446744073709551615', '18446744073709551614'), ('-9223372036854775808', '-9223372036854775807'), ('1.5', '1.5000000000000002'), ('100', '1e2'), ('"1"', '1')]


def eq_function(ctx):
    """the getter behind `=` returns Boolean(<JsonValue as PartialEq>::eq(a, b)) - the very relation the HashSet of
    --unique uses - and nothing when an argument is absent"""
    run = ctx.run
    fam = run.family('unique.eq_function', '(= a b) is Some(Boolean(a == b)) with == the PartialEq of JsonValue that the --unique key set uses, for all argument values; nothing iff an argument is nothing')
    run.bounds['eq function'] = 'the two argument values are opaque JsonValues (all values), PartialEq::eq an uninterpreted relation; natively ' + str(len(EQ_PAIRS)) + ' value pairs compared between (= a b) and --unique'
    EQ = z3.Bool('EQ_val0_val1')
    def s_apply(ex, st, func, args, ty):
        i = cval(args[2].t); out = []
        for present in (True, False):
            s2 = st.clone(); s2.events.append(('apply', i, present)); out.append((s2, some(s2, named(s2, f'VAL{i}', 'JsonValue')) if present else none(s2)))
        return out
    def s_eq(ex, st, func, args, ty):
        a, b = origin(st, args[0]), origin(st, args[1]); st.events.append(('eq', a, b))
        if {a, b} != {'VAL0', 'VAL1'}: return None
        return [(st, BoolV(EQ if func.endswith('eq') else z3.Not(EQ)))]
    def s_from_bool(ex, st, func, args, ty):
        return [(st, mk_enum(st, 'JsonValue', ex.enums['JsonValue'].index('Boolean'), 'Boolean', (args[0],)))]
    summ = [(r'as functions_definitions::Arguments>::apply$', s_apply), (r'^<JsonValue as PartialEq>::(eq|ne)$|^<&JsonValue as PartialEq>::(eq|ne)$', s_eq),
            (r'<bool as Into<JsonValue>>::into$|<JsonValue as From<bool>>::from$', s_from_bool)]
    ex = ctx.exec(summaries=summ, max_visits=8)
    F = ex.find(r'^compare::eq::get::\{closure#0\}::<impl at [^>]*>::get$')
    st = State(); so = st.new_obj('self', 'Impl')
    ex.new_frame(st, F, [slot(st, ObjV(so), 'self*'), slot(st, named(st, 'CTX', 'Context'), 'ctx*')])
    JV = ex.enums['JsonValue']
    for d in ex.run(st) + list(ex.extra_paths):
        if d.status == 'infeasible': continue
        run.paths += 1; fam.paths += 1; fam.obligations += 1; fam.witnesses += 1
        why = None
        pres = {e[1]: e[2] for e in d.events if e[0] == 'apply'}
        if d.status != 'returned': why = f'{d.status} {d.notes[-1:]}'
        else:
            r = obj(d, d.ret); rd = ex.discr(d, r).t
            both = pres.get(0) and pres.get(1)
            if not both:
                if not ex.valid(d, rd == 0)[0]: why = 'an absent argument does not give nothing'
            else:
                if not ex.valid(d, rd == 1)[0]: why = 'two present arguments give nothing'
                else:
                    v = obj(d, d.heap[r.oid][('f', 'Some', 0)])
                    vd = ex.discr(d, v).t
                    p = d.heap[v.oid].get(('f', 'Boolean', 0)) if isinstance(v, ObjV) else None
                    if not ex.valid(d, vd == JV.index('Boolean'))[0] or not isinstance(p, BoolV) or not ex.valid(d, p.t == EQ)[0]:
                        why = 'the result is not Boolean(a == b) with the PartialEq of JsonValue'
        if why is None:
            fam.discharged += 1; fam.add_sample({'arguments present': pres, 'verdict': 'Boolean(PartialEq::eq(a, b)) / nothing'})
        elif not fam.candidates:
            fam.candidates.append(Candidate(fam.name, 'eq-not-partial-eq', f'(= a b): {why}', {'present': {str(k): v for k, v in pres.items()}}, unmodelled=(d.havoc or [None])[0]))
    run.absorb(ex)
    if fam.candidates:
        from .cli import run_jawk, show
        bad = []
        for a, b in EQ_PAIRS:
            r1 = run_jawk(ctx, ['--select', f'(= {a} {b})=r', '--style', 'consise'], b'null')
            r2 = run_jawk(ctx, ['--unique', '--style', 'consise'], (a + '\n' + b + '\n').encode())
            says = show(r1['stdout']).strip(); rows = len(show(r2['stdout']).strip().splitlines())
            if (says == '{"r":true}') != (rows == 1): bad.append({'a': a, 'b': b, '(= a b)': says, 'rows kept by --unique': rows})
        for c in fam.candidates:
            c.replay = {'disagreements': bad[:4], 'pairs_tried': len(EQ_PAIRS)}
            c.status = 'reproduced' if bad else 'unit'


# ---------------------------------------------------------------- C11: the premise of the frame argument
CELLS = r'\b(RefCell|OnceCell|LazyCell|Cell|Mutex|RwLock|OnceLock|LazyLock|UnsafeCell|Atomic[A-Z]\w*|LocalKey|SyncUnsafeCell)\b\s*(?:::)?<|\bstatic mut\b|thread_local'
CELL_ALLOWED = [r'^regex_cache::', r'^output_style::', r'^<impl at src/lib\.rs', r'^go$', r'^main$', r'^go\b', r'augment_args', r'^NAME_TO_FUNCTION', r'^ALL_GROUPS', r'^find_function$', r'^get_fn_help_name$',
                r'^create_possible_fn_help_types$', r'^functions_definitions::', r'^print_help', r'^get_groups_and_functions$']
RL_RECORDS = ['{"id":1,"width":10,"l":[3,1,2],"s":"abcab","p":"a."}', '{"id":2,"width":7,"l":[],"s":"xbz","p":"b"}', '{"id":3,"width":1,"l":[5],"s":"","p":"^$"}']
RL_BATTERY = [
    ['--select', '(set "w" .width (* (: "w") 2))=d', '--select', '.id=id'],
    ['--select', '(set "w" .width (set "w" (+ :w 1) (: "w")))=d'],
    ['--select', '(define "m" (+ . 1) (map .l @m))=d'], ['--select', '(define "m" ^.width (map .l (@ "m")))=d'],
    ['--select', '(match .s .p)=m'], ['--select', '(match .s .p)=m', '--regular-expression-cache-size', '1'], ['--select', '(match .s .p)=m', '--regular-expression-cache-size', '0'],
    ['--filter', '(> .width 5)', '--select', '.id=id'], ['--split-by', '.l', '--select', '(+ . ^.width)=x'],
    ['--set', 'v=(+ 1 2)', '--select', '(+ :v .width)=x'], ['--set', '@m=(+ .width 1)', '--select', '(default @m)=x'],
    ['--select', '(range 3)=r', '--select', '(size (range .width))=n'], ['--select', '(split "a,b,c" ",")=c', '--select', '(join (split .s "b") "-")=j'],
    ['--select', '(parse "{\\"a\\":1}")=p', '--select', '(stringify .l)=t'], ['--select', '(map .l (+ . 1))=m', '--select', '(filter .l (> . 1))=f', '--select', '(sort .l)=s'],
    ['--select', '(concat "x" (stringify .id))=c'], ['--select', '(default .missing "dflt")=d', '--select', '(? (> .width 5) "big" "small")=q'], ['--select', '(take .s 2)=t', '--select', '(size .s)=n'],
]


def record_local_premise(ctx):
    """C11: the frame obligations treat `dyn Get::get(&self, &Context)` as a function of its arguments. With `&self` that
    can only fail through interior mutability or statics, so the premise is checked on the MIR: no body outside the
    output writers, the regex cache (the property's named exception), the function table and clap's derive mentions a
    cell / lock / atomic / static-mut type. A hit is not yet a violation: it is replayed natively as out(A.B) = out(A).out(B)."""
    run = ctx.run
    fam = run.family('purity.cells', 'no evaluation-time state: outside the output writers, the regex cache, the function table and the argument parser no MIR body mentions an interior-mutability type or a mutable static')
    fam.need_witness = False
    run.bounds['record-local premise'] = f'all {len(ctx.fns)} MIR bodies scanned for cell/lock/atomic/static-mut types; natively {len(RL_BATTERY)} pipelines x 3 records as A, B, A.B, B.A'
    hits = {}
    blocks = re.split(r'\n(?=(?:fn|static|const|static mut) )', ctx.mir_text)
    for b in blocks:
        hd = b.split('\n', 1)[0]
        if not re.match(r"(fn|static|const) ", hd): continue
        name = re.sub(r'^(fn|static mut|static|const) ', '', hd)
        name = name.split('(', 1)[0] if hd.startswith('fn ') else name
        fam.obligations += 1
        found = sorted({x.group(0).strip('<: ') for x in re.finditer(CELLS, b)} | ({'static mut'} if hd.startswith('static mut') else set()))
        if found and not any(re.search(a, name) for a in CELL_ALLOWED):
            hits[name] = found
        else:
            fam.discharged += 1
    fam.add_sample({'bodies scanned': len(blocks), 'allowed owners': CELL_ALLOWED, 'verdict': 'no evaluation-time cell outside the allowed owners' if not hits else 'hits'})
    if not hits: return
    c = Candidate(fam.name, 'cell-in-evaluation', 'interior mutability / mutable static reachable from expression evaluation: ' + '; '.join(f'{k[:70]}: {v}' for k, v in list(hits.items())[:4]),
                  {'hits': {k: v for k, v in list(hits.items())[:10]}}, unmodelled='syntactic premise: a cell is not yet a leak')
    fam.candidates.append(c)
    from .cli import run_jawk, show
    A = RL_RECORDS[0]; B = RL_RECORDS[1] + '\n' + RL_RECORDS[2]
    for argv in RL_BATTERY:
        for style in (['--style', 'consise'], ['-o', 'csv']):
            out = {}
            for k, inp in (('A', A), ('B', B), ('AB', A + '\n' + B), ('BA', B + '\n' + A)):
                r = run_jawk(ctx, argv + style, (inp + '\n').encode()); out[k] = show(r['stdout']) if r['rc'] == 0 else f'rc={r["rc"]}'
            hdr = 1 if style[1] == 'csv' else 0
            def body(t): return t.splitlines()[hdr:]
            if any(v.startswith('rc=') for v in out.values()): continue
            if body(out['AB']) != body(out['A']) + body(out['B']) or body(out['BA']) != body(out['B']) + body(out['A']):
                c.replay = {'argv': argv + style, 'A': A, 'B': B, 'out(A)': out['A'], 'out(B)': out['B'], 'out(A.B)': out['AB'], 'out(B.A)': out['BA'], 'expected': 'out(A.B) = out(A).out(B) and out(B.A) = out(B).out(A)'}
                c.status = 'reproduced'; return
    c.replay = {'battery': len(RL_BATTERY), 'result': 'every pipeline of the battery is record-local'}
    c.status = 'not-reproduced'


# ---------------------------------------------------------------- fold
def fold(ctx):
    """(fold L [init] f): f is evaluated once per element, in order, on {so_far (only when there is one), value, index}
    in the context `current.with_inupt(..)`; its answer - a value or nothing - is the next so_far; the last answer is the result"""
    run = ctx.run
    K = 3
    run.bounds['fold'] = f'lists of 0..{K} opaque elements, with and without an initial value (present or nothing); the function argument answers a value or nothing at every step'
    fam = run.family('fn.fold', 'fold threads exactly the previous answer of the function (nothing included) into so_far, passes value and index of every element in order, and returns the last answer (the initial value for an empty list)')
    JV = ctx.enums['JsonValue']
    from .scen_kernels import s_vec_get
    from .fmt import unescape_bytes
    for nargs in (2, 3):
        for k in range(K + 1):
            def s_apply(ex, st, func, args, ty, k=k):
                i = cval(args[2].t)
                if i == 0:
                    arr = mk_enum(st, 'JsonValue', JV.index('Array'), 'Array', (seqobj(st, 'Vec', [named(st, f'E{j}', 'JsonValue') for j in range(k)]),))
                    return [(st, some(st, arr))]
                out = []
                for present in (True, False):
                    s2 = st.clone(); s2.events.append(('init', present)); out.append((s2, some(s2, named(s2, 'INIT', 'JsonValue')) if present else none(s2)))
                return out
            def s_len(ex, st, func, args, ty, nargs=nargs): return [(st, BV(bv64(nargs)))]
            def s_enumerate(ex, st, func, args, ty):
                it = obj(st, args[0]); items = []
                for i, x in enumerate(st.heap[it.oid]['model']):
                    t = named(st, st.fresh_name('ix'), 'tuple'); st.heap[t.oid][('f', None, 0)] = BV(bv64(i)); st.heap[t.oid][('f', None, 1)] = x; items.append(t)
                return [(st, seqobj(st, 'Enumerate', items))]
            def s_to_string(ex, st, func, args, ty):
                if isinstance(args[0], Const):
                    o = named(st, st.fresh_name('key'), 'String'); st.heap[o.oid]['text'] = unescape_bytes(args[0].text).decode(); return [(st, o)]
                return None
            def s_map_new(ex, st, func, args, ty): return [(st, seqobj(st, 'IndexMap', ()))]
            def s_insert(ex, st, func, args, ty):
                mo = obj(st, args[0]); ko = obj(st, args[1]); v = obj(st, args[2])
                key = st.heap[ko.oid].get('text', '?')
                val = ('index', cval(st.heap[v.oid]['index'].t)) if 'index' in st.heap[v.oid] else origin(st, v)
                st.heap[mo.oid]['model'] = tuple(st.heap[mo.oid]['model']) + ((key, val),)
                return [(st, none(st))]
            def s_usize_into(ex, st, func, args, ty):
                o = named(st, st.fresh_name('idx'), 'JsonValue'); st.heap[o.oid]['index'] = args[0]; return [(st, o)]
            def s_map_into(ex, st, func, args, ty):
                o = named(st, st.fresh_name('objval'), 'JsonValue'); st.heap[o.oid]['members'] = tuple(model(st, args[0])); return [(st, o)]
            def s_with_input(ex, st, func, args, ty):
                o = named(st, st.fresh_name('ctx'), 'Context'); v = obj(st, args[1]); st.heap[o.oid]['chain'] = (origin(st, args[0]), st.heap[v.oid].get('members', origin(st, v))); return [(st, o)]
            def s_dyn_get(ex, st, func, args, ty):
                c = obj(st, args[1]); out = []
                n = sum(1 for e in st.events if e[0] == 'eval')
                for present in (True, False):
                    s2 = st.clone(); s2.events.append(('eval', origin(s2, args[0]), s2.heap[c.oid].get('chain', origin(s2, c)), present))
                    out.append((s2, some(s2, named(s2, f'R{n}', 'JsonValue')) if present else none(s2)))
                return out
            def s_clone(ex, st, func, args, ty): return [(st, obj(st, args[0]))]
            summ = [(r'as functions_definitions::Arguments>::apply$', s_apply), (r'^Vec::<Rc<dyn Get>>::len$', s_len), (r'impl \[.*\]>::get::<usize>$|Vec::<.*>::get::<usize>$', s_vec_get),
                    (r'impl \[.*\]>::iter$|<&Vec<.*> as IntoIterator>::into_iter$', s_iter_ref), (r'as Iterator>::enumerate$', s_enumerate), (r'as IntoIterator>::into_iter$', s_identity), (r'as Iterator>::next$', s_iter_next),
                    (r'IndexMap::<.*>::with_capacity$|IndexMap::<.*>::new$', s_map_new), (r'<str as ToString>::to_string$|<&str as Into<std::string::String>>::into$', s_to_string), (r'<JsonValue as Clone>::clone$', s_clone),
                    (r'IndexMap::<.*>::insert$', s_insert), (r'<usize as Into<JsonValue>>::into$|<JsonValue as From<usize>>::from$', s_usize_into), (r'<IndexMap<.*> as Into<JsonValue>>::into$|<JsonValue as From<IndexMap<.*>>>::from$', s_map_into),
                    (r'Context::with_inupt$', s_with_input), (r'<dyn Get as Get>::get$', s_dyn_get), (r'<Vec<.*> as Deref>::deref$|<Rc<.*> as Deref>::deref$', s_identity)]
            ex = ctx.exec(summaries=summ, max_visits=4 * K + 12)
            F = ex.find(r'fold::get::\{closure#0\}::<impl at [^>]*>::get$')
            st = State(); so = named(st, 'self', 'Impl')
            st.heap[so.oid][('f', None, 0)] = seqobj(st, 'Vec', [named(st, f'G{i}', 'Rc<dyn Get>') for i in range(nargs)], origin='self.0')
            ex.new_frame(st, F, [slot(st, so, 'self*'), slot(st, named(st, 'CTX', 'Context'), 'ctx*')])
            fn = f'G{nargs - 1}'
            for d in ex.run(st) + list(ex.extra_paths):
                run.paths += 1
                if d.status == 'infeasible': continue
                fam.obligations += 1; fam.paths += 1; fam.witnesses += 1
                why = None
                if d.status != 'returned': why = f'{d.status} {d.notes[-1:]}'
                else:
                    init = [e[1] for e in d.events if e[0] == 'init']
                    cur = 'INIT' if (nargs == 3 and init == [True]) else None
                    evs = [e for e in d.events if e[0] == 'eval']
                    if nargs == 2 and init: why = 'a two-argument fold evaluates an initial value'
                    elif len(evs) != k: why = f'the function is evaluated {len(evs)} times for {k} elements'
                    else:
                        for i, e in enumerate(evs):
                            want = ((('so_far', cur),) if cur is not None else ()) + (('value', f'E{i}'), ('index', ('index', i)))
                            if e[1] != fn or e[2] != ('CTX', want): why = f'step {i}: evaluates {e[1]} on {e[2]}, expected {fn} on CTX.with_inupt({dict(want)})'; break
                            cur = f'R{i}' if e[3] else None
                        if why is None:
                            r = obj(d, d.ret); rd = cval(ex.discr(d, r).t)
                            got = origin(d, d.heap[r.oid][('f', 'Some', 0)]) if rd == 1 else None
                            if got != cur: why = f'answers {[e[3] for e in evs]} (initial {init}) give {got}, expected {cur}'
                if why is None: fam.discharged += 1
                elif not any(c.role == f'fold{nargs}' for c in fam.candidates):
                    fam.candidates.append(Candidate(fam.name, f'fold{nargs}', f'(fold <list of {k}> {"init " if nargs == 3 else ""}f): {why}', {'k': k, 'nargs': nargs}, unmodelled=(d.havoc or [None])[0]))
            run.absorb(ex)
    if fam.discharged: fam.add_sample({'call': '(fold [E0,E1] INIT f)', 'steps': 'f{so_far: INIT, value: E0, index: 0} -> R0 | nothing; f{[so_far: R0,] value: E1, index: 1} -> result', 'verdict': 'for every answer pattern'})
    from .cli import run_jawk, show
    DEMOS = [('(fold .l 100 (+ .index .so_far .value))', '{"l":[1,10,0.6]}', 114.6), ('(fold .l (? (number? .so_far) (+ .so_far .value) .value))', '{"l":[1,10,0.6]}', 11.6),
             ('(fold .l 0 (+ .so_far .value))', '{"l":[1,"x"]}', None), ('(fold .l 0 (+ .so_far .value))', '{"l":[1,"x",2]}', None), ('(fold .l 0 (default (+ .so_far .value) "none"))', '{"l":[1,"x",2]}', 'none'),
             ('(fold .l 5 .so_far)', '{"l":[]}', 5), ('(fold .l (default .so_far "first"))', '{"l":[7]}', 'first'), ('(fold .l 1 ^.b)', '{"l":[1,2],"b":"B"}', 'B')]
    for c in fam.candidates:
        c.status = 'unit' if not c.unmodelled else 'not-reproduced'
        for expr, stdin, exp in DEMOS:
            r = run_jawk(ctx, ['--select', expr + '=r', '--style', 'consise'], stdin.encode())
            try: got = json.loads(show(r['stdout'])).get('r')
            except Exception: got = show(r['stdout'])
            if got != exp:
                c.replay = {'argv': ['--select', expr + '=r'], 'stdin': stdin, 'expected': exp, 'actual': got}; c.status = 'reproduced'; break


# ---------------------------------------------------------------- comparators of the sort functions
SORT_CMPS = {
    'sort_by': (r'list::functional::sort_by::get::\{closure#0\}::<impl at [^>]*>::get::\{closure#0\}$', 'key', (1, 2)),
    'sort_by_values': (r'sort_by_values::get::\{closure#0\}::<impl at [^>]*>::get::\{closure#0\}$', 'value', (2, 4)),
    'sort_by_values_by': (r'sort_by_values_by::get::\{closure#0\}::<impl at [^>]*>::get::\{closure#0\}$', 'key', (2, 4)),
}


def sort_comparators(ctx):
    """the comparator closures handed to the stable sorts: sort_by / sort_by_values_by compare `f` applied to the two
    elements (each as the input of a derived context) with the Ord of Option<JsonValue> - nothing sorts first - and
    sort_by_values compares the two values with the Ord of JsonValue; nothing else decides the order"""
    run = ctx.run
    fam = run.family('sort.comparators', 'the comparator of sort_by / sort_by_values_by is Ord::cmp(f(a), f(b)) on the optional keys (in this order, f evaluated with the element as input), that of sort_by_values is Ord::cmp(a, b); the order relation itself is an uninterpreted function here (order.arms / Kani decide it)')
    run.bounds['sort comparators'] = 'both elements opaque (all values), f answers any value or nothing; Ord::cmp uninterpreted'
    def s_clone(ex, st, func, args, ty): return [(st, obj(st, args[0]))]
    def s_with_input(ex, st, func, args, ty):
        o = named(st, st.fresh_name('ctx'), 'Context'); st.heap[o.oid]['of'] = origin(st, obj(st, args[1])); return [(st, o)]
    def s_apply(ex, st, func, args, ty):
        c = obj(st, args[1]); i = cval(args[2].t)
        of = st.heap[c.oid].get('of', '?')
        st.events.append(('apply', of, i))
        return [(st, named(st, f'KEY({of})', 'Option<JsonValue>'))]
    def s_cmp(ex, st, func, args, ty):
        a, b = origin(st, obj(st, args[0])), origin(st, obj(st, args[1]))
        kind = 'opt' if 'Option' in func else 'val'
        o = named(st, f'CMP[{kind}]({a},{b})', 'Ordering')
        d = ex.discr(st, o).t; st.pc.append(z3.Or(d == -1, d == 0, d == 1))
        st.events.append(('cmp', kind, a, b))
        return [(st, o)]
    summ = [(r'<JsonValue as Clone>::clone$', s_clone), (r'Context::with_inupt$', s_with_input), (r'as functions_definitions::Arguments>::apply$', s_apply),
            (r'^<Option<JsonValue> as Ord>::cmp$|^<JsonValue as Ord>::cmp$|^<Option<JsonValue> as PartialOrd>::partial_cmp$|^<JsonValue as PartialOrd>::partial_cmp$', s_cmp)]
    for name, (rx, kind, (ia, ib)) in SORT_CMPS.items():
        ex = ctx.exec(summaries=summ, max_visits=6)
        cs = [n for n in ctx.fns if re.search(rx, n)]
        fam.obligations += 0
        if len(cs) != 1:
            c = Candidate(fam.name, f'missing:{name}', f'comparator closure of {name} not found ({len(cs)} matches)', {'fn': name}, unmodelled='body lookup'); fam.candidates.append(c); continue
        F = ctx.fns[cs[0]]
        st = State(); argsv = []
        for i, (pn, pty) in enumerate(F.params):
            if i == 0: argsv.append(slot(st, named(st, 'ENV', 'closure'), 'env*'))
            else: argsv.append(slot(st, named(st, 'A' if i == ia else 'B' if i == ib else f'P{i}', 'JsonValue'), f'p{i}*'))
        ex.new_frame(st, F, argsv)
        for d in ex.run(st) + list(ex.extra_paths):
            if d.status == 'infeasible': continue
            run.paths += 1; fam.paths += 1; fam.obligations += 1; fam.witnesses += 1
            why = None
            if d.status != 'returned': why = f'{d.status} {d.notes[-1:]}'
            else:
                want = 'CMP[opt](KEY(A),KEY(B))' if kind == 'key' else 'CMP[val](A,B)'
                got = origin(d, obj(d, d.ret)) if isinstance(obj(d, d.ret), ObjV) else str(d.ret)
                if got != want: why = f'returns {got}, expected {want}'
                elif kind == 'key' and [e for e in d.events if e[0] == 'apply'] != [('apply', 'A', 1), ('apply', 'B', 1)]: why = f'keys are not f(a), f(b): {[e for e in d.events if e[0] == "apply"]}'
            if why is None:
                fam.discharged += 1; fam.add_sample({'function': name, 'comparator': 'Ord::cmp(f(a), f(b))' if kind == 'key' else 'Ord::cmp(a, b)', 'verdict': 'for all elements and keys'})
            elif not any(c.role == f'comparator:{name}' for c in fam.candidates):
                fam.candidates.append(Candidate(fam.name, f'comparator:{name}', f'({name} ...): the comparator {why}', {'fn': name}, unmodelled=(d.havoc or [None])[0]))
        run.absorb(ex)
    from .cli import run_jawk, show
    DEMOS = [('(sort_by_values_by . .k)', '{"a":{"k":3},"b":{},"c":{"k":1}}', ['b', 'c', 'a']), ('(sort_by_values_by . .k)', '{"a":{"k":2},"b":{"k":1},"c":{},"d":{"k":0}}', ['c', 'd', 'b', 'a']),
             ('(sort_by . .k)', '[{"k":3,"i":0},{"i":1},{"k":1,"i":2}]', [1, 2, 0]), ('(sort_by . .k)', '[{"k":2,"i":0},{"k":1,"i":1},{"i":2},{"k":0,"i":3}]', [2, 3, 1, 0]),
             ('(sort_by_values .)', '{"a":"x","b":3,"c":null,"d":[1],"e":false}', ['c', 'e', 'b', 'a', 'd']), ('(sort_by . (.k))', '[{"k":"b","i":0},{"k":1,"i":1},{"k":"a","i":2}]', [1, 2, 0])]
    for c in fam.candidates:
        if c.role.startswith('missing'): continue
        c.status = 'unit' if not c.unmodelled else 'not-reproduced'
        for expr, stdin, exp in DEMOS:
            r = run_jawk(ctx, ['--select', expr + '=r', '--style', 'consise'], stdin.encode())
            try:
                got = json.loads(show(r['stdout'])).get('r')
                got = list(got.keys()) if isinstance(got, dict) else [x.get('i') for x in got]
            except Exception: got = show(r['stdout'])[:200]
            if got != exp:
                c.replay = {'argv': ['--select', expr + '=r'], 'stdin': stdin, 'expected_order': exp, 'actual_order': got}; c.status = 'reproduced'; break
