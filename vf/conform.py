"""Reference-versus-implementation conformance traces (DESIGN 0.7).

The obligations of a property are stated against a reference (the documented pipeline as list transformers, the policy
table of --on-error, the RFC 4180 reading of csv, ...). Here the same references are run on a small seeded battery of
*concrete* inputs and compared with the real code built from the current tree (in-process driver over jawk::go). This
validates the oracles and the replay concretisers against the implementation; it is counted in
`traces_validated_against_impl`. It never decides a property: the verdicts are the solver's. A disagreement is printed as
`INCONCLUSIVE ... conformance` and recorded in the evidence (on the unchanged tree it would mean a wrong oracle; on an
edited tree it is an observation that the solver-decided obligations should explain).
"""
import csv, io, itertools, json
from . import refpipe
from .cli import run_driver, show

ROWS = [{'k': 'a', 'n': 3, 'l': [1, 2], 'f': True}, {'k': 'b', 'n': 1, 'l': [], 'f': False}, 7, {'k': 'a', 'n': 3, 'l': [3], 'f': True}, {'n': 2, 'f': True, 'k': 5}, 'x', {'k': 'b', 'n': 1, 'l': [], 'f': False},
        {'k': 'c', 'n': None, 'l': [9, 8, 7], 'f': True}]


def _rows(out):
    vals = []
    for ln in show(out).splitlines():
        try: vals.append(json.loads(ln))
        except Exception: vals.append('unparsable:' + ln)
    return vals


def _note(ctx, kind, what, detail):
    msg = f'conformance {kind}: {what}: {detail}'
    ctx.run.inconclusive.append(msg[:600])
    print(f'INCONCLUSIVE property={ctx.run.prop} conformance={kind} {what[:200]}')


def pipelines(ctx, n=10):
    """documented pipeline (vf/refpipe.py) vs jawk::go on seeded option subsets"""
    rng = ctx.rng
    stdin = '\n'.join(json.dumps(r) for r in ROWS).encode()
    done = 0
    space = []
    for split, filt, nsel, uniq, nsort, skip, take, coll, ooa in itertools.product((None, '.l'), (None, '.f'), (0, 1, 2), (False, True), (0, 1, 2), (0, 1), (None, 0, 2), (None, 'group', 'merge'), (False, True)):
        if split and (filt or nsort): continue       # after a split the rows are scalars: field expressions give nothing
        space.append((split, filt, nsel, uniq, nsort, skip, take, coll, ooa))
    picks = [space[0]] + rng.sample(space[1:], min(n - 1, len(space) - 1))
    for split, filt, nsel, uniq, nsort, skip, take, coll, ooa in picks:
        argv = ['--style', 'consise']; kw = {}
        if ooa: argv += ['--only-objects-and-arrays']; kw['only_oa'] = True
        if split: argv += ['--split-by', split]; kw['split'] = split
        if filt: argv += ['--filter', filt]; kw['filt'] = filt
        sel = [('.n', 'n'), ('.k', 'k')][:nsel]
        for p, nm in sel: argv += ['--select', f'{p}={nm}']
        kw['selects'] = sel
        if uniq: argv += ['--unique']; kw['unique'] = True
        sorts = [('.n', False), ('.k', True)][:nsort]
        for p, desc in sorts: argv += ['--sort-by', p + ('=DESC' if desc else '')]
        kw['sorts'] = sorts
        if skip: argv += ['--skip', str(skip)]; kw['skip'] = skip
        if take is not None: argv += ['--take', str(take)]; kw['take'] = take
        if coll == 'group': argv += ['--group-by', '.k']; kw['group'] = '.k'
        if coll == 'merge': argv += ['--merge']; kw['merge'] = True
        try: exp = refpipe.pipeline(ROWS, **kw)
        except ValueError: continue                  # the reference order covers scalars only
        r = run_driver(ctx, argv, stdin)
        got = _rows(r['stdout'])
        done += 1
        if r['result'] != 'ok' or got != exp or any(isinstance(g, dict) and isinstance(e, dict) and list(g) != list(e) for g, e in zip(got, exp)):
            _note(ctx, 'pipeline', ' '.join(argv), f'reference {json.dumps(exp)[:200]} implementation {json.dumps(got)[:200]} result {r["result"]}')
    ctx.run.notes.append(f'conformance: {done} option subsets run through the reference pipeline and through jawk::go')
    return done


def policies(ctx):
    """--on-error policies on a stream with noise between values"""
    stdin = b'1 x {"a":2} ] "s"\n3'
    n = 0
    for pol, exp_out, exp_err, ok in (('ignore', [1, {'a': 2}, 's', 3], False, True), ('stderr', [1, {'a': 2}, 's', 3], True, True), ('stdout', None, False, True), ('panic', [1], False, False)):
        r = run_driver(ctx, ['--style', 'consise', '--on-error', pol], stdin); n += 1
        out = show(r['stdout']).splitlines(); err = show(r['stderr'])
        rows = [json.loads(l) for l in out if not l.startswith('error:')]
        bad = (r['result'] == 'ok') != ok
        if exp_out is not None: bad = bad or rows != exp_out or any(l.startswith('error:') for l in out)
        else: bad = bad or rows != [1, {'a': 2}, 's', 3] or sum(1 for l in out if l.startswith('error:')) < 2
        bad = bad or (exp_err and err.count('error:') < 2) or (not exp_err and err != '')
        if bad: _note(ctx, 'policy', f'--on-error {pol}', f'stdout {out} stderr {err[:100]} result {r["result"]}')
    r = run_driver(ctx, ['--style', 'consise', '--on-error', 'stderr'], b'1 [2] {"a":null}'); n += 1
    if r['stderr'] or _rows(r['stdout']) != [1, [2], {'a': None}]: _note(ctx, 'policy', 'clean stream', f'{show(r["stdout"])} / {show(r["stderr"])}')
    return n


def failures(ctx):
    """read / write failure at a byte offset: error result, no panic, output a prefix of the fault-free output"""
    stdin = b'{"a":1} {"a":2} {"a":3} {"a":4}'
    full = run_driver(ctx, ['--style', 'consise'], stdin); n = 1
    for k in (0, 3, 8, 20):
        r = run_driver(ctx, ['--style', 'consise'], stdin, env={'FAIL_READ_AT': str(k)}); n += 1
        if not str(r['result']).startswith('err') or not full['stdout'].startswith(r['stdout']): _note(ctx, 'io', f'read failure at {k}', f'{r["result"]} {show(r["stdout"])}')
    for k in (0, 5, 9):
        r = run_driver(ctx, ['--style', 'consise'], stdin, env={'FAIL_WRITE_AT': str(k)}); n += 1
        if not str(r['result']).startswith('err') or not full['stdout'].startswith(r['stdout']): _note(ctx, 'io', f'write failure at {k}', f'{r["result"]} {show(r["stdout"])}')
    return n


def input_context(ctx):
    stdin = b'{"a":1}\n  [1,\n2] 7\n"x"'
    r = run_driver(ctx, ['--style', 'consise', '--select', '&index=i', '--select', '&index-in-file=j', '--select', '&started-at-line-number=sl', '--select', '&ended-at-line-number=el', '--select', '.=v'], stdin)
    got = _rows(r['stdout'])
    exp_v = [{'a': 1}, [1, 2], 7, 'x']
    bad = [g.get('v') for g in got if isinstance(g, dict)] != exp_v or [g.get('i') for g in got if isinstance(g, dict)] != [0, 1, 2, 3] or [g.get('j') for g in got if isinstance(g, dict)] != [0, 1, 2, 3]
    if not bad:
        sl = [g['sl'] for g in got]; el = [g['el'] for g in got]
        bad = not (sl[0] == 1 and el[1] >= 3 and sl[1] <= 2 and all(a <= b for a, b in zip(sl, el)) and all(el[i] <= sl[i + 1] or el[i] == sl[i + 1] for i in range(3)))
    if bad: _note(ctx, 'input-context', 'index / line selectors', json.dumps(got)[:300])
    return 1


def take_stops(ctx):
    n = 0
    for argv in (['--take', '2'], ['--select', '.=x', '--take', '1'], ['--filter', '(= . 1)', '--take', '3'], ['--unique', '--take', '1']):
        r = run_driver(ctx, ['--style', 'consise'] + argv, b'1 ', env={'ENDLESS': '1', 'ENDLESS_LIMIT': '20000'}, timeout=30); n += 1
        t = int(argv[-1])
        if r['result'] != 'ok' or r['pulled'] is None or r['pulled'] > 2 * t + 2 or len(_rows(r['stdout'])) != t: _note(ctx, 'take', ' '.join(argv), f'result {r["result"]} pulled {r["pulled"]} rows {len(_rows(r["stdout"]))}')
    return n


def invalid_configs(ctx):
    n = 0
    for argv in (['--select', '(nope 1)=x'], ['--select', '(size)=x'], ['--sort-by', '.a=sideways'], ['--set', 'a=1', '--set', 'a=2'], ['--set', 'noequal'], ['-o', 'csv'], ['-o', 'csv', '--select', '.a=a', '--group-by', '.a'],
                 ['-o', 'json', '--headers'], ['-o', 'csv', '--select', '.=x', '--style', 'pretty'], ['--filter', '(= 1'], ['--split-by', '.a .b']):
        r = run_driver(ctx, argv, b'{"a":1} {"a":2}'); n += 1
        if str(r['result']).startswith('cli-error'): continue
        if not str(r['result']).startswith('err') or r['pulled'] != 0 or r['stdout']: _note(ctx, 'invalid-config', ' '.join(argv), f'result {r["result"]} pulled {r["pulled"]} stdout {show(r["stdout"])[:80]}')
    return n


def bindings(ctx):
    n = 0
    stdin = b'{"a":5,"l":[1,2],"name":"top"}'
    for bound, plain in (('(set "x" 3 (+ :x .a))', '(+ 3 .a)'), ('(define "m" (+ .a 1) (* @m 2))', '(* (+ .a 1) 2)'), ('(map .l (set "x" 1 ^.name))', '(map .l ^.name)'), ('(| .l (size .))', '(size .l)'), ('(| .a (+ . ^.a))', '(+ .a .a)'),
                         ('(set "x" 1 (set "x" 2 :x))', '2'), ('(+ :v,1)', '(+ :v 1)'), ('(.size .l)', '(size . .l)') if False else ('(size .l)', '(.size .l)') if False else ('(size .l)', '(size .l)')):
        r = run_driver(ctx, ['--style', 'consise', '--set', 'v=10', '--select', bound + '=a', '--select', plain + '=b'], stdin); n += 1
        got = _rows(r['stdout'])
        if r['result'] != 'ok' or len(got) != 1 or not isinstance(got[0], dict) or got[0].get('a', 'nothing') != got[0].get('b', 'nothing'): _note(ctx, 'binding', bound + ' vs ' + plain, json.dumps(got)[:200])
    return n


def csv_rows(ctx):
    stdin = json.dumps({'s': 'a"b,c\nd', 'n': -1.5, 'b': True, 'z': None, 'l': [1, '"'], 'o': {'k': ','}}).encode() + b' {"s":"","n":18446744073709551615}'
    r = run_driver(ctx, ['-o', 'csv', '--select', '.s=s', '--select', '.n=n', '--select', '.b=b', '--select', '.z=z', '--select', '.l=l', '--select', '.o=o', '--select', '.missing=m'], stdin)
    rows = list(csv.reader(io.StringIO(show(r['stdout'])), skipinitialspace=True))
    exp = [['s', 'n', 'b', 'z', 'l', 'o', 'm'], ['a"b,c\nd', '-1.5', 'True', 'null', '[1,"\\""]', '{"k":","}', ''], ['', '18446744073709551615', '', '', '', '', '']]
    if r['result'] != 'ok' or rows != exp: _note(ctx, 'csv', 'RFC 4180 reading', f'{rows} expected {exp}')
    return 1


def roundtrip(ctx):
    """every style x utf8: the rows are strict JSON for the values, and feeding them back reproduces them byte for byte"""
    rng = ctx.rng
    def val(d=0):
        k = rng.randrange(9 if d < 3 else 6)
        if k == 0: return None
        if k == 1: return rng.random() < 0.5
        if k == 2: return rng.choice([0, 1, -1, 2 ** 53, -2 ** 63, 2 ** 64 - 1, rng.randrange(10 ** 12)])
        if k == 3: return rng.choice([0.5, -1.25, 1e-7, 123456.789, 1e300, 2.5e-300])
        if k in (4, 5): return ''.join(rng.choice(['a', '"', '\\', '/', '\n', '\t', '\x00', '\x1f', '\x7f', 'é', '中', '\u2028', ' ', '{', ',']) for _ in range(rng.randrange(6)))
        if k in (6, 7): return [val(d + 1) for _ in range(rng.randrange(4))]
        return {(''.join(rng.choice('ab"\\é ') for _ in range(rng.randrange(1, 4))) + str(i)): val(d + 1) for i in range(rng.randrange(4))}
    vals = [val() for _ in range(40)]
    stdin = '\n'.join(json.dumps(v, ensure_ascii=False) for v in vals).encode('utf-8')
    n = 0
    for style in ('consise', 'one-line', 'pretty'):
        for utf8 in (False, True):
            argv = ['--style', style] + (['--utf8-strings'] if utf8 else [])
            r = run_driver(ctx, argv, stdin); n += 1
            text = show(r['stdout'])
            # rows: parse the whole output as a stream of JSON values with an independent reader
            dec = json.JSONDecoder(); pos = 0; got = []
            try:
                while pos < len(text):
                    while pos < len(text) and text[pos] in ' \n\r\t': pos += 1
                    if pos >= len(text): break
                    v, pos = dec.raw_decode(text, pos); got.append(v)
            except Exception as e:
                _note(ctx, 'roundtrip', ' '.join(argv), f'output is not a stream of JSON values at offset {pos}: {text[pos:pos + 40]!r}'); continue
            def nrm(v):
                if isinstance(v, bool) or v is None or isinstance(v, str): return v
                if isinstance(v, int): return v if -2 ** 63 <= v < 2 ** 64 else float(v)
                if isinstance(v, float): return int(v) if v == int(v) and -2 ** 63 <= v < 2 ** 64 else v
                if isinstance(v, list): return [nrm(x) for x in v]
                return {k: nrm(x) for k, x in v.items()}
            if r['result'] != 'ok' or nrm(got) != nrm(vals) or (not utf8 and any(ord(c) > 126 for c in text)):
                _note(ctx, 'roundtrip', ' '.join(argv), f'{len(got)} values read back of {len(vals)}; first difference at {next((i for i, (a, b) in enumerate(zip(got, vals)) if a != b), None)}'); continue
            r2 = run_driver(ctx, argv, r['stdout']); n += 1
            if r2['stdout'] != r['stdout']: _note(ctx, 'roundtrip', ' '.join(argv), 'feeding the output back does not reproduce it byte for byte')
    return n


BATTERIES = {'roundtrip': roundtrip, 'pipeline': pipelines, 'policy': policies, 'io': failures, 'input-context': input_context, 'take': take_stops, 'invalid-config': invalid_configs, 'binding': bindings, 'csv': csv_rows}


def conformance(ctx, kinds):
    total = 0
    for k in kinds:
        try:
            total += BATTERIES[k](ctx) or 0
        except Exception as e:          # the battery must never take a check down
            ctx.run.notes.append(f'conformance battery {k} failed to run: {type(e).__name__} {str(e)[:200]}')
    ctx.run.notes.append(f'conformance batteries {list(kinds)}: {total} concrete runs of jawk::go compared with the references the obligations are stated against')
    return total
