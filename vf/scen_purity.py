"""Getters with memory (C11, C12, C13): `Get::get(&self, &Context)` must be a function of its arguments.

The frame obligations of the stages treat `dyn Get::get` as a function of (getter, context). With `&self` that can only fail
through interior mutability or statics. Every `impl Get` body in the MIR whose own locals or callees mention a cell type
(Cell, RefCell, OnceCell, Mutex, atomics) or a thread-local / static is a *suspicious getter* and is executed symbolically
with the cell state modelled:

  two-call obligation   get(A) then get(B) on the same getter, from an arbitrary relation between the contexts A and B
                        (same input object or not - `Rc::ptr_eq` is free): the second call must return what get(B)
                        returns from the initial cell state. Inner getters are uninterpreted functions of (getter,
                        context), so a cache keyed on the whole context passes and a cache keyed on less does not.
  frame obligation      a thread-local / static cell has after every return the value it had at entry (state that outlives
                        the call must be restored on every path, early returns included).

On the unchanged tree there is no suspicious getter and the family is empty. Candidates are replayed natively with a
repetition battery: out(A^n . B) = out(A)^n . out(B) for pipelines that use macros, variables and selections (n = 300).
"""
import json, re
import z3
from .lib import *
from .mirsym import Unmodelled
from .report import Candidate, Broken

CELL_RX = re.compile(r'\b(RefCell|Cell|OnceCell|OnceLock|Mutex|RwLock|LocalKey|Atomic\w+|UnsafeCell|LazyLock|LazyCell)\b')


def suspicious_getters(ctx):
    out = []
    for name, fn in ctx.fns.items():
        if not re.search(r'<impl at [^>]*>::get$', name) or len(fn.params) != 2: continue
        if 'Context' not in fn.params[1][1] or 'Option<' not in fn.ret or 'JsonValue' not in fn.ret: continue
        why = None
        for ty in fn.locals.values():
            m = CELL_RX.search(ty or '')
            if m: why = m.group(1); break
        if why is None:
            for bb in fn.blocks.values() if isinstance(fn.blocks, dict) else fn.blocks:
                t = bb.term
                if t.kind == 'call' and CELL_RX.search(t.data.get('func') or ''): why = CELL_RX.search(t.data['func']).group(1); break
        if why is None:
            why = _callee_with_cell(ctx, fn, 3)
        if why: out.append((name, fn, why))
    return out


def _body_mentions_cell(fn):
    for ty in fn.locals.values():
        m = CELL_RX.search(ty or '')
        if m: return m.group(1)
    for bb in (fn.blocks.values() if isinstance(fn.blocks, dict) else fn.blocks):
        if bb.term.kind == 'call' and CELL_RX.search(bb.term.data.get('func') or ''): return CELL_RX.search(bb.term.data['func']).group(1)
    return None


def _callee_with_cell(ctx, fn, depth, seen=None):
    """a jawk body (Context methods, helpers) reached from the getter that keeps state in a cell / thread-local: the getter inherits it.
    The output writers, the regex cache and clap are not reached from getters except through compile_regex, which is regex.cache_key."""
    if depth == 0: return None
    seen = seen if seen is not None else set()
    for bb in (fn.blocks.values() if isinstance(fn.blocks, dict) else fn.blocks):
        if bb.term.kind != 'call': continue
        func = bb.term.data.get('func') or ''
        if 'compile_regex' in func or 'dyn Get' in func or func.startswith(('<', 'std::', 'core::', 'alloc::')): continue
        plain = re.sub(r'<[^<>]*>', '', func); plain = re.sub(r'<[^<>]*>', '', plain)
        segs = [x for x in plain.split('::') if x]
        if not segs: continue
        cands = []
        if len(segs) >= 2 and segs[-2] == 'Context': cands = [n for n in ctx.fns if re.search(r'^processor::<impl at [^>]*>::%s$' % re.escape(segs[-1]), n)]
        else: cands = [n for n in ctx.fns if n == plain or n.endswith('::' + plain) or (len(segs) == 1 and n.split('::')[-1] == segs[0] and '<impl' not in n and '{' not in n)]
        for n in cands[:3]:
            if n in seen: continue
            seen.add(n); f = ctx.fns[n]
            w = _body_mentions_cell(f) or _callee_with_cell(ctx, f, depth - 1, seen)
            if w: return f'{w} in {n[-50:]}'
    return None


def getter_purity(ctx):
    run = ctx.run
    fam = run.family('purity.getters', 'a getter that keeps state between calls (a cell in itself, a thread-local or a static) still answers get(B) after get(A) exactly as it answers get(B) alone, and leaves thread-local / static cells as it found them')
    fam.need_witness = False
    run.bounds['purity.getters'] = 'every impl Get body whose locals or callees mention a cell / lock / atomic / thread-local type; two calls with an arbitrary relation between the two contexts; inner getters are uninterpreted functions of (getter, context)'
    sus = suspicious_getters(ctx)
    run.notes.append(f'purity.getters: {len(sus)} getter bodies with interior mutability or statics: {[n[-70:] for n, _, _ in sus]}')
    if not sus:
        fam.obligations += 1; fam.discharged += 1        # the premise itself: no getter keeps state
        fam.add_sample({'premise': 'no impl Get body mentions a cell, lock, atomic, thread-local or static', 'verdict': 'every getter is a function of (self, context)'})
        return
    GLOBALS = {}

    def cell_of(st, key):
        """the persistent object behind a thread-local / static, by the text of the constant that names it"""
        if key not in st.heap.get(0, {}):
            st.heap.setdefault(0, {}); st.meta.setdefault(0, ('globals', 'globals'))
            o = named(st, 'global:' + key[-40:], 'Cell'); st.heap[0][key] = o
            st.heap[o.oid]['value'] = BV(z3.BitVec('G0:' + key[-30:], 64))
        return st.heap[0][key]

    def s_local_get(ex, st, func, a, ty):
        k = a[0].text if isinstance(a[0], Const) else origin(st, a[0]); c = cell_of(st, k); return [(st, st.heap[c.oid]['value'])]
    def s_local_set(ex, st, func, a, ty):
        k = a[0].text if isinstance(a[0], Const) else origin(st, a[0]); c = cell_of(st, k); st.heap[c.oid]['value'] = a[1]; return [(st, UNIT)]
    def s_local_replace(ex, st, func, a, ty):
        k = a[0].text if isinstance(a[0], Const) else origin(st, a[0]); c = cell_of(st, k); old = st.heap[c.oid]['value']; st.heap[c.oid]['value'] = a[1]; return [(st, old)]
    def s_cell_get(ex, st, func, a, ty):
        c = obj(st, a[0]); return [(st, ex.load(st, c.oid, 'value', ty or 'u64'))]
    def s_cell_set(ex, st, func, a, ty):
        c = obj(st, a[0]); st.heap[c.oid]['value'] = a[1]; return [(st, UNIT)]
    def s_borrow(ex, st, func, a, ty):
        c = obj(st, a[0])
        m = re.search(r'RefCell::<(.*)>::borrow(_mut)?$', func)
        ex.load(st, c.oid, 'value', m.group(1) if m else 'opaque')
        return [(st, RefV(c.oid, 'value'))]
    def s_ref_deref(ex, st, func, a, ty):
        r = a[0]
        while isinstance(r, RefV) and isinstance(st.heap[r.oid][r.key], RefV): r = st.heap[r.oid][r.key]
        return [(st, r)]
    def s_ptr_eq(ex, st, func, a, ty):
        x, y = obj(st, a[0]), obj(st, a[1])
        if x.oid == y.oid or origin(st, x) == origin(st, y): return [(st, BoolV(z3.BoolVal(True)))]
        n1, n2 = sorted([origin(st, x), origin(st, y)]); return [(st, BoolV(z3.Bool(f'ptr_eq({n1},{n2})')))]
    def s_ctx_input(ex, st, func, a, ty):
        c = obj(st, a[0]); return [(st, slot(st, named(st, 'input(' + origin(st, c) + ')', 'Rc<JsonValue>')))]
    def s_inner_get(ex, st, func, a, ty):
        g = origin(st, a[0]); c = origin(st, a[1])
        st.events.append(('inner', g, c))
        out = []
        for present in (True, False):
            s2 = st.clone(); s2.pc.append(z3.Bool(f'present({g},{c})') == present)
            if ex.feasible(s2): out.append((s2, some(s2, named(s2, f'R({g},{c})', 'JsonValue')) if present else none(s2)))
        return out
    def s_ctx_lookup(ex, st, func, a, ty):
        """Context::get_definition / get_variable_value ...: an uninterpreted function of (context, name)"""
        c = origin(st, a[0]); what = func.rsplit('::', 1)[1]; nm = origin(st, a[1]) if len(a) > 1 else ''
        out = []
        for present in (True, False):
            s2 = st.clone(); s2.pc.append(z3.Bool(f'has:{what}({c},{nm})') == present)
            if ex.feasible(s2): out.append((s2, some(s2, slot(s2, named(s2, f'{what}({c},{nm})', 'Rc<dyn Get>'))) if present else none(s2)))
        return out
    def s_clone_same(ex, st, func, a, ty): return [(st, obj(st, a[0]))]
    summ = [(r'LocalKey::<.*>::get$', s_local_get), (r'LocalKey::<.*>::set$', s_local_set), (r'LocalKey::<.*>::replace$', s_local_replace),
            (r'^(std::cell::)?Cell::<.*>::get$', s_cell_get), (r'^(std::cell::)?Cell::<.*>::set$', s_cell_set),
            (r'RefCell::<.*>::borrow(_mut)?$', s_borrow), (r'^<(std::cell::)?Ref(Mut)?<.*> as Deref(Mut)?>::deref(_mut)?$', s_ref_deref),
            (r'Rc::<.*>::ptr_eq$', s_ptr_eq), (r'Context::input$', s_ctx_input), (r'<dyn Get as Get>::get$', s_inner_get),
            (r'Context::get_definition$|Context::get_variable_value$|Context::get_selected$', s_ctx_lookup),
            (r'as Clone>::clone$', s_clone_same), (r'^<Rc<.*> as Deref>::deref$', s_identity)]
    for name, fn, why in sus:
        inl = []
        for n in ctx.fns:
            m = re.match(r'^processor::<impl at [^>]*>::(\w+)$', n)
            if m and _body_mentions_cell(ctx.fns[n]): inl.append((r'Context::%s$' % m.group(1), '^' + re.escape(n) + '$'))
        ex = ctx.exec(summaries=summ, inline=inl, max_visits=20)
        selfty = re.sub(r"^&('\w+ )?", '', fn.params[0][1])
        def fresh(tag):
            st = State(); st.heap[0] = {}; st.meta[0] = ('globals', 'globals'); st.next_oid = max(st.next_oid, 1)
            so = named(st, 'self', selfty)
            return st, so
        def call(st, so, ctxname):
            c = named(st, ctxname, 'Context'); st.status = 'running'
            ex.new_frame(st, fn, [slot(st, so, 'self*'), slot(st, c, ctxname + '*')])
            return [d for d in ex.run(st) if d.status != 'infeasible']
        def result(d):
            r = obj(d, d.ret); dd = cval(ex.discr(d, r).t)
            if dd is None: return ('symbolic',)
            return ('nothing',) if dd == 0 else ('some', origin(d, d.heap[r.oid][('f', 'Some', 0)]))
        def globals_changed(d):
            bad = []
            for k, c in d.heap.get(0, {}).items():
                v = d.heap[c.oid]['value']; v0 = z3.BitVec('G0:' + k[-30:], 64)
                if not hasattr(v, 't') or not ex.valid(d, v.t == v0)[0]: bad.append(k)
            return bad
        try:
            # reference: get(B) alone from the initial state
            st, so = fresh('ref'); alone = call(st, so, 'B')
            st, so = fresh('two'); firsts = call(st, so, 'A')
        except Exception as e:
            fam.obligations += 1
            fam.candidates.append(Candidate(fam.name, 'not-executable:' + name[-40:], f'the getter {name[-80:]} keeps state ({why}) and cannot be executed by the model ({type(e).__name__}: {str(e)[:80]})', {'getter': name}, unmodelled=why)); continue
        for d in alone + firsts:
            run.paths += 1; fam.obligations += 1; fam.paths += 1; fam.witnesses += 1
            hav = (d.havoc or [None])[0]
            if d.status != 'returned':
                fam.candidates.append(Candidate(fam.name, 'path:' + name[-40:], f'{name[-80:]}: {d.status} {d.notes[-1:]}', {'getter': name}, unmodelled=hav)); continue
            ch = globals_changed(d)
            if ch: fam.candidates.append(Candidate(fam.name, 'global-not-restored:' + name[-40:], f'{name[-80:]} returns with the thread-local / static {ch[0][-40:]} changed (it outlives the call: later evaluations start from it)', {'getter': name}, unmodelled=hav))
            else: fam.discharged += 1
        for d1 in firsts:
            if d1.status != 'returned': continue
            for d2 in call(d1, so, 'B'):
                run.paths += 1; fam.obligations += 1; fam.paths += 1; fam.witnesses += 1
                hav = (d2.havoc or [None])[0]
                if d2.status != 'returned':
                    fam.candidates.append(Candidate(fam.name, 'path:' + name[-40:], f'{name[-80:]}: second call {d2.status}', {'getter': name}, unmodelled=hav)); continue
                r2 = result(d2)
                # some execution of get(B) alone, consistent with this path, must give the same answer
                same = False
                for da in alone:
                    if da.status != 'returned' or result(da) != r2: continue
                    ex.queries += 1
                    ex.solver.push(); [ex.solver.add(x) for x in d2.pc + da.pc]; sat = ex.solver.check() == z3.sat; ex.solver.pop()
                    if sat: same = True; break
                consistent_alts = []
                for da in alone:
                    if da.status != 'returned': continue
                    ex.solver.push(); [ex.solver.add(x) for x in d2.pc + da.pc]; sat = ex.solver.check() == z3.sat; ex.solver.pop()
                    if sat: consistent_alts.append(result(da))
                if same and all(x == r2 for x in consistent_alts): fam.discharged += 1
                else:
                    fam.candidates.append(Candidate(fam.name, 'remembers:' + name[-40:], f'{name[-80:]}: after get(A), get(B) answers {r2} where get(B) alone answers {consistent_alts[:3]} (the answer depends on an earlier call)', {'getter': name, 'second': str(r2), 'alone': str(consistent_alts[:3])}, unmodelled=hav))
        run.absorb(ex)
    seen = set(); fam.candidates = [c for c in fam.candidates if not (c.role in seen or seen.add(c.role))]
    replay_repetition(ctx, fam.candidates)


ENV_PAIRED = [(['--select', '(concat (env "jv_case_a") "/" (env "JV_CASE_A"))=a', '--select', '(concat "lower" "/" "UPPER")=b'], '1', {'jv_case_a': 'lower', 'JV_CASE_A': 'UPPER'}),
              (['--select', '(concat (env "JV_CASE_A") "/" (env "jv_case_a"))=a', '--select', '(concat "UPPER" "/" "lower")=b'], '1 2', {'jv_case_a': 'lower', 'JV_CASE_A': 'UPPER'})]
PIPES = [(['--set', '@m=.x', '--select', '(default @m "none")=v', '--select', '(default (@ "m") "none")=w'], ['{"y":1}', '{"x":2}']),
         (['--set', '@m=(+ . :k)', '--select', '(+ (set "k" 1 @m) (set "k" 10 @m))=r'], ['5', '7']),
         (['--set', '@pct=(/ (* :part 100) .total)', '--select', '(set "part" .a @pct)=a', '--select', '(set "part" .b @pct)=b'], ['{"a":1,"b":3,"total":4}', '{"a":2,"b":2,"total":8}']),
         (['--set', '@double=(* . 2)', '--select', '(default @unit 1)=u', '--select', '@double=d'], ['3', '4']),
         (['--set', '@d=(* . 2)', '--filter', '(> @d 4)', '--select', '@d=d', '--select', '(default @nope "none")=n'], ['1', '3', '5']),
         (['--set', 'v=2', '--select', '(+ :v .)=a', '--select', '(set "v" 5 (+ :v .))=b', '--select', '(+ :v .)=c'], ['1', '2']),
         (['--set', '@sel=/x/', '--select', '(default @sel "none")=before', '--select', '.=x', '--select', '(default @sel "none")=after'], ['1', '"a"']),
         (['--select', '(define "f" (+ . 1) (+ @f @f))=r', '--select', '(default @f 0)=z'], ['1', '2'])]


# macro form (column a) against the manually substituted form (column b) in one run: the two columns must agree on every row
PAIRED = [(['--set', '@m=(+ . :k)', '--select', '(+ (set "k" 1 @m) (set "k" 10 @m))=a', '--select', '(+ (set "k" 1 (+ . :k)) (set "k" 10 (+ . :k)))=b'], '5 7'),
          (['--set', '@pct=(/ (* :part 100) .total)', '--select', '(concat (stringify (set "part" .x @pct)) "/" (stringify (set "part" .y @pct)))=a',
            '--select', '(concat (stringify (set "part" .x (/ (* :part 100) .total))) "/" (stringify (set "part" .y (/ (* :part 100) .total))))=b'], '{"x":1,"y":3,"total":4} {"x":2,"y":2,"total":8}'),
          (['--set', '@s=(default /n/ "none")', '--select', '@s=a0', '--select', '.=n', '--select', '(concat @s "")=a', '--select', '(concat (default /n/ "none") "")=b'], '"p" "q"'),
          (['--set', '@g=(get . :key)', '--select', '(push (push [] (set "key" "u" @g)) (set "key" "v" @g))=a', '--select', '(push (push [] (set "key" "u" (get . :key))) (set "key" "v" (get . :key)))=b'], '{"u":1,"v":2} {"u":3,"v":4}')]


def replay_repetition(ctx, cands):
    """out(A^n . B) = out(A)^n . out(B): a getter that remembers shows when values repeat; n = 300 so that counters that leak per
    evaluation reach their limits"""
    from .cli import run_driver, show
    if not cands: return
    found = None
    for argv, stdin, *envd in [(a, b) for a, b in PAIRED] + [tuple(x) for x in ENV_PAIRED]:
        r = run_driver(ctx, argv + ['--style', 'consise'], stdin.encode(), env=(envd[0] if envd else None))
        rows = []
        for ln in show(r['stdout']).splitlines():
            try: rows.append(json.loads(ln))
            except Exception: rows.append(None)
        bad = [x for x in rows if not isinstance(x, dict) or x.get('a', 'nothing') != x.get('b', 'nothing')]
        if r['result'] != 'ok' or bad or not rows:
            found = {'argv': argv, 'stdin': stdin, 'what': 'the macro form (a) and the substituted form (b) must agree', 'rows': rows[:4], 'result': r['result']}; break
    for argv, vals in ([] if found else PIPES):
        base = {}
        for v in vals:
            r = run_driver(ctx, argv + ['--style', 'consise'], v.encode()); base[v] = (r['stdout'], r['result'])
        for a in vals:
            for b in vals:
                stream = ' '.join([a] * 300 + [b] + [a] + [b]).encode()
                r = run_driver(ctx, argv + ['--style', 'consise'], stream, timeout=60)
                exp = base[a][0] * 300 + base[b][0] + base[a][0] + base[b][0]
                if r['stdout'] != exp or r['result'] != 'ok':
                    got = show(r['stdout']).splitlines(); ex_ = show(exp).splitlines()
                    k = next((i for i, (x, y) in enumerate(zip(got, ex_)) if x != y), min(len(got), len(ex_)))
                    found = {'argv': argv, 'stdin': f'{a} x300, {b}, {a}, {b}', 'first_differing_row': k, 'expected_row': ex_[k] if k < len(ex_) else None, 'actual_row': got[k] if k < len(got) else None, 'result': r['result']}
                    break
            if found: break
        if found: break
    for c in cands:
        if found: c.status = 'reproduced'; c.replay = found; c.unmodelled = None
        else:
            c.status = 'inconclusive'; c.unmodelled = c.unmodelled or 'state in a getter (no pipeline of the repetition battery shows a difference)'
