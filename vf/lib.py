"""Shared helpers for scenarios: heap constructors, generic std summaries (DESIGN 2.4)."""
import re
import z3
from .mirsym import *          # noqa: F401,F403  (BV, BoolV, ObjV, RefV, Const, UNIT, State, Exec, GENERIC ...)
from .mirsym import BV, BoolV, ObjV, RefV, Const, UNIT, State, Exec, GENERIC, pointee, is_ptr_type


def bv64(x): return z3.BitVecVal(x, 64)
def bv8(x): return z3.BitVecVal(x, 8)


def slot(st, v, name='slot'):
    box = st.new_obj(st.fresh_name(name), 'box'); st.heap[box]['v'] = v
    return RefV(box, 'v')


def deref(st, r):
    return st.heap[r.oid][r.key]


def obj(st, v):
    while isinstance(v, RefV):
        v = deref(st, v)
    return v


def named(st, name, ty='opaque'):
    return ObjV(st.new_obj(name, ty))


def origin(st, v):
    v = obj(st, v)
    return st.meta[v.oid][0] if isinstance(v, ObjV) else str(v)


def mk_enum(st, ty, idx, var=None, payload=(), name=None):
    oid = st.new_obj(name or st.fresh_name('e'), ty); st.heap[oid]['discr'] = BV(bv64(idx), True)
    for i, p in enumerate(payload):
        st.heap[oid][('f', var, i)] = p
    return ObjV(oid)


def some(st, v, ty='Option'): return mk_enum(st, ty, 1, 'Some', (v,))
def none(st, ty='Option'): return mk_enum(st, ty, 0)
def ok(st, v, ty='Result'): return mk_enum(st, ty, 0, 'Ok', (v,))
def err(st, v, ty='Result'): return mk_enum(st, ty, 1, 'Err', (v,))


def seqobj(st, ty, items, origin=None):
    oid = st.new_obj(origin or st.fresh_name(ty), ty); st.heap[oid]['model'] = tuple(items)
    return ObjV(oid)


def model(st, v):
    o = obj(st, v)
    if not isinstance(o, ObjV) or 'model' not in st.heap[o.oid]:
        from .mirsym import Unmodelled
        raise Unmodelled(f'container without a sequence model: {st.meta.get(o.oid) if isinstance(o, ObjV) else o} (an unmodelled constructor?)')
    return st.heap[o.oid]['model']


def set_model(st, v, items):
    st.heap[obj(st, v).oid]['model'] = tuple(items)


def cval(t):
    """concrete integer value of a term, or None"""
    t = z3.simplify(t)
    if z3.is_bv_value(t):
        return t.as_long()
    if z3.is_true(t):
        return 1
    if z3.is_false(t):
        return 0
    if z3.is_int_value(t):
        return t.as_long()
    return None


def fld(st, oid, structs, sname, fname, variant=None):
    return st.heap[oid][('f', variant, structs[sname].index(fname))]


def setfld(st, oid, structs, sname, fname, v):
    st.heap[oid][('f', None, structs[sname].index(fname))] = v


def discr_of(ex, st, v):
    return ex.discr(st, obj(st, v)).t


def result_parts(ex, st, r, ok_ty='ProcessDesision'):
    """(result discr term, Ok-payload discr term) of a Result<ProcessDesision,_> value"""
    r = obj(st, r)
    rd = ex.discr(st, r).t
    pd = ex.discr(st, ex.load(st, r.oid, ('f', 'Ok', 0), ok_ty)).t
    return rd, pd


# ---------------------------------------------------------------- protocol summaries
def proto_next(allow_err=True):
    """<dyn Process>::{start,process,complete}: record an event, answer anything legal"""
    def dyn_process(ex, st, func, args, ty):
        meth = func.split('::')[-1]
        n = sum(1 for e in st.events if e[0] == 'next')
        v = ex.fresh_value(st, ty, f'next{n}.{meth}')
        d = ex.discr(st, v)
        st.pc.append(z3.Or(d.t == 0, d.t == 1) if allow_err else d.t == 0)
        if meth == 'process':
            pd = ex.load(st, v.oid, ('f', 'Ok', 0), 'ProcessDesision'); dd = ex.discr(st, pd)
            st.pc.append(z3.Or(dd.t == 0, dd.t == 1))
        arg = args[1] if len(args) > 1 else None
        st.events.append(('next', meth, origin(st, args[0]), arg, v))
        return [(st, v)]
    return dyn_process


def next_events(st, meth=None):
    return [e for e in st.events if e[0] == 'next' and (meth is None or e[1] == meth)]


# ---------------------------------------------------------------- container summaries (concrete length per path)
def s_seq_new(ex, st, func, args, ty): return [(st, seqobj(st, 'Seq', ()))]
def s_seq_push(ex, st, func, args, ty):
    v = obj(st, args[0]); set_model(st, v, model(st, v) + (args[1],)); return [(st, UNIT)]
def s_seq_len(ex, st, func, args, ty): return [(st, BV(bv64(len(model(st, args[0])))))]
def s_seq_is_empty(ex, st, func, args, ty): return [(st, BoolV(z3.BoolVal(len(model(st, args[0])) == 0)))]
def s_seq_clear(ex, st, func, args, ty): set_model(st, args[0], ()); return [(st, UNIT)]
def s_iter_ref(ex, st, func, args, ty):
    """iterate by reference: yields &elem"""
    return [(st, seqobj(st, 'Iter', [slot(st, x) for x in model(st, args[0])]))]
def s_iter_val(ex, st, func, args, ty):
    """iterate by value"""
    return [(st, seqobj(st, 'IntoIter', model(st, args[0])))]
def s_iter_next(ex, st, func, args, ty):
    it = obj(st, args[0]); m = st.heap[it.oid]['model']
    if not m:
        return [(st, none(st))]
    st.heap[it.oid]['model'] = m[1:]
    return [(st, some(st, m[0]))]
def s_iter_rev(ex, st, func, args, ty):
    it = obj(st, args[0]); st.heap[it.oid]['model'] = tuple(reversed(st.heap[it.oid]['model'])); return [(st, it)]
def s_identity(ex, st, func, args, ty): return [(st, args[0])]
def s_clone(ex, st, func, args, ty): return [(st, ex.copy_val(st, obj(st, args[0])))]
def s_clone_shared(ex, st, func, args, ty):
    """Rc::clone - same object"""
    return [(st, obj(st, args[0]))]


def s_unit_ok(ex, st, func, args, ty): return [(st, ok(st, UNIT))]


def model_values(m, terms):
    out = {}
    for name, t in terms.items():
        try:
            v = m.eval(t, True)
            out[name] = v.as_long() if z3.is_bv_value(v) or z3.is_int_value(v) else (z3.is_true(v) if z3.is_bool(v) else str(v))
        except Exception as e:          # pragma: no cover
            out[name] = '?' + str(e)
    return out
