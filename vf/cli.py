"""Native runs of the real code built from the current tree (replay, translator self-check)."""
import os, subprocess, re


def run_jawk(ctx, argv, stdin=b'', timeout=20, release=False):
    exe = ctx.tree.binary(release)
    try:
        p = subprocess.run([exe] + list(argv), input=stdin, stdout=subprocess.PIPE, stderr=subprocess.PIPE, timeout=timeout)
    except subprocess.TimeoutExpired:
        return {'rc': 'timeout', 'stdout': b'', 'stderr': b''}
    ctx.run.traces_validated += 1
    return {'rc': p.returncode, 'stdout': p.stdout, 'stderr': p.stderr}


def run_driver(ctx, argv, stdin=b'', env=None, timeout=20):
    """in-process driver over jawk::go: separate stdout/stderr buffers, injected read/write failures, endless stdin"""
    exe = ctx.tree.replay_driver()
    e = dict(os.environ); e.update(env or {})
    try:
        p = subprocess.run([exe] + list(argv), input=stdin, stdout=subprocess.PIPE, stderr=subprocess.PIPE, timeout=timeout, env=e)
    except subprocess.TimeoutExpired:
        return {'result': 'timeout', 'pulled': None, 'stdout': b'', 'stderr': b''}
    ctx.run.traces_validated += 1
    out = p.stdout.decode(errors='replace')
    r = {'result': None, 'pulled': None, 'stdout': b'', 'stderr': b'', 'raw': out[-400:], 'rc': p.returncode}
    for ln in out.splitlines():
        if ln.startswith('result='): r['result'] = ln[7:]
        elif ln.startswith('pulled='): r['pulled'] = int(ln[7:])
        elif ln.startswith('stdout='): r['stdout'] = bytes.fromhex(ln[7:])
        elif ln.startswith('stderr='): r['stderr'] = bytes.fromhex(ln[7:])
    if r['result'] is None and p.returncode != 0:
        r['result'] = 'panic' if b'panicked' in p.stderr else f'crash rc={p.returncode}'
    return r


def show(b):
    return b.decode('utf-8', errors='backslashreplace') if isinstance(b, (bytes, bytearray)) else b
