"""Number-as-string functions (src/functions/number_as_string/**): the wiring around the bigdecimal crate.

The arithmetic itself is bigdecimal's (heap big-integer loops: out of reach, and not jawk's code). What jawk contributes is
which operation is applied to which arguments in which order, what happens to arguments that are not numbers-as-strings,
and how the result is turned into a value. That part is executed from the MIR with a BigDecimal modelled as an exact
rational: z3 `Real` terms, `from_str` of a numeric string S is the real constant val(S), + - * / abs and the comparisons
are their exact counterparts, `normalized()` preserves the value, `to_string()` is the decimal spelling of the value.
The obligation per function and argument-shape combination: the returned string spells exactly the rational the
documentation prescribes (solver-decided: operand order, folds over all arguments, the zero-divisor guard), nothing for
ill-typed arguments. Any other bigdecimal call (a precision cut, a rounding) is unmodelled: the path becomes a candidate
that is settled by native replay on long decimals.
"""
import itertools, json, re
import z3
from .lib import *
from .mirsym import Unmodelled
from .report import Candidate, Broken
from .scen_kernels import make_summaries, jv, PANICS
from .scen_kernels2 import conversions, extra_summaries, body_of, find_impl, s_opt_closure

ROUND = z3.Function('round0', z3.RealSort(), z3.RealSort())
REM = z3.Function('rem', z3.RealSort(), z3.RealSort(), z3.RealSort())


def big(st, term):
    o = named(st, st.fresh_name('big'), 'BigDecimal'); st.heap[o.oid]['real'] = term; return o


def real_of(st, v):
    o = obj(st, v)
    if not isinstance(o, ObjV) or 'real' not in st.heap[o.oid]: raise Unmodelled('a BigDecimal without a value model')
    return st.heap[o.oid]['real']


def s_from_str(ex, st, func, args, ty):
    s = origin(st, args[0])
    if s.startswith('NUM'): return [(st, ok(st, big(st, z3.Real(f'val({s})'))))]
    if s.startswith('BAD'): return [(st, err(st, named(st, st.fresh_name('parse-error'), 'ParseBigDecimalError')))]
    raise Unmodelled('BigDecimal::from_str of ' + s)


def s_const(val): return lambda ex, st, func, args, ty: [(st, big(st, z3.RealVal(val)))]


def s_binop(op):
    def f(ex, st, func, args, ty):
        a, b = real_of(st, args[0]), real_of(st, args[1])
        if op == '/': st.events.append(('div', b))
        r = {'+': lambda: a + b, '-': lambda: a - b, '*': lambda: a * b, '/': lambda: a / b, '%': lambda: REM(a, b)}[op]()
        return [(st, big(st, r))]
    return f


def s_assign(op):
    def f(ex, st, func, args, ty):
        tgt = obj(st, args[0]); a, b = real_of(st, tgt), real_of(st, args[1])
        st.heap[tgt.oid]['real'] = {'+': a + b, '-': a - b, '*': a * b}[op]
        return [(st, UNIT)]
    return f


def s_cmp(op):
    def f(ex, st, func, args, ty):
        a, b = real_of(st, args[0]), real_of(st, args[1])
        return [(st, BoolV({'lt': a < b, 'le': a <= b, 'gt': a > b, 'ge': a >= b, 'eq': a == b, 'ne': a != b}[op]))]
    return f


def s_abs(ex, st, func, args, ty):
    a = real_of(st, args[0]); return [(st, big(st, z3.If(a < 0, -a, a)))]


def s_round(ex, st, func, args, ty):
    a = real_of(st, args[0]); d = args[1]
    if cval(d.t) != 0: raise Unmodelled('round to a precision other than 0')
    return [(st, big(st, ROUND(a)))]


def s_same(ex, st, func, args, ty): return [(st, big(st, real_of(st, args[0])))]


def s_to_string(ex, st, func, args, ty):
    o = named(st, st.fresh_name('decimal'), 'String'); st.heap[o.oid]['decimal_of'] = real_of(st, args[0]); return [(st, o)]


def nas_summaries():
    B = r'(bigdecimal::)?BigDecimal'
    return [(r'^<%s as FromStr>::from_str$' % B, s_from_str), (r'^<%s as (bigdecimal::|num_traits::)?Zero>::zero$' % B, s_const(0)), (r'^<%s as (bigdecimal::|num_traits::)?One>::one$' % B, s_const(1)),
            (r'^<%s as Sub>::sub$' % B, s_binop('-')), (r'^<%s as Add>::add$' % B, s_binop('+')), (r'^<%s as Mul>::mul$' % B, s_binop('*')), (r'^<%s as Div>::div$' % B, s_binop('/')), (r'^<%s as Rem>::rem$' % B, s_binop('%')),
            (r'^<%s as AddAssign>::add_assign$' % B, s_assign('+')), (r'^<%s as SubAssign>::sub_assign$' % B, s_assign('-')), (r'^<%s as MulAssign>::mul_assign$' % B, s_assign('*')),
            (r'^<%s as PartialOrd>::lt$' % B, s_cmp('lt')), (r'^<%s as PartialOrd>::le$' % B, s_cmp('le')), (r'^<%s as PartialOrd>::gt$' % B, s_cmp('gt')), (r'^<%s as PartialOrd>::ge$' % B, s_cmp('ge')),
            (r'^<%s as PartialEq>::eq$' % B, s_cmp('eq')), (r'^<%s as PartialEq>::ne$' % B, s_cmp('ne')),
            (r'^%s::abs$' % B, s_abs), (r'^%s::round$' % B, s_round), (r'^%s::normalized$|^<%s as Clone>::clone$' % (B, B), s_same), (r'^<%s as ToString>::to_string$' % B, s_to_string)]


# argument shapes: a numeric string (parses), a string that is not a number, a number, nothing
def numstr(i): return ('NUM', i)
def badstr(i): return ('BAD', i)
def number(i): return ('POS', i)
def nothing(i): return None
SHAPES = [numstr, badstr, number, nothing]


def val(a): return z3.Real(f'val(NUM{a[1]})')
def is_num(a): return a is not None and a[0] == 'NUM'


def table():
    T = []
    def add(name, path, arities, ref, doc, demos): T.append(dict(name=name, body=body_of('number_as_string/' + path), arities=arities, ref=ref, doc=doc, demos=demos))
    def all_num(args): return all(is_num(a) for a in args)
    def fold(op, unit):
        def ref(args):
            if not all_num(args): return None
            r = z3.RealVal(unit)
            for a in args: r = (r + val(a)) if op == '+' else (r * val(a))
            return ('dec', r)
        return ref
    def minus(args):
        if not all_num(args): return None
        return ('dec', -val(args[0])) if len(args) == 1 else ('dec', val(args[0]) - val(args[1]))
    def divide(args):
        if not all_num(args): return None
        return ('div', val(args[0]), val(args[1]))
    def rem(args):
        if not all_num(args): return None
        return ('rem', val(args[0]), val(args[1]))
    def unary(f): return lambda args: ('dec', f(val(args[0]))) if all_num(args) else None
    def cmp(f): return lambda args: ('bool', f(val(args[0]), val(args[1]))) if all_num(args) else None
    big1 = '1' + '0' * 119 + '7'; big2 = '9' * 130; frac = '0.' + '0' * 115 + '123456789'
    add('"+"', 'nas_arithmetic/add', (2, 3), fold('+', 0), 'the exact sum of all its arguments', [f'("+" "{big1}" "5")', f'("+" "{frac}" "1")', '("+" "0.1" "0.2")', '("+" "007" "1")', '("+" "1e2" "1")', '("+" "1.5E10" "1")', '("+" "2.5E+20" "0.5")', '("+" "1.5E-10" "1")', '("+" "1.50e10" "0")', f'("+" "{big2}" "1" "{frac}")', '("+" "1" "x")', '("+" "1" 2)'])
    add('"-"', 'nas_arithmetic/take_away', (1, 2), minus, 'the first argument minus the second (the negation of a single argument)', [f'("-" "{big1}" "8")', '("-" "3" "5")', '("-" "1.50" "0.5")', '("-" "010" "1e1")', '("-" "5" "3")', f'("-" "{frac}")', f'("-" "1" "{frac}")', '("-" "1" null)'])
    add('"*"', 'nas_arithmetic/times', (2, 3), fold('*', 1), 'the exact product of all its arguments', [f'("*" "{big1}" "3")', f'("*" "{frac}" "{frac}")', '("*" "1.5" "2" "4")', '("*" "007" "1e1")', '("*" "1.5E-10" "10000000000")', f'("*" "{big2}" "{big2}")', '("*" "2" "y")'])
    add('"/"', 'nas_arithmetic/divide', (2,), divide, 'the first argument divided by the second; nothing when the divisor is zero', ['("/" "1" "4")', '("/" "10" "0")', '("/" "10" "0.000")', '("/" "7" "-2")', '("/" "1" "z")'])
    add('"%"', 'nas_arithmetic/reminder', (2,), rem, 'the remainder of the first argument by the second; nothing when the divisor is zero', ['("%" "7" "4")', '("%" "10" "0")', '("%" "7.5" "2")', '("%" "1" 2)'])
    add('"abs"', 'nas_arithmetic/abs', (1,), unary(lambda r: z3.If(r < 0, -r, r)), 'the absolute value', [f'("abs" "-{big1}")', f'("abs" "{frac}")', f'("abs" "-{frac}")', '("abs" "-0")', '("abs" 1)'])
    add('"||"', 'nas_arithmetic/normelize', (1,), unary(lambda r: r), 'the same number in normal form', [f'("||" "{big1}")', f'("||" "{frac}")', '("||" "1.500")', '("||" "0010")', '("||" "1e3")', '("||" "1.5E10")', '("||" "2.50E-10")', '("||" "abc")'])
    add('"round"', 'nas_arithmetic/round', (1,), unary(lambda r: ROUND(r)), 'the number rounded to an integer', ['("round" "1.4")', '("round" "-1.6")', f'("round" "{big1}.7")', '("round" "x")'])
    for nm, f, op in (('"="', 'eq', lambda a, b: a == b), ('"!="', 'neq', lambda a, b: a != b), ('"<"', 'lt', lambda a, b: a < b), ('"<="', 'lte', lambda a, b: a <= b), ('">"', 'gt', lambda a, b: a > b), ('">="', 'gte', lambda a, b: a >= b)):
        add(nm, 'nas_compare/' + f, (2,), cmp(op), 'the comparison of the two numbers by value (independent of their spelling)',
            [f'({nm} "1.5E10" "1.5e10")', f'({nm} "1.5E10" "15000000000")', f'({nm} "2.50E+20" "25e19")', f'({nm} "0099" "100")', f'({nm} "007" "7")', f'({nm} "0000" "0")', f'({nm} "1e2" "100")', f'({nm} "100" "1e2")', f'({nm} "1.50" "1.5")', f'({nm} "-007" "-7")', f'({nm} "10" "9")', f'({nm} "9" "10")', f'({nm} "1.0" "1")', f'({nm} "{big1}" "{big1}.0")', f'({nm} "{big1}" "{big1[:-1]}8")', f'({nm} "{frac}" "0")', f'({nm} "-1" "1e0")', f'({nm} "2" "10")', f'({nm} "1" "a")'])
    return T


def _task(args):
    ctx, entry, inl = args
    res = {'paths': 0, 'obl': 0, 'ok': 0, 'cands': [], 'queries': 0, 'solver_s': 0.0, 'unh': {}, 'sums': [], 'bodies': [], 'sample': None}
    for n in entry['arities']:
        for shape in itertools.product(SHAPES, repeat=n):
            absargs = [mk(i) for i, mk in enumerate(shape)]
            def builder(a):
                if a[0] == 'NUM': return lambda st, ex: jv(st, ex, 'String', named(st, f'NUM{a[1]}', 'String'))
                if a[0] == 'BAD': return lambda st, ex: jv(st, ex, 'String', named(st, f'BAD{a[1]}', 'String'))
                return lambda st, ex: jv(st, ex, 'Number', mk_enum(st, 'NumberValue', ex.enums['NumberValue'].index('Positive'), 'Positive', (BV(z3.BitVec(f'p{a[1]}', 64)),)))
            tab = {i: builder(a) for i, a in enumerate(absargs) if a is not None}
            base = make_summaries(tab)
            drop = (r'as Iterator>::collect::<', r' as Into<JsonValue>>::into$|<JsonValue as From<.*>>::from$', 'ToString>::to_string')
            summ = nas_summaries() + extra_summaries() + [s for s in base if not any(d in s[0] for d in drop)]
            ex = ctx.exec(summaries=summ, inline=inl, max_visits=40)
            F = ex.find(entry['body'])
            st = State(); so = named(st, 'self', 'Impl'); selfref = slot(st, so, 'self*'); c = slot(st, named(st, 'ctx', 'Context'), 'ctx*')
            st.heap[so.oid][('f', None, 0)] = seqobj(st, 'Vec', [named(st, f'G{i}', 'Rc<dyn Get>') for i in range(n)], origin='self.0')
            PANICS.clear()
            ex.new_frame(st, F, [selfref, c])
            done = ex.run(st) + list(PANICS); PANICS.clear()
            exp = entry['ref'](absargs)
            desc = '(' + entry['name'] + ' ' + ' '.join('nothing' if a is None else {'NUM': f'<numeric string {a[1]}>', 'BAD': '<non-numeric string>', 'POS': '<number>'}[a[0]] for a in absargs) + ')'
            for d in done:
                res['paths'] += 1
                if d.status == 'infeasible': continue
                res['obl'] += 1
                hav = (d.havoc or [None])[0]
                def cand(role, text): res['cands'].append({'role': role, 'text': f'{desc} {text}', 'model': {'fn': entry['name']}, 'unmodelled': hav})
                if d.status != 'returned': cand('panic' if d.status == 'panic' else f'path-{d.status}', f'{d.status}: {d.notes[-1] if d.notes else ""}'); continue
                r = obj(d, d.ret); rd = cval(ex.discr(d, r).t)
                if rd is None: cand('symbolic-result', 'returns an Option whose variant the path does not decide'); continue
                got = None
                if rd == 1:
                    v = obj(d, d.heap[r.oid][('f', 'Some', 0)]); JV = ex.enums['JsonValue']; vd = cval(ex.discr(d, v).t) if 'discr' in d.heap[v.oid] else None
                    if vd is not None and JV[vd] == 'String':
                        s_ = obj(d, d.heap[v.oid][('f', 'String', 0)]); got = ('dec', d.heap[s_.oid]['decimal_of']) if 'decimal_of' in d.heap[s_.oid] else ('other-string', origin(d, s_))
                    elif vd is not None and JV[vd] == 'Boolean': got = ('bool', d.heap[v.oid][('f', 'Boolean', 0)].t)
                    else: got = ('other', origin(d, v))
                if hav:
                    cand('unmodelled-call', f'goes through a call the exact-rational model does not know ({hav})'); continue
                if exp is None:
                    good = got is None
                elif exp[0] in ('div', 'rem'):
                    zero = exp[2] == 0
                    if got is None: good = ex.valid(d, zero)[0]
                    else: good = got[0] == 'dec' and ex.valid(d, z3.And(z3.Not(zero), got[1] == (exp[1] / exp[2] if exp[0] == 'div' else REM(exp[1], exp[2]))))[0]
                else:
                    good = got is not None and got[0] == exp[0] and ex.valid(d, got[1] == exp[1])[0]
                if good:
                    res['ok'] += 1
                    if res['sample'] is None and got is not None and n > 1: res['sample'] = {'call': desc, 'result_term': str(z3.simplify(got[1]))[:160], 'verdict': 'equals the documented exact rational for every value of the arguments'}
                else:
                    cand('wrong-result', f'returns {"nothing" if got is None else str(z3.simplify(got[1]) if got[0] in ("dec", "bool") else got)[:120]}, documented: {"nothing" if exp is None else str(exp[1:])[:120]}')
            res['queries'] += ex.queries; res['solver_s'] += ex.solver_s
            for k_, v in ex.unhandled.items(): res['unh'][k_] = res['unh'].get(k_, 0) + v
            res['sums'] += list(ex.used_summaries); res['bodies'] += list(ex.used_bodies)
    return res


def nas_inline(ctx):
    ex = Exec(ctx.fns)
    def one(rx):
        cs = [n for n in ctx.fns if re.search(rx, n)]
        if len(cs) != 1: raise Broken(f'nas: {rx} matched {len(cs)} bodies')
        return '^' + re.escape(cs[0]) + '$'
    return conversions(ctx) + [(r'^<(bigdecimal::)?BigDecimal as Into<JsonValue>>::into$|^<JsonValue as From<(bigdecimal::)?BigDecimal>>::from$', one(r'<impl at src/functions/number_as_string/to_big_decimal\.rs:[^>]*>::from$')),
                               (r'as BigDecimalConvert>::to_big_decimal$', one(r'<impl at src/functions/number_as_string/to_big_decimal\.rs:[^>]*>::to_big_decimal$'))]


def nas_wiring(ctx, names=None):
    from .par import pmap
    run = ctx.run
    T = [e for e in table() if names is None or e['name'] in names]
    run.bounds['nas'] = 'every number-as-string function x 1..3 arguments, each a numeric string / a non-numeric string / a number / nothing; numeric strings denote arbitrary rationals (z3 Real)'
    run.assume('nas: bigdecimal is modelled as exact rational arithmetic (from_str, zero, one, + - * / abs, comparisons, normalized, to_string, clone); % and round(0) are uninterpreted functions of their operands; '
               'that the crate computes these exactly, and the digits of to_string, are trusted (checked natively on long decimals only)')
    inl = nas_inline(ctx)
    results = pmap(_task, [(ctx, e, inl) for e in T])
    allc = []
    for e, res in zip(T, results):
        fam = run.family(f'nas.{e["name"]}', f'({e["name"]} ...) on numbers-as-strings: {e["doc"]} as an exact rational, spelled by normalized().to_string(); nothing when an argument is not a numeric string')
        fam.obligations += res['obl']; fam.discharged += res['ok']; fam.paths += res['paths']; fam.witnesses += res['obl']
        run.paths += res['paths']; run.queries += res['queries']; run.solver_s += res['solver_s']
        for k, v in res['unh'].items(): run.unmodelled[k] += v
        for s in res['sums']: run.summaries[s] = True
        for b in res['bodies']: run.functions[b] = True
        if res['sample']: fam.add_sample(res['sample'])
        seen = set()
        for cd in res['cands']:
            if cd['role'] in seen: continue
            seen.add(cd['role'])
            c = Candidate(fam.name, cd['role'], cd['text'], cd['model'], unmodelled=cd['unmodelled'] if cd['role'] == 'unmodelled-call' else None)
            fam.candidates.append(c); allc.append((e, c))
    replay_nas(ctx, allc)


def py_expected(expr):
    """exact reference for a demonstration, with python's integer-backed Fractions"""
    from fractions import Fraction
    import decimal
    m = re.match(r'^\((\S+) (.*)\)$', expr); name = m.group(1).strip('"'); raw = re.findall(r'"[^"]*"|\S+', m.group(2))
    vals = []
    for a in raw:
        if not a.startswith('"'): return 'nothing'
        try: vals.append(Fraction(decimal.Decimal(a.strip('"'))))
        except Exception: return 'nothing'
    if name == '+': return sum(vals, Fraction(0))
    if name == '*':
        r = Fraction(1)
        for v in vals: r *= v
        return r
    if name == '-': return -vals[0] if len(vals) == 1 else vals[0] - vals[1]
    if name == '/': return 'nothing' if vals[1] == 0 else ('approx', vals[0] / vals[1])
    if name == '%':
        if vals[1] == 0: return 'nothing'
        q = int(vals[0] / vals[1]); return vals[0] - vals[1] * q              # truncated division, as for Rust's %
    if name == 'abs': return abs(vals[0])
    if name == '||': return vals[0]
    if name == 'round':
        import math
        v = vals[0]; f = math.floor(v); d = v - f
        return ('oneof', [Fraction(f), Fraction(f + 1)]) if d == Fraction(1, 2) else Fraction(f if d < Fraction(1, 2) else f + 1)
    return {'=': vals[0] == vals[1], '!=': vals[0] != vals[1], '<': vals[0] < vals[1], '<=': vals[0] <= vals[1], '>': vals[0] > vals[1], '>=': vals[0] >= vals[1]}[name]


def replay_nas(ctx, pairs):
    from .cli import run_jawk, show as shw
    from fractions import Fraction
    import decimal
    for e, c in pairs:
        c.status = 'unit' if c.role != 'unmodelled-call' else 'inconclusive'
        for expr in e['demos']:
            r = run_jawk(ctx, ['--select', expr + '=r', '--style', 'consise'], b'{}')
            out = shw(r['stdout']).strip()
            try: got = json.loads(out).get('r', 'nothing')
            except Exception: got = 'unparsable:' + out
            exp = py_expected(expr)
            if isinstance(exp, bool) or exp == 'nothing': same = got == exp and type(got) == type(exp)
            else:
                try: g = Fraction(decimal.Decimal(got)) if isinstance(got, str) else None
                except Exception: g = None
                if g is None: same = False
                elif isinstance(exp, tuple) and exp[0] == 'approx': same = abs(g - exp[1]) <= abs(exp[1]) * Fraction(1, 10 ** 50)
                elif isinstance(exp, tuple): same = g in exp[1]
                else: same = g == exp
            if r['rc'] != 0 or not same:
                c.replay = {'argv': ['--select', expr + '=r'], 'stdin': '{}', 'expected_exact': str(exp)[:300], 'actual': str(got)[:300], 'rc': r['rc']}; c.status = 'reproduced'; c.unmodelled = None; break
        if c.status == 'inconclusive': c.unmodelled = c.unmodelled or 'a bigdecimal call outside the exact-rational model (no demonstration on long decimals shows a difference)'
