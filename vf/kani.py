"""Engine K: Kani harness modules from /verif/kani/*.rs are appended to a scratch copy of the file named in their
`// target:` header, one `cargo kani --harness H` per harness (own target dir per worker slot), parsed check by check."""
import fcntl, os, re, shutil, subprocess, time, threading, glob
from . import build
from .report import Candidate, Broken

KDIR = os.path.join(build.VERIF, 'kani')


def harness_files():
    out = {}
    for p in sorted(glob.glob(os.path.join(KDIR, '**', '*.rs'), recursive=True)):
        txt = open(p).read()
        m = re.match(r'// target: (\S+)', txt)
        if not m:
            raise Broken(f'{p}: no `// target:` header')
        out[p] = (m.group(1), txt)
    return out


def harness_names(txt):
    """[(name, stubbed?)] of #[kani::proof] fns in a module text"""
    out = []
    for m in re.finditer(r'#\[kani::proof\](.*?)fn (\w+)\s*\(', txt, re.S):
        out.append(m.group(2))
    return out


class KaniRun:
    def __init__(self, ctx, files=None):
        """files: list of harness file basenames (relative to /verif/kani) to inject; None = all"""
        self.ctx = ctx
        self.files = files
        self.prepared = None

    def prepare(self, slot):
        d = os.path.join(build.CACHE, f'kani-src-{slot}')
        build._sync(d)
        allf = harness_files()
        for p, (target, txt) in allf.items():
            rel = os.path.relpath(p, KDIR)
            if self.files is not None and rel not in self.files:
                continue
            tp = os.path.join(d, target)
            if not os.path.exists(tp):
                raise Broken(f'harness target {target} does not exist in the tree')
            with open(tp, 'a') as f:
                f.write('\n' + txt + '\n')
        return d

    def run(self, harnesses, timeout_s=600, jobs=None, mem_gb=12):
        """harnesses: [names]; returns {name: {'status','failed','time','cover','log'}}"""
        jobs = jobs or min(8, max(1, len(harnesses)))
        results = {}
        lock = threading.Lock()
        queue = list(harnesses)
        t_build = time.time()

        def worker(slot):
            with open(os.path.join(build.CACHE, f'kani-slot-{slot}.lock'), 'w') as lf:
                fcntl.flock(lf, fcntl.LOCK_EX)
                try:
                    d = self.prepare(slot)
                    td = os.path.join(build.CACHE, f'target-kani-{slot}')
                    while True:
                        with lock:
                            if not queue: return
                            h = queue.pop(0)
                        t0 = time.time()
                        cmd = ['bash', '-c', f'ulimit -v {mem_gb * 1024 * 1024}; exec timeout {timeout_s} cargo kani -Z stubbing --harness {h} --target-dir {td} --output-format regular']
                        p = subprocess.run(cmd, cwd=d, env=build.ENV, stdout=subprocess.PIPE, stderr=subprocess.STDOUT)
                        out = p.stdout.decode(errors='replace')
                        results[h] = parse(out, p.returncode, round(time.time() - t0, 1))
                finally:
                    shutil.rmtree(os.path.join(build.CACHE, f'kani-src-{slot}'), ignore_errors=True)
                    fcntl.flock(lf, fcntl.LOCK_UN)

        ths = [threading.Thread(target=worker, args=(i,)) for i in range(jobs)]
        [t.start() for t in ths]; [t.join() for t in ths]
        build.TIMES['kani_s'] = round(build.TIMES.get('kani_s', 0) + time.time() - t_build, 1)
        return results


def parse(out, rc, secs):
    r = {'time': secs, 'failed': [], 'status': 'error', 'cover': None, 'log': out[-3000:], 'checks': 0, 'sat_calls': 0}
    if rc == 124:
        r['status'] = 'timeout'; return r
    if 'error: could not compile' in out or re.search(r'^error(\[E\d+\])?:', out, re.M):
        r['status'] = 'compile-error'; return r
    m = re.search(r'\*\* (\d+) of (\d+) failed', out)
    if m: r['checks'] = int(m.group(2))
    for m in re.finditer(r'Check \d+: (\S+)\n\s+- Status: (\w+)\n\s+- Description: "(.*?)"\n(?:\s+- Location: (.*?)\n)?', out):
        name, status, desc, loc = m.group(1), m.group(2), m.group(3), m.group(4) or ''
        if status == 'FAILURE':
            r['failed'].append({'check': name, 'description': desc, 'location': loc})
        if '.cover.' in name:
            r['cover'] = (r['cover'] or status == 'SATISFIED')
    if not r['failed']:
        for m in re.finditer(r'Failed Checks: (.*)\n\s*File: "(.*?)", line (\d+), in (.*)', out):
            r['failed'].append({'check': 'failed-check', 'description': m.group(1).strip(), 'location': f'{os.path.basename(m.group(2))}:{m.group(3)} in {m.group(4).strip()}'})
    if 'VERIFICATION:- SUCCESSFUL' in out:
        r['status'] = 'success'
    elif 'VERIFICATION:- FAILED' in out:
        # unwinding / unsupported-feature failures are inconclusive, not counterexamples
        real = [f for f in r['failed'] if 'unwinding assertion' not in f['description'] and 'not currently supported' not in f['description'] and 'unsupported' not in f['check']]
        unw = [f for f in r['failed'] if f not in real]
        r['status'] = 'failed' if real else ('unwind' if unw else 'error')
        r['failed'] = real or unw
    if 'Status: ERROR' in out or 'out of memory' in out.lower() or 'std::bad_alloc' in out:
        if r['status'] != 'failed': r['status'] = 'error'
    return r


def kani_family(ctx, fam_name, desc, specs, files, timeout_s=600):
    """specs: [(harness, role-on-failure, what)] -> fills a family; a FAILED harness is a candidate (function-level, replayed by the caller if it can)"""
    run = ctx.run
    fam = run.family(fam_name, desc, engine='K')
    kr = KaniRun(ctx, files)
    res = kr.run([s[0] for s in specs], timeout_s=timeout_s)
    cands = []
    for h, role, what in specs:
        r = res.get(h)
        fam.obligations += 1
        run.kani.append({'harness': h, 'status': r['status'] if r else 'missing', 'time_s': r['time'] if r else None, 'cbmc_checks': r['checks'] if r else 0})
        run.functions['kani:' + h] = True
        if r is None or r['status'] in ('error', 'compile-error', 'timeout', 'unwind'):
            # nothing is claimed for this harness. Alone that makes the check inconclusive as a whole (exit 2); when another family of
            # the same run has a replayed violation, the violation is what is reported (report.Run.finish)
            msg = f'Kani harness {h} is inconclusive ({r["status"] if r else "missing"}): ' + (r['log'][-600:] if r else '')
            run.deferred_broken = getattr(run, 'deferred_broken', []) + [msg]
            continue
        run.paths += r['checks']
        if r['status'] == 'success':
            if r['cover'] is False:
                raise Broken(f'Kani harness {h}: cover property unreachable (vacuous)')
            fam.discharged += 1; fam.witnesses += 1
            fam.add_sample({'harness': h, 'what': what, 'cbmc_checks': r['checks'], 'time_s': r['time'], 'verdict': 'VERIFICATION SUCCESSFUL, all unwinding assertions hold'})
        else:
            fam.witnesses += 1
            f0 = r['failed'][0]
            c = Candidate(fam_name, role, f'{what}: Kani finds a counterexample - {f0["description"]} at {f0["location"]}', {'harness': h, 'failed_checks': r['failed'][:5]})
            c.status = 'unit'
            fam.candidates.append(c); cands.append(c)
    return fam, cands, res
