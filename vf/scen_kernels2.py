"""Function kernels, table-driven (src/functions/**): the `Impl::get` MIR body of each function of the table is executed,
with jawk's own From / TryFrom conversions inlined, on every combination of argument shapes from a per-function list
that includes the ill-typed and absent shapes; leaves are symbolic (free booleans, free 64-bit integers, free string
bytes, opaque values). The result of every path is compared, by the solver, with a reference written from the function's
documentation over an abstract value domain:

    None                      nothing
    ('null',)  ('bool', t)  ('num', 'Positive'|'Negative', t)  ('float', name)
    ('str', [byte terms])     a string with a byte model          ('ostr', name)  an opaque string (a member name)
    ('arr', [values])         ('obj', [(key, value)])             ('uobj', ...)   object, member order not prescribed
    ('opq', name)             an opaque value                     ('anyof', [values])   the documentation allows several answers
"""
import itertools, json, re
import z3
from .lib import *
from .mirsym import Unmodelled
from .report import Candidate, Broken
from .scen_kernels import make_summaries, jv, same_key, s_vec_get, PANICS
from .scen_parser import utf8_valid

TRUE = ('bool', z3.BoolVal(True)); FALSE = ('bool', z3.BoolVal(False))


# ---------------------------------------------------------------- building heap values from abstract ones
def build(st, ex, a):
    """abstract value -> heap JsonValue (never called for None)"""
    JV = ex.enums['JsonValue']; NV = ex.enums['NumberValue']
    t = a[0]
    if t == 'null': return jv(st, ex, 'Null')
    if t == 'bool': return jv(st, ex, 'Boolean', BoolV(a[1]))
    if t == 'num':
        return jv(st, ex, 'Number', mk_enum(st, 'NumberValue', NV.index(a[1]), a[1], (BV(a[2], a[1] == 'Negative'),)))
    if t == 'float':
        return jv(st, ex, 'Number', mk_enum(st, 'NumberValue', NV.index('Float'), 'Float', (named(st, a[1], 'f64'),)))
    if t == 'str': return jv(st, ex, 'String', seqobj(st, 'String', [BV(b) for b in a[1]]))
    if t == 'ostr': return jv(st, ex, 'String', named(st, a[1], 'String'))
    if t == 'arr': return jv(st, ex, 'Array', seqobj(st, 'Vec', [build(st, ex, x) for x in a[1]]))
    if t == 'obj':
        items = []
        for k, v in a[1]:
            ko = named(st, k[1], 'String') if k[0] == 'ostr' else seqobj(st, 'String', [BV(b) for b in k[1]])
            items.append((ko, build(st, ex, v)))
        return jv(st, ex, 'Object', seqobj(st, 'IndexMap', items))
    if t == 'opq': return named(st, a[1], 'JsonValue')
    raise ValueError(a)


def strdesc(st, s):
    s = obj(st, s)
    if isinstance(s, ObjV) and 'model' in st.heap[s.oid]: return ('str', [b.t for b in st.heap[s.oid]['model']])
    return ('ostr', origin(st, s))


def deep(st, ex, v):
    """heap value -> abstract value"""
    try:
        return _deep(st, ex, v)
    except Unmodelled:
        return ('symbolic', origin(st, v))


def _deep(st, ex, v):
    v = obj(st, v)
    if not isinstance(v, ObjV): return ('opq', str(v))
    if 'discr' not in st.heap[v.oid]: return ('opq', origin(st, v))
    d = cval(ex.discr(st, v).t); JV = ex.enums['JsonValue']
    if d is None or d >= len(JV): return ('symbolic', origin(st, v))
    name = JV[d]; h = st.heap[v.oid]
    if name == 'Null': return ('null',)
    if name == 'Boolean': return ('bool', h[('f', 'Boolean', 0)].t)
    if name == 'String': return strdesc(st, h[('f', 'String', 0)])
    if name == 'Array': return ('arr', [_deep(st, ex, x) for x in model(st, h[('f', 'Array', 0)])])
    if name == 'Object': return ('obj', [(strdesc(st, k), _deep(st, ex, x)) for k, x in model(st, h[('f', 'Object', 0)])])
    nv = obj(st, h[('f', 'Number', 0)]); nd = cval(ex.discr(st, nv).t); NV = ex.enums['NumberValue']
    if nd is None: return ('symbolic', origin(st, nv))
    p = st.heap[nv.oid].get(('f', NV[nd], 0))
    if NV[nd] == 'Float': return ('float', origin(st, p) if isinstance(p, (ObjV, RefV)) else str(p))
    return ('num', NV[nd], p.t)


def streq(a, b):
    if a[0] != b[0]: return z3.BoolVal(False)
    if a[0] == 'ostr': return z3.BoolVal(a[1] == b[1])
    if len(a[1]) != len(b[1]): return z3.BoolVal(False)
    return z3.And(*[x == y for x, y in zip(a[1], b[1])]) if a[1] else z3.BoolVal(True)


def match(got, exp):
    """z3 Bool: the value the code returned is the value the documentation prescribes"""
    if exp is not None and exp[0] == 'anyof': return z3.Or(*[match(got, e) for e in exp[1]])
    if got is None or exp is None: return z3.BoolVal(got is None and exp is None)
    g, e = got[0], exp[0]
    if e == 'uobj':
        if g != 'obj' or len(got[1]) != len(exp[1]): return z3.BoolVal(False)
        alts = []
        for perm in itertools.permutations(exp[1]):
            alts.append(z3.And(*[z3.And(streq(gk, ek), match(gv, ev)) for (gk, gv), (ek, ev) in zip(got[1], perm)]) if perm else z3.BoolVal(True))
        return z3.Or(*alts)
    if g != e: return z3.BoolVal(False)
    if g == 'null': return z3.BoolVal(True)
    if g == 'bool': return got[1] == exp[1]
    if g == 'num': return z3.And(z3.BoolVal(got[1] == exp[1]), got[2] == exp[2]) if got[1] == exp[1] else z3.BoolVal(False)
    if g in ('float', 'opq', 'symbolic'): return z3.BoolVal(got[1] == exp[1])
    if g in ('str', 'ostr'): return streq(got, exp)
    if g == 'arr':
        if len(got[1]) != len(exp[1]): return z3.BoolVal(False)
        return z3.And(*[match(x, y) for x, y in zip(got[1], exp[1])]) if got[1] else z3.BoolVal(True)
    if g == 'obj':
        if len(got[1]) != len(exp[1]): return z3.BoolVal(False)
        return z3.And(*[z3.And(streq(gk, ek), match(gv, ev)) for (gk, gv), (ek, ev) in zip(got[1], exp[1])]) if got[1] else z3.BoolVal(True)
    return z3.BoolVal(False)


def pretty(a, m=None):
    """abstract value -> short text (terms evaluated under a model when given)"""
    def ev(t):
        if m is None: return str(z3.simplify(t))
        v = m.eval(t, True)
        return str(v.as_long()) if z3.is_bv_value(v) else str(v)
    if a is None: return 'nothing'
    t = a[0]
    if t == 'null': return 'null'
    if t == 'bool': return ev(a[1]).lower()
    if t == 'num': return f'{a[1]}({ev(a[2])})'
    if t in ('float', 'opq', 'ostr', 'symbolic'): return f'<{a[1]}>'
    if t == 'str':
        vals = [ev(b) for b in a[1]]
        if all(v.isdigit() for v in vals):
            try: return json.dumps(bytes(int(v) for v in vals).decode('utf-8'))
            except Exception: pass
        return 'str' + str(vals)
    if t == 'arr': return '[' + ', '.join(pretty(x, m) for x in a[1]) + ']'
    if t in ('obj', 'uobj'): return '{' + ', '.join(pretty(k, m) + ': ' + pretty(v, m) for k, v in a[1]) + '}'
    if t == 'anyof': return ' or '.join(pretty(x, m) for x in a[1])
    return str(a)


def to_json(a, m):
    """abstract value under a model -> python JSON value (opaque leaves become small distinct literals); raises on floats"""
    if a is None: return None
    t = a[0]
    def ev(x):
        v = m.eval(x, True)
        return v.as_long() if z3.is_bv_value(v) else z3.is_true(v)
    if t == 'null': return None
    if t == 'bool': return bool(ev(a[1]))
    if t == 'num':
        n = ev(a[2]); return n - 2 ** 64 if a[1] == 'Negative' and n >= 2 ** 63 else n
    if t == 'str': return bytes(ev(b) for b in a[1]).decode('utf-8', errors='replace')
    if t == 'float': return 1.5
    if t == 'ostr': return a[1].lower()
    if t == 'opq': return {'opaque': a[1]}
    if t == 'arr': return [to_json(x, m) for x in a[1]]
    if t == 'obj': return {to_json(k, m): to_json(v, m) for k, v in a[1]}
    if t == 'uobj': return dict([('__unordered__', True)] + [(to_json(k, m), to_json(v, m)) for k, v in a[1]])
    raise ValueError(a)


def jsame(got, exp):
    """native value == expected value; member order matters unless the expectation is marked unordered"""
    if isinstance(exp, dict):
        if not isinstance(got, dict): return False
        if exp.get('__unordered__'):
            e2 = {k: v for k, v in exp.items() if k != '__unordered__'}
            return set(got) == set(e2) and all(jsame(got[k], e2[k]) for k in e2)
        return list(got) == list(exp) and all(jsame(got[k], exp[k]) for k in exp)
    if isinstance(exp, list): return isinstance(got, list) and len(got) == len(exp) and all(jsame(a, b) for a, b in zip(got, exp))
    return type(got) == type(exp) and got == exp


# ---------------------------------------------------------------- closures and lazy iterator adaptors
def closure_body(ex, func):
    m = re.search(r'\{closure@[^{}]*\}', func)
    if not m: raise Unmodelled('no closure type in ' + func[:80])
    tag = m.group(0)
    cs = [f for f in ex.fns.values() if f.params and tag in f.params[0][1]]
    if len(cs) != 1: raise Unmodelled(f'{len(cs)} bodies for {tag}')
    return cs[0]


def run_closure(ex, st, body, clo, cargs):
    """run a closure body to completion on a private frame stack: [(state, return value | None when it panicked)]"""
    saved = st.frames; st.frames = []; st.status = 'running'
    a0 = slot(st, clo, 'clo*') if body.params[0][1].strip().startswith('&') else clo
    ex.new_frame(st, body, [a0] + list(cargs))
    outs = []
    for r_ in ex.run(st):
        if r_.status == 'infeasible': continue
        r_.frames = [dict(f) for f in saved]
        if r_.status == 'returned': r_.status = 'running'; outs.append((r_, r_.ret))
        else: PANICS.append(r_)
    return outs


def s_lazy(kind):
    def adapt(ex, st, func, args, ty):
        o = named(st, st.fresh_name(kind), 'Iter:' + kind)
        st.heap[o.oid]['lazy'] = (kind, obj(st, args[0]), args[1] if len(args) > 1 else None, closure_body(ex, func) if len(args) > 1 else None)
        return [(st, o)]
    adapt.__name__ = 'iter_' + kind
    return adapt


def force(ex, st, it):
    """[(state, [items])] of a (possibly lazy) iterator object"""
    it = obj(st, it); h = st.heap[it.oid]
    if 'lazy' not in h: return [(st, list(model(st, it)))]
    kind, src, clo, body = h['lazy']
    out = []
    for s0, items in force(ex, st, src):
        states = [(s0, [])]
        if kind == 'enumerate':
            acc = []
            for i, x in enumerate(items):
                t = named(s0, s0.fresh_name('ix'), 'tuple'); s0.heap[t.oid][('f', None, 0)] = BV(bv64(i)); s0.heap[t.oid][('f', None, 1)] = x; acc.append(t)
            out.append((s0, acc)); continue
        if kind == 'flatten':
            acc = []
            for x in items: acc.extend(model(s0, x))
            out.append((s0, acc)); continue
        for x in items:
            nxt = []
            for s_, acc in states:
                arg = slot(s_, x) if kind == 'filter' else x
                for s2, r in run_closure(ex, s_, body, clo, [arg]):
                    if kind == 'map': nxt.append((s2, acc + [r]))
                    elif kind == 'filter_map':
                        r = obj(s2, r); d = ex.discr(s2, r).t
                        for dv in (1, 0):
                            if ex.feasible(s2, d == dv):
                                s3 = s2.clone(); s3.pc.append(d == dv)
                                nxt.append((s3, acc + [ex.load(s3, r.oid, ('f', 'Some', 0), 'opaque')] if dv == 1 else acc))
                    else:
                        c = r.t
                        for keep in (True, False):
                            cc = c if keep else z3.Not(c)
                            if ex.feasible(s2, cc):
                                s3 = s2.clone(); s3.pc.append(cc); nxt.append((s3, acc + [x] if keep else acc))
            states = nxt
        out.extend(states)
    return out


def s_collect_any(ex, st, func, args, ty):
    res = []
    for s_, items in force(ex, st, args[0]):
        if 'IndexMap<' in func.split('collect::<', 1)[1]:
            pairs = []
            for t in items:
                t = obj(s_, t); k = obj(s_, s_.heap[t.oid][('f', None, 0)]); v = s_.heap[t.oid][('f', None, 1)]
                for i_, (kk, vv) in enumerate(pairs):
                    if same_key(s_, kk, k): pairs[i_] = (kk, v); break
                else: pairs.append((k, v))
            res.append((s_, seqobj(s_, 'IndexMap', pairs)))
        else:
            res.append((s_, seqobj(s_, 'Vec', [obj(s_, x) for x in items])))
    return res


def s_iter_any_all(ex, st, func, args, ty):
    """Iterator::any(f) / all(f): the closure is run element by element and the search stops at the first decisive answer"""
    which = 'any' if re.search(r'as Iterator>::any::<', func) else 'all'
    body = closure_body(ex, func); out = []
    for s0, items in force(ex, st, args[0]):
        states = [s0]
        for x in items:
            nxt = []
            for s_ in states:
                for s2, r in run_closure(ex, s_, body, args[1], [x]):
                    c = r.t
                    for val in (True, False):
                        cc = c if val else z3.Not(c)
                        if not ex.feasible(s2, cc): continue
                        s3 = s2.clone(); s3.pc.append(cc)
                        if val == (which == 'any'): out.append((s3, BoolV(z3.BoolVal(which == 'any'))))
                        else: nxt.append(s3)
            states = nxt
        out += [(s_, BoolV(z3.BoolVal(which != 'any'))) for s_ in states]
    return out


def s_opt_closure(ex, st, func, args, ty):
    """Option::and_then(f) / Option::map(f): None -> None; Some(v) -> f(v) / Some(f(v))"""
    o = obj(st, args[0]); d = ex.discr(st, o).t; out = []
    body = closure_body(ex, func); which = 'and_then' if '::and_then::<' in func else 'map'
    if ex.feasible(st, d == 0):
        s2 = st.clone(); s2.pc.append(d == 0); out.append((s2, none(s2)))
    if ex.feasible(st, d == 1):
        st.pc.append(d == 1)
        for s2, r in run_closure(ex, st, body, args[1], [ex.load(st, o.oid, ('f', 'Some', 0), 'opaque')]):
            out.append((s2, r if which == 'and_then' else some(s2, r)))
    return out


def s_const_string(ex, st, func, args, ty):
    """"lit".into() / "lit".to_string() / String::from("lit"): a String with the literal's bytes"""
    a = args[0]
    if isinstance(a, Const) and re.match(r'^"', a.text or ''):
        from .fmt import unescape_bytes
        return [(st, seqobj(st, 'String', [BV(bv8(b)) for b in unescape_bytes(a.text)]))]
    o = obj(st, a)
    if isinstance(o, ObjV) and 'model' in st.heap[o.oid]: return [(st, seqobj(st, 'String', model(st, o)))]
    if isinstance(o, ObjV): return [(st, o)]            # an opaque string: the copy is the same opaque string
    return None


def s_push_str(ex, st, func, args, ty):
    s = obj(st, args[0]); t = obj(st, args[1])
    set_model(st, s, tuple(model(st, s)) + tuple(model(st, t))); return [(st, UNIT)]


def s_jv_eq(ex, st, func, args, ty):
    """<JsonValue as PartialEq>::eq / ne and Option<JsonValue> == Option<JsonValue>, on values whose variants are concrete:
    structural equality (numbers of different variants and opaque values: an uninterpreted predicate of the two origins)"""
    neg = func.endswith('::ne')
    def eq(a, b):
        a, b = obj(st, a), obj(st, b)
        ma, mb = st.meta[a.oid][1], st.meta[b.oid][1]
        if 'discr' in st.heap[a.oid] and 'discr' in st.heap[b.oid] and ('Option' in ma or 'Option' in mb or ma == mb == 'Option'):
            da, db = cval(ex.discr(st, a).t), cval(ex.discr(st, b).t)
            if da is None or db is None: raise Unmodelled('symbolic Option discriminant in ==')
            if da != db: return z3.BoolVal(False)
            if da == 0: return z3.BoolVal(True)
            return eq(st.heap[a.oid][('f', 'Some', 0)], st.heap[b.oid][('f', 'Some', 0)])
        x, y = deep(st, ex, a), deep(st, ex, b)
        return absteq(x, y)
    r = eq(args[0], args[1])
    return [(st, BoolV(z3.Not(r) if neg else r))]


def absteq(x, y):
    if x[0] in ('opq', 'symbolic', 'float') or y[0] in ('opq', 'symbolic', 'float'):
        if x == y: return z3.BoolVal(True)
        return z3.Bool(f'EQ({x[1]},{y[1]})' if str(x[1]) <= str(y[1]) else f'EQ({y[1]},{x[1]})')
    if x[0] != y[0]: return z3.BoolVal(False)
    if x[0] == 'num' and x[1] != y[1]: return z3.Bool(f'NUMEQ({x[1]}:{x[2]},{y[1]}:{y[2]})')
    if x[0] == 'arr':
        if len(x[1]) != len(y[1]): return z3.BoolVal(False)
        return z3.And(*[absteq(a, b) for a, b in zip(x[1], y[1])]) if x[1] else z3.BoolVal(True)
    if x[0] == 'obj':
        if len(x[1]) != len(y[1]): return z3.BoolVal(False)
        raise Unmodelled('== on objects')
    return match(x, y)


def s_map_entry(ex, st, func, args, ty):
    e = named(st, st.fresh_name('entry'), 'Entry'); st.heap[e.oid]['entry'] = (obj(st, args[0]), obj(st, args[1])); return [(st, e)]


def s_entry_or_insert_with(ex, st, func, args, ty):
    """Entry::or_insert_with(Vec::new) / or_default / or_insert(v): a reference to the value under the key, inserted at the end when absent"""
    mp, key = st.heap[obj(st, args[0]).oid]['entry']
    for kk, vv in model(st, mp):
        if same_key(st, kk, key): return [(st, slot(st, obj(st, vv)))]
    if 'or_insert_with' in func:
        if not re.search(r'Vec::<.*>::new\}?>?$|fn\(\) -> Vec<', func): raise Unmodelled('or_insert_with of ' + func[-60:])
        v = seqobj(st, 'Vec', ())
    elif 'or_default' in func: v = seqobj(st, 'Vec', ())
    else: v = obj(st, args[1])
    set_model(st, mp, tuple(model(st, mp)) + ((key, v),))
    return [(st, slot(st, v))]


def s_map_iter(ex, st, func, args, ty):
    items = []
    for k, v in model(st, args[0]):
        t = named(st, st.fresh_name('kv'), 'tuple'); st.heap[t.oid][('f', None, 0)] = slot(st, k); st.heap[t.oid][('f', None, 1)] = slot(st, v); items.append(t)
    return [(st, seqobj(st, 'Iter', items))]


def s_jv_ord(ex, st, func, args, ty):
    """<JsonValue as PartialOrd>::lt / le / gt / ge on opaque values: the order is an uninterpreted function CMP(a, b) of the two
    operands *in this order* (the order itself is decided by order.arms / Kani)"""
    a, b = deep(st, ex, args[0]), deep(st, ex, args[1])
    if a[0] != 'opq' or b[0] != 'opq': raise Unmodelled('order comparison of non-opaque values')
    c = z3.Int(f'CMP({a[1]},{b[1]})'); op = func.rsplit('::', 1)[1]
    return [(st, BoolV({'lt': c < 0, 'le': c <= 0, 'gt': c > 0, 'ge': c >= 0}[op]))]


def s_type_name(ex, st, func, args, ty): return [(st, named(st, st.fresh_name('typename'), 'String'))]


def find_impl(ex, module, method, ptype_rx, ret_rx):
    cs = [f for n, f in ex.fns.items() if re.match(r'^%s::<impl at [^>]*>::%s$' % (module, method), n) and len(f.params) == 1
          and re.search(ptype_rx, f.params[0][1]) and re.search(ret_rx, f.ret)]
    if len(cs) != 1: raise Broken(f'impl lookup {module}::{method}({ptype_rx}) -> {ret_rx}: {len(cs)} bodies')
    return cs[0].name


def conversions(ctx):
    """call text -> jawk's own conversion bodies (inlined, so that an edit to a From / TryFrom impl is seen)"""
    ex = Exec(ctx.fns)
    tab = [(r'^<bool as Into<JsonValue>>::into$|^<JsonValue as From<bool>>::from$', ('from', r'^bool$', r'^JsonValue$')),
           (r'^<std::string::String as Into<JsonValue>>::into$|^<JsonValue as From<std::string::String>>::from$|^<String as Into<JsonValue>>::into$', ('from', r'^std::string::String$', r'^JsonValue$')),
           (r'^<Vec<JsonValue> as Into<JsonValue>>::into$|^<JsonValue as From<Vec<JsonValue>>>::from$', ('from', r'^Vec<JsonValue>$', r'^JsonValue$')),
           (r'^<IndexMap<std::string::String, JsonValue> as Into<JsonValue>>::into$|^<JsonValue as From<IndexMap<std::string::String, JsonValue>>>::from$', ('from', r'^IndexMap<', r'^JsonValue$')),
           (r'^<usize as Into<JsonValue>>::into$|^<JsonValue as From<usize>>::from$', ('from', r'^usize$', r'^JsonValue$')),
           (r'^<usize as Into<NumberValue>>::into$|^<NumberValue as From<usize>>::from$', ('from', r'^usize$', r'^NumberValue$')),
           (r'^<JsonValue as TryInto<std::string::String>>::try_into$|^<std::string::String as TryFrom<JsonValue>>::try_from$', ('try_from', r'^JsonValue$', r'Result<std::string::String,')),
           (r'^<&std::string::String as Into<JsonValue>>::into$|^<JsonValue as From<&std::string::String>>::from$', ('from', r'^&std::string::String$', r'^JsonValue$')),
           (r'^<&str as Into<JsonValue>>::into$|^<JsonValue as From<&str>>::from$', ('from', r'^&str$', r'^JsonValue$'))]
    out = []
    for rx, (meth, p, r) in tab:
        out.append((rx, '^' + re.escape(find_impl(ex, 'json_value', meth, p, r)) + '$'))
    return out


def extra_summaries():
    return [(r'as Iterator>::map::<', s_lazy('map')), (r'as Iterator>::filter::<', s_lazy('filter')), (r'as Iterator>::filter_map::<', s_lazy('filter_map')),
            (r'as Iterator>::enumerate$', s_lazy('enumerate')), (r'as Iterator>::flatten$', s_lazy('flatten')),
            (r'as Iterator>::collect::<', s_collect_any), (r'as Iterator>::any::<|as Iterator>::all::<', s_iter_any_all), (r'Option::<.*>::and_then::<|Option::<.*>::map::<', s_opt_closure),
            (r'^<&str as Into<std::string::String>>::into$|^<str as ToString>::to_string$|^<std::string::String as From<&str>>::from$|<&str as ToString>::to_string$|^<std::string::String as Clone>::clone$|^<str as ToOwned>::to_owned$', s_const_string),
            (r'String::push_str$', s_push_str), (r'String::as_str$|<std::string::String as AsRef<str>>::as_ref$', s_identity),
            (r'^<JsonValue as PartialEq>::(eq|ne)$|^<Option<JsonValue> as PartialEq>::(eq|ne)$|^<std::option::Option<JsonValue> as PartialEq>::(eq|ne)$', s_jv_eq),
            (r'IndexMap::<.*>::entry$', s_map_entry), (r'Entry::<.*>::or_insert_with::<|Entry::<.*>::or_default$|Entry::<.*>::or_insert$', s_entry_or_insert_with),
            (r'IndexMap::<.*>::iter$', s_map_iter), (r'^<JsonValue as PartialOrd>::(lt|le|gt|ge)$', s_jv_ord), (r'JsonValue::type_name$', s_type_name)]


# ---------------------------------------------------------------- argument shapes
def sh_bool(i): return ('bool', z3.Bool(f'b{i}'))
def sh_pos(i): return ('num', 'Positive', z3.BitVec(f'p{i}', 64))
def sh_neg(i): return ('num', 'Negative', z3.BitVec(f'n{i}', 64))
def sh_float(i): return ('float', f'F{i}')
def sh_null(i): return ('null',)
def sh_nothing(i): return None
def sh_str(n): return lambda i: ('str', [z3.BitVec(f's{i}_{j}', 8) for j in range(n)])
def sh_arr(k): return lambda i: ('arr', [('opq', f'E{i}_{j}') for j in range(k)])
def sh_obj(k): return lambda i: ('obj', [(('ostr', f'K{i}_{j}'), ('opq', f'V{i}_{j}')) for j in range(k)])
def sh_opq(i): return ('opq', f'X{i}')
ALL_TYPES = [sh_nothing, sh_null, sh_bool, sh_pos, sh_neg, sh_float, sh_str(1), sh_arr(1), sh_obj(1)]
NONBOOL = [sh_nothing, sh_null, sh_pos, sh_str(1)]


def is_bool(a): return a is not None and a[0] == 'bool'


# ---------------------------------------------------------------- references, written from the add_description_line texts
def ref_and_or(neutral):
    """and: 'true if all the arguments are true, nothing if there is a non boolean argument and false if there is a false
    argument' (or: dually). When a deciding argument comes before a non-boolean one the text allows both answers."""
    def ref(args):
        cases = []; pre = []
        for i, a in enumerate(args):
            if not is_bool(a):
                later_decided = None
                cases.append((z3.And(*pre) if pre else z3.BoolVal(True), None)); return cases
            decide = z3.Not(a[1]) if neutral else a[1]
            rest_nonbool = any(not is_bool(x) for x in args[i + 1:])
            ans = ('bool', z3.BoolVal(not neutral))
            cases.append((z3.And(*(pre + [decide])), ('anyof', [ans, None]) if rest_nonbool else ans))
            pre.append(z3.Not(decide))
        cases.append((z3.And(*pre), ('bool', z3.BoolVal(neutral))))
        return cases
    return ref


def ref_xor(args):
    a, b = args
    return [(z3.BoolVal(True), ('bool', z3.Xor(a[1], b[1])) if is_bool(a) and is_bool(b) else None)]


def ref_not(args):
    a, = args
    return [(z3.BoolVal(True), ('bool', z3.Not(a[1])) if is_bool(a) else None)]


def ref_if(args):
    c, t, e = args
    if not is_bool(c): return [(z3.BoolVal(True), None)]
    return [(c[1], t), (z3.Not(c[1]), e)]


def ref_is(pred):
    return lambda args: [(z3.BoolVal(True), ('bool', z3.BoolVal(bool(pred(args[0])))))]


def ref_as(pred):
    return lambda args: [(z3.BoolVal(True), args[0] if pred(args[0]) else None)]


def tname(a): return None if a is None else {'num': 'number', 'float': 'number', 'str': 'string', 'ostr': 'string', 'arr': 'array', 'obj': 'object'}.get(a[0], a[0])


def ref_all(args):
    a, = args
    if tname(a) != 'array': return [(z3.BoolVal(True), None)]
    if not a[1]: return [(z3.BoolVal(True), FALSE)]
    return [(z3.BoolVal(True), ('bool', z3.And(*[x[1] if is_bool(x) else z3.BoolVal(False) for x in a[1]])))]


def ref_any(args):
    a, = args
    if tname(a) != 'array': return [(z3.BoolVal(True), None)]
    return [(z3.BoolVal(True), ('bool', z3.Or(*[x[1] if is_bool(x) else z3.BoolVal(False) for x in a[1]]) if a[1] else z3.BoolVal(False)))]


def ref_concat(args):
    if any(tname(a) != 'string' for a in args): return [(z3.BoolVal(True), None)]
    return [(z3.BoolVal(True), ('str', [b for a in args for b in a[1]]))]


def ref_join(args):
    lst = args[0]; sep = args[1] if len(args) > 1 else None
    if tname(lst) != 'array' or any(tname(x) != 'string' for x in lst[1]): return [(z3.BoolVal(True), None)]
    sepb = sep[1] if sep is not None else [z3.BitVecVal(ord(','), 8), z3.BitVecVal(ord(' '), 8)]
    out = []
    for i, x in enumerate(lst[1]):
        # "Join all the items in the list into a String": separators stand between consecutive items. (The code adds a
        # separator only when the text so far is not empty, which differs for leading empty strings - items here are non-empty.)
        if i: out += sepb
        out += x[1]
    return [(z3.BoolVal(True), ('str', out))]


def ref_indexed(args):
    a, = args
    if tname(a) != 'array': return [(z3.BoolVal(True), None)]
    lit = lambda s: ('str', [z3.BitVecVal(b, 8) for b in s.encode()])
    return [(z3.BoolVal(True), ('arr', [('uobj', [(lit('index'), ('num', 'Positive', z3.BitVecVal(i, 64))), (lit('value'), x)]) for i, x in enumerate(a[1])]))]


def ref_entries(args):
    a, = args
    if tname(a) != 'object': return [(z3.BoolVal(True), None)]
    lit = lambda s: ('str', [z3.BitVecVal(b, 8) for b in s.encode()])
    return [(z3.BoolVal(True), ('arr', [('uobj', [(lit('key'), k), (lit('value'), v)]) for k, v in a[1]]))]


def ref_put_if(absent):
    def ref(args):
        o, k, v = args
        if tname(o) != 'object' or tname(k) != 'string' or v is None: return [(z3.BoolVal(True), None)]
        has = any(kk == k for kk, _ in o[1])
        if has and not absent: return [(z3.BoolVal(True), ('obj', [(kk, v if kk == k else vv) for kk, vv in o[1]]))]
        if not has and absent: return [(z3.BoolVal(True), ('obj', list(o[1]) + [(k, v)]))]
        return [(z3.BoolVal(True), o)]
    return ref


def body_of(path): return r'get::\{closure#0\}::<impl at src/functions/%s\.rs:[^>]*>::get$' % path


def combos(*lists): return [list(c) for c in itertools.product(*lists)]


def table(deep=False):
    T = []
    W = 4 if deep else 3          # widest list / object; thorough tier goes one wider and one argument further
    def add(name, body, ref, shapes, doc, demos=()): T.append(dict(name=name, body=body, ref=ref, shapes=shapes, doc=doc, demos=list(demos)))
    B = [sh_bool] + NONBOOL
    for nm, neutral in (('and', True), ('or', False)):
        add(nm, body_of('boolean/logical/' + nm), ref_and_or(neutral), combos(B, B) + combos(B, B, B) + (combos(B, B, B, [sh_bool, sh_nothing, sh_pos]) if deep else []),
            'true / false by the truth of all (any) arguments, nothing when an argument is not a boolean',
            [(f'({nm} true true true)', nm == 'and' or True), (f'({nm} false false)', False), (f'({nm} true false true)', nm == 'or'), (f'({nm} false true)', nm == 'or'), (f'({nm} {"true" if nm == "and" else "false"} 12)', 'nothing'),
             (f'({nm} {"true" if nm == "and" else "false"} {"true" if nm == "and" else "false"} null)', 'nothing')])
    add('xor', body_of('boolean/logical/xor'), ref_xor, combos(B, B), 'true iff exactly one of the two arguments is true; nothing unless both are booleans',
        [('(xor true false)', True), ('(xor false true)', True), ('(xor true true)', False), ('(xor false false)', False), ('(xor true 1)', 'nothing'), ('(xor null false)', 'nothing')])
    add('not', body_of('boolean/logical/not'), ref_not, combos(ALL_TYPES), 'the negation of a boolean, nothing for anything else',
        [('(not true)', False), ('(not false)', True), ('(not 0)', 'nothing'), ('(not null)', 'nothing'), ('(not "true")', 'nothing')])
    add('if', body_of('basic/flow/condition'), ref_if, combos(B, [sh_opq, sh_nothing], [sh_opq, sh_nothing]),
        'the second argument when the first is true, the third when it is false, nothing when it is not a boolean',
        [('(if true 1 2)', 1), ('(if false 1 2)', 2), ('(if 1 1 2)', 'nothing'), ('(if null 1 2)', 'nothing'), ('(if true .x 2)', 'nothing'), ('(if false 1 .x)', 'nothing'), ('(if false .x 2)', 2), ('(if true 1 .x)', 1)])
    for nm, file, pred, lits in (('array?', 'is_array', lambda a: tname(a) == 'array', ('[1]', '{}')), ('bool?', 'is_bool', lambda a: tname(a) == 'bool', ('false', '0')), ('null?', 'is_null', lambda a: tname(a) == 'null', ('null', 'false')),
                                 ('number?', 'is_number', lambda a: tname(a) == 'number', ('-1.5', '"1"')), ('object?', 'is_object', lambda a: tname(a) == 'object', ('{}', '[]')), ('string?', 'is_string', lambda a: tname(a) == 'string', ('""', '1')),
                                 ('empty?', 'is_empty', lambda a: a is None, ('.nope', 'null'))):
        add(nm, body_of('type_group/check_types/' + file), ref_is(pred), combos(ALL_TYPES),
            'true exactly for arguments of that type (nothing is none of the types), false otherwise', [(f'({nm} {lits[0]})', True), (f'({nm} {lits[1]})', False)] + ([(f'({nm} .nope)', False)] if nm != 'empty?' else [('(empty? "")', False), ('(empty? [])', False)]))
    for nm, file, ty, lits in (('as_array', 'as_array', 'array', ('[1,"a"]', '{}')), ('as_bool', 'as_bool', 'bool', ('false', '0')), ('as_number', 'as_number', 'number', ('-2', '"2"')), ('as_object', 'as_object', 'object', ('{"a":[1]}', '[]')),
                               ('as_string', 'as_string', 'string', ('"a"', '1'))):
        add(nm, body_of('type_group/cast/' + file), ref_as(lambda a, ty=ty: tname(a) == ty), combos(ALL_TYPES + [sh_arr(2), sh_obj(2), sh_str(2)]),
            'the argument itself when it has that type, nothing otherwise', [(f'({nm} {lits[0]})', json.loads(lits[0])), (f'({nm} {lits[1]})', 'nothing'), (f'({nm} .nope)', 'nothing')] +
            ([(f'(as_number {v})', v) for v in (9007199254740993, 18446744073709551615, -9223372036854775807, 9223372036854775807, 0, 1.5)] if nm == 'as_number' else []) +
            ([('(as_string "\u00e9\u4e2d")', '\u00e9\u4e2d'), ('(as_string "")', '')] if nm == 'as_string' else []) + ([('(as_array [])', []), ('(as_array [[1],{"a":2}])', [[1], {'a': 2}])] if nm == 'as_array' else []))
    EL = [sh_bool, sh_null, sh_pos]
    def arr_of(*els): return lambda i: ('arr', [e(f'{i}_{j}') for j, e in enumerate(els)])
    lists = [arr_of(*c) for n in range(0, W + 1) for c in itertools.product(EL, repeat=n)]
    add('all', body_of('list/list_folding/all'), ref_all, combos(lists + [sh_nothing, sh_obj(1), sh_bool]),
        'true iff the list is not empty and every item is true; nothing for a non-list', [('(all [true, true])', True), ('(all [true, false, true])', False), ('(all [])', False), ('(all [true, 1])', False), ('(all [true, null, true])', False), ('(all true)', 'nothing')])
    add('any', body_of('list/list_folding/any'), ref_any, combos(lists + [sh_nothing, sh_obj(1), sh_bool]),
        'true iff some item of the list is true; nothing for a non-list', [('(any [false, true])', True), ('(any [false, false])', False), ('(any [])', False), ('(any [1, "true", null])', False), ('(any [null, false, true])', True), ('(any true)', 'nothing')])
    S = [sh_str(0), sh_str(1), sh_str(2)]
    add('concat', body_of('string/concat'), ref_concat, combos(S + [sh_pos, sh_nothing], S + [sh_null, sh_nothing]) + combos(S, [sh_str(1)], S + [sh_arr(1)]),
        'the concatenation of its string arguments in order; nothing when an argument is not a string', [('(concat "a" "" "bc")', 'abc'), ('(concat "x" "y")', 'xy'), ('(concat "a" 1)', 'nothing'), ('(concat "" "")', ''), ('(concat "a" "b" null)', 'nothing')])
    SL = [arr_of(), arr_of(sh_str(1)), arr_of(sh_str(1), sh_str(2)), arr_of(sh_str(2), sh_str(1), sh_str(1)), arr_of(sh_str(1), sh_pos), arr_of(sh_null, sh_str(1)), sh_nothing, sh_str(1), sh_obj(1)]
    add('join', body_of('list/list_folding/join'), ref_join, combos(SL) + combos(SL, [sh_str(0), sh_str(1), sh_str(2)]),
        'the items of a list of strings joined with the separator (", " when omitted); nothing when an item is not a string or the first argument not a list',
        [('(join ["a","b","c"])', 'a, b, c'), ('(join ["a","b"] "-")', 'a-b'), ('(join ["a"] "-")', 'a'), ('(join [] "-")', ''), ('(join ["a", 1])', 'nothing'), ('(join ["a","b","c"] "")', 'abc'), ('(join "a")', 'nothing')])
    A = [sh_arr(k) for k in range(W + 1)]
    add('indexed', body_of('list/list_manipulations/indexed'), ref_indexed, combos(A + [sh_nothing, sh_obj(1), sh_str(1), sh_pos]),
        'a list of {index, value} objects, one per element, in order; nothing for a non-list', [('(indexed ["a","b"])', [{'value': 'a', 'index': 0}, {'value': 'b', 'index': 1}]), ('(indexed [])', []), ('(indexed {})', 'nothing')])
    O = [sh_obj(k) for k in range(W + 1)]
    add('entries', body_of('object/object_to_list/entries'), ref_entries, combos(O + [sh_nothing, sh_arr(1), sh_str(1), sh_pos]),
        'a list of {key, value} objects, one per member, in member order; nothing for a non-object', [('(entries {"b":1,"a":2})', [{'value': 1, 'key': 'b'}, {'value': 2, 'key': 'a'}]), ('(entries {})', []), ('(entries [1])', 'nothing')])
    def key_of(j): return lambda i: ('ostr', f'K0_{j}')
    def newkey(i): return ('ostr', 'KNEW')
    for nm, file, absent in (('insert_if_absent', 'insert_if_absent', True), ('replace_if_exists', 'replace_if_exists', False)):
        shapes = []
        for k in range(0, W + 1):
            for key in [key_of(j) for j in range(k)] + [newkey]: shapes.append([sh_obj(k), key, sh_opq])
        shapes += [[sh_arr(1), newkey, sh_opq], [sh_nothing, newkey, sh_opq], [sh_obj(1), sh_pos, sh_opq], [sh_obj(1), sh_nothing, sh_opq], [sh_obj(1), newkey, sh_nothing], [sh_obj(1), key_of(0), sh_nothing], [sh_str(1), newkey, sh_opq]]
        add(nm, body_of('object/manipulate_object/' + file), ref_put_if(absent), shapes,
            ('adds the member only when the object has no such key (an existing member keeps its value and place)' if absent else 'replaces the value only when the object has such a key (in place); otherwise the object is unchanged') + '; nothing for ill-typed or absent arguments',
            [(f'({nm} {{"a":1,"b":2}} "a" 9)', {'a': 1, 'b': 2} if absent else {'a': 9, 'b': 2}), (f'({nm} {{"a":1,"b":2}} "c" 9)', {'a': 1, 'b': 2, 'c': 9} if absent else {'a': 1, 'b': 2}), (f'({nm} {{"a":1,"b":2}} "b" 9)', {'a': 1, 'b': 2} if absent else {'a': 1, 'b': 9}),
             (f'({nm} [1] "a" 9)', 'nothing'), (f'({nm} {{}} 1 9)', 'nothing'), (f'({nm} {{"a":1}} "a" .nope)', 'nothing')])
    CMP01 = z3.Int('CMP(X0,X1)'); EQ01 = z3.Bool('EQ(X0,X1)')
    for nm, file, term in (('<', 'lt', CMP01 < 0), ('<=', 'lte', CMP01 <= 0), ('>', 'gt', CMP01 > 0), ('>=', 'gte', CMP01 >= 0), ('=', 'eq', EQ01), ('!=', 'neq', z3.Not(EQ01))):
        add(nm, body_of('boolean/compare/' + file), (lambda args, term=term: [(z3.BoolVal(True), ('bool', term) if args[0] is not None and args[1] is not None else None)]), combos([sh_opq, sh_nothing], [sh_opq, sh_nothing]),
            'the comparison of the first argument with the second under the value order (an uninterpreted relation of the two operands in this order; the order itself is order.arms / Kani); nothing when an argument is nothing',
            [(f'({nm} 1 2)', nm in ('<', '<=', '!=')), (f'({nm} 2 1)', nm in ('>', '>=', '!=')), (f'({nm} 2 2)', nm in ('<=', '>=', '=')), (f'({nm} "a" "b")', nm in ('<', '<=', '!=')), (f'({nm} null false)', nm in ('<', '<=', '!=')), (f'({nm} [1,2] [1,3])', nm in ('<', '<=', '!=')),
             (f'({nm} "z" 0)', nm in ('<', '<=', '!=')), (f'({nm} 1 .nope)', 'nothing'), (f'({nm} -0 0)', nm in ('<=', '>=', '=')), (f'({nm} 0 -0)', nm in ('<=', '>=', '=')), (f'({nm} 9007199254740991 9007199254740990)', nm in ('>', '>=', '!=')), (f'({nm} -9007199254740991 -9007199254740990)', nm in ('<', '<=', '!=')),
             *([(f'({nm} {{"b":2,"a":1}} {{"a":1,"b":2}})', nm in ('>', '>=')), (f'({nm} {{"a":1,"b":2}} {{"b":2,"a":1}})', nm in ('<', '<='))] if nm in ('<', '<=', '>', '>=') else []), (f'({nm} .nope 1)', 'nothing'), (f'({nm} 1.5 1.5)', nm in ('<=', '>=', '='))])
    return T


# ---------------------------------------------------------------- the scenario
def _task(args):
    ctx, entry, inl = args
    res = {'paths': 0, 'obl': 0, 'ok': 0, 'cands': [], 'queries': 0, 'solver_s': 0.0, 'unh': {}, 'sums': [], 'bodies': [], 'sample': None}
    for shape in entry['shapes']:
        absargs = [mk(i) for i, mk in enumerate(shape)]
        tab = {i: (lambda st, ex, a=a: build(st, ex, a)) for i, a in enumerate(absargs) if a is not None}
        base = make_summaries(tab)
        drop = ('as Iterator>::enumerate$', r'as Iterator>::collect::<', 'as Iterator>::map::<JsonValue', r' as Into<JsonValue>>::into$|<JsonValue as From<.*>>::from$', r'<usize as Into<JsonValue>>::into$')
        summ = extra_summaries() + [s for s in base if not any(s[0].startswith(d) or d in s[0] for d in drop)]
        ex = ctx.exec(summaries=summ, inline=inl, max_visits=40)
        F = ex.find(entry['body'])
        st = State(); so = named(st, 'self', 'Impl'); selfref = slot(st, so, 'self*'); c = slot(st, named(st, 'ctx', 'Context'), 'ctx*')
        st.heap[so.oid][('f', None, 0)] = seqobj(st, 'Vec', [named(st, f'G{i}', 'Rc<dyn Get>') for i in range(len(absargs))], origin='self.0')
        terms = {}
        def collect_terms(a):
            if a is None: return
            if a[0] == 'bool': terms[str(a[1])] = a[1]
            elif a[0] == 'num': terms[str(a[2])] = a[2]
            elif a[0] == 'str':
                for b in a[1]: terms[str(b)] = b
                if a[1]: st.pc.append(utf8_valid(a[1]))
            elif a[0] == 'arr': [collect_terms(x) for x in a[1]]
            elif a[0] == 'obj': [collect_terms(v) for _, v in a[1]]
        for a in absargs: collect_terms(a)
        PANICS.clear()
        ex.new_frame(st, F, [selfref, c])
        done = ex.run(st) + list(PANICS); PANICS.clear()
        cases = entry['ref'](absargs)
        desc = '(' + entry['name'] + ' ' + ' '.join(pretty(a) for a in absargs) + ')'
        for d in done:
            res['paths'] += 1
            if d.status == 'infeasible': continue
            res['obl'] += 1
            hav = (d.havoc or [None])[0]
            def cand(role, text, m):
                mv = {}
                if m is not None:
                    try: mv['args'] = [to_json(a, m) if a is not None else 'nothing' for a in absargs]
                    except Exception: mv['args'] = [pretty(a, m) for a in absargs]
                mv['fn'] = entry['name']; mv['shape'] = [pretty(a) for a in absargs]
                if m is not None:
                    try:
                        lits = ['.nope' if a is None else json.dumps(to_json(a, m), ensure_ascii=False) for a in absargs]
                        mv['expr'] = '(' + entry['name'] + ' ' + ' '.join(lits) + ')'
                        for cnd, e_ in cases:
                            if z3.is_true(m.eval(cnd, True)):
                                alts = e_[1] if e_ is not None and e_[0] == 'anyof' else [e_]
                                mv['expected_any'] = ['nothing' if x is None else to_json(x, m) for x in alts]
                    except Exception as ex_:
                        mv['expr_error'] = str(ex_)[:100]
                res['cands'].append({'role': role, 'text': f'{desc} {text}', 'model': mv, 'unmodelled': hav})
            if d.status != 'returned':
                ok_, m = ex.valid(d, z3.BoolVal(False))
                cand('panic' if d.status == 'panic' else f'path-{d.status}', f'{d.status}: {d.notes[-1] if d.notes else ""}', m); continue
            r = obj(d, d.ret); rd = cval(ex.discr(d, r).t)
            if rd is None:
                cand('symbolic-result', 'returns an Option whose variant the path does not decide', None); continue
            got = deep(d, ex, d.heap[r.oid][('f', 'Some', 0)]) if rd == 1 else None
            conj = z3.And(*[z3.Implies(cnd, match(got, exp)) for cnd, exp in cases])
            ok_, m = ex.valid(d, conj)
            if ok_ and not hav:
                res['ok'] += 1
                if res['sample'] is None and got is not None and len(absargs) > 1:
                    res['sample'] = {'call': desc, 'path_result': pretty(got)[:160], 'verdict': 'equals the documented value for every value of the free leaves on this path'}
            elif ok_:
                res['ok'] += 1
            else:
                exp_txt = ' / '.join(pretty(e, m) for cnd, e in cases if z3.is_true(m.eval(cnd, True)))
                cand('wrong-result', f'returns {pretty(got, m)}, documented: {exp_txt}', m)
        res['queries'] += ex.queries; res['solver_s'] += ex.solver_s
        for k, v in ex.unhandled.items(): res['unh'][k] = res['unh'].get(k, 0) + v
        res['sums'] += list(ex.used_summaries); res['bodies'] += list(ex.used_bodies)
    return res


def kernels2(ctx, names=None):
    from .par import pmap
    run = ctx.run
    T = [e for e in table(deep=not ctx.quick) if names is None or e['name'] in names]
    run.bounds['kernels2'] = ('per function every combination of argument shapes of its list (booleans free, integers any 64-bit value of either sign, an opaque double, strings of 0..2 free bytes that are well-formed UTF-8, '
                              'lists / objects of 0..3 (thorough: 0..4) opaque or typed elements, nothing, null); see the shapes in vf/scen_kernels2.py:table')
    run.assume('kernels2: getters of the arguments are pure and return the shape\'s value; Vec / IndexMap / String are sequences of concrete length per path; iterator adaptors run the real closure bodies; '
               'JsonValue == is structural on concrete variants (mixed-variant numbers and opaque values: an uninterpreted predicate)')
    inl = conversions(ctx)
    results = pmap(_task, [(ctx, e, inl) for e in T])
    allc = []
    for e, res in zip(T, results):
        fam = run.family(f'fn.{e["name"]}', f'({e["name"]} ...): {e["doc"]}; never panics')
        fam.obligations += res['obl']; fam.discharged += res['ok']; fam.paths += res['paths']; fam.witnesses += res['obl']
        fam.bounds = f'{len(e["shapes"])} argument-shape combinations'
        run.paths += res['paths']; run.queries += res['queries']; run.solver_s += res['solver_s']
        for k, v in res['unh'].items(): run.unmodelled[k] += v
        for s in res['sums']: run.summaries[s] = True
        for b in res['bodies']: run.functions[b] = True
        if res['sample']: fam.add_sample(res['sample'])
        seen = set()
        for cd in res['cands']:
            if cd['role'] in seen: continue
            seen.add(cd['role'])
            c = Candidate(fam.name, cd['role'], cd['text'], cd['model'], unmodelled=cd['unmodelled'])
            fam.candidates.append(c); allc.append((e, c))
    replay2(ctx, allc)


def replay2(ctx, pairs):
    """native replay: the model's arguments as literals when they have a JSON spelling, then the function's fixed demonstrations"""
    from .cli import run_jawk, show as shw
    def call(expr):
        r = run_jawk(ctx, ['--select', expr + '=r', '--style', 'consise', '--utf8-strings'], b'{}')
        out = shw(r['stdout']).strip()
        if r['rc'] != 0 or b'panicked' in r['stderr']: return ('failed', r['rc'], shw(r['stderr'])[-200:])
        try:
            o = json.loads(out); return o.get('r', 'nothing') if isinstance(o, dict) else 'unparsable:' + out
        except Exception: return 'unparsable:' + out
    for e, c in pairs:
        c.status = 'unit'
        if c.model.get('expr') and 'expected_any' in c.model:
            got = call(c.model['expr'])
            if not any(jsame(got, x) for x in c.model['expected_any']):
                c.replay = {'argv': ['--select', c.model['expr'] + '=r'], 'stdin': '{}', 'expected': c.model['expected_any'], 'actual': got}; c.status = 'reproduced'; continue
        for expr, exp in e['demos']:
            got = call(expr)
            if not jsame(got, exp):
                c.replay = {'argv': ['--select', expr + '=r'], 'stdin': '{}', 'expected': exp, 'actual': got}; c.status = 'reproduced'; break
        if c.status != 'reproduced':
            c.replay = {'note': 'the fixed demonstrations of this function all give the documented value natively; the counterexample is exact at function level (fully modelled path)', 'demos': [d[0] for d in e['demos']]}


# ---------------------------------------------------------------- functions that take a function argument
# The function argument (the second getter) is a protocol summary: its k-th evaluation answers the k-th entry of an
# answer script, and records the context it was evaluated in. Every script over the answer alphabet is run.
A_TRUE = ('bool', z3.BoolVal(True)); A_FALSE = ('bool', z3.BoolVal(False))
def a_num(i): return ('num', 'Positive', z3.BitVec(f'ans{i}', 64))
def a_ostr(tag): return ('ostr', tag)
def a_arr(i, k): return ('arr', [('opq', f'R{i}_{j}') for j in range(k)])


def ref_filter_members(which):
    def ref(args, answers):
        o = args[0]
        if tname(o) != 'object': return None, []
        inputs = [k if which == 'key' else v for k, v in o[1]]
        kept = [(k, v) for (k, v), a in zip(o[1], answers) if a is not None and a[0] == 'bool' and z3.is_true(a[1])]
        return ('obj', kept), inputs
    return ref


def ref_map_values(args, answers):
    o = args[0]
    if tname(o) != 'object': return None, []
    return ('obj', [(k, a) for (k, v), a in zip(o[1], answers) if a is not None]), [v for k, v in o[1]]


def ref_map_keys(args, answers):
    o = args[0]
    if tname(o) != 'object': return None, []
    out = []
    for (k, v), a in zip(o[1], answers):
        if a is None or tname(a) != 'string': continue
        for i, (kk, vv) in enumerate(out):
            if kk == a: out[i] = (kk, v); break
        else: out.append((a, v))
    return ('obj', out), [k for k, v in o[1]]


def ref_flat_map(args, answers):
    l = args[0]
    if tname(l) != 'array': return None, []
    out = []
    for a in answers:
        if a is not None and a[0] == 'arr': out += a[1]
    return ('arr', out), list(l[1])


def ref_group_by(args, answers):
    l = args[0]
    if tname(l) != 'array': return None, []
    groups = []; inputs = []
    for x, a in zip(l[1], answers):
        inputs.append(x)
        if a is None or tname(a) != 'string': return None, inputs           # "a key that is not a string: nothing"
        for g in groups:
            if g[0] == a: g[1].append(x); break
        else: groups.append((a, [x]))
    return ('obj', [(k, ('arr', xs)) for k, xs in groups]), inputs


def ref_map(args, answers):
    l = args[0]
    if tname(l) != 'array': return None, []
    return ('arr', [a for a in answers if a is not None]), list(l[1])


def ref_filter(args, answers):
    l = args[0]
    if tname(l) != 'array': return None, []
    return ('arr', [x for x, a in zip(l[1], answers) if a is not None and a[0] == 'bool' and z3.is_true(a[1])]), list(l[1])


def fn_table(deep=False):
    T = []
    W = 4 if deep else 3
    def add(name, body, ref, colls, alphabet, doc, demos): T.append(dict(name=name, body=body, ref=ref, colls=colls, alphabet=alphabet, doc=doc, demos=demos))
    O = [sh_obj(k) for k in range(W + 1)]; A = [sh_arr(k) for k in range(W + 1)]
    BOOLISH = [lambda i: A_TRUE, lambda i: A_FALSE, lambda i: None, a_num, lambda i: ('null',)]
    rx = lambda mod, nm: body_of(mod.replace('::', '/') + '/' + nm)
    add('filter_keys', rx('object::functional', 'filter_keys'), ref_filter_members('key'), O, BOOLISH, 'keeps exactly the members whose key the function answers with true, in order; the function sees the key as input and the current input as parent',
        [('(filter_keys {"a":1,"bb":2,"c":3} (= . "bb"))', {'bb': 2}), ('(filter_keys {"a":1,"b":2} true)', {'a': 1, 'b': 2}), ('(filter_keys {"a":1,"b":2} 1)', {}), ('(filter_keys {"a":1,"b":2} (!= . "a"))', {'b': 2}), ('(filter_keys [1] true)', 'nothing')])
    add('filter_values', rx('object::functional', 'filter_values'), ref_filter_members('value'), O, BOOLISH, 'keeps exactly the members whose value the function answers with true, in order; the function sees the value as input',
        [('(filter_values {"a":1,"bb":2,"c":3} (= . 2))', {'bb': 2}), ('(filter_values {"a":1,"b":2} true)', {'a': 1, 'b': 2}), ('(filter_values {"a":1,"b":2} null)', {}), ('(filter_values {"a":1,"b":2,"c":1} (= . 1))', {'a': 1, 'c': 1}), ('(filter_values [1] true)', 'nothing')])
    add('map_values', rx('object::functional', 'map_values'), ref_map_values, O, [a_num, lambda i: None, lambda i: ('opq', f'R{i}')], 'every member keeps its key and place and gets the value the function yields for its value; members for which it yields nothing are dropped',
        [('(map_values {"a":1,"b":2} (+ . 10))', {'a': 11, 'b': 12}), ('(map_values {"a":{"x":1},"b":{},"c":{"x":3}} .x)', {'a': 1, 'c': 3}), ('(map_values {} 1)', {}), ('(map_values [1] 1)', 'nothing')])
    add('map_keys', rx('object::functional', 'map_keys'), ref_map_keys, O, [lambda i: a_ostr(f'NK{i}'), lambda i: a_ostr('NKSAME'), lambda i: None, a_num], 'every member whose key the function maps to a string is kept, in order, under the new key; other members are dropped',
        [('(map_keys {"a":1,"b":2} (concat "_" .))', {'_a': 1, '_b': 2}), ('(map_keys {"a":1,"b":2} 1)', {}), ('(map_keys {"a":1,"b":2,"c":3} (if (= . "b") .nope (concat . .)))', {'aa': 1, 'cc': 3}), ('(map_keys [1] "a")', 'nothing')])
    add('flat_map', rx('list::functional', 'flat_map'), ref_flat_map, A, [lambda i: a_arr(i, 0), lambda i: a_arr(i, 1), lambda i: a_arr(i, 2), lambda i: None, a_num], 'the concatenation, in order, of the lists the function yields per element; elements for which it yields anything else contribute nothing',
        [('(flat_map [[1,2],[3],[]] .)', [1, 2, 3]), ('(flat_map [[1,2],5,[3]] .)', [1, 2, 3]), ('(flat_map [1,2] (range .))', [0, 0, 1]), ('(flat_map [] .)', []), ('(flat_map {} .)', 'nothing')])
    add('group_by', rx('list::functional', 'group_by'), ref_group_by, A, [lambda i: a_ostr('GA'), lambda i: a_ostr('GB'), lambda i: None, a_num], 'an object with one member per distinct key in first-seen order, each holding its elements in list order; nothing when a key is not a string',
        [('(group_by ["a","bb","c","dd","eee"] (stringify (size .)))', {'1': ['a', 'c'], '2': ['bb', 'dd'], '3': ['eee']}), ('(group_by [1,2] (stringify .))', {'1': [1], '2': [2]}), ('(group_by [] .)', {}), ('(group_by ["a", 1] .)', 'nothing'), ('(group_by {} .)', 'nothing')])
    add('map', rx('list::functional', 'map'), ref_map, A, [a_num, lambda i: None, lambda i: ('opq', f'R{i}')], 'the values the function yields per element, in order (nothing is dropped)',
        [('(map [1,2,3] (+ . 1))', [2, 3, 4]), ('(map [{"x":1},{},{"x":3}] .x)', [1, 3]), ('(map [] .)', []), ('(map {} .)', 'nothing')])
    add('filter', rx('list::functional', 'filter'), ref_filter, A, BOOLISH, 'exactly the elements the function answers with true, in order',
        [('(filter [1,5,2,7] (> . 2))', [5, 7]), ('(filter [true,1,"true",false,true] .)', [True, True]), ('(filter [] .)', []), ('(filter [1,2] (= . 2))', [2]), ('(filter {} .)', 'nothing')])
    return T


def _ftask(args):
    ctx, entry, inl = args
    res = {'paths': 0, 'obl': 0, 'ok': 0, 'cands': [], 'queries': 0, 'solver_s': 0.0, 'unh': {}, 'sums': [], 'bodies': [], 'sample': None}
    def s_with_input(ex, st, func, a, ty):
        o = named(st, st.fresh_name('ctx'), 'Context'); st.heap[o.oid]['chain'] = ('with_input', origin(st, a[0]), deep(st, ex, a[1])); return [(st, o)]
    colls = list(entry['colls']) + [sh_nothing, sh_pos, sh_str(1)] + ([sh_arr(1)] if entry['colls'][0](0)[0] == 'obj' else [sh_obj(1)])
    for mk in colls:
        coll = mk(0)
        n = len(coll[1]) if coll is not None and coll[0] in ('arr', 'obj') and tname(coll) == ('array' if entry['colls'][0](0)[0] == 'arr' else 'object') else 0
        for script in itertools.product(entry['alphabet'], repeat=n):
            answers = [mk_a(i) for i, mk_a in enumerate(script)]
            def s_apply(ex, st, func, a, ty, answers=answers, coll=coll):
                idx = cval(a[2].t)
                if idx == 0: return [(st, none(st) if coll is None else some(st, build(st, ex, coll)))]
                c = obj(st, a[1]); k = sum(1 for e in st.events if e[0] == 'eval')
                st.events.append(('eval', idx, st.heap[c.oid].get('chain', origin(st, c))))
                if k >= len(answers): raise Unmodelled('the function argument is evaluated more often than there are elements')
                return [(st, none(st) if answers[k] is None else some(st, build(st, ex, answers[k])))]
            base = make_summaries({})
            drop = ('as Iterator>::enumerate$', r'as Iterator>::collect::<', 'as Iterator>::map::<JsonValue', r' as Into<JsonValue>>::into$|<JsonValue as From<.*>>::from$', r'<usize as Into<JsonValue>>::into$', 'Arguments>::apply', 'dyn Get as Get')
            summ = [(r'Arguments>::apply$', s_apply), (r'Context::with_inupt$', s_with_input)] + extra_summaries() + [s for s in base if not any(d in s[0] for d in drop)]
            ex = ctx.exec(summaries=summ, inline=inl, max_visits=60)
            F = ex.find(entry['body'])
            st = State(); so = named(st, 'self', 'Impl'); selfref = slot(st, so, 'self*'); c = slot(st, named(st, 'CTX', 'Context'), 'ctx*')
            st.heap[so.oid][('f', None, 0)] = seqobj(st, 'Vec', [named(st, f'G{i}', 'Rc<dyn Get>') for i in range(2)], origin='self.0')
            if coll is not None and coll[0] == 'str': st.pc.append(utf8_valid(coll[1]))
            PANICS.clear()
            ex.new_frame(st, F, [selfref, c])
            done = ex.run(st) + list(PANICS); PANICS.clear()
            exp, inputs = entry['ref']([coll], answers)
            desc = f'({entry["name"]} {pretty(coll)} f) with f answering [{", ".join(pretty(a) for a in answers)}]'
            for d in done:
                res['paths'] += 1
                if d.status == 'infeasible': continue
                res['obl'] += 1
                hav = (d.havoc or [None])[0]
                def cand(role, text, m=None):
                    res['cands'].append({'role': role, 'text': f'{desc} {text}', 'model': {'fn': entry['name']}, 'unmodelled': hav})
                if d.status != 'returned':
                    cand('panic' if d.status == 'panic' else f'path-{d.status}', f'{d.status}: {d.notes[-1] if d.notes else ""}'); continue
                r = obj(d, d.ret); rd = cval(ex.discr(d, r).t)
                if rd is None: cand('symbolic-result', 'returns an Option whose variant the path does not decide'); continue
                got = deep(d, ex, d.heap[r.oid][('f', 'Some', 0)]) if rd == 1 else None
                evs = [e for e in d.events if e[0] == 'eval']
                # evaluations: once per element, in order, each in CTX.with_inupt(<the element / key / value>); when the result is
                # nothing because of an answer (group_by) the evaluations may stop there
                want = [('with_input', 'CTX', x if x[0] != 'ostr' else x) for x in inputs]
                seen = [e[2] for e in evs]
                ok_ev = seen == want[:len(seen)] and (len(seen) == len(want) or exp is None)
                if not ok_ev: cand('evaluation-contexts', f'evaluates the function in {seen}, documented: once per element in order, in {want}'); continue
                ok_, m = ex.valid(d, match(got, exp))
                if ok_:
                    res['ok'] += 1
                    if res['sample'] is None and n >= 2: res['sample'] = {'call': desc, 'path_result': pretty(got)[:160], 'evaluation_contexts': str(seen)[:200], 'verdict': 'equals the documented value'}
                else: cand('wrong-result', f'returns {pretty(got, m)}, documented: {pretty(exp, m)}')
            res['queries'] += ex.queries; res['solver_s'] += ex.solver_s
            for k_, v in ex.unhandled.items(): res['unh'][k_] = res['unh'].get(k_, 0) + v
            res['sums'] += list(ex.used_summaries); res['bodies'] += list(ex.used_bodies)
    return res


def kernels_fn(ctx, names=None):
    from .par import pmap
    run = ctx.run
    T = [e for e in fn_table(deep=not ctx.quick) if names is None or e['name'] in names]
    run.bounds['kernels_fn'] = 'lists / objects of 0..3 (thorough: 0..4) opaque elements x every script of answers of the function argument over its alphabet (true / false / nothing / a number / null; strings; lists of 0..2) ; ill-typed first arguments'
    run.assume('kernels_fn: the function argument is a protocol summary (k-th evaluation gives the k-th scripted answer) - what the real argument computes is the argument\'s own kernel')
    inl = conversions(ctx)
    results = pmap(_ftask, [(ctx, e, inl) for e in T])
    allc = []
    for e, res in zip(T, results):
        fam = run.family(f'fn.{e["name"]}', f'({e["name"]} C f): {e["doc"]}; the function is evaluated once per element, in order, with the element (key / value) as input and the current input as parent; nothing for a first argument of the wrong type; never panics')
        fam.obligations += res['obl']; fam.discharged += res['ok']; fam.paths += res['paths']; fam.witnesses += res['obl']
        run.paths += res['paths']; run.queries += res['queries']; run.solver_s += res['solver_s']
        for k, v in res['unh'].items(): run.unmodelled[k] += v
        for s in res['sums']: run.summaries[s] = True
        for b in res['bodies']: run.functions[b] = True
        if res['sample']: fam.add_sample(res['sample'])
        seen = set()
        for cd in res['cands']:
            if cd['role'] in seen: continue
            seen.add(cd['role'])
            c = Candidate(fam.name, cd['role'], cd['text'], cd['model'], unmodelled=cd['unmodelled'])
            fam.candidates.append(c); allc.append((e, c))
    replay2(ctx, allc)


# ---------------------------------------------------------------- regex functions: jawk's side, the regex crate as its documented contract
def regex_kernels(ctx):
    """extract_regex_group / match_regex with the regex engine replaced by its API contract: compile_regex gives Ok(regex) or
    Err; a regex has L >= 1 groups (group 0 = the whole match); captures(text) is None or Some(caps); caps.get(i) is None
    for i >= L, Some for i = 0, and Some or None (a group that did not take part) otherwise; caps[i] PANICS where get(i)
    is None (documented); is_match is any boolean. Obligations: no panic for any group index (free u64) and any L; the
    result is the matched text of the group when it took part and nothing otherwise; nothing for ill-typed arguments or
    a pattern that does not compile."""
    run = ctx.run
    fam = run.family('fn.regex', 'extract_regex_group / match_regex never panic whatever group index, group count and participation the regex engine reports, and give the group text / the match verdict exactly when there is one (regex engine = its documented API contract)')
    run.bounds['regex'] = 'group index any u64, group count any u64 >= 1, every outcome of compile / captures / get; argument shapes string / number / nothing'
    run.assume('regex crate modelled by its API contract (captures_len >= 1, get(i) None beyond the last group, Index panics where get is None); Context::compile_regex answers Ok or Err (the cache is regex.cache_key)')
    L = z3.BitVec('L', 64); IDX = z3.BitVec('idx', 64)
    inl = conversions(ctx)
    def s_compile(ex, st, func, a, ty):
        out = []
        for okk in (True, False):
            s2 = st.clone(); rx = named(s2, 'REGEX', 'Regex')
            res = ok(s2, rx) if okk else err(s2, named(s2, 'RXERR', 'regex::Error'))
            s2.events.append(('compile', origin(s2, a[1]), okk)); out.append((s2, slot(s2, res) if False else res))
        return out
    def s_rc_deref(ex, st, func, a, ty): return [(st, slot(st, obj(st, a[0])))]
    def s_caplen(ex, st, func, a, ty): return [(st, BV(L))]
    def s_captures(ex, st, func, a, ty):
        out = []
        for m_ in (True, False):
            s2 = st.clone(); s2.events.append(('captures', origin(s2, a[1]), m_))
            out.append((s2, some(s2, named(s2, 'CAPS', 'Captures')) if m_ else none(s2)))
        return out
    def _get(ex, st, i, panicking, fname):
        out = []
        beyond = z3.UGE(i, L)
        if ex.feasible(st, beyond):
            s2 = st.clone(); s2.pc.append(beyond)
            if panicking: s2.status = 'panic'; s2.notes.append('regex::Captures index: no group at that index @' + fname); PANICS.append(s2)
            else: out.append((s2, none(s2)))
        inside = z3.ULT(i, L)
        if ex.feasible(st, inside):
            for part in (True, False):
                c = z3.And(inside, z3.BoolVal(True) if part else i != 0)
                if not ex.feasible(st, c): continue
                s2 = st.clone(); s2.pc.append(c); s2.events.append(('group', part))
                if part:
                    mt = named(s2, 'MATCH', 'Match'); out.append((s2, mt if panicking else some(s2, mt)))
                elif panicking: s2.status = 'panic'; s2.notes.append('regex::Captures index: the group did not take part in the match @' + fname); PANICS.append(s2)
                else: out.append((s2, none(s2)))
        return out
    def s_get(ex, st, func, a, ty): return _get(ex, st, a[1].t, False, st.frames[-1]['fn'].name)
    def s_index(ex, st, func, a, ty):
        outs = _get(ex, st, a[1].t, True, st.frames[-1]['fn'].name)
        return [(s2, slot(s2, seqobj(s2, 'str', (), origin='GROUPTEXT'))) for s2, _ in outs]
    def s_as_str(ex, st, func, a, ty): return [(st, slot(st, named(st, 'GROUPTEXT', 'str')))]
    def s_is_match(ex, st, func, a, ty): return [(st, BoolV(z3.Bool('is_match(' + origin(st, a[1]) + ')')))]
    def s_str_to_string(ex, st, func, a, ty):
        o = obj(st, a[0]); return [(st, named(st, 'GROUPTEXT', 'String') if origin(st, o) == 'GROUPTEXT' else o)]
    rsum = [(r'as RegexCompile>::compile_regex$', s_compile), (r'^<Rc<.*Result<regex::Regex, regex::Error>> as Deref>::deref$', s_rc_deref), (r'regex::Regex::captures_len$', s_caplen), (r'regex::Regex::captures$', s_captures),
            (r'regex::Captures::<.*>::get$', s_get), (r'^<regex::Captures<.*> as Index<usize>>::index$', s_index), (r'regex::Match::<.*>::as_str$', s_as_str), (r'regex::Regex::is_match$', s_is_match),
            (r'^<str as ToString>::to_string$|^<str as ToOwned>::to_owned$|^<&str as ToString>::to_string$', s_str_to_string)]
    STR = lambda tag: (lambda st, ex: jv(st, ex, 'String', named(st, tag, 'String')))
    NUM = lambda st, ex: jv(st, ex, 'Number', mk_enum(st, 'NumberValue', ex.enums['NumberValue'].index('Positive'), 'Positive', (BV(IDX),)))
    NEG = lambda st, ex: jv(st, ex, 'Number', mk_enum(st, 'NumberValue', ex.enums['NumberValue'].index('Negative'), 'Negative', (BV(z3.BitVec('negidx', 64), True),)))
    shapes = {'extract_regex_group': [(STR('TEXT'), STR('PATTERN'), NUM), (STR('TEXT'), STR('PATTERN'), NEG), (NUM, STR('PATTERN'), NUM), (STR('TEXT'), NUM, NUM), (STR('TEXT'), STR('PATTERN'), STR('X')), (STR('TEXT'), STR('PATTERN'), None), (None, STR('PATTERN'), NUM)],
              'match_regex': [(STR('TEXT'), STR('PATTERN')), (NUM, STR('PATTERN')), (STR('TEXT'), NUM), (STR('TEXT'), None), (None, STR('PATTERN'))]}
    allc = []
    for fname, shs in shapes.items():
        for sh in shs:
            tab = {i: b for i, b in enumerate(sh) if b is not None}
            base = make_summaries(tab)
            drop = (r'as Iterator>::collect::<', r' as Into<JsonValue>>::into$|<JsonValue as From<.*>>::from$', 'ToString>::to_string')
            ex = ctx.exec(summaries=rsum + extra_summaries() + [s for s in base if not any(d in s[0] for d in drop)], inline=inl + [(r'^<NumberValue as TryInto<usize>>::try_into$|^<usize as TryFrom<NumberValue>>::try_from$', '^' + re.escape(find_impl(Exec(ctx.fns), 'json_value', 'try_from', r'^NumberValue$', r'Result<usize,')) + '$')] if False else inl, max_visits=30)
            F = ex.find(body_of('string/regex/' + fname))
            st = State(); so = named(st, 'self', 'Impl'); selfref = slot(st, so, 'self*'); c = slot(st, named(st, 'ctx', 'Context'), 'ctx*')
            st.heap[so.oid][('f', None, 0)] = seqobj(st, 'Vec', [named(st, f'G{i}', 'Rc<dyn Get>') for i in range(len(sh))], origin='self.0')
            st.pc.append(z3.UGE(L, 1))
            PANICS.clear(); ex.new_frame(st, F, [selfref, c]); done = ex.run(st) + list(PANICS); PANICS.clear()
            well_typed = sh[0] is not None and sh[1] is not None and sh[0] is not NUM and sh[1] is not NUM and (fname == 'match_regex' or sh[2] is NUM)
            for d in done:
                run.paths += 1
                if d.status == 'infeasible': continue
                fam.obligations += 1; fam.paths += 1; fam.witnesses += 1
                hav = (d.havoc or [None])[0]
                def cand(role, text, within=None):
                    ok_, m = ex.valid(d, z3.BoolVal(False) if within is None else z3.Not(within))
                    mv = {'fn': fname, 'idx': m.eval(IDX, True).as_long() if m is not None else None, 'L': m.eval(L, True).as_long() if m is not None else None}
                    cd = Candidate(fam.name, role, f'({fname} ...) {text}' + (f' with group index {mv["idx"]} on a pattern with {mv["L"]} groups' if m is not None else ''), mv, unmodelled=hav)
                    if not any(x.role == role for x in fam.candidates): fam.candidates.append(cd); allc.append(cd)
                if d.status != 'returned': cand(f'panic:{fname}' if d.status == 'panic' else f'path-{d.status}', f'{d.status}: {d.notes[-1] if d.notes else ""}'); continue
                r = obj(d, d.ret); rd = cval(ex.discr(d, r).t)
                if rd is None: cand('symbolic-result', 'returns an Option whose variant the path does not decide'); continue
                got = deep(d, ex, d.heap[r.oid][('f', 'Some', 0)]) if rd == 1 else None
                comp = [e for e in d.events if e[0] == 'compile']; caps = [e for e in d.events if e[0] == 'captures']; grp = [e for e in d.events if e[0] == 'group']
                if not well_typed or (comp and not comp[-1][2]): exp = None
                elif fname == 'match_regex': exp = ('bool', z3.Bool('is_match(TEXT)'))
                else:
                    matched = bool(caps and caps[-1][2]); part = bool(grp and grp[-1][1])
                    exp = ('ostr', 'GROUPTEXT') if matched and part else None
                    if comp and (comp[-1][1] != 'PATTERN' or (caps and caps[-1][1] != 'TEXT')): exp = ('wrong-operands',)
                    # an answer given without asking the engine is only right where the engine could not have had a group
                    if exp is None and comp and comp[-1][2] and ((not caps) or (matched and not grp)) and not ex.valid(d, z3.UGE(IDX, L))[0]: exp = ('engine-not-asked',)
                ok_, m = ex.valid(d, match(got, exp)) if (exp is None or exp[0] not in ('wrong-operands', 'engine-not-asked')) else (False, None)
                if ok_: fam.discharged += 1
                else: cand(f'wrong-result:{fname}', within=z3.ULT(IDX, L) if exp is not None and exp[0] == 'engine-not-asked' else None, text=f'returns {pretty(got)}, documented: {pretty(exp) if exp is None or exp[0] not in ("wrong-operands", "engine-not-asked") else "the text of that group of the pattern (second argument) matched against the first argument, for every group index below the group count"}')
            run.absorb(ex)
    from .cli import run_jawk, show as shw
    DEMOS = [('(extract_regex_group "10-20" "([0-9]+)-([0-9]+)" 1)', '10'), ('(extract_regex_group "10-20" "([0-9]+)-([0-9]+)" 2)', '20'), ('(extract_regex_group "10-20" "([0-9]+)-([0-9]+)" 0)', '10-20'),
             ('(extract_regex_group "10-20" "([0-9]+)-([0-9]+)" 3)', 'nothing'), ('(extract_regex_group "10-20" "([0-9]+)-([0-9]+)" 20)', 'nothing'), ('(extract_regex_group "abc" "([0-9]+)|([a-z]+)" 1)', 'nothing'),
             ('(extract_regex_group "abc" "([0-9]+)|([a-z]+)" 2)', 'abc'), ('(extract_regex_group "x=" "([a-z])=([0-9])?" 2)', 'nothing'), ('(extract_regex_group "zzz" "([0-9]+)" 1)', 'nothing'), ('(extract_regex_group "a" "(" 0)', 'nothing'),
             ('(extract_regex_group "a" "a" -1)', 'nothing'), ('(extract_regex_group 1 "a" 0)', 'nothing'), ('(match_regex "abc" "b")', True), ('(match_regex "abc" "^b")', False), ('(match_regex "abc" "(")', 'nothing'), ('(match_regex 1 "1")', 'nothing'),
             # the pattern is an argument like any other: evaluated for every value, in that value's context
             ('(match_regex .s (default .pattern "^[a-z]+$"))', True, '{"s":"123","pattern":"^[0-9]+$"}'), ('(match_regex .s (default .pattern "^[a-z]+$"))', False, '{"s":"abc","pattern":"^[0-9]+$"}'),
             ('(match_regex .s (if (string? .p) .p "x"))', True, '{"s":"yyy","p":"^y+$"}'), ('(extract_regex_group .s (default .p "(a)") 1)', 'b', '{"s":"b","p":"(b)"}'), ('(map .l (match_regex . ^.p))', [True, False], '{"l":["aa","b"],"p":"^a+$"}')]
    for c in allc:
        c.status = 'unit'
        for expr, exp, *stdin_ in DEMOS:
            r = run_jawk(ctx, ['--select', expr + '=r', '--style', 'consise'], (stdin_[0] if stdin_ else '{}').encode())
            out = shw(r['stdout']).strip()
            try: got = json.loads(out).get('r', 'nothing')
            except Exception: got = 'unparsable:' + out
            if r['rc'] != 0 or b'panicked' in r['stderr'] or not jsame(got, exp):
                c.replay = {'argv': ['--select', expr + '=r'], 'stdin': '{}', 'expected': exp, 'actual': got, 'rc': r['rc'], 'stderr': shw(r['stderr'])[-200:]}; c.status = 'reproduced'; break


# ---------------------------------------------------------------- parse: the string holds exactly one JSON value
def parse_kernel(ctx):
    """(parse s): the tokenizer is summarised by its contract (tok.* decide what it returns): the k-th next_json_value call
    on the reader made from the argument answers the k-th entry of a script over {a value, end of text, an error}. Documented:
    the value when the text is exactly one JSON value - the first call gives a value AND what follows it is the end of the
    text - nothing otherwise, and nothing for a non-string."""
    run = ctx.run
    fam = run.family('fn.parse', '(parse s) is the JSON value the string spells when the string holds exactly one value (the tokenizer gives a value and then the end of the text), nothing when anything follows it, when it is not JSON, or for a non-string')
    run.bounds['parse'] = 'every script of two tokenizer answers over value / end of text / error; argument a string, a number, nothing'
    inl = conversions(ctx)
    try:
        fs = find_impl(Exec(ctx.fns), 'json_value', 'from_str', r'^&str$', r'Result<JsonValue,')
        inl = inl + [(r'^<JsonValue as FromStr>::from_str$|^JsonValue::from_str$|^core::str::<impl str>::parse::<JsonValue>$', '^' + re.escape(fs) + '$')]
    except Broken:
        pass
    allc = []
    OUT = ('value', 'end', 'error')
    for argshape in ('string', 'number', 'nothing'):
        for script in (itertools.product(OUT, repeat=2) if argshape == 'string' else [('value', 'end')]):
            def s_from_string(ex, st, func, a, ty):
                r = named(st, 'READER', 'Reader'); st.events.append(('reader', origin(st, a[0]))); return [(st, r)]
            def s_next(ex, st, func, a, ty, script=script):
                k = sum(1 for e in st.events if e[0] == 'tok'); st.events.append(('tok', origin(st, a[0])))
                o = script[k] if k < len(script) else 'end'
                if o == 'value': return [(st, ok(st, some(st, named(st, f'VALUE{k}', 'JsonValue'))))]
                if o == 'end': return [(st, ok(st, none(st)))]
                return [(st, err(st, named(st, f'ERR{k}', 'JsonParserError')))]
            def s_ok_or(ex, st, func, a, ty):
                o = obj(st, a[0]); d = cval(ex.discr(st, o).t)
                if d is None: raise Unmodelled('ok_or on a symbolic Option')
                return [(st, ok(st, st.heap[o.oid][('f', 'Some', 0)]) if d == 1 else err(st, a[1]))]
            def s_where(ex, st, func, a, ty): return [(st, named(st, st.fresh_name('loc'), 'Location'))]
            tab = {0: (lambda st, ex: jv(st, ex, 'String', named(st, 'TEXT', 'String')))} if argshape == 'string' else {0: (lambda st, ex: jv(st, ex, 'Number', mk_enum(st, 'NumberValue', 0, ex.enums['NumberValue'][0], (BV(z3.BitVec('p', 64)),))))} if argshape == 'number' else {}
            base = make_summaries(tab)
            drop = (r'as Iterator>::collect::<', r' as Into<JsonValue>>::into$|<JsonValue as From<.*>>::from$', 'ToString>::to_string')
            summ = [(r'(^|::)from_string$', s_from_string), (r'as JsonParser>::next_json_value$', s_next), (r'Option::<.*>::ok_or(::<.*>)?$', s_ok_or), (r'::where_am_i$', s_where)] + extra_summaries() + [s for s in base if not any(d in s[0] for d in drop)]
            ex = ctx.exec(summaries=summ, inline=inl, max_visits=30)
            F = ex.find(body_of('string/parse_and_stringify/parse'))
            st = State(); so = named(st, 'self', 'Impl'); selfref = slot(st, so, 'self*'); c = slot(st, named(st, 'ctx', 'Context'), 'ctx*')
            st.heap[so.oid][('f', None, 0)] = seqobj(st, 'Vec', [named(st, 'G0', 'Rc<dyn Get>')], origin='self.0')
            PANICS.clear(); ex.new_frame(st, F, [selfref, c]); done = ex.run(st) + list(PANICS); PANICS.clear()
            exp = ('opq', 'VALUE0') if argshape == 'string' and script == ('value', 'end') else None
            for d in done:
                run.paths += 1
                if d.status == 'infeasible': continue
                fam.obligations += 1; fam.paths += 1; fam.witnesses += 1
                hav = (d.havoc or [None])[0]
                def cand(role, text):
                    cd = Candidate(fam.name, role, f'(parse <{argshape}>) with the tokenizer answering {list(script)}: {text}', {'fn': 'parse', 'script': list(script)}, unmodelled=hav)
                    if not any(x.role == role for x in fam.candidates): fam.candidates.append(cd); allc.append(cd)
                if d.status != 'returned': cand('panic' if d.status == 'panic' else f'path-{d.status}', f'{d.status}: {d.notes[-1] if d.notes else ""}'); continue
                r = obj(d, d.ret); rd = cval(ex.discr(d, r).t)
                if rd is None: cand('symbolic-result', 'returns an Option whose variant the path does not decide'); continue
                got = deep(d, ex, d.heap[r.oid][('f', 'Some', 0)]) if rd == 1 else None
                rd_ev = [e for e in d.events if e[0] == 'reader']; toks = [e for e in d.events if e[0] == 'tok']
                if argshape == 'string' and (not rd_ev or rd_ev[0][1] != 'TEXT' or any(t[1] != 'READER' for t in toks)): cand('wrong-reader', f'the tokenizer is not run on the argument text (readers {rd_ev}, calls {toks})'); continue
                if ex.valid(d, match(got, exp))[0]: fam.discharged += 1
                else: cand('wrong-result', f'returns {pretty(got)}, documented: {pretty(exp)}')
            run.absorb(ex)
    from .cli import run_jawk, show as shw
    DEMOS = [('(parse "1 2")', 'nothing'), ('(parse "[1, 2] trailing")', 'nothing'), ('(parse "12abc")', 'nothing'), ('(parse "true,")', 'nothing'), ('(parse "{} {}")', 'nothing'), ('(parse " [1, {\\"a\\": null}] ")', [1, {'a': None}]),
             ('(parse "12")', 12), ('(parse "")', 'nothing'), ('(parse "[1,")', 'nothing'), ('(parse "nul")', 'nothing'), ('(parse 12)', 'nothing'), ('(parse "\\"x\\"")', 'x'), ('(parse "1e2")', 100), ('(parse "x 1")', 'nothing')]
    for c in allc:
        c.status = 'unit'
        for expr, exp in DEMOS:
            r = run_jawk(ctx, ['--select', expr + '=r', '--style', 'consise'], b'{}')
            out = shw(r['stdout']).strip()
            try: got = json.loads(out).get('r', 'nothing')
            except Exception: got = 'unparsable:' + out
            if r['rc'] != 0 or b'panicked' in r['stderr'] or not jsame(got, exp):
                c.replay = {'argv': ['--select', expr + '=r'], 'stdin': '{}', 'expected': exp, 'actual': got, 'rc': r['rc']}; c.status = 'reproduced'; break


# ---------------------------------------------------------------- binding forms: (set n v e), (define n m e)
def binding_forms(ctx):
    """(set n v e) evaluates e in exactly `ctx.with_variable(n, v)` with v the value of the second argument in ctx; (define n m e)
    evaluates e in exactly `ctx.with_definition(n, m)` with m *the second argument itself* (the getter the caller wrote, not a
    wrapper around it - a wrapper could re-bind, cache or capture). Nothing for a name that is not a string / an absent value.
    What the derived context contains is context.derive."""
    run = ctx.run
    fam = run.family('bind.forms', '(set n v e) / (define n m e) evaluate e once, in the context derived from the current one by binding n to the value of v / to the getter m itself, and return its answer; nothing when the name is not a string (or the value is absent)')
    run.bounds['bind forms'] = 'name: a string / a number / nothing; value: a value / nothing; body answer: a value / nothing'
    inl = conversions(ctx)
    allc = []
    for form, meth in (('set', 'with_variable'), ('define', 'with_definition')):
        for nameshape in ('string', 'number', 'nothing'):
            for valshape in ('value', 'nothing'):
                for body in ('value', 'nothing'):
                    def s_with(ex, st, func, a, ty, meth=meth):
                        arg2 = obj(st, a[2])
                        st.events.append(('derive', func.rsplit('::', 1)[1], origin(st, a[0]), origin(st, a[1]), origin(st, arg2)))
                        return [(st, named(st, 'DERIVED', 'Context'))]
                    def s_apply(ex, st, func, a, ty, nameshape=nameshape, valshape=valshape, body=body):
                        idx = cval(a[2].t); c = origin(st, a[1]); st.events.append(('apply', idx, c))
                        if idx == 0:
                            if nameshape == 'nothing': return [(st, none(st))]
                            if nameshape == 'string': return [(st, some(st, jv(st, ex, 'String', named(st, 'NAME', 'String'))))]
                            return [(st, some(st, jv(st, ex, 'Number', named(st, 'NUM', 'NumberValue'))))]
                        if idx == 1: return [(st, none(st) if valshape == 'nothing' else some(st, named(st, 'VALUE', 'JsonValue')))]
                        return [(st, none(st) if body == 'nothing' else some(st, named(st, 'ANSWER(' + c + ')', 'JsonValue')))]
                    def s_vec_get_(ex, st, func, a, ty):
                        m_ = model(st, a[0]); i = cval(a[1].t)
                        return [(st, some(st, slot(st, m_[i])) if i is not None and i < len(m_) else none(st))]
                    summ = [(r'Arguments>::apply$', s_apply), (r'Context::with_variable$|Context::with_definition$', s_with), (r'impl \[.*\]>::get::<usize>$|Vec::<.*>::get::<usize>$', s_vec_get_),
                            (r'as Deref>::deref$', s_identity), (r'as Clone>::clone$', s_clone_shared)] + extra_summaries()
                    ex = ctx.exec(summaries=summ, inline=inl, max_visits=20)
                    F = ex.find(body_of('variables/' + form))
                    st = State(); so = named(st, 'self', 'Impl'); selfref = slot(st, so, 'self*'); c = slot(st, named(st, 'CTX', 'Context'), 'ctx*')
                    st.heap[so.oid][('f', None, 0)] = seqobj(st, 'Vec', [named(st, f'G{i}', 'Rc<dyn Get>') for i in range(3)], origin='self.0')
                    PANICS.clear(); ex.new_frame(st, F, [selfref, c]); done = ex.run(st) + list(PANICS); PANICS.clear()
                    for d in done:
                        run.paths += 1
                        if d.status == 'infeasible': continue
                        fam.obligations += 1; fam.paths += 1; fam.witnesses += 1
                        hav = (d.havoc or [None])[0]; why = None
                        if d.status != 'returned': why = f'{d.status} {d.notes[-1:]}'
                        else:
                            r = obj(d, d.ret); rd = cval(ex.discr(d, r).t)
                            got = origin(d, d.heap[r.oid][('f', 'Some', 0)]) if rd == 1 else None
                            der = [e for e in d.events if e[0] == 'derive']; bodyev = [e for e in d.events if e[0] == 'apply' and e[1] == 2]
                            valid = nameshape == 'string' and (form == 'define' or valshape == 'value')
                            if not valid:
                                if got is not None or bodyev: why = f'answers {got} / evaluates the body although the {"name is not a string" if nameshape != "string" else "value is absent"}'
                            else:
                                want2 = 'VALUE' if form == 'set' else 'G1'
                                if len(der) != 1 or der[0][1] != meth or der[0][2] != 'CTX' or der[0][3] != 'NAME' or der[0][4] != want2:
                                    why = f'the body context is not CTX.{meth}(NAME, {"the value" if form == "set" else "the second argument itself"}): {[(e[1], e[2], e[3], e[4]) for e in der]}'
                                elif len(bodyev) != 1 or bodyev[0][2] != 'DERIVED': why = f'the body is not evaluated exactly once in the derived context: {[e[2] for e in bodyev]}'
                                elif got != (None if body == 'nothing' else 'ANSWER(DERIVED)'): why = f'returns {got}, the body answered {"nothing" if body == "nothing" else "ANSWER(DERIVED)"}'
                        if why is None: fam.discharged += 1
                        elif not any(x.role == form for x in fam.candidates):
                            cd = Candidate(fam.name, form, f'({form} <{nameshape}> <{valshape}> body): {why}', {'form': form}, unmodelled=hav); fam.candidates.append(cd); allc.append(cd)
                    run.absorb(ex)
    if fam.discharged: fam.add_sample({'call': '(define NAME G1 body)', 'events': 'CTX.with_definition(NAME, G1); body evaluated in DERIVED', 'verdict': 'as documented'})
    from .cli import run_driver, show as shw
    DEMOS = [('(set "k" 1 (define "f" (+ . :k) (set "k" 10 (map . @f))))', '[1,2,3]', [11, 12, 13]), ('(define "f" (+ . 1) (map . @f))', '[1,2]', [2, 3]), ('(set "x" 2 (* :x .))', '4', 8), ('(set "x" 1 (set "x" 2 :x))', '0', 2),
             ('(define "f" 1 (define "f" 2 @f))', '0', 2), ('(set 1 2 3)', '0', 'nothing'), ('(set "x" .nope 3)', '{}', 'nothing'), ('(define "m" (+ :v 1) (set "v" 5 @m))', '0', 6)]
    for c in allc:
        c.status = 'unit'
        for expr, stdin, exp in DEMOS:
            r = run_driver(ctx, ['--select', expr + '=r', '--style', 'consise'], stdin.encode())
            try: got = json.loads(shw(r['stdout'])).get('r', 'nothing')
            except Exception: got = 'unparsable:' + shw(r['stdout'])
            if r['result'] != 'ok' or not jsame(got, exp):
                c.status = 'reproduced'; c.unmodelled = None; c.replay = {'argv': ['--select', expr + '=r'], 'stdin': stdin, 'expected': exp, 'actual': got}; break
