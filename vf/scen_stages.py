"""One process() step of each upstream stage (Filter, Splitter, Selection, PreSet, Uniquness) with the successor's
answer and the getter's result free: contract, Break forwarding, Err propagation, frame condition."""
import json
import re
import z3
from .lib import *
from .report import Candidate, Broken

STAGES = {
    'Filter': (r'^filter::<impl at [^>]*>::', 'ActiveFilter'),
    'Splitter': (r'^splitter::<impl at [^>]*>::', 'SplitterProcess'),
    'Selection': (r'^selection::<impl at [^>]*>::', 'SelectionProcess'),
    'PreSet': (r'^pre_sets::<impl at [^>]*>::', 'PreSetProcessor'),
    'Uniquness': (r'^duplication_remover::<impl at [^>]*>::', 'Uniquness'),
}


def make_get(nmax):
    def dyn_get(ex, st, func, args, ty):
        """getter result: absent | true | false | null | array of 0..nmax opaque elements"""
        out = []
        cname = origin(st, args[1])
        shapes = ['none', 'true', 'false', 'null'] + [f'arr{n}' for n in range(nmax + 1)]
        JV = ex.enums['JsonValue']
        for shape in shapes:
            s2 = st.clone(); s2.events.append(('get', origin(s2, args[0]), cname, shape))
            if shape == 'none':
                out.append((s2, none(s2))); continue
            if shape in ('true', 'false'):
                v = mk_enum(s2, 'JsonValue', JV.index('Boolean'), 'Boolean', (BoolV(z3.BoolVal(shape == 'true')),), name='getres')
            elif shape == 'null':
                v = mk_enum(s2, 'JsonValue', JV.index('Null'), name='getres')
            else:
                n = int(shape[3:])
                v = mk_enum(s2, 'JsonValue', JV.index('Array'), 'Array', (seqobj(s2, 'Vec', [named(s2, f'elem{i}', 'JsonValue') for i in range(n)]),), name='getres')
            out.append((s2, some(s2, v)))
        return out
    return dyn_get


def s_opt_json_eq(ex, st, func, args, ty):
    """<Option<JsonValue> as PartialEq>::eq restricted to Null/Boolean/Array-vs-scalar comparisons (the shapes above)"""
    a, b = obj(st, args[0]), obj(st, args[1])
    da, db = ex.discr(st, a).t, ex.discr(st, b).t
    both = z3.And(da == 1, db == 1)
    va = ex.load(st, a.oid, ('f', 'Some', 0), 'JsonValue'); vb = ex.load(st, b.oid, ('f', 'Some', 0), 'JsonValue')
    dva, dvb = ex.discr(st, va).t, ex.discr(st, vb).t
    JV = ex.enums['JsonValue']; B = JV.index('Boolean'); N = JV.index('Null')
    ba = ex.load(st, va.oid, ('f', 'Boolean', 0), 'bool').t; bb = ex.load(st, vb.oid, ('f', 'Boolean', 0), 'bool').t
    same = z3.And(dva == dvb, z3.Or(dva == N, z3.And(dva == B, ba == bb)))
    # different variants are never equal; equal non-scalar variants do not occur between a getter result and a Boolean literal
    return [(st, BoolV(z3.And(da == db, z3.Implies(both, same))))]


def s_derive(name, nargs):
    def derive(ex, st, func, args, ty):
        src = obj(st, args[0])
        o = ObjV(st.new_obj(st.fresh_name(name), 'Context'))
        st.heap[o.oid]['derived'] = (name, st.meta[src.oid][0], st.heap[src.oid].get('derived'), [origin(st, a) if isinstance(obj(st, a), ObjV) else str(a) for a in args[1:]])
        st.events.append((name, st.meta[src.oid][0]))
        return [(st, o)]
    derive.__name__ = 'ctx_' + name
    return derive


def s_hs_insert(ex, st, func, args, ty):
    out = []
    for new in (True, False):
        s2 = st.clone(); s2.events.append(('insert', origin(s2, args[1]), new)); out.append((s2, BoolV(z3.BoolVal(new))))
    return out


def s_key(ex, st, func, args, ty):
    src = obj(st, args[0]); o = named(st, 'key(' + st.meta[src.oid][0] + ')', 'ContextKey')
    return [(st, o)]


def summaries(nmax):
    return [(r'<dyn Get as Get>::get$', make_get(nmax)), (r'<Option<JsonValue> as PartialEq>::eq$', s_opt_json_eq),
            (r'<dyn Process as Process>::(process|complete|start)$', proto_next()),
            (r'Context::with_result$', s_derive('with_result', 2)), (r'Context::with_inupt$', s_derive('with_inupt', 1)),
            (r'Context::with_variables$', s_derive('with_variables', 1)), (r'Context::with_definitions$', s_derive('with_definitions', 1)),
            (r'Context::key$', s_key), (r'Context::input$', lambda ex, st, f, a, t: [(st, slot(st, named(st, 'input(' + origin(st, a[0]) + ')', 'Rc<JsonValue>')))]),
            (r'<JsonValue as Clone>::clone$|<Rc<JsonValue> as Clone>::clone$', s_clone_shared), (r'HashSet::<.*>::insert$', s_hs_insert), (r'HashSet::<.*>::clear$', lambda ex, st, f, a, t: [(st, UNIT)]),
            (r'<Vec<JsonValue> as IntoIterator>::into_iter$', s_iter_val), (r'<std::vec::IntoIter<JsonValue> as Iterator>::next$', s_iter_next),
            (r'Titles::with_title$', s_derive('with_title', 1))]


def snapshot(st, v, depth=0):
    """structural snapshot of everything reachable from v (for the frame condition)"""
    if isinstance(v, RefV):
        return ('ref', v.oid, v.key)
    if isinstance(v, ObjV):
        if depth > 6: return ('obj', v.oid)
        d = st.heap[v.oid]
        return ('obj', st.meta[v.oid][0], tuple(sorted((str(k), snapshot(st, x, depth + 1)) for k, x in d.items() if k not in ('derived',))))
    if isinstance(v, (BV, BoolV)):
        return ('t', v.t.sexpr())
    if isinstance(v, tuple):
        return tuple(snapshot(st, x, depth + 1) for x in v)
    return ('c', str(v))


def lazy_ok(pre, post):
    """post may differ from pre only by lazily materialised fields (names derived from the owner's origin)"""
    if pre == post: return True
    if pre[0] != post[0]: return False
    if pre[0] != 'obj' or len(pre) < 3 or len(post) < 3: return False
    if pre[1] != post[1]: return False
    pk = dict(pre[2]); qk = dict(post[2])
    for k, v in pk.items():
        if k not in qk or not lazy_ok(v, qk[k]): return False
    for k, v in qk.items():
        if k in pk: continue
        # new key: must be a lazily named value
        if v[0] == 'obj' and v[1].startswith(pre[1]): continue
        if v[0] == 't' and pre[1] in v[1]: continue
        if v[0] == 'ref': continue
        return False
    return True


def stage_steps(ctx, stages=None, want=('contract', 'break', 'err', 'frame')):
    run = ctx.run
    nmax = 2 if ctx.quick else 3
    run.bounds['stage step'] = f'one process() call per stage; the getter answers absent/true/false/null/array of 0..{nmax} opaque elements; every successor answer (Continue/Break/Err) free at every call'
    ex = ctx.exec(summaries=summaries(nmax), max_visits=4 * nmax + 8)
    # every inherent method of a stage struct found in the MIR is executed (a private helper added by an edit is code of the stage)
    for name_, (prefix_, sname_) in STAGES.items():
        for n in ctx.fns:
            m = re.match(prefix_ + r'(\w+)$', n)
            if not m or m.group(1) in ('process', 'complete', 'start', 'fmt', 'clone', 'from_str', 'create_process', 'new'): continue
            f = ctx.fns[n]
            if f.params and re.search(r'\b%s\b' % sname_, f.params[0][1]):
                ex.inline.append((r'%s::%s$' % (sname_, m.group(1)), n))
    allc = []
    for name in (stages or list(STAGES)):
        prefix, sname = STAGES[name]
        F = ex.find(prefix + 'process$')
        st = State(); so = st.new_obj('self', sname); selfref = slot(st, ObjV(so), 'self*')
        flds = ctx.structs[sname]
        # materialise every field except `next` so that a write through self is visible
        for i, fn_ in enumerate(flds):
            if fn_ == 'next':
                st.heap[so][('f', None, i)] = named(st, 'self.next', 'Box<dyn Process>')
            else:
                st.heap[so][('f', None, i)] = named(st, f'self.{fn_}', fn_)
        pre = {fn_: snapshot(st, st.heap[so][('f', None, i)]) for i, fn_ in enumerate(flds) if fn_ != 'next'}
        c = named(st, 'ctx', 'Context')
        ex.new_frame(st, F, [selfref, c]); done = ex.run(st)
        fc = run.family(f'{name}.contract', f'{name}::process is its documented list transformer step') if 'contract' in want else None
        fb = run.family(f'{name}.break', f'{name}: if the successor answers Ok(Break) the stage answers Ok(Break) and forwards nothing further') if 'break' in want else None
        fe = run.family(f'{name}.err', f'{name}: an Err of the successor is returned and nothing is forwarded afterwards') if 'err' in want else None
        ff = run.family(f'{name}.frame', f'{name}::process writes nothing reachable from self except through next (the stage has no memory)') if 'frame' in want and name != 'Uniquness' else None
        for d in done:
            run.paths += 1
            if d.status == 'infeasible': continue
            hav = (d.havoc or [None])[0]
            gets = [e for e in d.events if e[0] == 'get']; shape = gets[0][3] if gets else None
            if d.status != 'returned':
                fam = fc or fb or fe or ff
                fam.obligations += 1
                cnd = Candidate(fam.name, f'path-{d.status}', f'{name}::process path ends as {d.status} {d.notes} (getter result {shape})', {'stage': name, 'shape': shape}, unmodelled=hav)
                fam.candidates.append(cnd); allc.append(cnd); continue
            nx = next_events(d, 'process'); other = [e for e in next_events(d) if e[1] != 'process']
            rd, pd = result_parts(ex, d, d.ret)
            ins = [e for e in d.events if e[0] == 'insert']
            # ---------------- contract
            if fc is not None:
                fc.obligations += 1; fc.paths += 1; fc.witnesses += 1
                okc = True; why = ''
                fwd = [(origin(d, e[3]), d.heap[obj(d, e[3]).oid].get('derived')) for e in nx]
                if any(g[2] != 'ctx' for g in gets): okc = False; why = 'getter evaluated on a context other than the incoming one'
                if other: okc = False; why = 'start/complete called from process'
                # every successor answered Continue on the way => full forwarding expected
                all_cont = z3.And(*[z3.And(result_parts(ex, d, e[4])[0] == 0, result_parts(ex, d, e[4])[1] == 0) for e in nx]) if nx else z3.BoolVal(True)
                if name == 'Filter':
                    exp_n = 1 if shape == 'true' else 0
                    if len(nx) != exp_n or (nx and fwd[0][0] != 'ctx'): okc = False; why = f'forwarded {len(nx)} rows for a filter result {shape}'
                    retok = ex.valid(d, z3.And(rd == 0, pd == 0))[0] if not nx else ex.valid(d, z3.And(rd == result_parts(ex, d, nx[0][4])[0], z3.Implies(rd == 0, pd == result_parts(ex, d, nx[0][4])[1])))[0]
                    if okc and not retok: okc = False; why = 'return value is not the successor\'s / Continue'
                elif name == 'Splitter':
                    n = int(shape[3:]) if shape and shape.startswith('arr') else 0
                    elems = [f[1][3][0] if f[1] and f[1][0] == 'with_inupt' and f[1][1] == 'ctx' else None for f in fwd]
                    if elems != [f'elem{i}' for i in range(len(nx))]: okc = False; why = f'forwarded {elems} for {shape}'
                    if okc and len(nx) < n:
                        # stopping early is legal only after a Break or an Err from the successor
                        last = nx[-1] if nx else None
                        if last is None: okc = False; why = 'array elements not forwarded'
                        else:
                            lrd, lpd = result_parts(ex, d, last[4])
                            if not ex.valid(d, z3.Or(lrd == 1, lpd == 1))[0]: okc = False; why = 'stopped iterating without a Break/Err from the successor'
                    if okc and len(nx) > n: okc = False; why = 'more rows than elements'
                    if okc and not ex.valid(d, z3.Implies(all_cont, z3.And(rd == 0, pd == 0, z3.BoolVal(len(nx) == n))))[0]: okc = False; why = 'did not answer Continue after forwarding every element'
                elif name == 'Selection':
                    if len(nx) != 1 or not fwd[0][1] or fwd[0][1][0] != 'with_result' or fwd[0][1][1] != 'ctx': okc = False; why = f'forwarded {fwd}'
                    elif fwd[0][1][3][0] != 'self.name': okc = False; why = 'result stored under a different name'
                    elif shape != 'none' and 'getres' not in str(fwd[0][1][3][1]) and 'e!' not in str(fwd[0][1][3][1]): okc = False; why = f'result passed on is not the getter result: {fwd[0][1][3]}'
                    if okc and not ex.valid(d, z3.Implies(all_cont, z3.And(rd == 0, pd == 0)))[0]: okc = False; why = 'did not answer Continue'
                elif name == 'PreSet':
                    good = len(nx) == 1 and fwd[0][1] and fwd[0][1][0] == 'with_definitions' and fwd[0][1][2] and fwd[0][1][2][0] == 'with_variables' and fwd[0][1][2][1] == 'ctx' \
                        and fwd[0][1][3][0] == 'self.macros' and fwd[0][1][2][3][0] == 'self.variables'
                    alt = len(nx) == 1 and fwd[0][1] and fwd[0][1][0] == 'with_variables' and fwd[0][1][2] and fwd[0][1][2][0] == 'with_definitions' and fwd[0][1][2][1] == 'ctx' \
                        and fwd[0][1][3][0] == 'self.variables' and fwd[0][1][2][3][0] == 'self.macros'
                    if not (good or alt): okc = False; why = f'forwarded {fwd}'
                    if okc and not ex.valid(d, z3.Implies(all_cont, z3.And(rd == 0, pd == 0)))[0]: okc = False; why = 'did not answer Continue'
                elif name == 'Uniquness':
                    if len(ins) != 1 or ins[0][1] != 'key(ctx)': okc = False; why = f'set operations {ins}'
                    elif (len(nx) == 1) != ins[0][2] or (nx and fwd[0][0] != 'ctx'): okc = False; why = f'forwarded {len(nx)} rows when insert returned {ins[0][2]}'
                    if okc and not ex.valid(d, z3.Implies(all_cont, z3.And(rd == 0, pd == 0)))[0]: okc = False; why = 'did not answer Continue'
                if okc:
                    fc.discharged += 1
                    fc.add_sample({'getter_result': shape, 'forwarded': [str(f) for f in fwd], 'verdict': 'matches the reference step'})
                else:
                    cnd = Candidate(fc.name, 'contract:' + report_slug(why), f'{name}::process with getter result {shape}: {why}', {'stage': name, 'shape': shape, 'why': why}, unmodelled=hav)
                    fc.candidates.append(cnd); allc.append(cnd)
            # ---------------- break / err forwarding
            for i, e in enumerate(nx):
                nrd, npd = result_parts(ex, d, e[4])
                last = i == len(nx) - 1
                if fb is not None:
                    fb.obligations += 1; fb.paths += 1
                    brk = z3.And(nrd == 0, npd == 1)
                    if ex.feasible(d, brk): fb.witnesses += 1
                    ok_, m = ex.valid(d, z3.Implies(brk, z3.And(rd == 0, pd == 1, z3.BoolVal(last))))
                    if ok_: fb.discharged += 1
                    else:
                        cnd = Candidate(fb.name, 'break-swallowed', f'{name}::process: successor call #{i} answers Break but the stage answers {"Continue/Err" if last else "and keeps forwarding"} (getter result {shape})',
                                        {'stage': name, 'shape': shape, 'call': i}, unmodelled=hav)
                        fb.candidates.append(cnd); allc.append(cnd)
                if fe is not None:
                    fe.obligations += 1; fe.paths += 1
                    if ex.feasible(d, nrd == 1): fe.witnesses += 1
                    ok_, m = ex.valid(d, z3.Implies(nrd == 1, z3.And(rd == 1, z3.BoolVal(last))))
                    if ok_: fe.discharged += 1
                    else:
                        cnd = Candidate(fe.name, 'err-swallowed', f'{name}::process: successor call #{i} fails but the stage does not return the error (getter result {shape})',
                                        {'stage': name, 'shape': shape, 'call': i}, unmodelled=hav)
                        fe.candidates.append(cnd); allc.append(cnd)
            # ---------------- frame
            if ff is not None:
                ff.obligations += 1; ff.paths += 1; ff.witnesses += 1
                bad = [fn_ for i, fn_ in enumerate(flds) if fn_ != 'next' and not lazy_ok(pre[fn_], snapshot(d, d.heap[so][('f', None, i)]))]
                if not bad: ff.discharged += 1
                else:
                    cnd = Candidate(ff.name, 'writes-self:' + bad[0], f'{name}::process modifies its own field(s) {bad} (getter result {shape})', {'stage': name, 'fields': bad}, unmodelled=hav)
                    ff.candidates.append(cnd); allc.append(cnd)
    run.absorb(ex)
    # one candidate per (family, role)
    seen = set()
    for f in run.families.values():
        keep = []
        for c in f.candidates:
            if (c.family, c.role) in seen and c in allc: continue
            seen.add((c.family, c.role)); keep.append(c)
        f.candidates = keep
    replay_stages(ctx, [c for c in allc if any(c in f.candidates for f in run.families.values())])


def report_slug(s):
    import re
    return re.sub(r'[^a-z0-9]+', '-', s.lower())[:40].strip('-')


ARGV = {'Filter': ['--filter', '.f'], 'Splitter': ['--split-by', '.l'], 'Selection': ['--select', '.a=a'], 'PreSet': ['--set', 'v=1'], 'Uniquness': ['--unique']}


def replay_stages(ctx, cands):
    from .cli import run_driver, run_jawk, show
    from . import refpipe
    from .scen_go import ROWS
    for c in cands:
        stage = c.model.get('stage')
        if stage not in ARGV:
            c.status = 'unit'; continue
        if c.role == 'break-swallowed':
            if stage == 'Splitter':
                argv = ['--split-by', '.', '--take', '2']; stdin = b'[1,2,3,4] '
            elif stage == 'Filter':
                argv = ['--filter', 'true', '--take', '2']; stdin = b'1 '
            else:
                argv = ARGV[stage] + ['--take', '2']; stdin = b'{"a":1} ' if stage != 'Uniquness' else None
            if stdin is None:
                c.status = 'unit'; continue
            r = run_driver(ctx, argv, stdin, env={'ENDLESS': '1', 'ENDLESS_LIMIT': '20000'}, timeout=60)
            bound = 4 * len(stdin)
            c.replay = {'argv': argv, 'stdin': show(stdin) + ' repeated for ever', 'expected': f'stops after 2 rows having pulled <= {bound} bytes', 'result': r['result'], 'pulled': r['pulled'],
                        'rows': len(r['stdout'].splitlines())}
            c.status = 'reproduced' if (r['pulled'] is None or r['pulled'] > bound or len(r['stdout'].splitlines()) != 2) else 'unit'
        elif c.role == 'err-swallowed':
            argv = ARGV[stage]; stdin = json.dumps(ROWS[0]).encode()
            r = run_driver(ctx, argv, stdin, env={'FAIL_WRITE_AT': '0'})
            c.replay = {'argv': argv, 'stdin': show(stdin), 'env': 'FAIL_WRITE_AT=0', 'expected': 'result=err', 'result': r['result']}
            c.status = 'reproduced' if not str(r['result']).startswith('err') else 'unit'
        elif stage == 'PreSet' and c.role.startswith('contract') is False and False:
            pass
        else:
            if stage == 'PreSet':
                # a --set value is computed once, from the expression alone: it never depends on a record
                r = run_jawk(ctx, ['--set', 'v=(default . 7)', '--set', '@m=(+ . 1)', '--select', '(default :v)=v', '--select', '(default @m)=m', '--style', 'consise'], b'1 2 3')
                exp = '{"v":null,"m":2}\n{"v":null,"m":3}\n{"v":null,"m":4}\n'
                r3 = run_jawk(ctx, ['--set', 'v=1', '--select', '&index=i', '--style', 'consise'], b'7 8')
                if show(r3['stdout']) != '{"i":0}\n{"i":1}\n':
                    c.replay = {'argv': ['--set', 'v=1', '--select', '&index=i'], 'stdin': '7 8', 'expected': '{"i":0}\n{"i":1}\n', 'actual': show(r3['stdout'])}
                    c.status = 'reproduced'; continue
                if show(r['stdout']) != exp:
                    c.replay = {'argv': ['--set', 'v=(default . 7)', '--set', '@m=(+ . 1)', '--select', '(default :v)=v', '--select', '(default @m)=m'], 'stdin': '1 2 3', 'expected': exp, 'actual': show(r['stdout'])}
                    c.status = 'reproduced'; continue
            kw = {'Filter': {'filt': '.f'}, 'Splitter': {'split': '.l'}, 'Selection': {'selects': [('.a', 'a')]}, 'PreSet': {}, 'Uniquness': {'unique': True}}[stage]
            exp = refpipe.pipeline(ROWS, **kw)
            r = run_jawk(ctx, ARGV[stage] + ['--style', 'consise'], ' '.join(json.dumps(x) for x in ROWS).encode())
            try: got = [json.loads(l) for l in show(r['stdout']).splitlines() if l.strip()]
            except Exception: got = show(r['stdout'])
            c.replay = {'argv': ARGV[stage], 'expected': exp, 'actual': got, 'rc': r['rc']}
            c.status = 'reproduced' if got != exp or r['rc'] != 0 else 'unit'
