"""Prototype: parse rustc -Zunpretty=mir text into a small AST."""
import re
from dataclasses import dataclass, field

# ---------------------------------------------------------------- AST
@dataclass
class Place:
    local: int
    proj: tuple = ()          # sequence of ('deref',), ('field', idx, type), ('downcast', variant), ('index', operand/const)

@dataclass
class Operand:
    kind: str                 # copy | move | const
    place: Place = None
    const: str = None         # raw constant text

@dataclass
class Rvalue:
    kind: str                 # use | binop | unop | discr | ref | cast | aggregate | len | other
    args: tuple = ()
    extra: object = None

@dataclass
class Stmt:
    lhs: Place
    rv: Rvalue
    text: str = ''

@dataclass
class Term:
    kind: str                 # goto|switch|return|resume|unreachable|call|assert|drop
    data: dict = field(default_factory=dict)
    text: str = ''

@dataclass
class Block:
    stmts: list
    term: Term
    cleanup: bool = False

@dataclass
class Fn:
    name: str
    params: list              # [(local, type)]
    ret: str
    locals: dict              # local -> type
    blocks: dict              # n -> Block


def match_close(s, i, open_c='(', close_c=')'):
    """s[i] is an opening bracket; return index of its matching close (bracket-aware for ()[]{}<> is NOT attempted
    for <> because of ->, comparison etc.; only () [] {} and string literals)."""
    depth = 0
    j = i
    n = len(s)
    while j < n:
        c = s[j]
        if c == '"':
            j += 1
            while j < n and s[j] != '"':
                if s[j] == '\\':
                    j += 1
                j += 1
        elif c in '([{':
            depth += 1
        elif c in ')]}':
            depth -= 1
            if depth == 0:
                return j
        j += 1
    raise ValueError('unbalanced: ' + s[i:i + 80])


def split_top(s, sep=','):
    """split on sep at bracket depth 0 (also tracks <> loosely for generics)"""
    out, depth, ang, cur, i, n = [], 0, 0, [], 0, len(s)
    while i < n:
        c = s[i]
        if c == '"':
            j = i + 1
            while j < n and s[j] != '"':
                if s[j] == '\\':
                    j += 1
                j += 1
            cur.append(s[i:j + 1]); i = j + 1; continue
        if c == "'" and i + 2 < n and (s[i + 2] == "'" or (s[i + 1] == '\\' and "'" in s[i + 2:i + 12])):
            j = s.index("'", i + 2) if s[i + 1] == '\\' else i + 2
            cur.append(s[i:j + 1]); i = j + 1; continue
        if c in '([{':
            depth += 1
        elif c in ')]}':
            depth -= 1
        elif c == '<':
            ang += 1
        elif c == '>' and i > 0 and s[i - 1] != '-' and ang > 0:
            ang -= 1
        if c == sep and depth == 0 and ang == 0:
            out.append(''.join(cur).strip()); cur = []
        else:
            cur.append(c)
        i += 1
    last = ''.join(cur).strip()
    if last:
        out.append(last)
    return out


class P:
    """tiny cursor parser for places / operands"""
    def __init__(self, s):
        self.s = s; self.i = 0

    def ws(self):
        while self.i < len(self.s) and self.s[self.i] == ' ':
            self.i += 1

    def peek(self, k=1):
        return self.s[self.i:self.i + k]

    def eat(self, t):
        self.ws()
        if self.s.startswith(t, self.i):
            self.i += len(t); return True
        return False

    def expect(self, t):
        if not self.eat(t):
            raise ValueError(f'expected {t!r} at {self.s[self.i:self.i + 40]!r} in {self.s!r}')

    def place(self):
        self.ws()
        if self.peek() == '_':
            m = re.match(r'_(\d+)', self.s[self.i:])
            self.i += m.end()
            pl = Place(int(m.group(1)))
        elif self.peek() == '(':
            self.i += 1
            self.ws()
            if self.peek() == '*':
                self.i += 1
                inner = self.place()
                self.expect(')')
                pl = Place(inner.local, inner.proj + (('deref',),))
            else:
                inner = self.place()
                self.ws()
                if self.eat('as '):
                    # downcast: (P as Variant)
                    j = self.s.index(')', self.i)
                    var = self.s[self.i:j].strip(); self.i = j + 1
                    pl = Place(inner.local, inner.proj + (('downcast', var),))
                elif self.peek() == '.':
                    self.i += 1
                    m = re.match(r'(\d+)\s*:\s*', self.s[self.i:])
                    self.i += m.end()
                    # type runs to the matching close paren of this group
                    depth = 0; j = self.i
                    while True:
                        c = self.s[j]
                        if c in '([{':
                            depth += 1
                        elif c in ')]}':
                            if depth == 0:
                                break
                            depth -= 1
                        j += 1
                    ty = self.s[self.i:j].strip(); self.i = j + 1
                    pl = Place(inner.local, inner.proj + (('field', int(m.group(1)), ty),))
                else:
                    raise ValueError('place? ' + self.s[self.i:self.i + 40])
        else:
            raise ValueError('place? ' + self.s[self.i:self.i + 40] + ' in ' + self.s)
        # index projections  P[_3]  P[0 of 2]
        while self.peek() == '[':
            j = match_close(self.s, self.i)
            pl = Place(pl.local, pl.proj + (('index', self.s[self.i + 1:j]),))
            self.i = j + 1
        return pl

    def operand(self):
        self.ws()
        if self.eat('copy '):
            return Operand('copy', self.place())
        if self.eat('move '):
            return Operand('move', self.place())
        if self.eat('const '):
            # constant text to end (caller splits operands first)
            c = self.s[self.i:].strip(); self.i = len(self.s)
            return Operand('const', const=c)
        # bare fn item / path used as operand
        c = self.s[self.i:].strip(); self.i = len(self.s)
        if re.match(r"^[A-Za-z_<{]", c):
            return Operand('const', const='fn ' + c)
        raise ValueError('operand? ' + c[:60])


BINOPS = {'Add', 'Sub', 'Mul', 'Div', 'Rem', 'BitXor', 'BitAnd', 'BitOr', 'Shl', 'Shr', 'Eq', 'Lt', 'Le', 'Ne', 'Ge', 'Gt',
          'Cmp', 'Offset', 'AddWithOverflow', 'SubWithOverflow', 'MulWithOverflow', 'AddUnchecked', 'SubUnchecked',
          'MulUnchecked', 'ShlUnchecked', 'ShrUnchecked'}
UNOPS = {'Not', 'Neg', 'PtrMetadata'}


_CHARLIT = re.compile(r"'(\\.|\\u\{[0-9a-fA-F]+\}|[^\\'])'")


def open_of(s):
    """index of the bracket matching the last char of s (forward scan, aware of string and char literals)"""
    stack = []
    i = 0; n = len(s)
    while i < n:
        c = s[i]
        if c == '"':
            i += 1
            while i < n and s[i] != '"':
                if s[i] == '\\':
                    i += 1
                i += 1
        elif c == "'":
            m = _CHARLIT.match(s, i)
            if m:
                i = m.end() - 1
        elif c in '([{':
            stack.append(i)
        elif c in ')]}':
            if not stack:
                raise ValueError('unbalanced ' + s)
            o = stack.pop()
            if i == n - 1:
                return o
        i += 1
    raise ValueError('unbalanced ' + s)


def parse_operand(s):
    return P(s.strip()).operand()


def parse_rvalue(s):
    s = s.strip()
    m = re.match(r'(\w+)\((.*)\)$', s)
    if m and m.group(1) in BINOPS:
        a, b = split_top(m.group(2))
        return Rvalue('binop', (parse_operand(a), parse_operand(b)), m.group(1))
    if m and m.group(1) in UNOPS:
        return Rvalue('unop', (parse_operand(m.group(2)),), m.group(1))
    if s.startswith('discriminant('):
        return Rvalue('discr', (P(s[len('discriminant('):-1]).place(),))
    if s.startswith('Len('):
        return Rvalue('len', (P(s[4:-1]).place(),))
    if s.startswith('&raw '):
        mut = s.startswith('&raw mut ')
        rest = s[len('&raw mut '):] if mut else s[len('&raw const '):]
        return Rvalue('ref', (P(rest).place(),), 'raw')
    if s.startswith('&'):
        rest = s[1:]
        for pre in ('mut ', 'fake shallow ', 'fake '):
            if rest.startswith(pre):
                rest = rest[len(pre):]
        return Rvalue('ref', (P(rest).place(),), 'ref')
    if s.startswith('no_retag '):
        s = s[len('no_retag '):]
    if s.startswith(('copy ', 'move ')):
        # maybe a cast:  copy P as T (Kind)
        p = P(s)
        op = p.operand()
        p.ws()
        if p.eat('as '):
            rest = p.s[p.i:]
            mm = re.match(r'(.*) \((\w+(?:\([^)]*\))?)\)$', rest)
            return Rvalue('cast', (op,), (mm.group(1).strip(), mm.group(2)))
        if p.i < len(p.s.rstrip()):
            raise ValueError('trailing in use: ' + s)
        return Rvalue('use', (op,))
    if s.startswith('const '):
        mm = re.match(r'const (.*) as (.*) \((\w+(?:\([^)]*\))?)\)$', s)
        if mm and not s.startswith('const "') and not s.startswith('const b"'):
            return Rvalue('cast', (Operand('const', const=mm.group(1)),), (mm.group(2), mm.group(3)))
        return Rvalue('use', (Operand('const', const=s[6:]),))
    if s.startswith('('):      # tuple aggregate
        j = match_close(s, 0)
        if j == len(s) - 1:
            parts = split_top(s[1:-1])
            return Rvalue('aggregate', tuple(parse_operand(x) for x in parts), ('tuple', None))
    if s.startswith('['):      # array aggregate / repeat
        inner = s[1:-1]
        if ';' in inner and not inner.startswith(('copy', 'move')) is False:
            pass
        parts = split_top(inner)
        try:
            return Rvalue('aggregate', tuple(parse_operand(x) for x in parts), ('array', None))
        except ValueError:
            return Rvalue('other', (), s)
    # ADT aggregates:  Path::Variant(ops) | Path::Variant | Path { f: op, .. }
    if s.endswith(')'):
        i = open_of(s)
        path = s[:i].strip()
        if path and not path.endswith(('Len', 'discriminant')) and re.match(r'^[A-Za-z_<{]', path):
            try:
                ops = tuple(parse_operand(x) for x in split_top(s[i + 1:-1]))
                return Rvalue('aggregate', ops, ('adt_tuple', path))
            except ValueError:
                return Rvalue('other', (), s)
    if s.endswith('}') and not s.endswith('{closure#0}'):
        i = open_of(s)
        path = s[:i].strip()
        if path and re.match(r'^[A-Za-z_<{]', path):
            flds = []
            try:
                for part in split_top(s[i + 1:-1]):
                    k, v = part.split(':', 1)
                    flds.append((k.strip(), parse_operand(v)))
                return Rvalue('aggregate', tuple(o for _, o in flds), ('adt_struct', path, tuple(k for k, _ in flds)))
            except ValueError:
                return Rvalue('other', (), s)
    if re.match(r'^[A-Za-z_<{][^ ]*$', s) or re.match(r'^[A-Za-z_<][\w:<>, &\'()]*$', s):
        return Rvalue('aggregate', (), ('adt_tuple', s))
    return Rvalue('other', (), s)


def parse_targets(s):
    """'[return: bb7, unwind: bb21]' -> dict"""
    d = {}
    s = s.strip()
    if s.startswith('['):
        for part in split_top(s[1:-1]):
            if ':' in part:
                k, v = part.split(':', 1)
                d[k.strip()] = v.strip()
            else:
                d[part.split()[0]] = part
    else:
        d['_'] = s
    return d


def parse_term(s):
    t = s.strip()
    if t.startswith('goto -> '):
        return Term('goto', {'target': int(t[len('goto -> bb'):])}, t)
    if t in ('return', 'resume', 'unreachable', 'terminate(cleanup)', 'terminate(abi)'):
        return Term(t.split('(')[0], {}, t)
    if t.startswith('switchInt('):
        j = match_close(t, len('switchInt'))
        op = parse_operand(t[len('switchInt('):j])
        arms = t[j + 1:].strip()
        assert arms.startswith('->')
        tg = parse_targets(arms[2:])
        cases, other = [], None
        for k, v in tg.items():
            if k == 'otherwise':
                other = int(v[2:])
            else:
                cases.append((int(k.split('_')[0]) if re.match(r'-?\d+', k) else k, int(v[2:])))
        return Term('switch', {'op': op, 'cases': cases, 'otherwise': other}, t)
    if t.startswith('assert('):
        j = match_close(t, len('assert'))
        inner = split_top(t[len('assert('):j])
        cond = inner[0]
        expected = True
        if cond.startswith('!'):
            expected = False; cond = cond[1:]
        tg = parse_targets(t[j + 1:].strip()[2:])
        return Term('assert', {'cond': parse_operand(cond), 'expected': expected, 'msg': inner[1] if len(inner) > 1 else '',
                               'target': int(tg['success'][2:])}, t)
    if t.startswith('drop('):
        j = match_close(t, len('drop'))
        tg = parse_targets(t[j + 1:].strip()[2:])
        return Term('drop', {'place': P(t[5:j]).place(), 'target': int(tg['return'][2:])}, t)
    # call:  DEST = FUNC(args) -> [return: bbN, unwind ...]   |  FUNC(args) -> unwind continue (diverging)
    m = re.match(r'^(.*?) = (.*)$', t)
    dest = None
    body = t
    if m and re.match(r'^[_(]', m.group(1)) :
        try:
            dest = P(m.group(1)).place(); body = m.group(2)
        except ValueError:
            dest = None
    k = body.rfind(' -> ')
    tgt = parse_targets(body[k + 4:]) if k >= 0 else {}
    callpart = body[:k] if k >= 0 else body
    # function path then (args): find the last top-level '(...)' group
    callpart = callpart.strip()
    assert callpart.endswith(')'), t
    i = open_of(callpart)
    func = callpart[:i].strip()
    args = [parse_operand(a) for a in split_top(callpart[i + 1:-1])]
    ret = tgt.get('return')
    return Term('call', {'dest': dest, 'func': func, 'args': args, 'target': int(ret[2:]) if ret else None}, t)


def parse_mir(text, skipped=None):
    fns = {}
    for ch in re.split(r'\n(?=fn |const |static )', text):
        if ch.startswith(('const ', 'static ')) and ch.split('\n', 1)[0].rstrip().endswith('= {'):
            hdr = ch.split('\n', 1)[0]
            kw = hdr.split(' ', 1)[0]
            nm, ty = hdr[len(kw) + 1:-len(' = {')].rsplit(': ', 1) if ': ' in hdr else (hdr, '')
            ch = 'fn ' + nm + '() -> ' + ty + ' {\n' + ch.split('\n', 1)[1]
        m1 = re.match(r'^(?:const|static) ([\w:<>]+): (.*?) = const (.*);\s*$', ch.split('\n', 1)[0])
        if m1:
            # a one-line constant: `const MAX: usize = const 20_usize;` -> a body that returns the literal
            f = Fn(m1.group(1), [], m1.group(2), {0: m1.group(2)}, {})
            f.blocks[0] = Block([Stmt(Place(0), Rvalue('use', (Operand('const', const=m1.group(3).strip()),)), ch)], Term('return', {}, 'return'))
            fns.setdefault(m1.group(1), f)
            continue
        if not ch.startswith('fn '):
            continue
        try:
            fns.update(_parse_mir(ch))
        except Exception as e:
            if skipped is not None:
                skipped.append((ch.split('\n', 1)[0][:120], str(e)[:100]))
    return fns


def _parse_mir(text):
    fns = {}
    lines = text.split('\n')
    i = 0
    n = len(lines)
    while i < n:
        ln = lines[i]
        if ln.startswith('fn ') and ln.rstrip().endswith('{'):
            hdr = ln[3:].rstrip()[:-1].rstrip()
            # split name(params) -> ret
            # find the params group: first '(' after the last '::name' ... use the first top-level '(' that is followed
            # by '_1:' or ')'
            m = re.search(r'\((_1: |\))', hdr)
            k = m.start()
            name = hdr[:k]
            j = match_close(hdr, k)
            params_s = hdr[k + 1:j]
            ret = hdr[j + 1:].strip()
            ret = ret[2:].strip() if ret.startswith('->') else '()'
            params = []
            for ptxt in split_top(params_s):
                mm = re.match(r'_(\d+): (.*)$', ptxt)
                params.append((int(mm.group(1)), mm.group(2)))
            fn = Fn(name, params, ret, {p: t for p, t in params}, {})
            i += 1
            cur = None
            while i < n and lines[i] != '}':
                l = lines[i].strip()
                mm = re.match(r'let (?:mut )?_(\d+): (.*);$', l)
                if mm:
                    fn.locals[int(mm.group(1))] = mm.group(2)
                mb = re.match(r'bb(\d+)( \(cleanup\))?: \{$', l)
                if mb:
                    body = []
                    i += 1
                    while lines[i].strip() != '}':
                        body.append(lines[i].strip()); i += 1
                    stmts = []
                    for st in body[:-1]:
                        st = st.rstrip(';')
                        if st.startswith(('StorageLive', 'StorageDead', 'nop', 'FakeRead', 'PlaceMention', 'Retag',
                                          'AscribeUserType', 'Coverage', 'ConstEvalCounter', 'BackwardIncompatible')):
                            continue
                        if st.startswith(('assume(', 'Deinit(', 'SetDiscriminant', 'discriminant(', 'copy_nonoverlapping')):
                            stmts.append(Stmt(None, Rvalue('other', (), st), st)); continue
                        eq = st.find(' = ')
                        lhs = P(st[:eq]).place()
                        stmts.append(Stmt(lhs, parse_rvalue(st[eq + 3:]), st))
                    term = parse_term(body[-1].rstrip(';'))
                    fn.blocks[int(mb.group(1))] = Block(stmts, term, bool(mb.group(2)))
                i += 1
            fns.setdefault(name, fn)
        i += 1
    return fns


if __name__ == '__main__':
    import sys, collections
    fns = {}
    txt = open(sys.argv[1]).read()
    ok = bad = 0
    errs = collections.Counter()
    # parse function by function to count failures
    chunks = re.split(r'\n(?=fn )', txt)
    for ch in chunks:
        m1 = re.match(r'^(?:const|static) ([\w:<>]+): (.*?) = const (.*);\s*$', ch.split('\n', 1)[0])
        if m1:
            # a one-line constant: `const MAX: usize = const 20_usize;` -> a body that returns the literal
            f = Fn(m1.group(1), [], m1.group(2), {0: m1.group(2)}, {})
            f.blocks[0] = Block([Stmt(Place(0), Rvalue('use', (Operand('const', const=m1.group(3).strip()),)), ch)], Term('return', {}, 'return'))
            fns.setdefault(m1.group(1), f)
            continue
        if not ch.startswith('fn '):
            continue
        try:
            r = _parse_mir(ch)
            fns.update(r); ok += 1
        except Exception as e:
            bad += 1
            errs[str(e)[:100]] += 1
    print('parsed', ok, 'failed', bad)
    for e, c in errs.most_common(15):
        print(c, e)
    others = collections.Counter()
    for f in fns.values():
        for b in f.blocks.values():
            for s in b.stmts:
                if s.rv.kind == 'other':
                    others[re.sub(r'_\d+', '_N', s.text)[:90]] += 1
    print('other rvalues:', sum(others.values()))
    for e, c in others.most_common(25):
        print(c, e)
