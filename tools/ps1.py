import sys, json
sys.path.insert(0,'/verif')
from vf import build, report
from vf.main import Ctx
import vf.scen_print as sp
run = report.Run('C02','quick',0); tree = build.Tree(); ctx = Ctx(run, tree, 'quick', 0)
r = sp._structure_task((ctx, [json.loads(sys.argv[1])]))
print(r['obl'], r['ok'], r['unhandled'])
for c in r['cands']: print(c['role'], c['text'][:300], c['unmodelled'])
