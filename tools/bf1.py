import sys, os
sys.path.insert(0, os.path.dirname(os.path.dirname(os.path.abspath(__file__))))
from vf import build, report
from vf.main import Ctx
import vf.scen_kernels2 as k2
run = report.Run('C12', 'quick', 0); tree = build.Tree(); ctx = Ctx(run, tree, 'quick', 0)
k2.binding_forms(ctx)
for f in run.families.values(): print(f.name, f.obligations, f.discharged, [(c.role, c.status, c.text[:300], c.unmodelled, str(c.replay)[:200]) for c in f.candidates])
print(dict(run.unmodelled))
