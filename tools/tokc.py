import sys, time
sys.path.insert(0,'/verif')
from vf import build, report
from vf.main import Ctx
from vf.scen_parser import _task
run = report.Run('C01','quick',0); tree = build.Tree(); ctx = Ctx(run, tree, 'quick', 0)
DIG = [ord(c) for c in '0123456789']; NZ=[ord(c) for c in '123456789']
L=int(sys.argv[1])
classes=[[ord('-')]]+[NZ]+[DIG]*(L-1)+[[10]]
r=_task((ctx,len(classes),'nocb',(),classes,['tok.value','tok.consumed'],None))
print(r['paths'], r['fam'])
for c in r['cands'][:8]: print(c['family'],c['role'],c['text'][:300])
