import sys, os
sys.path.insert(0, os.path.dirname(os.path.dirname(os.path.abspath(__file__))))
from vf import build, report
from vf.main import Ctx
import vf.scen_sorter as s
run = report.Run('C05', 'quick', 0); tree = build.Tree(); ctx = Ctx(run, tree, 'quick', 0)
s.sorter(ctx, want_order=False, want_topn=True)
for f in run.families.values(): print(f.name, f.obligations, f.discharged, [(c.role, c.status, c.text[:300], c.unmodelled, str(c.replay)[:200]) for c in f.candidates][:5])
print(dict(run.unmodelled)); print(run.inconclusive[:3])
