import sys, time, traceback
sys.path.insert(0,'/verif')
from vf import build, report
from vf.main import Ctx
import vf.scen_expr as se
run = report.Run('C13','quick',0); tree = build.Tree(); ctx = Ctx(run, tree, 'quick', 0)
orig = se.describe
def dbg(sc, st, g):
    try: return orig(sc, st, g)
    except Exception: traceback.print_exc(); raise
se.describe = dbg
r = se._sep_task((ctx, sys.argv[1], sys.argv[2], int(sys.argv[3]), 'plain'))
print(r['obl'], r['ok']); 
for c in r['cands'][:5]: print(c['role'], c['text'][:300])
print(r['unhandled'])
