#!/bin/bash
# tools/r4_verify.sh <round tag> <out dir> <ID> : confirm the two changes a sub-agent delivered in <out dir>/<ID>/ (m<k>.diff, demo<k>.sh, meta<k>.json)
# in a scratch worktree of /repo (applies alone, compiles, the whole suite passes, the demonstration passes on the original
# and fails on the change) and keep the confirmed ones as seeded/<ID>-<tag>m<k>/
tag=$1; out=$2; id=$3
V=$(cd "$(dirname "$0")/.." && pwd)
wt=/tmp/verify-wt-$id; tgt=/tmp/verify-tgt-$id
git -C /repo worktree remove --force $wt 2>/dev/null; rm -rf $wt
git -C /repo worktree add --detach $wt HEAD >/dev/null 2>&1 || exit 3
cp /repo/Cargo.lock $wt/
export CARGO_NET_OFFLINE=true CARGO_TARGET_DIR=$tgt
( cd $wt && cargo build --offline -q 2>/dev/null ); cp $tgt/debug/jawk /tmp/verify-orig-$id
for k in 1 2; do
  d=$out/$id; [ -f $d/m$k.diff ] || { echo "VERIFY $id m$k: no diff"; continue; }
  ( cd $wt && git checkout -q -- . && git clean -fdq src tests )
  if ! ( cd $wt && git apply $d/m$k.diff ); then echo "VERIFY $id m$k: patch does not apply"; continue; fi
  t=$( cd $wt && cargo test --offline 2>&1 | grep -E "^test result" | awk '{p+=$4; f+=$6} END {print p" passed "f" failed"}' )
  ( cd $wt && cargo build --offline -q 2>/dev/null ) || { echo "VERIFY $id m$k: does not build"; continue; }
  cp $tgt/debug/jawk /tmp/verify-mut-$id
  timeout 120 bash $d/demo$k.sh /tmp/verify-orig-$id >/dev/null 2>&1; o=$?
  timeout 120 bash $d/demo$k.sh /tmp/verify-mut-$id >/dev/null 2>&1; m=$?
  echo "VERIFY $id m$k tests: $t demo_orig=$o demo_mut=$m"
  if [ "$t" = "158 passed 0 failed" ] && [ $o -eq 0 ] && [ $m -ne 0 ]; then
    s=$V/seeded/$id-${tag}m$k; mkdir -p $s
    cp $d/m$k.diff $s/patch.diff; cp $d/demo$k.sh $s/demo.sh
    python3 - "$d/meta$k.json" "$s/meta.json" "$tag" "$id" "$k" "$t" "$o" "$m" <<'PY'
import json, sys
src, dst, tag, pid, k, t, o, m = sys.argv[1:]
try: d = json.load(open(src))
except Exception: d = {'property': pid, 'breaks': '(meta file of the sub-agent unreadable)'}
d['round'] = int(tag[1:]) if tag[1:].isdigit() else tag
d['author'] = 'independent sub-agent given only the property text (and one-line descriptions of the earlier changes to avoid) and a scratch worktree'
d['confirmed_by_me'] = {'how': 'tools/r4_verify.sh: applied alone to a scratch worktree of /repo HEAD; cargo test --offline; cargo build; bash demo.sh <binary> on original and changed binaries',
                        'result': f'tests: {t} demo_orig={o} demo_mut={m}'}
json.dump(d, open(dst, 'w'), indent=1)
PY
  fi
done
git -C /repo worktree remove --force $wt 2>/dev/null; rm -rf $wt $tgt /tmp/verify-orig-$id /tmp/verify-mut-$id
