import sys, os
sys.path.insert(0, os.path.dirname(os.path.dirname(os.path.abspath(__file__))))
from vf import build, report
from vf.main import Ctx
import vf.scen_misc as sm
run = report.Run('C08','quick',0); ctx = Ctx(run, build.Tree(), 'quick', 0)
sm.value_order_arms(ctx)
for f in run.families.values(): print(f.name, f.obligations, f.discharged, [(c.role, c.status, c.text[:100], c.unmodelled, str(c.replay)[:200]) for c in f.candidates][:3])
