import sys, os
sys.path.insert(0, os.path.dirname(os.path.dirname(os.path.abspath(__file__))))
from vf import build, report
from vf.main import Ctx
import vf.scen_parser as sp
run = report.Run('C01', 'quick', 0); tree = build.Tree(); ctx = Ctx(run, tree, 'quick', 0)
Q, BS, ANY = [0x22], [0x5c], None
TERM = [0x20, 0x0a, ord(','), ord(']'), ord('}')]
multi = [(5, [Q, ANY, ANY, Q, TERM]), (5, [Q, BS, ANY, Q, TERM]), (9, [Q, BS, [ord('u')], ANY, ANY, ANY, ANY, Q, TERM])]
sp.tokenizer(ctx, None, ['tok.value', 'tok.consumed', 'tok.end', 'tok.garbage'], 'strings', variants=('nocb',), partition=0, multi=multi)
for f in run.families.values(): print(f.name, f.obligations, f.discharged, [(c.role, c.status, c.text[:160], c.unmodelled) for c in f.candidates][:4])
print(dict(run.unmodelled))
