#!/bin/bash
# tools/seeded_parallel.sh <log> <workers> <seeded dir names...>
# Regression run of the checks over seeded changes WITHOUT touching /repo: each worker gets its own scratch git worktree of
# /repo's HEAD (under /tmp) and its own build cache (under /var/tmp), applies one change at a time there, runs the quick
# check of the change's property (VERIF_REPO / VERIF_CACHE point the framework at the scratch worktree) and undoes it.
# One result line per change is appended to <log> (same format as tools/seeded_batch.sh, read by tools/mkmatrix.py).
# The worktrees and caches are removed at the end. `benign/<i>` names run seeded/benign/refactor<i>.diff on the
# properties listed in seeded/benign/refactor<i>.txt.
log=$(realpath -m "$1"); W=$2; shift 2
V=$(cd "$(dirname "$0")/.." && pwd); cd $V
names=("$@")
MAIN=${VERIF_CACHE:-/var/tmp/jawk-verif-cache}
worker() {
  i=$1; shift
  wt=/tmp/jv-wt-$$-$i; cache=/var/tmp/jv-cache-$$-w$i          # unique per invocation: two regression runs may overlap
  git -C /repo worktree remove --force $wt 2>/dev/null; rm -rf $wt $cache
  git -C /repo worktree add --detach $wt HEAD >/dev/null 2>&1 || { echo "worker $i: no worktree" >> $log; return; }
  cp /repo/Cargo.lock $wt/ 2>/dev/null   # git-ignored in jawk, needed for offline builds
  mkdir -p $cache
  for d in target-nightly target-stable target-kani-0 target-calib; do [ -d $MAIN/$d ] && cp -a $MAIN/$d $cache/$d; done
  cp $MAIN/fmt-calib-*.json $cache/ 2>/dev/null
  export VERIF_REPO=$wt VERIF_CACHE=$cache VERIF_PROCS=${VERIF_PROCS:-6}
  for name in "$@"; do
    if [[ $name == benign2/* ]]; then
      n=${name#benign2/}; diff=seeded/benign2/refactor$n.diff; ids=$(python3 -c "import json; print(' '.join(json.load(open('seeded/benign2/props.json'))['$n']))")
    elif [[ $name == benign/* ]]; then
      n=${name#benign/}; diff=seeded/benign/refactor$n.diff; ids=$(python3 -c "import json; print(' '.join(json.load(open('seeded/benign/props.json'))['$n']))")
    else
      diff=seeded/$name/patch.diff; ids=${name%%-*}
    fi
    s=$(date +%s)
    res=$(tools/try_mutant.sh $diff $ids 2>&1)
    for id in $ids; do
      code=$(echo "$res" | grep -oE "^== $id exit=[0-9]+" | grep -oE "[0-9]+$")
      first=$(echo "$res" | sed -n "/^== $id /,/^== /p" | grep -E "^(VIOLATION|BROKEN)" | head -1 | sed 's/.*#//' | cut -c1-200)
      inc=$(echo "$res" | sed -n "/^== $id /,/^== /p" | grep -c "^INCONCLUSIVE")
      lab=$name; [[ $name == benign* ]] && lab="$name@$id"
      echo "$lab exit=$code inconclusive=$inc :: $first  ($(( $(date +%s) - s ))s)" >> $log
    done
  done
  git -C /repo worktree remove --force $wt 2>/dev/null; rm -rf $wt $cache
}
pids=()
for ((i=0; i<W; i++)); do
  mine=()
  for ((j=i; j<${#names[@]}; j+=W)); do mine+=("${names[$j]}"); done
  [ ${#mine[@]} -gt 0 ] && { worker $i "${mine[@]}" & pids+=($!); }
done
wait "${pids[@]}"
git -C /repo worktree prune
echo "done: $(wc -l < $log) result lines in $log"
