"""debug driver: python3-vt tools/nas1.py [names]  (SERIAL=1: per-function detail without replay)"""
import sys, json, os
sys.path.insert(0, os.path.dirname(os.path.dirname(os.path.abspath(__file__))))
from vf import build, report
from vf.main import Ctx
import vf.scen_nas as sn
run = report.Run('C19', 'quick', 0); tree = build.Tree(); ctx = Ctx(run, tree, 'quick', 0)
names = sys.argv[1:] or None
if os.environ.get('SERIAL'):
    inl = sn.nas_inline(ctx)
    for e in sn.table():
        if names and e['name'] not in names: continue
        r = sn._task((ctx, e, inl))
        print(e['name'], 'paths', r['paths'], 'obl', r['obl'], 'ok', r['ok'], 'unh', r['unh'])
        for c in r['cands'][:6]: print('   ', c['role'], c['text'][:400], '| unmodelled:', c['unmodelled'])
else:
    sn.nas_wiring(ctx, names)
    for f in run.families.values():
        print(f.name, f.obligations, f.discharged, [(c.role, c.status, c.text[:200], c.unmodelled, str(c.replay)[:300]) for c in f.candidates][:4])
    print(dict(run.unmodelled))
