"""run the native demonstrations of vf/scen_nas.py against the binary of the current tree: all must agree with exact arithmetic"""
import sys, os
sys.path.insert(0, os.path.dirname(os.path.dirname(os.path.abspath(__file__))))
from vf import build, report
import vf.scen_nas as sn
class C: pass
ctx = C(); ctx.tree = build.Tree(); ctx.run = report.Run('C19', 'quick', 0)
pairs = []
for e in sn.table():
    c = report.Candidate('nas', 'demo', e['name']); pairs.append((e, c))
sn.replay_nas(ctx, pairs)
for e, c in pairs: print(e['name'], c.status, str(c.replay)[:300] if c.status == 'reproduced' else '')
