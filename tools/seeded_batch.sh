#!/bin/bash
# tools/seeded_batch.sh <log> <seeded dir names...> : run every named seeded change (seeded/<name>/patch.diff) through the
# quick check of its property on ${VERIF_REPO:-/repo}; one result line per change is appended to <log>
log=$1; shift
cd /verif
for name in "$@"; do
  id=${name%%-*}
  res=$(tools/try_mutant.sh seeded/$name/patch.diff $id 2>&1)
  code=$(echo "$res" | grep -oE "^== $id exit=[0-9]+" | grep -oE "[0-9]+$")
  first=$(echo "$res" | grep -E "^(VIOLATION|BROKEN)" | head -1 | sed 's/.*#//' | cut -c1-200)
  inc=$(echo "$res" | grep -c "^INCONCLUSIVE")
  echo "$name exit=$code inconclusive=$inc :: $first" >> $log
done
