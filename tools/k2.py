"""debug driver: python3-vt tools/k2.py [function names...]  - run the table-driven kernels on the current tree"""
import sys, json, os
sys.path.insert(0, os.path.dirname(os.path.dirname(os.path.abspath(__file__))))
from vf import build, report
from vf.main import Ctx
import vf.scen_kernels2 as k2
run = report.Run('C04', 'quick', 0); tree = build.Tree(); ctx = Ctx(run, tree, 'quick', 0)
names = sys.argv[1:] or None
if os.environ.get('FN'):
    inl = k2.conversions(ctx)
    for e in k2.fn_table():
        if names and e['name'] not in names: continue
        r = k2._ftask((ctx, e, inl))
        print(e['name'], 'paths', r['paths'], 'obl', r['obl'], 'ok', r['ok'], 'unh', r['unh'])
        for c in r['cands'][:6]: print('   ', c['role'], c['text'][:500], '| unmodelled:', c['unmodelled'])
elif os.environ.get('SERIAL'):
    inl = k2.conversions(ctx)
    for e in k2.table():
        if names and e['name'] not in names: continue
        r = k2._task((ctx, e, inl))
        print(e['name'], 'paths', r['paths'], 'obl', r['obl'], 'ok', r['ok'], 'unh', r['unh'])
        for c in r['cands'][:6]: print('   ', c['role'], c['text'][:400], '| unmodelled:', c['unmodelled'])
else:
    k2.kernels2(ctx, names)
    for f in run.families.values():
        print(f.name, f.obligations, f.discharged, [(c.role, c.status, c.text[:200], c.unmodelled) for c in f.candidates][:4])
    print(dict(run.unmodelled))
