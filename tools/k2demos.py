"""python3-vt tools/k2demos.py : run the fixed native demonstrations of vf/scen_kernels2.py against the binary built from the current tree (they must all give the documented value on a correct tree)"""
import sys, json, os, subprocess
sys.path.insert(0, os.path.dirname(os.path.dirname(os.path.abspath(__file__))))
from vf import build
import vf.scen_kernels2 as k2
exe = build.Tree().binary()
bad = 0; n = 0
for e in k2.table() + k2.fn_table():
    for expr, exp in e['demos']:
        p = subprocess.run([exe, '--select', expr + '=r', '--style', 'consise', '--utf8-strings'], input=b'{}', stdout=subprocess.PIPE, stderr=subprocess.PIPE)
        out = p.stdout.decode().strip(); n += 1
        try: got = json.loads(out).get('r', 'nothing')
        except Exception: got = 'unparsable:' + out + p.stderr.decode()[-100:]
        if not k2.jsame(got, exp): bad += 1; print('DEMO MISMATCH', e['name'], expr, 'expected', exp, 'got', got)
print(n, 'demos,', bad, 'mismatches')
