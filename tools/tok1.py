"""debug helper: run one tokenizer task: tok1.py <n> <variant> [part,part]"""
import sys, time
sys.path.insert(0,'/verif')
from vf import build, report
from vf.main import Ctx
from vf.scen_parser import _task, FIRST_CLASSES
run = report.Run('C01','quick',0); tree = build.Tree(); ctx = Ctx(run, tree, 'quick', 0)
n=int(sys.argv[1]); variant=sys.argv[2]; part=tuple(sys.argv[3].split(',')) if len(sys.argv)>3 and sys.argv[3] else ()
t0=time.time()
r=_task((ctx,n,variant,part,None,['tok.value','tok.consumed','tok.end','tok.garbage','tok.progress','tok.nopanic','tok.location','tok.no_io_error'],None))
print('paths',r['paths'],'queries',r['queries'],'time',round(time.time()-t0,1))
print(r['fam']); 
for c in r['cands'][:8]: print(c['family'],c['role'],c['text'][:200])
print(r['unhandled'])
