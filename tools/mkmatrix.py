#!/usr/bin/env python3
"""tools/mkmatrix.py [batch logs...] : record the result lines of tools/seeded_batch.sh in seeded/<name>/meta.json
(`detected_by`) and regenerate the table of DESIGN.md section 0.6 from all meta files"""
import json, os, re, sys, glob
V = os.path.dirname(os.path.dirname(os.path.abspath(__file__)))
for log in sys.argv[1:]:
    for line in open(log):
        m = re.match(r'^(\S+) exit=(\d*) inconclusive=(\d+) :: ?(.*)$', line.rstrip('\n'))
        if not m: continue
        name, code, inc, first = m.group(1), m.group(2), int(m.group(3)), m.group(4).strip()
        p = os.path.join(V, 'seeded', name, 'meta.json')
        if not os.path.exists(p): continue          # benign/<i>@<property> lines have no meta file
        d = json.load(open(p))
        code = int(code) if code else None
        d['detected_by'] = {'check': f'./check {name.split("-")[0]} --tier quick', 'exit': code, 'first_line': first, 'inconclusive_lines': inc,
                            'verdict': 'VIOLATION (exit 1)' if code == 1 else 'not detected' if code == 0 else 'not detected cleanly (exit 2)'}
        json.dump(d, open(p, 'w'), indent=1)
rows = []
def order(n):
    m = re.match(r'(C\d+)-(?:r(\d))?m(\d)', n); return (m.group(1), int(m.group(2) or 1), int(m.group(3)))
names = sorted([os.path.basename(os.path.dirname(p)) for p in glob.glob(os.path.join(V, 'seeded', 'C*', 'meta.json'))], key=order)
stats = {}
for n in names:
    d = json.load(open(os.path.join(V, 'seeded', n, 'meta.json')))
    db = d.get('detected_by') or {}
    fs = d.get('detected_when_first_seen') or {}
    rnd = d.get('round', 1)
    s = stats.setdefault(rnd, {'n': 0, 'first': 0, 'now': 0})
    s['n'] += 1; s['now'] += db.get('exit') == 1; s['first'] += str(fs.get('exit')) == '1'
    esc = lambda t: (t or '').replace('|', '/').replace('\n', ' ')
    rows.append(f"| {n} | {esc(d.get('breaks', ''))[:110]} | {db.get('verdict', '?')} | {esc(db.get('first_line', ''))[:70]} | {('exit ' + str(fs['exit'])) if fs.get('exit') not in (None, '') else '—'} |")
table = '| change | what it breaks (abridged) | caught by `./check <property> --tier quick` | family [role] | first sight |\n|---|---|---|---|---|\n' + '\n'.join(rows) + '\n'
p = os.path.join(V, 'DESIGN.md'); s = open(p).read()
a = s.index('| change | what it breaks (abridged)'); b = s.index('\n## 1. The technique')
s = s[:a] + table + s[b:]
open(p, 'w').write(s)
for r, v in sorted(stats.items()): print(f'round {r}: {v["n"]} changes, {v["first"]} at first sight (exit 1), {v["now"]} now')
