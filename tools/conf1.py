import sys, os
sys.path.insert(0, os.path.dirname(os.path.dirname(os.path.abspath(__file__))))
from vf import build, report, conform
import random
class C: pass
ctx = C(); ctx.tree = build.Tree(); ctx.run = report.Run('C03', 'quick', 0); ctx.rng = random.Random(int(os.environ.get('VERIF_SEED', '0')))
print(conform.conformance(ctx, sys.argv[1:] or list(conform.BATTERIES)))
for n in ctx.run.inconclusive: print(n)
for n in ctx.run.notes: print(n)
