#!/usr/bin/env python3
"""regenerate MANIFEST.json from the table below (kept valid at all times)"""
import json, os
V = os.path.dirname(os.path.dirname(os.path.abspath(__file__)))
props = [json.loads(l) for l in open(os.path.join(V, 'properties.jsonl'))]
M = 'symbolic execution of rustc MIR + SMT (z3)'
K = 'Kani/CBMC bounded model checking'
CLAIMED = {
    'C01': (M + ' + ' + K, 'one next_json_value call from an arbitrary reader state on n free bytes (all 256 values each) against a symbolic RFC 8259 reference: value/denotation, bytes consumed, look-ahead, garbage resynchronisation; string tokens and number tokens by class with every byte free; read loop: one context per value; From<f64> normalisation over every finite double (Kani); concrete translator self-check against the real binary'),
    'C02': (M + ' + ' + K, 'print_string on 1..2 free code points x utf8_strings against a symbolic RFC 8259 string reader; value shapes x free style against the exact text; numbers handed to Display unchanged; one write per row with the separator; arithmetic never yields a non-finite number (Kani)'),
    'C03': (M, 'the chain built by go() for every option subset (vectors <= 2) against the documented order, capacity placement, complete() after the last read; each stage one step against its list-transformer contract, Break and Err forwarding with free successor answers; start/complete forwarding; limiter, sorter, collectors, unique, contexts, titles, --set collection'),
    'C04': (M + ' + ' + K, 'function kernels (executed from their MIR with the conversions of jawk inlined, references written from the documentation) take/take_last/sub/pop/pop_first/first/last/push/push_front/reverese/head/tail/size/get/range/put/keys/values/default, fold (every answer pattern of the function argument) on arrays and objects of 0..3 opaque elements and on every well-formed UTF-8 string of 0..3 bytes, counts any u64; contexts, pipe, :var/@macro, every function name and alias read back whole; arithmetic kernels on all finite doubles (Kani); table-driven kernels over every combination of argument shapes incl. ill-typed and absent ones: and or xor not if, the seven type tests, the five casts, all any concat join indexed entries insert_if_absent replace_if_exists; functions with a function argument (filter_keys filter_values map_keys map_values flat_map group_by map filter) over every script of answers, with the evaluation contexts; number-as-string functions against exact rational arithmetic'),
    'C05': (M + ' + ' + K, 'panic paths and progress of the tokenizer on n free bytes and on string tokens by class; panic paths of all function kernels of C04 incl. the table-driven ones (slicing, overflow, unwrap, indexing); expression reader on every text of <= 3 bytes; expression-name truncation; read loop; arithmetic on integer pairs over the full 64-bit ranges (Kani)'),
    'C06': (M, 'read_input over every parser outcome x 4 policies x every successor/write outcome; a garbage byte costs exactly one byte and one recoverable error from any reader state; counters and locations handed to the context'),
    'C07': (M + ' + ' + K, 'SortProcess over k rows with free key ranks (ties, absent keys, both directions, with and without capacity); chain order of repeated --sort-by; JsonValue::cmp arm by arm over the 36 type pairs; sort functions delegate to stable sorts; order axioms of NumberValue/JsonValue scalars over full payload ranges (Kani)'),
    'C08': (M, 'limiter step from any counters (inductive), top-N sorter with capacity over k rows with free key ranks, capacity placement and complete() in the chain built by go() for every option subset'),
    'C09': (M, 'GrouperProcess / Merger over k rows with keys absent / string (free identity) / non-string, k = 0 included; limiter and sorter forward complete(); go() completes the chain whatever was read; limiter step'),
    'C10': (M + ' + ' + K, 'Uniquness over k rows with keys free under an abstract equivalence; Context::key; the getter of `=` is PartialEq::eq on both values and nothing else; Hash agrees with Eq on scalars in normal form, From<f64> normalisation, exact integer equality (Kani)'),
    'C11': (M, 'frame condition (no write through self) and contract of the stateless stages for every getter result and successor answer; the context is built from the value and its locations only; the regex cache key is the pattern text; MIR inventory of interior-mutability types outside the writers / regex cache / function table (premise of the frame argument), hits replayed natively as out(A.B) = out(A).out(B)'),
    'C12': (M, 'Context::with_* and parent_input on contexts with 0..2 parents/results/variables; the pipe function; :var / @macro evaluation in the current context'),
    'C13': (M, 'argument separators (1..2 free bytes over blanks and commas) between every kind of argument, non-ASCII variable names included; option readers accept exactly their documented tail; every declared function name and alias is read back whole; context derivations; regex cache key'),
    'C14': (M, 'Break forwarding of every upstream stage for every successor answer; limiter step; read loop stops after Break; the limiter is in the chain whenever --skip/--take is given'),
    'C15': (M, 'text/csv row layout for N <= 3 columns x headers x present/absent values x write outcomes; csv quoting of 1..2 free code points decoded by a symbolic RFC 4180 reader; titles; numbers; the csv preset constants and the escape table built from --escape-sequance entries of 0..3 free ASCII bytes'),
    'C16': (M, 'read failure injected at every position of the tokenizer input; read loop, stages and limiter propagate Err for every successor answer; both output processes return a failing write'),
    'C17': (M, 'location bookkeeping per tokenizer call from any location; counters and locations handed to the context in the read loop; one fresh reader per file, files in argv order with one index; every stage derives its context from the one it received'),
    'C18': (M, 'every validation precedes start/stdin/read in go() for every option subset and validation outcome; every option reader rejects trailing text (free bytes); duplicate --set names; every truncated call (text ending inside an open parenthesis, free trailing separators) is rejected; FunctionDefinitions::create is Err exactly outside [min, max] for free 64-bit min, max and argument count'),
    'C19': (M + ' + ' + K, 'integer spellings of 1..20 digits with every digit value free: exact Positive/Negative on [-2^63,2^64), digit string to parse::<f64> otherwise; printing hands the integer to Display unchanged; usize conversions and integer equality exact (Kani). Number-as-string functions: their MIR with bigdecimal modelled as exact rational arithmetic (z3 Real) - which operation on which arguments in which order, folds over all arguments, the zero-divisor guard, results spelled by normalized().to_string() only, nothing for non-numeric arguments; every other bigdecimal call is unmodelled and settled by native replay on 120-digit decimals. That the crate itself computes exactly is trusted, not verified (heap big-integer loops are out of reach)'),
}
NA = {
    'C20': 'process-boundary property (child process, file descriptors, exit status, clap on env args): main() has no symbolic inputs and neither engine can execute process creation / std::process::exit; see DESIGN.md section 6 C20',
}
m = {"version": 1, "setup_cmd": "./setup.sh",
     "hooks": {"guard": "none", "enable": "no source hook: Engine M reads MIR dumped from an untouched scratch copy of /repo; Kani harnesses (cfg(kani)) and unit replays (cfg(test)) are appended to scratch copies only",
               "baseline_off_cmd": "cd /repo && cargo test --workspace --no-fail-fast --offline", "source_commits": [], "add_only": True},
     "engines": [{"name": "mirsym", "path": "vf/", "serves_properties": sorted(k for k, v in CLAIMED.items() if v[0] == M), "kind_free_text": "own symbolic executor for rustc MIR (dumped from /repo's working tree on every run) + z3; calls that leave jawk are replaced by the summaries listed in each evidence file"},
                 {"name": "kani", "path": "kani/", "serves_properties": sorted(k for k, v in CLAIMED.items() if K in v[0]), "kind_free_text": "Kani 0.68 / CBMC harnesses appended to a scratch copy of the file under test"}],
     "checks": [], "notes": "see DESIGN.md; known findings in known_findings.txt", "not_applicable": []}
for p in props:
    i = p['id']
    if i in CLAIMED:
        tech, text = CLAIMED[i]
        m['checks'].append({"property_id": i, "quick_cmd": f"./check {i} --tier quick", "thorough_cmd": f"./check {i} --tier thorough", "evidence_file": f"/verif/evidence/{i}.json",
                            "replay_cmd_template": f"./check {i} --replay {{path}}", "engine": "mirsym" if tech == M else "mirsym+kani",
                            "level_claimed": {"category": "model_checking", "text": "bounded symbolic model checking of the real code: " + text + ". Every verdict is the solver's over all values inside the stated bounds; nothing is claimed outside them.", "design_ref": "DESIGN.md section 6 " + i},
                            "level_note": "trusted: rustc's MIR dump, the MIR interpreter (vf/mirsym.py), the std summaries listed in the evidence file, z3; induction arguments gluing per-step results are written in DESIGN.md, not machine-checked",
                            "technique": tech})
    else:
        m['not_applicable'].append({"property_id": i, "reason": NA.get(i, "check not built yet (framework under construction) - see DESIGN.md for the planned obligations")})
json.dump(m, open(os.path.join(V, 'MANIFEST.json'), 'w'), indent=1)
print('claimed', len(m['checks']), 'not applicable', len(m['not_applicable']))
