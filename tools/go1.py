import sys, os
sys.path.insert(0, os.path.dirname(os.path.dirname(os.path.abspath(__file__))))
from vf import build, report
from vf.main import Ctx
import vf.scen_go as sg
run = report.Run('C07', 'quick', 0); tree = build.Tree(); ctx = Ctx(run, tree, 'quick', 0)
combo = tuple(int(x) for x in sys.argv[1:5])
r = sg._combo((ctx, combo))
print({k: v for k, v in r['fam'].items()}); print(r['unhandled'])
seen=set()
for c in r['cands']:
    if (c['family'], c['role']) in seen: continue
    seen.add((c['family'], c['role'])); print(c['family'], c['role'], c['text'][:300], '|', c['unmodelled'])
