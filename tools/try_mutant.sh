#!/bin/bash
# tools/try_mutant.sh <patch.diff> <property ids...> : apply a seeded change to the repository under test (/repo, or
# $VERIF_REPO for a scratch worktree), run the named quick checks, undo it
V=$(cd "$(dirname "$0")/.." && pwd)
diff=$(realpath "$1"); shift
R=${VERIF_REPO:-/repo}
cd $R || exit 3
if ! git diff --quiet; then echo "$R is dirty"; exit 3; fi
git apply "$diff" || { echo "patch does not apply"; exit 3; }
trap "git -C $R checkout -- . ; git -C $R clean -fdq src tests 2>/dev/null" EXIT
cd $V
for id in "$@"; do
  out=$(./check $id --tier ${TIER:-quick} 2>&1); code=$?
  echo "== $id exit=$code :: $(echo "$out" | grep -E "^C[0-9]+ tier=" | tail -1)"
  echo "$out" | grep -E "^(VIOLATION|BROKEN|INCONCLUSIVE)" | cut -c1-400 | head -8
done
