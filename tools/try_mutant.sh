#!/bin/bash
# tools/try_mutant.sh <patch.diff> <property ids...> : apply a seeded change to /repo, run the named quick checks, undo it
diff=$1; shift
cd /repo || exit 3
if ! git diff --quiet; then echo "/repo is dirty"; exit 3; fi
git apply "$(cd /verif; realpath "$diff")" 2>/dev/null || git apply "$diff" || { echo "patch does not apply"; exit 3; }
trap 'git -C /repo checkout -- . ; git -C /repo clean -fdq src tests 2>/dev/null' EXIT
cd /verif
for id in "$@"; do
  out=$(./check $id --tier ${TIER:-quick} 2>&1); code=$?
  echo "== $id exit=$code :: $(echo "$out" | grep -E "^C[0-9]+ tier=" | tail -1)"
  echo "$out" | grep -E "^(VIOLATION|BROKEN|INCONCLUSIVE)" | cut -c1-400 | head -8
done
