#!/usr/bin/env python3
"""tools/first_sight.py <batch log> : record the result lines of a regression run as `detected_when_first_seen` in seeded/<name>/meta.json (only where none is recorded yet)"""
import json, os, re, sys
V = os.path.dirname(os.path.dirname(os.path.abspath(__file__)))
for line in open(sys.argv[1]):
    m = re.match(r'^(C\d+-\S+) exit=(\d*) inconclusive=(\d+) :: ?(.*)$', line.rstrip('\n'))
    if not m: continue
    p = os.path.join(V, 'seeded', m.group(1), 'meta.json')
    if not os.path.exists(p): continue
    d = json.load(open(p))
    if d.get('detected_when_first_seen'): continue
    d['detected_when_first_seen'] = {'exit': m.group(2), 'first_line': m.group(4).strip()[:300], 'inconclusive_lines': int(m.group(3)), 'note': 'result of ./check <property> --tier quick with the machinery as it was before this round was looked at'}
    json.dump(d, open(p, 'w'), indent=1)
    print(m.group(1), 'first sight exit', m.group(2))
