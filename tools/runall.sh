#!/bin/bash
# run every registered check (quick by default) on /repo as it is and validate the evidence files
cd "$(dirname "$0")/.."
tier=${1:-quick}; shift
ids=${@:-$(python3 -c "import json; print(' '.join(c['property_id'] for c in json.load(open('MANIFEST.json'))['checks']))")}
rc=0
for id in $ids; do
  s=$(date +%s)
  out=$(./check $id --tier $tier 2>&1); code=$?
  echo "$id exit=$code $(( $(date +%s) - s ))s :: $(echo "$out" | grep -E "^C[0-9]+ tier=" | tail -1)"
  echo "$out" | grep -E "^(VIOLATION|KNOWN-FINDING|BROKEN|INCONCLUSIVE)" | cut -c1-300
  [ $code -ne 0 ] && rc=1
done
python3-vt - <<'PY'
import json, jsonschema, glob
S = json.load(open('/root/.vp/EVIDENCE.schema.json'))
jsonschema.validate(json.load(open('MANIFEST.json')), json.load(open('/root/.vp/MANIFEST.schema.json')))
for c in json.load(open('MANIFEST.json'))['checks']:
    jsonschema.validate(json.load(open(c['evidence_file'])), S)
print('manifest and evidence files validate')
PY
exit $rc
