import sys, os
sys.path.insert(0, os.path.dirname(os.path.dirname(os.path.abspath(__file__))))
from vf import build, report
from vf.main import Ctx
import vf.scen_expr as s
run = report.Run('C18', 'quick', 0); tree = build.Tree(); ctx = Ctx(run, tree, 'quick', 0)
s.index_overflow(ctx)
for f in run.families.values(): print(f.name, f.obligations, f.discharged, [(c.role, c.status, c.text[:200], c.unmodelled, str(c.replay)[:200]) for c in f.candidates])
print(dict(run.unmodelled))
