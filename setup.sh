#!/bin/bash
# Build the framework from files on disk only (offline): warm the dependency caches so that each check's rebuild of
# /repo's current tree takes seconds. Nothing produced here is *needed* later - every check rebuilds what is missing.
cd "$(dirname "$0")"
export CARGO_NET_OFFLINE=true
python3-vt -c "import sys; sys.path.insert(0,'.'); from vf import build; t=build.warm(); print('warm', t.hash, build.TIMES)"
