// In-process replay driver: runs the *public* API of the crate under test (Cli::parse_from + jawk::go) with
//  - stdin bytes taken from this process' stdin (optionally repeated for ever: ENDLESS=1),
//  - separate stdout / stderr buffers,
//  - WRITE_CHUNK=n: writers that take at most n bytes per write call (short writes),
//  - an optional injected read failure at byte offset FAIL_READ_AT and write failure at byte offset FAIL_WRITE_AT,
// and prints one machine-readable line per observable. No hook in the crate is needed.
use clap::Parser;
use std::cell::RefCell;
use std::io::{Read, Write};
use std::rc::Rc;
use std::sync::atomic::{AtomicUsize, Ordering};
use std::sync::Arc;

struct Src { data: Vec<u8>, pos: usize, fail_at: Option<usize>, endless: bool, pulled: Arc<AtomicUsize>, limit: usize, chunk: usize }
impl Read for Src {
    fn read(&mut self, buf: &mut [u8]) -> std::io::Result<usize> {
        let n = self.pulled.load(Ordering::SeqCst);
        if Some(n) == self.fail_at { return Err(std::io::Error::new(std::io::ErrorKind::Other, "injected read failure")); }
        if buf.is_empty() { return Ok(0); }
        if self.pos >= self.data.len() {
            if self.endless && !self.data.is_empty() && n < self.limit { self.pos = 0; } else { return Ok(0); }
        }
        // READ_CHUNK=n: up to n bytes per read call (default 1), never across the wrap-around of an endless stream or a failure offset
        let mut n = self.chunk.min(buf.len()).min(self.data.len() - self.pos).max(1);
        if let Some(f) = self.fail_at { if f > self.pulled.load(Ordering::SeqCst) { n = n.min(f - self.pulled.load(Ordering::SeqCst)); } }
        buf[..n].copy_from_slice(&self.data[self.pos..self.pos + n]); self.pos += n; self.pulled.fetch_add(n, Ordering::SeqCst); Ok(n)
    }
}
struct Sink { data: Vec<u8>, fail_at: Option<usize>, kind: std::io::ErrorKind, chunk: Option<usize> }
impl Write for Sink {
    fn write(&mut self, buf: &[u8]) -> std::io::Result<usize> {
        if let Some(k) = self.fail_at {
            if self.data.len() >= k { return Err(std::io::Error::new(self.kind, "injected write failure")); }
            let room = k - self.data.len();
            let n = room.min(buf.len());
            self.data.extend_from_slice(&buf[..n]);
            return Ok(n);
        }
        // WRITE_CHUNK=n: a writer that accepts at most n bytes per call (short writes are legal for io::Write::write)
        let n = self.chunk.map(|c| c.min(buf.len())).unwrap_or(buf.len());
        self.data.extend_from_slice(&buf[..n]); Ok(n)
    }
    fn flush(&mut self) -> std::io::Result<()> { Ok(()) }
}
fn hex(b: &[u8]) -> String { b.iter().map(|x| format!("{:02x}", x)).collect() }
fn envn(k: &str) -> Option<usize> { std::env::var(k).ok().and_then(|s| s.parse().ok()) }
fn main() {
    let args: Vec<String> = std::env::args().collect();
    let mut input = Vec::new(); std::io::stdin().read_to_end(&mut input).unwrap();
    let cli = match jawk::Cli::try_parse_from(args) { Ok(c) => c, Err(e) => { println!("result=cli-error {}", e.kind()); return; } };
    let kind = match std::env::var("FAIL_WRITE_KIND").as_deref() { Ok("brokenpipe") => std::io::ErrorKind::BrokenPipe, Ok("interrupted") => std::io::ErrorKind::Interrupted, Ok("wouldblock") => std::io::ErrorKind::WouldBlock, _ => std::io::ErrorKind::Other };
    let out = Rc::new(RefCell::new(Sink { data: vec![], fail_at: envn("FAIL_WRITE_AT"), kind, chunk: envn("WRITE_CHUNK") }));
    let err = Rc::new(RefCell::new(Sink { data: vec![], fail_at: None, kind: std::io::ErrorKind::Other, chunk: envn("WRITE_CHUNK") }));
    let pulled = Arc::new(AtomicUsize::new(0)); let p2 = pulled.clone();
    let fail_at = envn("FAIL_READ_AT"); let endless = std::env::var("ENDLESS").is_ok(); let limit = envn("ENDLESS_LIMIT").unwrap_or(1_000_000);
    let r = std::panic::catch_unwind(std::panic::AssertUnwindSafe(|| {
        jawk::go(cli, out.clone(), err.clone(), Box::new(move || Src { data: input.clone(), pos: 0, fail_at, endless, pulled: p2.clone(), limit, chunk: envn("READ_CHUNK").unwrap_or(1) }))
    }));
    match r {
        Ok(Ok(())) => println!("result=ok"),
        Ok(Err(e)) => println!("result=err {}", e.to_string().replace('\n', " ")),
        Err(_) => println!("result=panic"),
    }
    println!("pulled={}", pulled.load(Ordering::SeqCst));
    println!("stdout={}", hex(&out.borrow().data));
    println!("stderr={}", hex(&err.borrow().data));
}
