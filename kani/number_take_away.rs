// target: src/functions/number/take_away.rs
// Kani: (- a b) on two finite doubles / numbers of any variant is nothing, an integer or a *finite* double (C02.c, C04)
#[cfg(kani)]
mod verif_kani {
    use super::*;
    use crate::json_value::NumberValue;
    struct F(f64);
    impl Get for F { fn get(&self, _: &Context) -> Option<JsonValue> { Some(JsonValue::Number(NumberValue::Float(self.0))) } }
    struct U(u64);
    impl Get for U { fn get(&self, _: &Context) -> Option<JsonValue> { Some(JsonValue::Number(NumberValue::Positive(self.0))) } }
    struct S(bool);
    impl Get for S { fn get(&self, _: &Context) -> Option<JsonValue> { if self.0 { Some(JsonValue::Boolean(true)) } else { None } } }
    fn stub_random_state() -> std::hash::RandomState { unsafe { std::mem::transmute::<[u64; 2], std::hash::RandomState>([0, 0]) } }

    #[kani::proof]
    #[kani::stub(std::hash::RandomState::new, stub_random_state)]
    #[kani::unwind(4)]
    fn k_take_away_finite() {
        let a: f64 = kani::any(); let b: f64 = kani::any();
        kani::assume(a.is_finite() && b.is_finite());
        let f = super::get();
        let g = f.create(vec![Rc::new(F(a)), Rc::new(F(b))]).ok().unwrap();
        let ctx = Context::new_empty();
        let r = g.get(&ctx);
        match &r {
            Some(JsonValue::Number(NumberValue::Float(x))) => assert!(x.is_finite()),
            Some(JsonValue::Number(_)) => {}
            None => {}
            _ => assert!(false),
        }
        kani::cover!(true);
        std::mem::forget((r, ctx, g, f));
    }

    #[kani::proof]
    #[kani::stub(std::hash::RandomState::new, stub_random_state)]
    #[kani::unwind(4)]
    fn k_take_away_ill_typed_is_nothing() {
        let f = super::get();
        let g = f.create(vec![Rc::new(S(kani::any())), Rc::new(U(kani::any()))]).ok().unwrap();
        let ctx = Context::new_empty();
        let r = g.get(&ctx);
        assert!(r.is_none());
        kani::cover!(true);
        std::mem::forget((r, ctx, g, f));
    }

    struct I(i64);
    impl Get for I { fn get(&self, _: &Context) -> Option<JsonValue> { Some(JsonValue::Number(NumberValue::Negative(self.0))) } }
    fn num(kind: u8) -> Rc<dyn Get> {
        match kind { 0 => Rc::new(U(kani::any())), 1 => Rc::new(I(kani::any())), _ => { let f: f64 = kani::any(); kani::assume(f.is_finite()); Rc::new(F(f)) } }
    }
    /// both arguments integers of either sign over their full 64-bit ranges: no panic (overflow, division), result nothing / integer / finite double
    #[kani::proof]
    #[kani::stub(std::hash::RandomState::new, stub_random_state)]
    #[kani::unwind(4)]
    fn k_take_away_integer_pairs() {
        for ka in 0..2u8 { for kb in 0..2u8 {
            let f = super::get();
            let g = f.create(vec![num(ka), num(kb)]).ok().unwrap();
            let ctx = Context::new_empty();
            let r = g.get(&ctx);
            match &r {
                Some(JsonValue::Number(NumberValue::Float(x))) => assert!(x.is_finite()),
                Some(JsonValue::Number(_)) => {}
                None => {}
                _ => assert!(false),
            }
            std::mem::forget((r, ctx, g, f));
        }}
        kani::cover!(true);
    }
}
