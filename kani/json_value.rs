// target: src/json_value.rs
// Kani harnesses for the value order / equality / hashing / number normalisation (C01.d, C07.a, C10.b, C19).
// Appended as a module to a scratch copy of src/json_value.rs; concrete variants in loops, symbolic payloads.
#[cfg(kani)]
mod verif_kani {
    use super::*;

    const P53: u64 = 1u64 << 53;

    /// a number in the parser's normal form and the interoperable range of the property:
    /// Positive(u) u < 2^53; Negative(i) -2^53 < i < 0 (this is the `-0` exclusion); Float(f) finite and non-integral
    fn num_nf(kind: u8) -> NumberValue {
        match kind {
            0 => { let u: u64 = kani::any(); kani::assume(u < P53); NumberValue::Positive(u) }
            1 => { let i: i64 = kani::any(); kani::assume(i < 0 && i > -(P53 as i64)); NumberValue::Negative(i) }
            _ => { let f: f64 = kani::any(); kani::assume(f.is_finite() && f.fract() != 0.0); NumberValue::Float(f) }
        }
    }

    #[kani::proof]
    fn k_from_f64_normalises() {
        let f: f64 = kani::any();
        kani::assume(f.is_finite());
        let v: JsonValue = f.into();
        let integral = f.fract() == 0.0;
        match v {
            JsonValue::Number(NumberValue::Positive(u)) => { assert!(integral && f >= 0.0 && (u as f64) == f && f < 18446744073709551616.0); }
            JsonValue::Number(NumberValue::Negative(i)) => { assert!(integral && f < 0.0 && (i as f64) == f && f > -9223372036854775808.0); }
            JsonValue::Number(NumberValue::Float(g)) => {
                assert!(g.to_bits() == f.to_bits());
                // stays a double only when it is not an integer of the 64-bit ranges
                assert!(!integral || f >= 18446744073709551615.0 || f <= -9223372036854775808.0);
            }
            _ => assert!(false),
        }
        kani::cover!(true);
    }

    #[kani::proof]
    #[kani::unwind(5)]
    fn k_number_order_axioms() {
        for ka in 0..3u8 { for kb in 0..3u8 {
            let a = num_nf(ka); let b = num_nf(kb);
            let ab = a.cmp(&b); let ba = b.cmp(&a);
            assert!(ab == ba.reverse());                                   // antisymmetry / totality
            assert!((ab == Ordering::Equal) == (a == b));                  // cmp == Equal <=> ==
            assert!(a.cmp(&a) == Ordering::Equal && a == a);               // reflexive
            // agrees with the mathematical order of the denoted reals
            let (fa, fb): (f64, f64) = ((&a).into(), (&b).into());
            if fa < fb { assert!(ab == Ordering::Less); }
            if fa > fb { assert!(ab == Ordering::Greater); }
        }}
        kani::cover!(true);
    }

    /// the two spellings of zero (`0` is Positive(0), the literal `-0` is Negative(0)) are one number: equal, not ordered,
    /// and each stands in the same order relation to every other number
    #[kani::proof]
    #[kani::unwind(5)]
    fn k_zero_spellings() {
        let pz = NumberValue::Positive(0); let nz = NumberValue::Negative(0);
        assert!(pz.cmp(&nz) == Ordering::Equal && nz.cmp(&pz) == Ordering::Equal);
        assert!(pz == nz && nz == pz);
        assert!(!(nz < pz) && !(pz < nz) && nz <= pz && pz <= nz && nz >= pz && pz >= nz);
        for kb in 0..3u8 {
            let b = num_nf(kb);
            assert!(pz.cmp(&b) == nz.cmp(&b));
            assert!(b.cmp(&pz) == b.cmp(&nz));
            assert!((pz == b) == (nz == b));
            let fb: f64 = (&b).into();
            if fb > 0.0 { assert!(nz.cmp(&b) == Ordering::Less); }
            if fb < 0.0 { assert!(nz.cmp(&b) == Ordering::Greater); }
        }
        kani::cover!(true);
    }

    #[kani::proof]
    #[kani::unwind(5)]
    fn k_number_order_transitive() {
        for ka in 0..3u8 { for kb in 0..3u8 { for kc in 0..3u8 {
            let a = num_nf(ka); let b = num_nf(kb); let c = num_nf(kc);
            if a.cmp(&b) != Ordering::Greater && b.cmp(&c) != Ordering::Greater { assert!(a.cmp(&c) != Ordering::Greater); }
            if a == b && b == c { assert!(a == c); }
        }}}
        kani::cover!(true);
    }

    /// any number the parser or the arithmetic can produce: every u64, every i64, every finite double (no range restriction)
    fn num_any(kind: u8) -> NumberValue {
        match kind {
            0 => NumberValue::Positive(kani::any()),
            1 => NumberValue::Negative(kani::any()),
            _ => { let f: f64 = kani::any(); kani::assume(f.is_finite()); NumberValue::Float(f) }
        }
    }

    /// The order of numbers is a total preorder over the FULL ranges (beyond 2^53 distinct integers may tie, but the relation
    /// stays antisymmetric and transitive) - what the std sorts need in order not to panic or misbehave.
    #[kani::proof]
    #[kani::unwind(5)]
    fn k_number_cmp_total_preorder_full() {
        for ka in 0..3u8 { for kb in 0..3u8 { for kc in 0..3u8 {
            let a = num_any(ka); let b = num_any(kb); let c = num_any(kc);
            assert!(a.cmp(&b) == b.cmp(&a).reverse());
            if a.cmp(&b) != Ordering::Greater && b.cmp(&c) != Ordering::Greater { assert!(a.cmp(&c) != Ordering::Greater); }
            if a.cmp(&b) == Ordering::Equal && b.cmp(&c) == Ordering::Equal { assert!(a.cmp(&c) == Ordering::Equal); }
        }}}
        kani::cover!(true);
    }

    /// records every write instead of mixing it: two values hash alike iff the transcripts are equal
    struct Tr { buf: [u64; 6], n: usize }
    impl std::hash::Hasher for Tr {
        fn finish(&self) -> u64 { 0 }
        fn write(&mut self, bytes: &[u8]) { for b in bytes { self.write_u8(*b); } }
        fn write_u8(&mut self, i: u8) { if self.n < 6 { self.buf[self.n] = i as u64 | 0x100; self.n += 1; } }
        fn write_i8(&mut self, i: i8) { if self.n < 6 { self.buf[self.n] = (i as u8) as u64 | 0x200; self.n += 1; } }
        fn write_u64(&mut self, i: u64) { if self.n < 6 { self.buf[self.n] = i; self.n += 1; } }
        fn write_i64(&mut self, i: i64) { if self.n < 6 { self.buf[self.n] = i as u64; self.n += 1; } }
        fn write_usize(&mut self, i: usize) { if self.n < 6 { self.buf[self.n] = i as u64 | (1 << 62); self.n += 1; } }
    }
    fn same(a: &Tr, b: &Tr) -> bool {
        a.n == b.n && a.buf[0] == b.buf[0] && a.buf[1] == b.buf[1] && a.buf[2] == b.buf[2] && a.buf[3] == b.buf[3] && a.buf[4] == b.buf[4] && a.buf[5] == b.buf[5]
    }

    #[kani::proof]
    #[kani::unwind(8)]
    fn k_hash_agrees_with_eq_numbers() {
        for ka in 0..3u8 { for kb in 0..3u8 {
            let a = JsonValue::Number(num_nf(ka)); let b = JsonValue::Number(num_nf(kb));
            let mut ha = Tr { buf: [0; 6], n: 0 }; let mut hb = Tr { buf: [0; 6], n: 0 };
            a.hash(&mut ha); b.hash(&mut hb);
            if a == b { assert!(same(&ha, &hb)); }
            std::mem::forget((a, b));
        }}
        kani::cover!(true);
    }

    fn scalar(kind: u8) -> JsonValue {
        match kind {
            0 => JsonValue::Null,
            1 => JsonValue::Boolean(kani::any()),
            2 => { let c: u8 = kani::any(); kani::assume(c < 0x80); let mut s = String::with_capacity(4); s.push(c as char); JsonValue::String(s) }
            _ => JsonValue::Number(num_nf(kani::any::<u8>() % 3)),
        }
    }

    #[kani::proof]
    #[kani::unwind(8)]
    fn k_scalar_rank_and_eq_hash() {
        for ka in 0..4u8 { for kb in 0..4u8 {
            let a = scalar(ka); let b = scalar(kb);
            let ab = a.cmp(&b);
            // null < booleans < strings < numbers
            if ka < kb { assert!(ab == Ordering::Less); }
            if ka > kb { assert!(ab == Ordering::Greater); }
            assert!(ab == b.cmp(&a).reverse());
            assert!((ab == Ordering::Equal) == (a == b));
            if let (JsonValue::Boolean(x), JsonValue::Boolean(y)) = (&a, &b) { if !*x && *y { assert!(ab == Ordering::Less); } }
            let mut ha = Tr { buf: [0; 6], n: 0 }; let mut hb = Tr { buf: [0; 6], n: 0 };
            a.hash(&mut ha); b.hash(&mut hb);
            if a == b { assert!(same(&ha, &hb)); }
            std::mem::forget((a, b));
        }}
        kani::cover!(true);
    }

    #[kani::proof]
    fn k_usize_roundtrip() {
        let u: usize = kani::any();
        let n: NumberValue = u.into();
        match &n { NumberValue::Positive(p) => assert!(*p == u as u64), _ => assert!(false) }
        let back: Result<usize, CastError> = n.try_into();
        match back { Ok(x) => assert!(x == u), Err(_) => assert!(false) }
        let i: i64 = kani::any();
        let r: Result<usize, CastError> = NumberValue::Negative(i).try_into();
        assert!(r.is_err());
        std::mem::forget(r);
        kani::cover!(true);
    }

    /// integers of the same sign are equal exactly when they are the same integer, over the full 64-bit ranges
    /// (no detour through floating point), and distinct integers have distinct hash transcripts
    #[kani::proof]
    #[kani::unwind(8)]
    fn k_integer_eq_exact() {
        let a: u64 = kani::any(); let b: u64 = kani::any();
        let (x, y) = (JsonValue::Number(NumberValue::Positive(a)), JsonValue::Number(NumberValue::Positive(b)));
        assert!((x == y) == (a == b));
        let mut ha = Tr { buf: [0; 6], n: 0 }; let mut hb = Tr { buf: [0; 6], n: 0 };
        x.hash(&mut ha); y.hash(&mut hb);
        assert!(same(&ha, &hb) == (a == b));
        let c: i64 = kani::any(); let d: i64 = kani::any();
        let (p, q) = (JsonValue::Number(NumberValue::Negative(c)), JsonValue::Number(NumberValue::Negative(d)));
        assert!((p == q) == (c == d));
        let mut hc = Tr { buf: [0; 6], n: 0 }; let mut hd = Tr { buf: [0; 6], n: 0 };
        p.hash(&mut hc); q.hash(&mut hd);
        assert!(same(&hc, &hd) == (c == d));
        std::mem::forget((x, y, p, q));
        kani::cover!(true);
    }

    /// arrays compare lexicographically: [a] against [b, c] over all small integers
    #[kani::proof]
    #[kani::unwind(6)]
    fn k_array_order_lexicographic() {
        let a: u8 = kani::any(); let b: u8 = kani::any(); let c: u8 = kani::any();
        let n = |v: u8| JsonValue::Number(NumberValue::Positive(v as u64));
        let mut v1 = Vec::with_capacity(2); v1.push(n(a));
        let mut v2 = Vec::with_capacity(2); v2.push(n(b)); v2.push(n(c));
        let x = JsonValue::Array(v1); let y = JsonValue::Array(v2);
        let o = x.cmp(&y);
        if a < b { assert!(o == Ordering::Less); } else if a > b { assert!(o == Ordering::Greater); } else { assert!(o == Ordering::Less); }
        assert!(y.cmp(&x) == o.reverse());
        assert!(x.cmp(&JsonValue::Null) == Ordering::Greater && x.cmp(&n(a)) == Ordering::Greater);
        std::mem::forget((x, y));
        kani::cover!(true);
    }
}
